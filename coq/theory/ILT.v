(* ILT — hand-written model (H) of Lcapy's inverse Laplace transformer for
   rational functions with delay factors, and the theorems that the model
   inverts the Laplace transform L of ExpPoly.v.   (property C10)

   What is modelled (lcapy/inverse_laplace.py, lcapy/transformer.py):
     texp / den       the little language of closed forms that the translator
                      tools/tr_ilt.py extracts from the source
                      (r*exp(p*t), t**(o-1)/factorial(o-1), cos/sin, DiracDelta(t, k)),
                      with its meaning in the signal algebra; cos and sin are
                      DEFINED by Euler's formulas with an element j, j*j = -1
     loop             the  `for m in range(len(R))`  loop of
                      InverseLaplaceTransformer.ratfun: in-place `R[n] = None`
                      marking, partner search for a conjugate pole, the per-branch
                      closed forms (a record [branches] filled in by the
                      generated file ILTGen.v)
     ratfun_model     polynomial part -> Dirac terms, `if R == []`
     term_model       delay factor => shift and u(t - T); causal => u(t)
     make_model       const * (cresult + uresult), Piecewise((.., t >= 0)) flag
     doit_model       sum over terms
     eff_causal       Assumptions.set/merge: dc/ac/causal/unknown are exclusive,
                      the last truthy one wins
     cache            memo keyed by (expr, causal, zic, damped_sin, damping)
     undef            s*V(s) -> v', s**n*V(s) -> v^(n), V(s)/s -> integral,
                      other products -> convolution   (small AST)
   Root finding and polynomial division are ORACLES: the model takes Lcapy's
   (Q, R, P, O); PolyQ.pf_check (verified: pf_check_sound) certifies them.

   Main theorems
     loop_LT          for EVERY list of (r, p, o) (any number of poles, any
                      orders): L(loop) = Σ r/(s-p)^o, provided the partner-search
                      guard only accepts an order-1 partner ([guard_sound]; on the
                      unchanged tree this is FALSE: finding F10) and the branch
                      closed forms are right ([branches_ok], proved in ILTGen.v)
     ILT_LT           L (doit_model F) = F for every sum of delayed terms
     ILT_LT_cert      ... = Σ c·e^{-sT}·B(s)/A(s) when pf_check accepts the certificates
     causal_flag, noncausal_flag, delayed_flag
     ivt_fvt          initial/final value formulas = limits of the model time function
     roundtrip_sound  the per-case verified round-trip check used on Lcapy's own output
     cache_sound      any history of transforms: a hit returns a correct value
   Axiom-free. *)
Require Import LT.FieldSec LT.PolyQ LT.ExpPoly.
Local Open Scope F_scope.

Section Den.
Variable K : fld.
Variable j : K.                (* the imaginary unit: j*j = -1 where it matters *)
Notation sig := (@sig K).

Definition osadd (a b : option sig) : option sig :=
  match a, b with Some x, Some y => Some (sadd x y) | _, _ => None end.

(* ---- closed-form language ---------------------------------------------------- *)
Inductive texp :=
| TE (a : K)                (* exp(a*t) *)
| TCos (w : K)              (* cos(w*t) *)
| TSin (w : K)              (* sin(w*t) *)
| TPF (n : nat)             (* t**n / factorial(n) *)
| TDel (k : nat)            (* DiracDelta(t, k) *)
| TScale (c : K) (a : texp) (* c * a,  c free of t *)
| TAdd (a b : texp)
| TMul (a b : texp).        (* product of two regular signals, one of them a sum of pure exponentials *)

Definition rmul1 (x y : rterm K) : option (rterm K) :=
  match x, y with (c1, n1, p1), (c2, n2, p2) =>
    match n2 with O => Some (c1 * c2, n1, p1 + p2)
    | S _ => match n1 with O => Some (c1 * c2, n2, p1 + p2) | S _ => None end end end.
Fixpoint rmul_row (x : rterm K) (l : list (rterm K)) : option (list (rterm K)) :=
  match l with [] => Some []
  | y :: l' => match rmul1 x y, rmul_row x l' with Some z, Some r => Some (z :: r) | _, _ => None end end.
Fixpoint rmul_all (l m : list (rterm K)) : option (list (rterm K)) :=
  match l with [] => Some []
  | x :: l' => match rmul_row x m, rmul_all l' m with Some a, Some b => Some (a ++ b) | _, _ => None end end.
Definition smul (x y : sig) : option sig :=
  match sing x, sing y with
  | [], [] => match rmul_all (reg x) (reg y) with Some r => Some (Sig [] r) | None => None end
  | _, _ => None
  end.
Fixpoint den (e : texp) : option sig :=
  match e with
  | TE a => Some (Sig [] [(1, O, a)])
  | TCos w => Some (Sig [] [(1 / 2, O, j * w); (1 / 2, O, - (j * w))])
  | TSin w => Some (Sig [] [(1 / (2 * j), O, j * w); (- (1 / (2 * j)), O, - (j * w))])
  | TPF n => Some (Sig [] [(1, n, 0)])
  | TDel k => Some (Sig (pmonom 1 k) [])
  | TScale c a => match den a with Some x => Some (sscale c x) | None => None end
  | TAdd a b => osadd (den a) (den b)
  | TMul a b => match den a, den b with Some x, Some y => smul x y | _, _ => None end
  end.

End Den.
Arguments osadd {K}. Arguments smul {K}.
Arguments TE {K}. Arguments TCos {K}. Arguments TSin {K}. Arguments TPF {K}. Arguments TDel {K}.
Arguments TScale {K}. Arguments TAdd {K}. Arguments TMul {K}.

Section ILT.
Variable K : fld.
Add Field KFilt : (fth K).
Variable cj : K -> K.          (* conjugation as used by Root.is_conjugate_pair *)
Notation sig := (@sig K).
Notation pft := (pfterm K).

(* ---- the loop of InverseLaplaceTransformer.ratfun ------------------------------- *)
Definition entry := (option K * K * nat)%type.       (* R[m] (None once consumed), P[m], O[m] *)
Record branches := Branches {
  b_simple : K -> K -> option sig;                   (* r p      : result = r*exp(p*t) *)
  b_repeated : K -> K -> nat -> option sig;          (* r p o    : ... *= t**(o-1)/factorial(o-1) *)
  b_conj : K -> K -> K -> K -> option sig;           (* r rc p pc: (Ac cos + As sin) exp(-alpha t) *)
  b_poly : K -> nat -> nat -> option sig             (* c len(C) n : c*diff(DiracDelta(t), t, len(C)-n-1) *)
}.
Variable B : branches.
(* acceptance test of the partner search: (qp.is_conjugate_pair(qp2), O[n], o) *)
Variable guard : bool -> nat -> nat -> bool.

Fixpoint find_partner (p : K) (o : nat) (l : list entry) : option (nat * entry) :=
  match l with
  | [] => None
  | (rn, pn, on) :: l' =>
      if guard (feqb p (cj pn)) on o then Some (O, (rn, pn, on))
      else match find_partner p o l' with Some (i, e) => Some (S i, e) | None => None end
  end.
Fixpoint clear_at (i : nat) (l : list entry) : list entry :=
  match l with
  | [] => []
  | (r, p, o) :: l' => match i with O => (None, p, o) :: l' | S i' => (r, p, o) :: clear_at i' l' end
  end.
Fixpoint loop (fuel : nat) (l : list entry) : option sig :=
  match l with
  | [] => Some szero
  | (None, _, _) :: rest => match fuel with O => None | S f => loop f rest end
  | (Some r, p, o) :: rest =>
      match fuel with O => None | S f =>
        if Nat.eqb o 1 then
          match find_partner p o rest with
          | Some (i, (Some rc, pc, _)) => osadd (b_conj B r rc p pc) (loop f (clear_at i rest))
          | Some (i, (None, _, _)) => None          (* the code would add None: TypeError *)
          | None => osadd (b_simple B r p) (loop f rest)
          end
        else osadd (if Nat.ltb 1 o then b_repeated B r p o else b_simple B r p) (loop f rest)
      end
  end.
Definition entries (ts : list pft) : list entry := map (fun t => match t with (r, p, o) => (Some r, p, o) end) ts.

(* polynomial part: C = Qpoly.all_coeffs() (highest power first) *)
Fixpoint poly_terms (C : list K) (lenC n : nat) : option sig :=
  match C with [] => Some szero | c :: C' => osadd (b_poly B c lenC n) (poly_terms C' lenC (S n)) end.
Definition ratfun_model (C : list K) (ts : list pft) : option (sig * sig) :=
  match poly_terms C (length C) O with
  | None => None
  | Some cres => match ts with
                 | [] => Some (cres, szero)
                 | _ => match loop (length ts) (entries ts) with Some u => Some (cres, u) | None => None end
                 end
  end.

(* ---- term / make / doit ------------------------------------------------------------ *)
Record iterm := ITerm { it_const : K; it_delay : Qc; it_C : list K; it_ts : list pft }.
Record tres := TRes { t_c : dsig K; t_u : sig }.          (* (cresult, uresult) *)
Definition qc_ltb (a b : Qc) : bool := match (a ?= b)%Qc with Lt => true | _ => false end.
(* delay / causality bookkeeping of term(), given (cresult, uresult) of term1 *)
Definition term_of_pair (causal : bool) (c : K) (T : Qc) (cu : option (sig * sig)) : option tres :=
  match cu with
  | None => None
  | Some (cres, ures) =>
      let cres := sscale c cres in let ures := sscale c ures in
      if qc_eqb T 0 then
        if causal then Some (TRes [(0%Qc, sadd cres ures)] szero)      (* cresult += uresult*Heaviside(t) *)
        else Some (TRes [(0%Qc, cres)] ures)
      else if qc_ltb T 0 then None                                     (* 'Causality violated with time advance' *)
      else Some (TRes [(T, sadd cres ures)] szero)                     (* shift, * Heaviside(t - delay) *)
  end.
Definition term_model (causal : bool) (tm : iterm) : option tres :=
  term_of_pair causal (it_const tm) (it_delay tm) (ratfun_model (it_C tm) (it_ts tm)).
Fixpoint sum_terms (l : list (option tres)) : option tres :=
  match l with
  | [] => Some (TRes [] szero)
  | a :: l' => match a, sum_terms l' with
               | Some a, Some b => Some (TRes (t_c a ++ t_c b) (sadd (t_u a) (t_u b)))
               | _, _ => None
               end
  end.
Definition doit_terms (causal : bool) (F : list iterm) : option tres := sum_terms (map (term_model causal) F).
Record mres := MRes { m_c : dsig K; m_u : sig; m_cond : bool }.   (* m_cond: Piecewise((result, t >= 0)) *)
Definition is_nil {A} (l : list A) : bool := match l with [] => true | _ => false end.
Definition make_model (causal : bool) (const : K) (r : tres) : mres :=
  MRes (dscale const (t_c r)) (sscale const (t_u r)) (negb causal && negb (is_nil (reg (t_u r)))).
Definition make_opt (causal : bool) (const : K) (r : option tres) : option mres :=
  match r with Some r => Some (make_model causal const r) | None => None end.
Definition doit_model (causal : bool) (const : K) (F : list iterm) : option mres := make_opt causal const (doit_terms causal F).

(* ==== theorems ========================================================================= *)
(* the partner search is only entered with o = 1 *)
Definition guard_sound := forall c on, guard c on 1%nat = true -> c = true /\ on = 1%nat.
Record branches_ok := {
  simple_ok : forall r p s, s - p <> 0 ->
      exists x, b_simple B r p = Some x /\ sing x = [] /\ Lval s x = r / (s - p) /\ at0 (reg x) = r;
  repeated_ok : forall r p o s, (1 < o)%nat -> s - p <> 0 ->
      exists x, b_repeated B r p o = Some x /\ sing x = [] /\ Lval s x = r / fpow (s - p) o /\ at0 (reg x) = 0;
  conj_ok : forall r rc p pc s, p <> pc -> s - p <> 0 -> s - pc <> 0 ->
      exists x, b_conj B r rc p pc = Some x /\ sing x = [] /\ Lval s x = r / (s - p) + rc / (s - pc) /\ at0 (reg x) = r + rc;
  poly_ok : forall c lenC n s, (n < lenC)%nat ->
      exists x, b_poly B c lenC n = Some x /\ reg x = [] /\ Lval s x = c * fpow s (lenC - n - 1)
}.
Hypothesis Hg : guard_sound.
Hypothesis Hb : branches_ok.

Fixpoint evalue (s : K) (l : list entry) : K :=
  match l with [] => 0 | (Some r, p, o) :: l' => r / fpow (s - p) o + evalue s l' | (None, _, _) :: l' => evalue s l' end.
(* Σ of the order-1 residues: the initial value lim s X(s), s -> oo, of a strictly proper X *)
Fixpoint eiv (l : list entry) : K :=
  match l with [] => 0 | (Some r, p, o) :: l' => (if Nat.eqb o 1 then r else 0) + eiv l' | (None, _, _) :: l' => eiv l' end.
Definition epole_free (s : K) (l : list entry) := forall r p o, In (r, p, o) l -> s - p <> 0.
(* live entries have pairwise different (pole, order) keys *)
Fixpoint key_fresh (p : K) (o : nat) (l : list entry) : Prop :=
  match l with [] => True | (r, pn, on) :: l' => (r <> None -> ~ (pn = p /\ on = o)) /\ key_fresh p o l' end.
Fixpoint keys_nodup (l : list entry) : Prop :=
  match l with [] => True | (r, p, o) :: l' => (r <> None -> key_fresh p o l') /\ keys_nodup l' end.
(* a consumed entry can never be found again by a live one *)
Definition dead_safe (l : list entry) := forall pn on, In (None, pn, on) l -> key_fresh (cj pn) on l.
Definition orders_pos (l : list entry) := forall r p o, In (r, p, o) l -> (1 <= o)%nat.

Lemma find_partner_spec p l i rn pn on : find_partner p 1%nat l = Some (i, (rn, pn, on)) ->
  nth_error l i = Some (rn, pn, on) /\ on = 1%nat /\ p = cj pn.
Proof. revert i. induction l as [|[[r0 p0] o0] l IH]; intros i H; cbn [find_partner] in H; [discriminate|].
  destruct (guard (feqb p (cj p0)) o0 1%nat) eqn:G.
  - inversion H; subst. destruct (Hg _ _ G) as [C E]. apply feqb_eq in C. repeat split; assumption.
  - destruct (find_partner p 1%nat l) as [[i' e']|] eqn:F; [|discriminate]. inversion H; subst.
    destruct (IH i' eq_refl) as [A Bq]. split; assumption. Qed.
Lemma evalue_clear s i l rc pc oc : nth_error l i = Some (Some rc, pc, oc) ->
  evalue s (clear_at i l) = evalue s l - rc / fpow (s - pc) oc.
Proof. revert i. induction l as [|[[r p] o] l IH]; intros [|i] H; cbn [nth_error] in H; try discriminate.
  - inversion H; subst. cbn [clear_at evalue]. unfold fdiv. rewrite !(Fdiv_def (fth K)). ring.
  - cbn [clear_at evalue]. rewrite (IH i H). destruct r; ring. Qed.
Lemma eiv_clear i l rc pc oc : nth_error l i = Some (Some rc, pc, oc) ->
  eiv (clear_at i l) = eiv l - (if Nat.eqb oc 1 then rc else 0).
Proof. revert i. induction l as [|[[r p] o] l IH]; intros [|i] H; cbn [nth_error] in H; try discriminate.
  - inversion H; subst. cbn [clear_at eiv]. ring.
  - cbn [clear_at eiv]. rewrite (IH i H). destruct r; ring. Qed.
Lemma clear_length i l : length (clear_at i l) = length l.
Proof. revert i. induction l as [|[[r p] o] l IH]; intros [|i]; cbn [clear_at length]; try reflexivity. rewrite IH. reflexivity. Qed.
Lemma clear_In i l r p o : In (r, p, o) (clear_at i l) -> exists r', In (r', p, o) l.
Proof. revert i. induction l as [|[[r0 p0] o0] l IH]; intros [|i]; cbn [clear_at In]; try tauto.
  - intros [H|H]; [inversion H; subst; exists r0; left; reflexivity | exists r; right; exact H].
  - intros [H|H]; [inversion H; subst; exists r; left; reflexivity|]. destruct (IH i H) as [r' Hr]. exists r'. right. exact Hr. Qed.
Lemma clear_In_dead i l pn on : In (None, pn, on) (clear_at i l) ->
  (exists r0, nth_error l i = Some (r0, pn, on)) \/ In (None, pn, on) l.
Proof. revert i. induction l as [|[[r0 p0] o0] l IH]; intros [|i]; cbn [clear_at In nth_error]; try tauto.
  - intros [H|H]; [inversion H; subst; left; exists r0; reflexivity | right; right; exact H].
  - intros [H|H]; [right; left; exact H|]. destruct (IH i H) as [A|A]; [left; exact A | right; right; exact A]. Qed.
Lemma key_fresh_clear p o i l : key_fresh p o l -> key_fresh p o (clear_at i l).
Proof. revert i. induction l as [|[[r0 p0] o0] l IH]; intros i; [destruct i; cbn; tauto|].
  destruct i as [|i]; cbn [clear_at key_fresh]; intros [A Bq].
  - split; [intros C; exfalso; apply C; reflexivity | exact Bq].
  - split; [exact A | apply IH; exact Bq]. Qed.
Lemma keys_nodup_clear i l : keys_nodup l -> keys_nodup (clear_at i l).
Proof. revert i. induction l as [|[[r0 p0] o0] l IH]; intros i; [destruct i; cbn; tauto|].
  destruct i as [|i]; cbn [clear_at keys_nodup]; intros [A Bq].
  - split; [intros C; exfalso; apply C; reflexivity | exact Bq].
  - split; [intros C; apply key_fresh_clear; exact (A C) | apply IH; exact Bq]. Qed.
Lemma key_fresh_nth p o l i rc pc oc : key_fresh p o l -> nth_error l i = Some (Some rc, pc, oc) -> ~ (pc = p /\ oc = o).
Proof. revert i. induction l as [|[[r0 p0] o0] l IH]; intros [|i] Hk Hn; cbn [nth_error key_fresh] in *; try discriminate.
  - inversion Hn; subst. destruct Hk as [A _]. apply A. discriminate.
  - destruct Hk as [_ Bq]. exact (IH i Bq Hn). Qed.
Lemma dead_safe_tail e l : dead_safe (e :: l) -> dead_safe l.
Proof. intros H pn on Hin. pose proof (H pn on (or_intror Hin)) as Hk. destruct e as [[r p] o]. cbn [key_fresh] in Hk. tauto. Qed.
Lemma dead_safe_clear i l rc pc oc : dead_safe l -> key_fresh (cj pc) oc l ->
  nth_error l i = Some (Some rc, pc, oc) -> dead_safe (clear_at i l).
Proof. intros Hd Hk Hn pn on Hin. apply key_fresh_clear. destruct (clear_In_dead _ _ _ _ Hin) as [[r0 A]|A].
  - rewrite Hn in A. inversion A; subst. exact Hk.
  - exact (Hd pn on A). Qed.

Theorem loop_value s : forall fuel l, (length l <= fuel)%nat ->
  keys_nodup l -> dead_safe l -> orders_pos l -> epole_free s l ->
  exists x, loop fuel l = Some x /\ sing x = [] /\ Lval s x = evalue s l /\ at0 (reg x) = eiv l.
Proof.
  induction fuel as [|f IH]; intros l Hlen Hk Hd Ho Hp.
  - destruct l; [|cbn in Hlen; lia]. exists szero. repeat split. apply Lval_szero.
  - destruct l as [|[[[r|] p] o] rest].
    + exists szero. repeat split. apply Lval_szero.
    + cbn [length] in Hlen. cbn [keys_nodup] in Hk. destruct Hk as [Hk1 Hk2].
      assert (Hfr : key_fresh p o rest) by (apply Hk1; discriminate).
      assert (Ho' : orders_pos rest) by (intros a b c Hin; apply (Ho a b c); right; exact Hin).
      assert (Hp' : epole_free s rest) by (intros a b c Hin; apply (Hp a b c); right; exact Hin).
      assert (Hsp : s - p <> 0) by (apply (Hp (Some r) p o); left; reflexivity).
      assert (Ho1 : (1 <= o)%nat) by (apply (Ho (Some r) p o); left; reflexivity).
      pose proof (dead_safe_tail _ _ Hd) as Hd'.
      cbn [loop evalue eiv].
      destruct (Nat.eqb o 1) eqn:E1.
      * apply Nat.eqb_eq in E1. subst o.
        destruct (find_partner p 1 rest) as [[i [[rc0 pc] oc]]|] eqn:F.
        -- destruct (find_partner_spec _ _ _ _ _ _ F) as [Hn [Hoc Hcj]]. subst oc.
           destruct rc0 as [rc|].
           ++ assert (Hne : p <> pc).
              { intros E. apply (key_fresh_nth _ _ _ _ _ _ _ Hfr Hn). split; [symmetry; exact E | reflexivity]. }
              assert (Hspc : s - pc <> 0) by (apply (Hp' (Some rc) pc 1%nat); apply (nth_error_In _ _ Hn)).
              destruct (conj_ok Hb r rc p pc s Hne Hsp Hspc) as [x1 [Hx1 [Hs1 [Hv1 Ha1]]]].
              destruct (IH (clear_at i rest)) as [x2 [Hx2 [Hs2 [Hv2 Ha2]]]].
              { rewrite clear_length. lia. }
              { apply keys_nodup_clear. exact Hk2. }
              { apply (dead_safe_clear i rest rc pc 1%nat Hd'); [rewrite <- Hcj; exact Hfr | exact Hn]. }
              { intros a b c Hin. destruct (clear_In _ _ _ _ _ Hin) as [a' Ha']. exact (Ho' a' b c Ha'). }
              { intros a b c Hin. destruct (clear_In _ _ _ _ _ Hin) as [a' Ha']. exact (Hp' a' b c Ha'). }
              rewrite Hx1, Hx2. exists (sadd x1 x2). split; [reflexivity|]. split; [cbn [sadd sing]; rewrite Hs1, Hs2; reflexivity|].
              split.
              ** rewrite Lval_sadd, Hv1, Hv2, (evalue_clear s i rest rc pc 1%nat Hn). cbn [fpow]. field. split; assumption.
              ** cbn [sadd reg]. rewrite at0_app, Ha1, Ha2, (eiv_clear i rest rc pc 1%nat Hn). cbn [Nat.eqb]. ring.
           ++ exfalso. assert (Hin : In (None, pc, 1%nat) (((Some r, p, 1%nat) : entry) :: rest)) by (right; apply (nth_error_In _ _ Hn)).
              pose proof (Hd pc 1%nat Hin) as Hkf. cbn [key_fresh] in Hkf. destruct Hkf as [A _].
              apply A; [discriminate | split; [exact Hcj | reflexivity]].
        -- destruct (simple_ok Hb r p s Hsp) as [x1 [Hx1 [Hs1 [Hv1 Ha1]]]].
           destruct (IH rest) as [x2 [Hx2 [Hs2 [Hv2 Ha2]]]]; try assumption; [lia|].
           rewrite Hx1, Hx2. exists (sadd x1 x2). split; [reflexivity|]. split; [cbn [sadd sing]; rewrite Hs1, Hs2; reflexivity|].
           split.
           ++ rewrite Lval_sadd, Hv1, Hv2. cbn [fpow]. field. exact Hsp.
           ++ cbn [sadd reg]. rewrite at0_app, Ha1, Ha2. ring.
      * apply Nat.eqb_neq in E1. assert (H1o : (1 < o)%nat) by lia.
        assert (El : Nat.ltb 1 o = true) by (apply Nat.ltb_lt; exact H1o). rewrite El.
        destruct (repeated_ok Hb r p o s H1o Hsp) as [x1 [Hx1 [Hs1 [Hv1 Ha1]]]].
        destruct (IH rest) as [x2 [Hx2 [Hs2 [Hv2 Ha2]]]]; try assumption; [lia|].
        rewrite Hx1, Hx2. exists (sadd x1 x2). split; [reflexivity|]. split; [cbn [sadd sing]; rewrite Hs1, Hs2; reflexivity|].
        split.
        -- rewrite Lval_sadd, Hv1, Hv2. reflexivity.
        -- cbn [sadd reg]. rewrite at0_app, Ha1, Ha2. ring.
    + cbn [length] in Hlen. cbn [keys_nodup] in Hk. destruct Hk as [_ Hk2].
      cbn [loop evalue eiv]. apply IH; try assumption.
      * lia.
      * exact (dead_safe_tail _ _ Hd).
      * intros a b c Hin; apply (Ho a b c); right; exact Hin.
      * intros a b c Hin; apply (Hp a b c); right; exact Hin.
Qed.

(* executable side conditions on a certificate list *)
Fixpoint key_freshb (p : K) (o : nat) (ts : list pft) : bool :=
  match ts with [] => true | (r, pn, on) :: ts' => negb (feqb pn p && Nat.eqb on o) && key_freshb p o ts' end.
Fixpoint keys_nodupb (ts : list pft) : bool :=
  match ts with [] => true | (r, p, o) :: ts' => key_freshb p o ts' && keys_nodupb ts' end.
Definition orders_posb (ts : list pft) : bool := forallb (fun t => match t with (r, p, o) => Nat.leb 1 o end) ts.
Definition wf_tsb (ts : list pft) : bool := keys_nodupb ts && orders_posb ts.

Lemma key_freshb_sound p o ts : key_freshb p o ts = true -> key_fresh p o (entries ts).
Proof. induction ts as [|[[r pn] on] ts IH]; cbn [key_freshb entries map key_fresh]; [tauto|]. intros H.
  apply andb_true_iff in H. destruct H as [A Bq]. split; [|exact (IH Bq)].
  intros _ [E1 E2]. subst. rewrite (proj2 (feqb_eq K p p) eq_refl), Nat.eqb_refl in A. discriminate. Qed.
Lemma keys_nodupb_sound ts : keys_nodupb ts = true -> keys_nodup (entries ts).
Proof. induction ts as [|[[r p] o] ts IH]; cbn [keys_nodupb entries map keys_nodup]; [tauto|]. intros H.
  apply andb_true_iff in H. destruct H as [A Bq]. split; [intros _; apply key_freshb_sound; exact A | exact (IH Bq)]. Qed.
Lemma entries_live ts pn on : ~ In (None, pn, on) (entries ts).
Proof. induction ts as [|[[r p] o] ts IH]; cbn [entries map In]; [tauto|]. intros [H|H]; [discriminate | exact (IH H)]. Qed.
Lemma entries_In ts r p o : In (r, p, o) (entries ts) -> exists r', r = Some r' /\ In (r', p, o) ts.
Proof. induction ts as [|[[r0 p0] o0] ts IH]; cbn [entries map In]; [tauto|]. intros [H|H].
  - inversion H; subst. exists r0. split; [reflexivity | left; reflexivity].
  - destruct (IH H) as [r' [E Hin]]. exists r'. split; [exact E | right; exact Hin]. Qed.
Lemma evalue_entries s ts : evalue s (entries ts) = pf_val ts s.
Proof. induction ts as [|[[r p] o] ts IH]; cbn [entries map evalue pf_val]; [reflexivity|]. fold (entries ts). rewrite IH. reflexivity. Qed.
Fixpoint pf_iv (ts : list pft) : K :=
  match ts with [] => 0 | (r, p, o) :: ts' => (if Nat.eqb o 1 then r else 0) + pf_iv ts' end.
Lemma eiv_entries ts : eiv (entries ts) = pf_iv ts.
Proof. induction ts as [|[[r p] o] ts IH]; cbn [entries map eiv pf_iv]; [reflexivity|]. fold (entries ts). rewrite IH. reflexivity. Qed.
Lemma orders_posb_sound ts : orders_posb ts = true -> wf_pf ts.
Proof. unfold orders_posb. rewrite forallb_forall. intros H r p o Hin. specialize (H _ Hin). cbn in H. apply Nat.leb_le. exact H. Qed.

(* L(loop) = Σ r/(s-p)^o : every number of poles, every multiplicity *)
Theorem loop_LT s ts : wf_tsb ts = true -> ipole_free s ts ->
  exists x, loop (length ts) (entries ts) = Some x /\ sing x = [] /\ Lval s x = pf_val ts s /\ at0 (reg x) = pf_iv ts.
Proof. intros Hw Hp. apply andb_true_iff in Hw. destruct Hw as [Hk Hop].
  destruct (loop_value s (length ts) (entries ts)) as [x [Hx [Hs [Hv Ha]]]].
  - unfold entries. rewrite map_length. apply Nat.le_refl.
  - apply keys_nodupb_sound. exact Hk.
  - intros pn on Hin. exfalso. exact (entries_live _ _ _ Hin).
  - intros r p o Hin. destruct (entries_In _ _ _ _ Hin) as [r' [_ Hin']]. exact (orders_posb_sound ts Hop r' p o Hin').
  - intros r p o Hin. destruct (entries_In _ _ _ _ Hin) as [r' [_ Hin']]. exact (Hp r' p o Hin').
  - exists x. rewrite <- evalue_entries, <- eiv_entries. repeat split; assumption. Qed.

Lemma poly_terms_value s : forall C lenC n, (n + length C = lenC)%nat ->
  exists x, poly_terms C lenC n = Some x /\ reg x = [] /\ Lval s x = peval (rev C) s.
Proof. induction C as [|c C IH]; intros lenC n Hl; cbn [poly_terms rev].
  - exists szero. repeat split. rewrite Lval_szero. reflexivity.
  - cbn [length] in Hl. destruct (poly_ok Hb c lenC n s) as [x1 [Hx1 [Hr1 Hv1]]]; [lia|].
    destruct (IH lenC (S n)) as [x2 [Hx2 [Hr2 Hv2]]]; [lia|].
    rewrite Hx1, Hx2. exists (sadd x1 x2). split; [reflexivity|]. split; [cbn [sadd reg]; rewrite Hr1, Hr2; reflexivity|].
    rewrite Lval_sadd, Hv1, Hv2, peval_app, rev_length. cbn [peval].
    replace (lenC - n - 1)%nat with (length C) by lia. ring. Qed.

Definition wf_term (s : K) (tm : iterm) : Prop :=
  wf_tsb (it_ts tm) = true /\ ipole_free s (it_ts tm) /\ qc_ltb (it_delay tm) 0 = false.
Definition term_image (E : Qc -> K) (s : K) (tm : iterm) : K :=
  it_const tm * E (it_delay tm) * (peval (rev (it_C tm)) s + pf_val (it_ts tm) s).
Definition tval (E : Qc -> K) (s : K) (r : tres) : K := dLval E s (t_c r) + Lval s (t_u r).

Theorem ratfun_value s C ts : wf_tsb ts = true -> ipole_free s ts ->
  exists c u, ratfun_model C ts = Some (c, u) /\ reg c = [] /\ sing u = [] /\
     Lval s c = peval (rev C) s /\ Lval s u = pf_val ts s /\ at0 (reg u) = pf_iv ts.
Proof. intros Hw Hp. unfold ratfun_model.
  destruct (poly_terms_value s C (length C) O eq_refl) as [c [Hc [Hr Hv]]]. rewrite Hc.
  destruct ts as [|t ts'].
  - exists c, szero. repeat split; try assumption. rewrite Lval_szero. reflexivity.
  - destruct (loop_LT s (t :: ts') Hw Hp) as [u [Hu [Hs [Hvu Ha]]]]. rewrite Hu. exists c, u. repeat split; assumption. Qed.

Section WithE.
Variable E : Qc -> K.
Hypothesis E0 : E 0%Qc = 1.

Theorem term_value causal s tm : wf_term s tm ->
  exists r, term_model causal tm = Some r /\ tval E s r = term_image E s tm.
Proof. intros [Hw [Hp Hd]]. unfold term_model, term_of_pair.
  destruct (ratfun_value s (it_C tm) (it_ts tm) Hw Hp) as [c [u [Hm [_ [_ [Hvc [Hvu _]]]]]]]. rewrite Hm.
  unfold term_image, tval.
  destruct (qc_eqb (it_delay tm) 0) eqn:Ez.
  - apply qc_eqb_eq in Ez. rewrite Ez, E0. destruct causal; eexists; (split; [reflexivity|]); cbn [t_c t_u dLval].
    + rewrite E0, Lval_sadd, !Lval_sscale, Hvc, Hvu, Lval_szero. ring.
    + rewrite E0, !Lval_sscale, Hvc, Hvu. ring.
  - rewrite Hd. eexists; (split; [reflexivity|]); cbn [t_c t_u dLval].
    rewrite Lval_sadd, !Lval_sscale, Hvc, Hvu, Lval_szero. ring. Qed.

Fixpoint image_sum (s : K) (F : list iterm) : K := match F with [] => 0 | tm :: F' => term_image E s tm + image_sum s F' end.
Theorem doit_terms_value causal s F : (forall tm, In tm F -> wf_term s tm) ->
  exists r, doit_terms causal F = Some r /\ tval E s r = image_sum s F.
Proof. unfold doit_terms. induction F as [|tm F IH]; intros Hw; cbn [map sum_terms image_sum].
  - eexists; split; [reflexivity|]. unfold tval. cbn [t_c t_u dLval]. rewrite Lval_szero. ring.
  - destruct (term_value causal s tm (Hw tm (or_introl eq_refl))) as [a [Ha Hva]].
    destruct IH as [b [Hb' Hvb]]; [intros tm' Hin; apply Hw; right; exact Hin|].
    rewrite Ha, Hb'. eexists; split; [reflexivity|]. unfold tval in *. cbn [t_c t_u].
    rewrite dLval_app, Lval_sadd, <- Hva, <- Hvb. ring. Qed.

(* MAIN THEOREM: the model inverts L on every image in normal form: any number of
   terms, delays, poles, multiplicities, polynomial parts *)
Theorem ILT_LT causal const s F : (forall tm, In tm F -> wf_term s tm) ->
  exists m, doit_model causal const F = Some m /\
    dLval E s (m_c m) + Lval s (m_u m) = const * image_sum s F.
Proof. intros Hw. unfold doit_model, make_opt. destruct (doit_terms_value causal s F Hw) as [r [Hr Hv]]. rewrite Hr.
  eexists; split; [reflexivity|]. unfold make_model. cbn [m_c m_u]. rewrite dLval_dscale, Lval_sscale, <- Hv. unfold tval. ring. Qed.
(* the expand-and-recurse fall-back of term(): a term whose delay T was stripped is split into
   pieces, each piece is transformed with the delay factor re-attached; the sum of the results
   transforms back to exp(-sT) times the sum of the pieces *)
Definition set_delay (T : Qc) (tm : iterm) : iterm := ITerm (it_const tm) T (it_C tm) (it_ts tm).
Theorem fallback_LT causal s (pieces : list iterm) (T : Qc) : qc_ltb T 0 = false ->
  (forall tm, In tm pieces -> wf_term s tm /\ it_delay tm = 0%Qc) ->
  exists r, sum_terms (map (fun tm => term_model causal (set_delay T tm)) pieces) = Some r /\
            tval E s r = E T * image_sum s pieces.
Proof. intros HT Hw.
  destruct (doit_terms_value causal s (map (set_delay T) pieces)) as [r [Hr Hv]].
  { intros tm Hin. apply in_map_iff in Hin. destruct Hin as [tm0 [<- Hin]]. destruct (Hw tm0 Hin) as [[A [Bq _]] _].
    unfold wf_term, set_delay. cbn [it_ts it_delay]. repeat split; assumption. }
  unfold doit_terms in Hr. rewrite map_map in Hr. exists r. split; [exact Hr|]. rewrite Hv.
  clear Hr Hv r. induction pieces as [|tm F IH]; cbn [map image_sum]; [ring|].
  rewrite IH by (intros tm' Hin; apply Hw; right; exact Hin).
  destruct (Hw tm (or_introl eq_refl)) as [_ Hz]. unfold term_image, set_delay. cbn [it_const it_delay it_C it_ts]. rewrite Hz, E0. ring. Qed.
End WithE.

(* with the verified certificate checker: the image is the input rational function *)
Record cterm := CTerm { ct_term : iterm; ct_B : list K; ct_A : list K }.
Definition cert_ok (ct : cterm) : bool :=
  pf_check (ct_B ct) (ct_A ct) (rev (it_C (ct_term ct))) (it_ts (ct_term ct)) && wf_tsb (it_ts (ct_term ct))
  && negb (qc_ltb (it_delay (ct_term ct)) 0).
Fixpoint input_sum (E : Qc -> K) (s : K) (F : list cterm) : K :=
  match F with [] => 0
  | ct :: F' => it_const (ct_term ct) * E (it_delay (ct_term ct)) * (peval (ct_B ct) s / peval (ct_A ct) s) + input_sum E s F' end.
Lemma pf_cofs_poles Ap ts Sm s : pf_cofs Ap ts = Some Sm -> wf_pf ts -> peval Ap s <> 0 -> ipole_free (K:=K) s ts.
Proof. revert Sm. induction ts as [|[[r p] o] ts IH]; intros Sm H Hw HA r' p' o' Hin; [destruct Hin|].
  cbn [pf_cofs] in H. destruct (pf_cof Ap (r, p, o)) as [c|] eqn:Ec; [|discriminate].
  destruct (pf_cofs Ap ts) as [sm|] eqn:Es; [|discriminate].
  destruct Hin as [Hin|Hin].
  - inversion Hin; subst. clear Hin. unfold pf_cof in Ec.
    destruct (pdiv_spec K Ap (plinpow p' o') (plinpow_nz K p' o')) as [He _]. unfold pquo in He.
    destruct (pdiv Ap (plinpow p' o')) as [C Rm]. cbn [fst snd] in He.
    destruct (pzerob Rm) eqn:HR; [|discriminate].
    pose proof (He s) as Eq. rewrite (pzerob_eval K _ HR s), peval_plinpow in Eq.
    intros Z. apply HA. rewrite Eq, Z.
    assert (Ho : (1 <= o')%nat) by (apply (Hw r' p' o'); left; reflexivity).
    destruct o' as [|o']; [lia|]. cbn [fpow]. ring.
  - apply (IH sm eq_refl (fun a b c Hi => Hw a b c (or_intror Hi)) HA r' p' o' Hin). Qed.
Lemma pf_check_poles Bp Ap Q ts s : pf_check Bp Ap Q ts = true -> wf_pf ts -> peval Ap s <> 0 -> ipole_free (K:=K) s ts.
Proof. unfold pf_check. destruct (pf_cofs Ap ts) as [Sm|] eqn:ES; [|discriminate]. intros _. exact (pf_cofs_poles Ap ts Sm s ES). Qed.

Section WithE2.
Variable E : Qc -> K.
Hypothesis E0 : E 0%Qc = 1.
(* MAIN THEOREM with certificates: whenever the verified checker accepts Lcapy's
   (Q, R, P, O) for each term B/A, the Laplace transform of the model result is
   the input  const · Σ c·e^{-sT}·B(s)/A(s)  at every s that is not a pole *)
Theorem ILT_LT_cert causal const s (F : list cterm) :
  (forall ct, In ct F -> cert_ok ct = true /\ peval (ct_A ct) s <> 0) ->
  exists m, doit_model causal const (map ct_term F) = Some m /\
    dLval E s (m_c m) + Lval s (m_u m) = const * input_sum E s F.
Proof. intros Hc.
  destruct (ILT_LT E E0 causal const s (map ct_term F)) as [m [Hm Hv]].
  { intros tm Hin. apply in_map_iff in Hin. destruct Hin as [ct [<- Hin]]. destruct (Hc ct Hin) as [Hok HA].
    unfold cert_ok in Hok. apply andb_true_iff in Hok. destruct Hok as [Hok Hd]. apply andb_true_iff in Hok. destruct Hok as [Hpf Hw].
    repeat split; [exact Hw | | apply negb_true_iff; exact Hd].
    apply (pf_check_poles _ _ _ _ s Hpf); [|exact HA]. apply orders_posb_sound.
    unfold wf_tsb in Hw. apply andb_true_iff in Hw. tauto. }
  exists m. split; [exact Hm|]. rewrite Hv. f_equal.
  clear Hm Hv m. induction F as [|ct F IH]; cbn [map image_sum input_sum]; [reflexivity|].
  rewrite IH by (intros ct' Hin; apply Hc; right; exact Hin). f_equal.
  destruct (Hc ct (or_introl eq_refl)) as [Hok HA].
  unfold cert_ok in Hok. apply andb_true_iff in Hok. destruct Hok as [Hok _]. apply andb_true_iff in Hok. destruct Hok as [Hpf _].
  unfold term_image. rewrite (pf_check_sound K _ _ _ _ Hpf s HA). reflexivity. Qed.
End WithE2.

(* ---- causality bookkeeping --------------------------------------------------------- *)
Lemma doit_terms_causal F r : doit_terms true F = Some r -> t_u r = szero.
Proof. unfold doit_terms. revert r. induction F as [|tm F IH]; intros r H; cbn [map sum_terms] in H; [inversion H; reflexivity|].
  destruct (term_model true tm) as [a|] eqn:Ea; [|discriminate]. destruct (sum_terms (map (term_model true) F)) as [b|] eqn:Eb; [|discriminate].
  inversion H; subst. cbn [t_u]. rewrite (IH b eq_refl).
  unfold term_model, term_of_pair in Ea. destruct (ratfun_model (it_C tm) (it_ts tm)) as [[c u]|]; [|discriminate].
  destruct (qc_eqb (it_delay tm) 0); [inversion Ea; reflexivity|]. destruct (qc_ltb (it_delay tm) 0); [discriminate|]. inversion Ea; reflexivity. Qed.
(* causal requested: no  t >= 0  condition, and every regular term sits in the
   part that carries its step u(t - T): the result is zero for t < 0 *)
Theorem causal_flag const F m : doit_model true const F = Some m ->
  m_cond m = false /\ m_u m = szero.
Proof. unfold doit_model, make_opt. destruct (doit_terms true F) as [r|] eqn:Er; [|discriminate]. intros H. inversion H; subst. clear H.
  unfold make_model. cbn [m_cond m_u]. rewrite (doit_terms_causal F r Er). split; reflexivity. Qed.
(* causality not known: the result carries the condition t >= 0 exactly when it
   has a regular part that is not already qualified by a step *)
Theorem noncausal_flag const F m : doit_model false const F = Some m ->
  (m_cond m = true <-> reg (m_u m) <> []).
Proof. unfold doit_model, make_opt. destruct (doit_terms false F) as [r|]; [|discriminate]. intros H. inversion H; subst. clear H.
  unfold make_model. cbn [m_cond m_u sscale reg negb andb]. destruct (reg (t_u r)) as [|[[c n] p] l]; cbn; split; intros H.
  - discriminate. - exfalso; apply H; reflexivity. - discriminate. - reflexivity. Qed.
(* a delayed term is always treated as causal: it only contributes step-qualified components *)
Theorem delayed_flag causal tm r : term_model causal tm = Some r -> qc_eqb (it_delay tm) 0 = false ->
  t_u r = szero /\ exists x, t_c r = [(it_delay tm, x)].
Proof. unfold term_model, term_of_pair. destruct (ratfun_model (it_C tm) (it_ts tm)) as [[c u]|]; [|discriminate]. intros H Hz. rewrite Hz in H.
  destruct (qc_ltb (it_delay tm) 0); [discriminate|]. inversion H; subst. cbn [t_u t_c]. split; [reflexivity | eexists; reflexivity]. Qed.

(* ---- initial / final value ------------------------------------------------------------
   For a strictly proper term (no polynomial part) the model time function u has
     u(0+) = Σ order-1 residues  = the value at 1/s = 0 of the regular function s·X(s)
   (ExpPoly.ivt_alg/ivt_alg0), and for the canonical inverse the value at s = 0 of
   s·X(s) is the residue of the simple pole at the origin (ExpPoly.fvt_alg/fvt_alg0). *)
Theorem ivt_fvt s ts : wf_tsb ts = true -> ipole_free s ts ->
  (exists c u, ratfun_model [] ts = Some (c, u) /\ sig_t0 (reg u) = pf_iv ts /\ sXu 0 (reg u) = pf_iv ts) /\
  (fv_ok (reg (Linv (Img [] ts))) = true -> sX 0 (reg (Linv (Img [] ts))) = fv (reg (Linv (Img [] ts)))).
Proof. intros Hw Hp. split.
  - destruct (ratfun_value s [] ts Hw Hp) as [c [u [Hm [_ [_ [_ [_ Ha]]]]]]]. exists c, u. split; [exact Hm|].
    rewrite sig_t0_at0, ivt_alg0. split; exact Ha.
  - apply fvt_alg0. Qed.
(* the final-value formula on the certificate: residue of a simple pole at 0 *)
Fixpoint pf_fv (ts : list pft) : K :=
  match ts with [] => 0 | (r, p, o) :: ts' => (if Nat.eqb o 1 then (if feqb p 0 then r else 0) else 0) + pf_fv ts' end.
Lemma fv_Linv ts : wf_pf ts -> fv (reg (Linv (Img [] ts))) = pf_fv ts.
Proof. unfold Linv. cbn [ipf reg]. induction ts as [|[[r p] o] ts IH]; intros Hw; cbn [map Linvterm fv pf_fv]; [reflexivity|].
  assert (Ho : (1 <= o)%nat) by (apply (Hw r p o); left; reflexivity).
  rewrite <- IH by (intros a b c Hi; apply (Hw a b c); right; exact Hi).
  destruct o as [|[|o]]; [lia | reflexivity | cbn [Nat.pred Nat.eqb]; ring]. Qed.

(* ---- the verified per-case round-trip check used on Lcapy's OWN output ------------------
   x is the exp-poly normal form parsed from Lcapy's time function for B/A *)
Definition roundtrip_check (Bp Ap : list K) (x : sig) : bool :=
  pf_check Bp Ap (sing x) (ipf (L x)).
Theorem roundtrip_sound Bp Ap x : roundtrip_check Bp Ap x = true ->
  forall s, peval Ap s <> 0 -> Lval s x = peval Bp s / peval Ap s.
Proof. unfold roundtrip_check. intros H s HA. rewrite (pf_check_sound K _ _ _ _ H s HA), <- ival_L. reflexivity. Qed.
Fixpoint roundtrip_list (ins : list (Qc * list K * list K)) (obs : dsig K) : bool :=
  match ins, obs with
  | [], [] => true
  | (T, Bp, Ap) :: ins', (T', x) :: obs' => qc_eqb T T' && roundtrip_check Bp Ap x && roundtrip_list ins' obs'
  | _, _ => false
  end.
Fixpoint rat_sum (E : Qc -> K) (s : K) (ins : list (Qc * list K * list K)) : K :=
  match ins with [] => 0 | (T, Bp, Ap) :: ins' => E T * (peval Bp s / peval Ap s) + rat_sum E s ins' end.
Theorem roundtrip_list_sound E ins obs : roundtrip_list ins obs = true ->
  forall s, (forall T Bp Ap, In (T, Bp, Ap) ins -> peval Ap s <> 0) -> dLval E s obs = rat_sum E s ins.
Proof. revert obs. induction ins as [|[[T Bp] Ap] ins IH]; intros [|[T' x] obs] H s HA; cbn [roundtrip_list] in H; try discriminate; [reflexivity|].
  apply andb_true_iff in H. destruct H as [H H3]. apply andb_true_iff in H. destruct H as [H1 H2].
  apply qc_eqb_eq in H1. subst T'. cbn [dLval rat_sum].
  rewrite (roundtrip_sound _ _ _ H2 s (HA T Bp Ap (or_introl eq_refl))).
  rewrite (IH obs H3 s (fun a b c Hi => HA a b c (or_intror Hi))). reflexivity. Qed.

End ILT.

(* ==== option handling: Assumptions.set / merge =============================================
   dc, ac, causal, unknown are mutually exclusive; setting one of them to a truthy
   value clears the others, setting it to a falsy value removes only itself. *)
Inductive aflag := Adc | Aac | Acausal | Aunknown.
Definition aflag_eqb (a b : aflag) : bool :=
  match a, b with Adc, Adc | Aac, Aac | Acausal, Acausal | Aunknown, Aunknown => true | _, _ => false end.
Definition aset (st : option aflag) (f : aflag) (v : bool) : option aflag :=
  if v then Some f else match st with Some g => if aflag_eqb f g then None else st | None => None end.
Definition amerge (st : option aflag) (kw : list (aflag * bool)) : option aflag :=
  fold_left (fun st fv => aset st (fst fv) (snd fv)) kw st.
Definition eff_causal (st : option aflag) (kw : list (aflag * bool)) : bool :=
  match amerge st kw with Some Acausal => true | _ => false end.
Lemma amerge_last st kw f : amerge st (kw ++ [(f, true)]) = Some f.
Proof. unfold amerge. rewrite fold_left_app. reflexivity. Qed.
(* causal=True as the last of the exclusive options makes the transform causal;
   a later ac=True / dc=True overrides it *)
Theorem eff_causal_last st kw : eff_causal st (kw ++ [(Acausal, true)]) = true.
Proof. unfold eff_causal. rewrite amerge_last. reflexivity. Qed.
Theorem eff_causal_overridden st kw f : f <> Acausal -> eff_causal st (kw ++ [(f, true)]) = false.
Proof. unfold eff_causal. rewrite amerge_last. destruct f; congruence. Qed.

(* ==== result cache ===========================================================================
   key = (expr, causal, zero_initial_conditions, damped_sin-with-default-True, damping);
   the value stored is (cresult, uresult).  [good k v] is any correctness
   predicate; if every computation establishes it, then after ANY history of
   transform calls every cache hit returns a good value. *)
Section Cache.
Variables (Key Val : Type) (keqb : Key -> Key -> bool).
Hypothesis keqb_eq : forall a b, keqb a b = true -> a = b.
Variable compute : Key -> Val.
Variable good : Key -> Val -> Prop.
Hypothesis compute_good : forall k, good k (compute k).
Fixpoint lookup (k : Key) (c : list (Key * Val)) : option Val :=
  match c with [] => None | (k', v) :: c' => if keqb k k' then Some v else lookup k c' end.
Definition transform (c : list (Key * Val)) (k : Key) : Val * list (Key * Val) :=
  match lookup k c with Some v => (v, c) | None => let v := compute k in (v, (k, v) :: c) end.
Definition cache_inv (c : list (Key * Val)) := forall k v, In (k, v) c -> good k v.
Lemma lookup_good c k v : cache_inv c -> lookup k c = Some v -> good k v.
Proof. induction c as [|[k' v'] c IH]; intros Hi H; cbn [lookup] in H; [discriminate|].
  destruct (keqb k k') eqn:E.
  - inversion H; subst. apply keqb_eq in E. subst. apply Hi. left. reflexivity.
  - apply IH; [intros a b Hin; apply Hi; right; exact Hin | exact H]. Qed.
Theorem transform_good c k : cache_inv c -> good k (fst (transform c k)) /\ cache_inv (snd (transform c k)).
Proof. intros Hi. unfold transform. destruct (lookup k c) as [v|] eqn:El; cbn [fst snd].
  - split; [exact (lookup_good c k v Hi El) | exact Hi].
  - split; [apply compute_good|]. intros a b [H|H]; [inversion H; subst; apply compute_good | exact (Hi a b H)]. Qed.
Fixpoint run (c : list (Key * Val)) (ks : list Key) : list Val * list (Key * Val) :=
  match ks with [] => ([], c) | k :: ks' => let (v, c') := transform c k in let (vs, c'') := run c' ks' in (v :: vs, c'') end.
Theorem cache_sound ks : forall c, cache_inv c -> Forall2 good ks (fst (run c ks)) /\ cache_inv (snd (run c ks)).
Proof. induction ks as [|k ks IH]; intros c Hi; cbn [run]; [split; [constructor | exact Hi]|].
  destruct (transform_good c k Hi) as [Hg Hi']. destruct (transform c k) as [v c'] eqn:Et. cbn [fst snd] in *.
  destruct (IH c' Hi') as [Hf Hi'']. destruct (run c' ks) as [vs c''] eqn:Er. cbn [fst snd] in *.
  split; [constructor; assumption | exact Hi'']. Qed.
End Cache.

(* ==== products with undefined transforms (product_undef1), small AST =========================
   classification of  factors[0] * V(s)  and its time-domain counterpart *)
Inductive ufac := UPowS (k : Z) | UOther.                 (* s**k, or any other rational factor *)
Inductive utime := UDeriv (n : nat) (ics : bool) | UInt | UConv (causal_limits : bool) | UFunc.
Definition undef_model (causal zic : bool) (f : ufac) : utime :=
  match f with
  | UPowS 0 => UFunc
  | UPowS (Zpos n) => UDeriv (Pos.to_nat n) (negb zic)
  | UPowS (Zneg 1) => UInt
  | UPowS (Zneg _) => UConv causal
  | UOther => UConv causal
  end.
Section Undef.
Variable K : fld.
Add Field KFund : (fth K).
(* s**n * V(s) |-> n-th (distributional) derivative, for every exp-poly signal v *)
Theorem undef_deriv_sound (v : sig K) (n : nat) s : pole_free s v -> Lval s (Dn n v) = fpow s n * Lval s v.
Proof. apply L_Dn. Qed.
(* V(s)/s |-> the signal y whose derivative is v *)
Theorem undef_int_sound (y v : sig K) s : D y = v -> pole_free s y -> s <> 0 -> Lval s y = Lval s v / s.
Proof. intros <- Hp Hs. rewrite (L_D K s y Hp). field. exact Hs. Qed.
End Undef.

Arguments ITerm {K}. Arguments it_const {K}. Arguments it_delay {K}. Arguments it_C {K}. Arguments it_ts {K}.
Arguments CTerm {K}. Arguments ct_term {K}. Arguments ct_B {K}. Arguments ct_A {K}.
Arguments MRes {K}. Arguments m_c {K}. Arguments m_u {K}. Arguments m_cond {K}.
Arguments set_delay {K}. Arguments TRes {K}. Arguments t_c {K}. Arguments t_u {K}. Arguments term_of_pair {K}. Arguments sum_terms {K}. Arguments make_opt {K}. Arguments make_model {K}.
Arguments Branches {K}. Arguments b_simple {K}. Arguments b_repeated {K}. Arguments b_conj {K}. Arguments b_poly {K}.
Arguments wf_tsb {K}. Arguments keys_nodupb {K}. Arguments orders_posb {K}.
Arguments pf_iv {K}. Arguments pf_fv {K}. Arguments cert_ok {K}. Arguments roundtrip_check {K}. Arguments roundtrip_list {K}.
