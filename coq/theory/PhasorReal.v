(* C14 - the algebraic phasor model of PhasorTime.v instantiated at the real
   numbers: with c = cos phi, s = sin phi, C = cos(w t), S = sin(w t) the
   reconstruction Re(P e^{jwt}) of the phasor of A cos(w t + phi) IS
   A cos(w t + phi) (same for sin), and the formal derivative [dtime] is the real
   derivative.  Depends on the axioms of the standard library's classical reals
   (printed by Print Assumptions below); everything else of C14 is axiom-free. *)
Require Import LT.FieldSec LT.PhasorTime.
From Coq Require Import Reals Lra.
From Coquelicot Require Import Coquelicot.
Local Open Scope R_scope.

Lemma R_iter_pos (p : positive) (a : R) : 0 < a -> 0 < Pos.iter_op Rplus p a.
Proof. revert a. induction p as [p IH|p IH|]; intros a Ha; cbn [Pos.iter_op].
  - assert (0 < Pos.iter_op Rplus p (a + a)) by (apply IH; lra). lra.
  - apply IH; lra.
  - exact Ha. Qed.
Lemma R_char0 (p : positive) : Pos.iter_op Rplus p 1 <> 0.
Proof. pose proof (R_iter_pos p 1 Rlt_0_1). lra. Qed.
Definition RF : fld :=
  MkFld R 0 1 Rplus Rmult Rminus Ropp Rdiv Rinv Rfield Req_EM_T R_char0.

(* sinusoid -> phasor -> time, with genuine cos/sin *)
Theorem phasor_time_roundtrip_cos_R (A w p t : R) :
  time_of (K:=RF) (phasor_of (K:=RF) std_offs TCos A (cos p) (sin p)) (cos (w * t)) (sin (w * t))
  = A * cos (w * t + p).
Proof. rewrite (phasor_time_roundtrip RF). cbn [sinusoid]. rewrite cos_plus. cbn. ring. Qed.
Theorem phasor_time_roundtrip_sin_R (A w p t : R) :
  time_of (K:=RF) (phasor_of (K:=RF) std_offs TSin A (cos p) (sin p)) (cos (w * t)) (sin (w * t))
  = A * sin (w * t + p).
Proof. rewrite (phasor_time_roundtrip RF). cbn [sinusoid]. rewrite sin_plus. cbn. ring. Qed.
(* the sin form is the cos form delayed by a quarter period: phase - pi/2 *)
Theorem sin_is_shifted_cos (x : R) : sin x = cos (x - PI / 2).
Proof. rewrite cos_minus, cos_PI2, sin_PI2. ring. Qed.

(* the formal derivative of PhasorTime is the derivative *)
Theorem dtime_is_derivative (w : R) (P : @cx RF) (t : R) :
  is_derive (fun t => time_of (K:=RF) P (cos (w * t)) (sin (w * t))) t
            (dtime (K:=RF) w P (cos (w * t)) (sin (w * t))).
Proof. unfold time_of, dtime. cbn. auto_derive; [exact I | ring]. Qed.

(* steady state of a capacitor / inductor in the time domain: if the phasors
   satisfy I = j w C V then i(t) = C dv/dt for the reconstructed sinusoids *)
Theorem steady_state_C_R (w Cap : R) (V I : @cx RF) (t : R) :
  I = cmul (K:=RF) (Cx (K:=RF) 0 (w * Cap)) V ->
  is_derive (fun t => Cap * time_of (K:=RF) V (cos (w * t)) (sin (w * t))) t
            (time_of (K:=RF) I (cos (w * t)) (sin (w * t))).
Proof. intros ->. unfold time_of. cbn. auto_derive; [exact I0 || exact Logic.I | ring]. Qed.
Theorem steady_state_L_R (w L : R) (V I : @cx RF) (t : R) :
  V = cmul (K:=RF) (Cx (K:=RF) 0 (w * L)) I ->
  is_derive (fun t => L * time_of (K:=RF) I (cos (w * t)) (sin (w * t))) t
            (time_of (K:=RF) V (cos (w * t)) (sin (w * t))).
Proof. intros ->. unfold time_of. cbn. auto_derive; [exact Logic.I | ring]. Qed.

(* the sqrt / atan2 contract over the reals (right half plane, where atan2(y, x) = atan(y / x);
   the left half plane follows by the symmetry (x, y) -> (-x, -y), theta -> theta + pi) *)
Theorem polar_R_right (x y : R) : 0 < x ->
  sqrt (x * x + y * y) * cos (atan (y / x)) = x /\ sqrt (x * x + y * y) * sin (atan (y / x)) = y.
Proof.
  intros Hx. rewrite cos_atan, sin_atan.
  assert (Hs : 0 < 1 + (y / x)²) by (unfold Rsqr; nra).
  assert (E : sqrt (x * x + y * y) = x * sqrt (1 + (y / x)²)).
  { replace (x * x + y * y) with ((x * x) * (1 + (y / x)²)) by (unfold Rsqr; field; lra).
    rewrite sqrt_mult by nra. rewrite sqrt_square by lra. reflexivity. }
  assert (Hq : sqrt (1 + (y / x)²) <> 0) by (apply Rgt_not_eq, sqrt_lt_R0; exact Hs).
  rewrite E. split; field; repeat split; try lra; exact Hq.
Qed.
Theorem polar_R_left (x y : R) : x < 0 ->
  sqrt (x * x + y * y) * cos (atan (y / x) + PI) = x /\ sqrt (x * x + y * y) * sin (atan (y / x) + PI) = y.
Proof.
  intros Hx. rewrite neg_cos, neg_sin.
  destruct (polar_R_right (- x) (- y)) as [A B]; [lra|].
  replace (- y / - x) with (y / x) in A, B by (field; lra).
  replace (- x * - x + - y * - y) with (x * x + y * y) in A, B by ring.
  split; lra.
Qed.

Print Assumptions phasor_time_roundtrip_cos_R.
Print Assumptions polar_R_right.
Print Assumptions polar_R_left.
Print Assumptions dtime_is_derivative.
Print Assumptions steady_state_C_R.
