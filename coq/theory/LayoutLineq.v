(* C20 - schematic layout.  Part 7: hand model (H) of the constraint table of the
   lineq placer, lcapy/schemlineqplacer.py Lineq.add: one constraint per unordered pair of common nodes,
   stored under the orientation of the first constraint added for the pair (a later constraint of the
   opposite orientation is stored with a negative size); an existing FIXED constraint is kept, a stretchy one
   is replaced by a fixed one or by a larger stretchy one.  The executable model is folded over the edges
   the placer-base model (LayoutPlace) emits, inside Coq, and compared with the real Lineq.constraints.
   Theorem: a fixed entry of the table is never replaced. *)
From Coq Require Import QArith List Bool Arith Lia Lqa.
Require Import LT.Layout LT.LayoutPlace.
Import ListNotations.
Local Open Scope Q_scope.

Record lcon := mkL { l_from : node; l_to : node; l_size : Q; l_st : bool }.

Definition lkey (c : lcon) (a b : node) : bool := Nat.eqb (l_from c) a && Nat.eqb (l_to c) b.
Fixpoint lfind (t : list lcon) (a b : node) : option lcon :=
  match t with [] => None | c :: r => if lkey c a b then Some c else lfind r a b end.
Fixpoint lreplace (t : list lcon) (a b : node) (n : lcon) : list lcon :=
  match t with [] => [] | c :: r => if lkey c a b then n :: r else c :: lreplace r a b n end.

Definition Qabs' (x : Q) : Q := if Qle_bool 0 x then x else - x.

(* the part of add() after the key has been found: key (a, b), new constraint (size, st) *)
Definition lmerge (t : list lcon) (a b : node) (size : Q) (st : bool) : list lcon :=
  match lfind t a b with
  | None => t
  | Some c2 =>
      if negb (l_st c2) then t                       (* keep the existing fixed constraint *)
      else if negb st || negb (Qle_bool (Qabs' size) (Qabs' (l_size c2)))
           then lreplace t a b (mkL a b size st)
           else t
  end.

Definition ladd (t : list lcon) (n1 n2 : node) (size : Q) (st : bool) : list lcon :=
  if Qeq_bool size 0 then t
  else
    let n1' := if Qle_bool 0 size then n1 else n2 in
    let n2' := if Qle_bool 0 size then n2 else n1 in
    let size' := Qabs' size in
    match lfind t n1' n2', lfind t n2' n1' with
    | None, None => t ++ [mkL n1' n2' size' st]
    | _, Some _ => lmerge t n2' n1' (- size') st
    | Some _, None => lmerge t n1' n2' size' st
    end.

(* the table after _make_graphs: Lineq.add for every edge the placer base emits (labels of common nodes) *)
Definition lineq_table (es : list gedge) : list lcon :=
  fold_left (fun t g => ladd t (g_from g) (g_to g) (g_size g) (g_stretch g)) es [].

(* ---- a fixed entry is never replaced ---------------------------------------- *)
Lemma lfind_lreplace_other t a b n x y : (x, y) <> (a, b) -> lkey n a b = true ->
  lfind (lreplace t a b n) x y = lfind t x y.
Proof.
  intros Hne Hn. induction t as [|c r IH]; cbn; [reflexivity|].
  destruct (lkey c a b) eqn:E.
  - cbn. assert (Hc : lkey c x y = false).
    { unfold lkey in *. apply andb_true_iff in E. destruct E as [E1 E2].
      apply Nat.eqb_eq in E1, E2. destruct (Nat.eqb (l_from c) x) eqn:F1; [|reflexivity].
      destruct (Nat.eqb (l_to c) y) eqn:F2; [|reflexivity].
      apply Nat.eqb_eq in F1, F2. exfalso. apply Hne. congruence. }
    assert (Hn' : lkey n x y = false).
    { unfold lkey in *. apply andb_true_iff in Hn. destruct Hn as [E1 E2].
      apply Nat.eqb_eq in E1, E2. destruct (Nat.eqb (l_from n) x) eqn:F1; [|reflexivity].
      destruct (Nat.eqb (l_to n) y) eqn:F2; [|reflexivity].
      apply Nat.eqb_eq in F1, F2. exfalso. apply Hne. congruence. }
    rewrite Hc, Hn'. reflexivity.
  - cbn. destruct (lkey c x y); [reflexivity|exact IH].
Qed.

Lemma lkey_mk a b s st : lkey (mkL a b s st) a b = true.
Proof. unfold lkey; cbn. rewrite !Nat.eqb_refl. reflexivity. Qed.

Lemma lmerge_keeps_fixed t a b size st x y c :
  lfind t x y = Some c -> l_st c = false -> lfind (lmerge t a b size st) x y = Some c.
Proof.
  intros Hf Hs. unfold lmerge. destruct (lfind t a b) as [c2|] eqn:F; [|exact Hf].
  destruct (l_st c2) eqn:S2; cbn [negb]; [|exact Hf].
  destruct (negb st || negb (Qle_bool (Qabs' size) (Qabs' (l_size c2)))); [|exact Hf].
  destruct (Nat.eq_dec x a) as [->|Hx]; [destruct (Nat.eq_dec y b) as [->|Hy]|].
  - rewrite Hf in F. inversion F; subst. congruence.
  - rewrite lfind_lreplace_other; [exact Hf|congruence|apply lkey_mk].
  - rewrite lfind_lreplace_other; [exact Hf|congruence|apply lkey_mk].
Qed.

Lemma lfind_app t u x y c : lfind t x y = Some c -> lfind (t ++ u) x y = Some c.
Proof. induction t as [|d r IH]; cbn; [discriminate|]. destruct (lkey d x y); auto. Qed.

Theorem ladd_keeps_fixed t n1 n2 size st x y c :
  lfind t x y = Some c -> l_st c = false -> lfind (ladd t n1 n2 size st) x y = Some c.
Proof.
  intros Hf Hs. unfold ladd. destruct (Qeq_bool size 0); [exact Hf|].
  set (a := if Qle_bool 0 size then n1 else n2). set (b := if Qle_bool 0 size then n2 else n1).
  destruct (lfind t a b) eqn:F1; destruct (lfind t b a) eqn:F2;
    try (apply lmerge_keeps_fixed; assumption).
  apply lfind_app. exact Hf.
Qed.

Theorem lineq_table_keeps_fixed es : forall t x y c,
  lfind t x y = Some c -> l_st c = false ->
  lfind (fold_left (fun t g => ladd t (g_from g) (g_to g) (g_size g) (g_stretch g)) es t) x y = Some c.
Proof.
  induction es as [|g r IH]; intros t x y c Hf Hs; cbn; [exact Hf|].
  apply IH; [apply ladd_keeps_fixed; assumption|exact Hs].
Qed.

(* comparison with the real Lineq.constraints (set comparison; sizes may be negative) *)
Definition lcon_eqb (a b : lcon) : bool :=
  Nat.eqb (l_from a) (l_from b) && Nat.eqb (l_to a) (l_to b) && Qeq_bool (l_size a) (l_size b) && Bool.eqb (l_st a) (l_st b).
Definition same_table (a b : list lcon) : bool :=
  forallb (fun x => existsb (lcon_eqb x) b) a && forallb (fun x => existsb (lcon_eqb x) a) b.
