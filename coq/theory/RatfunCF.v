(* RatfunCF — model (H) of Expr.continued_fraction_coeffs / as_continued_fraction
   (lcapy/expr.py): repeated division by the LEADING TERMS only,
     Q = LT(N)/LT(D)  (a monomial c x^k, k possibly negative),  N2 = N - Q*D,
   continuing with D/N2 while N2 <> 0; a leading 0 coefficient and a swap when
   deg D > deg N.  A negative k needs D divisible by x^(-k) (otherwise sympy
   raises PolynomialError; the model returns None).
   Theorem: the quotients produced form a [cf_chain] (PolyQ.v), hence the
   continued fraction built from them equals N/D. *)
Require Import LT.FieldSec LT.PolyQ.
Local Open Scope F_scope.
Section CF.
Variable K : fld.
Add Field KFcf : (fth K).
Notation poly := (list K).

Definition low_zero (k : nat) (p : poly) : bool := pzerob (firstn k p).
Lemma low_zero_shift k p x : low_zero k p = true -> peval p x = fpow x k * peval (skipn k p) x.
Proof. revert p. induction k as [|k IH]; intros p H; cbn [firstn skipn fpow]; [ring|].
  destruct p as [|a t]; [cbn; ring|]. cbn [low_zero firstn pzerob forallb] in H.
  apply andb_true_iff in H. destruct H as [Ha Ht]. apply feqb_eq in Ha. subst a.
  cbn [peval skipn]. rewrite (IH t Ht). ring. Qed.

(* one step: quotient (as a pair qn/qd) and next remainder *)
Definition cf_quot (N D : poly) : option (rat K * poly) :=
  let sn := psize N in let sd := psize D in
  let c := plc N / plc D in
  if (sd <=? sn)%nat then
    let qn := pmonom c (sn - sd) in Some ((qn, [1]), pnorm (psub N (pmul qn D)))
  else
    let k := (sd - sn)%nat in
    if low_zero k D then Some (([c], pshift k [1]), pnorm (psub N (pscale c (skipn k D)))) else None.
Lemma cf_quot_ok (N D : poly) q N2 : cf_quot N D = Some (q, N2) -> cf_step_ok N D q N2.
Proof. unfold cf_quot. destruct (psize D <=? psize N)%nat.
  - intros H. inversion H; subst. intros x. cbn [fst snd]. rewrite peval_pnorm, peval_psub, peval_pmul. cbn [peval]. ring.
  - destruct (low_zero (psize D - psize N) D) eqn:L; [|discriminate]. intros H. inversion H; subst. intros x.
    cbn [fst snd]. rewrite peval_pnorm, peval_psub, peval_pscale, peval_pshift, (low_zero_shift _ _ x L). cbn [peval]. ring. Qed.

Fixpoint cf_run (fuel : nat) (N D : poly) : option (list (rat K)) :=
  match fuel with
  | O => None
  | S f => match cf_quot N D with
           | None => None
           | Some (q, N2) => if pzerob N2 then Some [q]
                             else match cf_run f D N2 with Some qs => Some (q :: qs) | None => None end
           end
  end.
Lemma cf_run_ne fuel (N D : poly) qs : cf_run fuel N D = Some qs -> qs <> [].
Proof. destruct fuel; cbn [cf_run]; [discriminate|]. destruct (cf_quot N D) as [[q N2]|]; [|discriminate].
  destruct (pzerob N2); [intros H; inversion H; discriminate|].
  destruct (cf_run fuel D N2); [intros H; inversion H; discriminate | discriminate]. Qed.
Lemma cf_step_ok_ext (N D : poly) (q : rat K) (N2 N2' : poly) : (forall x, peval N2 x = peval N2' x) -> cf_step_ok N D q N2 -> cf_step_ok N D q N2'.
Proof. intros He H x. rewrite <- He. apply H. Qed.
Theorem cf_run_chain fuel (N D : poly) qs : cf_run fuel N D = Some qs -> cf_chain N D qs.
Proof. revert N D qs. induction fuel as [|f IH]; intros N D qs H; cbn [cf_run] in H; [discriminate|].
  destruct (cf_quot N D) as [[q N2]|] eqn:Q; [|discriminate]. pose proof (cf_quot_ok _ _ _ _ Q) as Hs.
  destruct (pzerob N2) eqn:Z.
  - inversion H; subst. apply cf_last. apply (cf_step_ok_ext N D q N2 []); [|exact Hs].
    intros x. rewrite (pzerob_eval _ _ Z x). reflexivity.
  - destruct (cf_run f D N2) as [qs'|] eqn:R; [|discriminate]. inversion H; subst.
    apply (cf_more K N D q N2 qs' Hs (cf_run_ne _ _ _ _ R) (IH _ _ _ R)). Qed.

(* Expr.continued_fraction_coeffs: leading 0 and swap when deg D > deg N *)
Definition cf_coeffs (fuel : nat) (N D : poly) : option (list (rat K)) :=
  if (psize N <? psize D)%nat then
    match cf_run fuel D N with Some qs => Some (([], [1]) :: qs) | None => None end
  else cf_run fuel N D.
Theorem cf_coeffs_sound fuel (N D : poly) qs : cf_coeffs fuel N D = Some qs -> req (cf_rat qs) (N, D).
Proof. unfold cf_coeffs. destruct (psize N <? psize D)%nat.
  - destruct (cf_run fuel D N) as [qs'|] eqn:R; [|discriminate]. intros H. inversion H; subst.
    pose proof (cf_chain_sound K _ _ _ (cf_run_chain _ _ _ _ R)) as Hq. pose proof (cf_run_ne _ _ _ _ R) as Hne.
    destruct qs' as [|q' t]; [congruence|]. intros x.
    change (cf_rat (([], [1]) :: q' :: t)) with (radd (([], [1]) : rat K) (rinv (cf_rat (q' :: t)))).
    specialize (Hq x). cbn [fst snd] in *. unfold radd, rinv. cbn [fst snd]. rewrite peval_padd, !peval_pmul. cbn [peval].
    set (f := cf_rat (q' :: t)) in *.
    transitivity (peval D x * peval (snd f) x); [ring|]. rewrite <- Hq. ring.
  - intros R. apply (cf_chain_sound K _ _ _ (cf_run_chain _ _ _ _ R)). Qed.

(* nested evaluation q0 + 1/(q1 + 1/(...)) as as_continued_fraction builds it *)
Fixpoint cf_val (qs : list (rat K)) (x : K) : K :=
  match qs with
  | [] => 0
  | q :: rest => match rest with [] => rat_eval q x | _ => rat_eval q x + 1 / cf_val rest x end
  end.
Fixpoint cf_ok (qs : list (rat K)) (x : K) : Prop :=
  match qs with
  | [] => True
  | q :: rest => peval (snd q) x <> 0 /\
                 match rest with [] => True
                 | _ => peval (fst (cf_rat rest)) x <> 0 /\ peval (snd (cf_rat rest)) x <> 0 /\ cf_ok rest x end
  end.
Lemma cf_val_rat qs x : qs <> [] -> cf_ok qs x -> cf_val qs x = rat_eval (cf_rat qs) x.
Proof. induction qs as [|q rest IH]; [congruence|]. intros _ Hok. destruct rest as [|q' t].
  - reflexivity.
  - change (cf_val (q :: q' :: t) x) with (rat_eval q x + 1 / cf_val (q' :: t) x).
    change (cf_rat (q :: q' :: t)) with (radd q (rinv (cf_rat (q' :: t)))).
    destruct Hok as [Hq [Hn [Hd Hr]]]. rewrite (IH ltac:(congruence) Hr).
    set (f := cf_rat (q' :: t)) in *. unfold rat_eval, radd, rinv. cbn [fst snd].
    rewrite peval_padd, !peval_pmul. field. repeat split; assumption. Qed.
Theorem cf_value fuel (N D : poly) qs x : cf_coeffs fuel N D = Some qs -> cf_ok qs x ->
  peval D x <> 0 -> peval (snd (cf_rat qs)) x <> 0 -> cf_val qs x = peval N x / peval D x.
Proof. intros H Hok HD Hs. assert (Hne : qs <> []).
  { unfold cf_coeffs in H. destruct (psize N <? psize D)%nat.
    - destruct (cf_run fuel D N); [inversion H; discriminate | discriminate].
    - apply (cf_run_ne _ _ _ _ H). }
  rewrite (cf_val_rat qs x Hne Hok). apply (req_eval K (cf_rat qs) (N, D) x (cf_coeffs_sound _ _ _ _ H) Hs HD). Qed.

(* ---- continued_fraction_inverse_coeffs / as_continued_fraction_inverse --------------
   the same scheme on the TRAILING terms:  Q = ET(N)/ET(D) = c / x^k  (k = ed - en >= 0,
   en, ed the orders of the lowest non-zero terms), N2 = N - Q*D; when en > ed a 0
   coefficient is emitted and N, D are swapped. *)
Fixpoint lowidx (p : poly) : nat := match p with [] => O | a :: t => if feqb a 0 then S (lowidx t) else O end.
Fixpoint lowcoef (p : poly) : K := match p with [] => 0 | a :: t => if feqb a 0 then lowcoef t else a end.
Definition cfi_quot (N D : poly) : option (rat K * poly) :=
  let k := (lowidx D - lowidx N)%nat in
  let c := lowcoef N / lowcoef D in
  if low_zero k D then Some (([c], pshift k [1]), pnorm (psub N (pscale c (skipn k D)))) else None.
Lemma cfi_quot_ok (N D : poly) q N2 : cfi_quot N D = Some (q, N2) -> cf_step_ok N D q N2.
Proof. unfold cfi_quot. destruct (low_zero (lowidx D - lowidx N) D) eqn:L; [|discriminate]. intros H. inversion H; subst. intros x.
  cbn [fst snd]. rewrite peval_pnorm, peval_psub, peval_pscale, peval_pshift, (low_zero_shift _ _ x L). cbn [peval]. ring. Qed.
Fixpoint cfi_run (fuel : nat) (N D : poly) : option (list (rat K)) :=
  match fuel with
  | O => None
  | S f =>
      if (lowidx D <? lowidx N)%nat then
        match cfi_run f D N with Some qs => Some (([], [1]) :: qs) | None => None end
      else match cfi_quot N D with
           | None => None
           | Some (q, N2) => if pzerob N2 then Some [q]
                             else match cfi_run f D N2 with Some qs => Some (q :: qs) | None => None end
           end
  end.
Lemma cfi_run_ne fuel (N D : poly) qs : cfi_run fuel N D = Some qs -> qs <> [].
Proof. destruct fuel; cbn [cfi_run]; [discriminate|]. destruct (lowidx D <? lowidx N)%nat.
  - destruct (cfi_run fuel D N); [intros H; inversion H; discriminate | discriminate].
  - destruct (cfi_quot N D) as [[q N2]|]; [|discriminate].
    destruct (pzerob N2); [intros H; inversion H; discriminate|].
    destruct (cfi_run fuel D N2); [intros H; inversion H; discriminate | discriminate]. Qed.
Theorem cfi_run_chain fuel (N D : poly) qs : cfi_run fuel N D = Some qs -> cf_chain N D qs.
Proof. revert N D qs. induction fuel as [|f IH]; intros N D qs H; cbn [cfi_run] in H; [discriminate|].
  destruct (lowidx D <? lowidx N)%nat.
  - destruct (cfi_run f D N) as [qs'|] eqn:R; [|discriminate]. inversion H; subst.
    apply (cf_more K N D ([], [1]) N qs'); [|apply (cfi_run_ne _ _ _ _ R) | apply (IH _ _ _ R)].
    intros x. cbn [fst snd peval]. ring.
  - destruct (cfi_quot N D) as [[q N2]|] eqn:Q; [|discriminate]. pose proof (cfi_quot_ok _ _ _ _ Q) as Hs.
    destruct (pzerob N2) eqn:Z.
    + inversion H; subst. apply cf_last. apply (cf_step_ok_ext N D q N2 []); [|exact Hs].
      intros x. rewrite (pzerob_eval _ _ Z x). reflexivity.
    + destruct (cfi_run f D N2) as [qs'|] eqn:R; [|discriminate]. inversion H; subst.
      apply (cf_more K N D q N2 qs' Hs (cfi_run_ne _ _ _ _ R) (IH _ _ _ R)). Qed.
Theorem cfi_sound fuel (N D : poly) qs : cfi_run fuel N D = Some qs -> req (cf_rat qs) (N, D).
Proof. intros R. apply (cf_chain_sound K _ _ _ (cfi_run_chain _ _ _ _ R)). Qed.
Theorem cfi_value fuel (N D : poly) qs x : cfi_run fuel N D = Some qs -> cf_ok qs x ->
  peval D x <> 0 -> peval (snd (cf_rat qs)) x <> 0 -> cf_val qs x = peval N x / peval D x.
Proof. intros H Hok HD Hs. rewrite (cf_val_rat qs x (cfi_run_ne _ _ _ _ H) Hok).
  apply (req_eval K (cf_rat qs) (N, D) x (cfi_sound _ _ _ _ H) Hs HD). Qed.
End CF.
Arguments cfi_run {K}. Arguments cfi_quot {K}. Arguments lowidx {K}. Arguments lowcoef {K}.
Arguments cf_run {K}. Arguments cf_coeffs {K}. Arguments cf_val {K}. Arguments cf_quot {K}. Arguments low_zero {K}.
