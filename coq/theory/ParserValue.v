(* C06 — engineering suffixes (lcapy/valueparser.py value_parser).
     suffix_value   value_parser table (m ++ [suf]) = VScaled m k  for every entry (suf, k) of
                    the table and every decimal literal m
     suffix_K       the alias K -> k *)
From Coq Require Import List Ascii Bool Arith Lia ZArith.
From Coq Require String.
Import String.StringSyntax.
From LT Require Import ParserStr ParserModel.
Import ListNotations.
Local Open Scope string_scope.
Local Open Scope list_scope.
Local Open Scope nat_scope.

Definition cg : ascii := "g"%char.  Definition cK : ascii := "K"%char.  Definition ck : ascii := "k"%char.
Definition table_ok (table : list (ascii * Z)) : bool :=
  forallb (fun kv => negb (aeqb (fst kv) cg) && negb (aeqb (fst kv) cK)) table.

Lemma is_float_nonnil m : is_float m = true -> m <> [].
Proof. intros H E. subst. discriminate. Qed.
Lemma last_snoc (m : str) a d : last (m ++ [a]) d = a.
Proof. induction m as [|x m IH]; [reflexivity|]. cbn [app]. destruct (m ++ [a]) eqn:E; [destruct m; discriminate|]. exact IH. Qed.
Lemma drop_last_snoc1 (v : str) a : drop_last 1 (v ++ [a]) = v.
Proof.
  unfold drop_last. rewrite app_length. cbn [length]. replace (length v + 1 - 1) with (length v) by lia.
  rewrite firstn_app, Nat.sub_diag, firstn_all. cbn. apply app_nil_r.
Qed.
Lemma ends_with_snoc p0 p (m : str) a : ends_with (p ++ [p0]) (m ++ [a]) = aeqb p0 a && ends_with p m.
Proof. unfold ends_with. rewrite !rev_app_distr. reflexivity. Qed.
Lemma find_in_table (table : list (ascii * Z)) suf k :
  find (fun kv => aeqb (fst kv) suf) table = Some (suf, k) -> table_ok table = true ->
  aeqb cg suf = false /\ aeqb cK suf = false.
Proof.
  intros Hf Ht. apply find_some in Hf as [Hin _]. unfold table_ok in Ht. rewrite forallb_forall in Ht.
  specialize (Ht _ Hin). cbn [fst] in Ht. apply andb_true_iff in Ht as [H1 H2]. apply negb_true_iff in H1, H2.
  rewrite (aeqb_sym cg), (aeqb_sym cK). now split.
Qed.

(* THEOREM suffix_value *)
Theorem suffix_value mc kc table m suf k :
  table_ok table = true -> find (fun kv => aeqb (fst kv) suf) table = Some (suf, k) ->
  is_float m = true -> value_parser mc kc table (m ++ [suf]) = VScaled m k.
Proof.
  intros Ht Hf Hm. pose proof (is_float_nonnil m Hm) as Hne. destruct (find_in_table table suf k Hf Ht) as [Ng NK].
  unfold value_parser. rewrite app_length. cbn [length].
  destruct (Nat.ltb_spec (length m + 1) 2) as [L|_]; [destruct m; [contradiction|cbn in L; lia]|].
  change (s2l "Meg") with ([ch 77; ch 101] ++ [cg]). rewrite ends_with_snoc, Ng. cbn [andb].
  change [ch 75] with ([] ++ [cK]). rewrite ends_with_snoc, NK. cbn [andb].
  rewrite last_snoc, drop_last_snoc1.
  assert (F : find (fun kv : ascii * Z => aeqb (fst kv) suf) table = Some (suf, k)) by exact Hf.
  rewrite F. now rewrite Hm.
Qed.
(* THEOREM suffix_K: a trailing K is read as k *)
Theorem suffix_K mc table m k :
  find (fun kv => aeqb (fst kv) ck) table = Some (ck, k) -> is_float m = true ->
  value_parser mc 1 table (m ++ [cK]) = VScaled m k.
Proof.
  intros Hf Hm. pose proof (is_float_nonnil m Hm) as Hne.
  unfold value_parser. rewrite app_length. cbn [length].
  destruct (Nat.ltb_spec (length m + 1) 2) as [L|_]; [destruct m; [contradiction|cbn in L; lia]|].
  change (s2l "Meg") with ([ch 77; ch 101] ++ [cg]). rewrite ends_with_snoc. change (aeqb cg cK) with false. cbn [andb].
  change [ch 75] with ([] ++ [cK]). rewrite ends_with_snoc, aeqb_refl. cbn [andb]. change (ends_with [] m) with (starts_with [] (rev m)).
  cbn [starts_with]. rewrite drop_last_snoc1. change [ch 107] with [ck]. rewrite last_snoc, drop_last_snoc1.
  rewrite Hf. now rewrite Hm.
Qed.

(* THEOREM suffix_Meg: a trailing Meg is read as M, provided the rewrite cuts the three letters *)
Definition cM : ascii := "M"%char.
Lemma drop_last_3 (m : str) a b c : drop_last 3 (m ++ [a; b; c]) = m.
Proof.
  unfold drop_last. rewrite app_length. cbn [length]. replace (length m + 3 - 3) with (length m) by lia.
  rewrite firstn_app, Nat.sub_diag, firstn_all. cbn. apply app_nil_r.
Qed.
Theorem suffix_Meg kc table m k :
  find (fun kv => aeqb (fst kv) cM) table = Some (cM, k) -> is_float m = true ->
  value_parser 3 kc table (m ++ s2l "Meg") = VScaled m k.
Proof.
  intros Hf Hm. pose proof (is_float_nonnil m Hm) as Hne.
  unfold value_parser. rewrite app_length. change (length (s2l "Meg")) with 3.
  destruct (Nat.ltb_spec (length m + 3) 2) as [L|_]; [lia|].
  assert (E : ends_with (s2l "Meg") (m ++ s2l "Meg") = true).
  { unfold ends_with. rewrite rev_app_distr. apply starts_with_app. }
  rewrite E. change (s2l "Meg") with [cM; ch 101; cg]. rewrite drop_last_3. change [ch 77] with [cM].
  rewrite last_snoc, drop_last_snoc1, Hf. now rewrite Hm.
Qed.
