"""C05 - behaviour-preserving netlist rewrites leave retained voltages/currents unchanged.

  prove      theory/RewriteEquiv.v   port_sim / port_equiv, replace_preserves_phys(_o)
             theory/RewriteBranch.v  chain_sim_o (series), par_norton_equiv, par_bz_sim (parallel)
             theory/RewriteMore.v    converses (loop_esum_necessary, par_norton_necessary), dangling, renumbering
             theory/RewriteSem.v     combine_series_equiv / combine_parallel_equiv (+ _unchanged, _refuted),
                                     perm_invariant(_refuted), s_model_equiv, noisy_killed_equiv,
                                     dangling_removal_sound, renumber_iso, rewrite_preserves_phys
             props/C05.v             model on the DESIGN reproducers, switch_replace_noevent, switch_before_refuted
                                     closed_chain_exact, closed_chain_combine_sound (chains whose two ends coincide)
  correspond theory/RewriteModel.v (hand model H of simplify / renumber / s_model / noisy / switches) is
             evaluated inside Coq on the inputs the real code ran on (tools/impl_rewrite.py), for the
             enumeration order Python actually used (4 PYTHONHASHSEED values per simplify case), and the
             rewritten netlists are compared element by element; the contracts of in_series /
             in_parallel / _find_combine_subsets are checked on every recorded answer
  search     independent oracle: Lcapy solutions of the original and the rewritten circuit at a rational
             point (every surviving component keeps V and I, every retained node keeps its potential)
"""
import json
import os
import random
import re
import sys
from fractions import Fraction

sys.path.insert(0, os.path.dirname(os.path.dirname(os.path.abspath(__file__))))
from vlib import core
from vlib import rewritegen as G
from vlib import rewriteenc as E

PID = 'C05'
MANIFEST = {
    'text': 'Coq theory of netlist fragments "as seen from the rest of the circuit" over the physical semantics of Circuit.v '
            '(drawn_RC/drawn_L/drawn_V/drawn_I): port_sim/port_equiv, replace_preserves_phys; series chains (chain_sim_o: equal '
            'Thevenin sums signed by orientation <=> same port behaviour and same chain current) and parallel groups '
            '(par_norton_equiv, par_bz_sim) for arbitrary length, orientation and characteristic-0 field; on top of them, about the '
            'hand model of _do_simplify_combine: combine_series_equiv / combine_parallel_equiv at full strength for the '
            'orientation-aware variant, the exact side conditions under which the unchanged tree is right, and refutation '
            'theorems for the rest (F3 polarity, F4 initial-condition sum, dependence on the enumeration order); '
            'dangling_removal_sound, renumber_iso, s_model_equiv, noisy_killed_equiv, switch_replace_noevent; the orientation rule a '
            'combination has to satisfy is stated once (series_rule / parallel_rule) with series_rule_repaired, series_rule_unchanged '
            '(exact side conditions) and series_rule_violated / parallel_rule_violated; closed chains (isolated loops): '
            'closed_chain_exact (iff) and closed_chain_combine_sound (whole netlist).  The model is tied '
            'to the code by evaluating it inside Coq on what the real code did, for the set-enumeration order actually used.',
    'note': 'Trusted: Coq kernel/vm_compute; specification coq/theory/Circuit.v; hand model coq/theory/RewriteModel.v validated by '
            'correspondence on every run (simplify incl. namer, wires, dangling/disconnected removal, select/ignore/keep_nodes/passes; '
            'renumber incl. a model of augment_node_map on structured node names (partial maps, numeral targets inside/above the pool of fresh '
            'numbers, symbolic, wires) and the contract of the node map used (injective on nodes and equipotential classes, reference node '
            'fixed, requested pairs honoured), copy, expand, subs, s_model, noisy+kill_noise, replace_switches[_before]); in_series/in_parallel/'
            '_find_combine_subsets and set enumeration order are recorded oracles whose contract is checked per answer; '
            'series_combine_sound / parallel_combine_sound lift the chain theorems to whole netlists from the boolean facts the '
            'contract check computes (walk on node names, private degree-2 joints, distinct names); they apply directly when the '
            'recorded chain is a chain on node NAMES (counted per run), groups that only close through wires are covered by '
            'correspondence and the electrical oracle; ac_model(omega) = s_model(j omega) is evaluated over the Gaussian rationals '
            '(RewriteCorrI.v: impedances at j omega, sources left as transforms in s) and compared with the code, without an electrical '
            'oracle (the result mixes phasor impedances with Laplace sources; s_model_equiv covers it for arbitrary fields); '
            'noise_model() is compared structurally (the symbolic value sqrt(4 k_B T R) is not); expand is checked as the identity '
            '(no expandable components are generated).  Closed chains (both ends of the chain are one node; degenerate case: an isolated '
            'pair that is in series and in parallel, which simplify() series-combines and shorts) are generated on purpose; '
            'closed_chain_combine_sound is series_combine_sound without any distinct-ends hypothesis, closed_chain_exact says that for them '
            'equal source sums are necessary and sufficient; the private joints are not retained nodes (the rewrite shorts them), the loop '
            'current is: the oracle compares the current of the combined element with that of the member it replaces.',
    'technique': 'Coq proof (port equivalence, series/parallel combination, converses) + hand model evaluated in Coq against the real '
                 'rewrites under 4 hash seeds + electrical solve-and-compare oracle',
}

THEORY = ['FieldSec', 'Circuit', 'RewriteEquiv', 'RewriteBranch', 'RewriteMore', 'RewriteModel', 'RewriteKeyed', 'RewriteSem', 'RewriteCorr', 'RewriteRenum', 'QcI', 'RewriteCorrI']
HASHSEEDS = [0, 1, 2, 3]
TAGS = {1: 'polarity:V', 2: 'polarity:I', 3: 'polarity:ic:C-series', 4: 'polarity:ic:L-parallel', 5: 'ic-sum:L-series',
        6: 'ic-sum:C-parallel', 7: 'ic-mixed:C-series', 8: 'ic-mixed:L-parallel', 9: 'kw-mixed',
        10: 'polarity:ic:C-parallel', 11: 'polarity:ic:L-series'}
CODES = {1: 'netlists differ', 2: 'model raises, code returned', 3: 'code raised, model returns', 4: 'trace does not fit the model control flow',
         7: 'model of augment_node_map and the returned node map differ', 8: 'the node map violates its contract (injective on nodes and equipotential classes, reference node fixed, requested pairs honoured)',
         9: 'self.equipotential_nodes violates its contract'}


def log(msg):
    if os.environ.get('VERIF_VERBOSE'):
        import time as _t
        sys.stderr.write('[%s] %s\n' % (_t.strftime('%H:%M:%S'), msg))
        sys.stderr.flush()


# ---- cases -----------------------------------------------------------------------
PROBES = [
    {'netlist': ['V1 1 0 5', 'V2 1 2 3', 'R1 2 0 2'], 'op': 'simplify', 'args': {}, 's0': '2', 'tags': ['probe', 'F3']},
    {'netlist': ['V1 1 0 step 5', 'R1 1 2 2', 'C1 2 0 3 4', 'C2 2 0 5 4'], 'op': 'simplify', 'args': {}, 's0': '2', 'tags': ['probe', 'F4']},
]
CORPUS = [
    # one directed reproducer per known defect class (and some that must stay right)
    {'netlist': ['I1 1 0 2', 'I2 0 1 3', 'R1 1 0 2'], 'op': 'simplify', 'args': {}, 's0': '2', 'tags': ['corpus', 'polarity:I']},
    {'netlist': ['V1 1 0 step 5', 'R1 1 2 2', 'C1 2 3 3 1', 'C2 0 3 5 2'], 'op': 'simplify', 'args': {}, 's0': '3/2', 'tags': ['corpus', 'polarity:ic:C-series']},
    {'netlist': ['V1 1 0 step 5', 'R1 1 2 2', 'L1 2 0 3 1', 'L2 0 2 5 2'], 'op': 'simplify', 'args': {}, 's0': '3/2', 'tags': ['corpus', 'polarity:ic:L-parallel']},
    {'netlist': ['V1 1 0 step 5', 'R1 1 2 2', 'C1 2 0 3 4', 'C2 0 2 5 4'], 'op': 'simplify', 'args': {}, 's0': '3/2', 'tags': ['corpus', 'polarity:ic:C-parallel']},
    {'netlist': ['V1 1 0 step 5', 'R1 1 2 2', 'L1 2 3 3 2', 'L2 0 3 5 2'], 'op': 'simplify', 'args': {}, 's0': '3/2', 'tags': ['corpus', 'polarity:ic:L-series']},
    {'netlist': ['V1 1 0 step 5', 'R1 1 2 2', 'L1 2 3 3 2', 'L2 3 0 5 2'], 'op': 'simplify', 'args': {}, 's0': '3/2', 'tags': ['corpus', 'ic-sum:L-series']},
    {'netlist': ['V1 1 0 step 5', 'R1 1 2 2', 'C1 2 3 3', 'C2 3 0 5 4'], 'op': 'simplify', 'args': {}, 's0': '3/2', 'tags': ['corpus', 'ic-mixed:C-series']},
    {'netlist': ['V1 1 0 step 5', 'R1 1 2 2', 'L1 2 0 3', 'L2 2 0 5 2'], 'op': 'simplify', 'args': {}, 's0': '3/2', 'tags': ['corpus', 'ic-mixed:L-parallel']},
    {'netlist': ['V1 a b 10', 'R1 a 0 1', 'R2 0 b 1', 'R3 a b 5'], 'op': 'simplify', 'args': {}, 's0': '2', 'tags': ['corpus', 'series-through-ground']},
    {'netlist': ['V1 1 0 5', 'R1 1 2 1', 'R2 2 0 1', 'E1 3 0 2 0 10', 'R3 3 0 1'], 'op': 'simplify', 'args': {}, 's0': '2', 'tags': ['corpus', 'series-interior-sensed']},
    {'netlist': ['V1 1 0 6', 'R1 1 2 1', 'R2 2 0 2', 'W 2 5', 'E1 3 0 5 0 2', 'R3 3 0 1'], 'op': 'simplify', 'args': {}, 's0': '2', 'tags': ['corpus', 'sensed-through-alias']},
    {'netlist': ['V1 1 0 6', 'R1 1 2 1', 'R2 2 3 2', 'R3 3 0 3', 'W 2_1 2', 'W z7 3', 'G1 4 0 2_1 z7 2', 'R4 4 0 1'], 'op': 'simplify', 'args': {}, 's0': '2', 'tags': ['corpus', 'sensed-through-alias']},
    {'netlist': ['V1 1 0 step 5', 'R1 1 2 2', 'R2 2 3 3', 'R3 3 0 4', 'R4 1 4 1', 'R5 4 0 2'], 'op': 'simplify', 'args': {}, 's0': '2', 'tags': ['corpus', 'ok']},
    {'netlist': ['V1 1 0 step 5', 'R1 1 2 2', 'C1 2 3 3 1', 'C2 3 0 5 2', 'L1 2 0 3 1', 'L2 2 0 5 2'], 'op': 'simplify', 'args': {}, 's0': '3/2', 'tags': ['corpus', 'ok']},
    {'netlist': ['V1 1 0 step 5', 'R1 1 2 2', 'C2 2 0 2'], 'op': 'renumber', 'args': {}, 's0': '2', 'tags': ['corpus', 'renumber:none-arg']},
    {'netlist': ['V1 1 0 step 5', 'R1 1 2 2', 'C2 2 0 2 1', 'L1 2 3 1 2', 'R2 3 0 1'], 'op': 'renumber', 'args': {'node_map': {'1': '7', '2': 'a'}}, 's0': '2', 'tags': ['corpus', 'ok']},
    {'netlist': ['V1 a 0 6', 'R1 a b 1', 'R2 b c 2', 'R3 c 0 3'], 'op': 'renumber', 'args': {'node_map': {'a': '2'}}, 's0': '2', 'tags': ['corpus', 'renumber_partial_small']},
    {'netlist': ['V1 1 0 6', 'R1 1 2 1', 'R2 2 3 2', 'R3 3 0 3', 'W 3 3_1', 'R4 3_1 0 2'], 'op': 'renumber', 'args': {'node_map': {'3_1': '1', '1': 'x'}}, 's0': '2', 'tags': ['corpus', 'renumber_partial_wire']},
    {'netlist': ['V1 1 0 step 5', 'R1 1 2 2', 'C1 2 3 3 4', 'L1 3 0 5 1', 'R2 3 0 7', 'C2 2 0 2', 'L2 2 0 3'], 'op': 's_model', 'args': {}, 's0': '3/2', 'tags': ['corpus', 'ok']},
    {'netlist': ['V1 1 0 step 5', 'R1 1 2 2', 'C1 2 3 3 4', 'L1 3 0 5 1', 'R2 3 0 7', 'C2 2 0 2', 'L2 2 0 3', 'I1 2 0 step 2'], 'op': 'ac_model', 'args': {'omega': '3/2'}, 'orig_s_imag': '3/2', 's0': '5/3', 'tags': ['corpus', 'ok']},
    {'netlist': ['V1 1 0 step 5', 'R1 1 2 2', 'C1 2 0 3', 'R2 2 0 7'], 'op': 'noisy', 'args': {}, 's0': '3/2', 'tags': ['corpus', 'ok']},
    {'netlist': ['V1 1 0 step 5', 'R1 1 2 2', 'C1 2 0 3', 'R2 2 0 7'], 'op': 'noisy_kill', 'args': {}, 's0': '3/2', 'tags': ['corpus', 'ok']},
    {'netlist': ['V1 1 0 5', 'SW1 1 2 no 5', 'R1 2 0 3', 'SW2 2 3 nc 2', 'R2 3 0 1'], 'op': 'switch_before', 'args': {'t': '3'}, 's0': '2', 'tags': ['corpus', 'replace_switches_before:inverted']},
    {'netlist': ['V1 1 0 5', 'SW1 1 2 no 5', 'R1 2 0 3', 'SW2 2 3 nc 2', 'R2 3 0 1'], 'op': 'switch_before', 'args': {'t': '5'}, 's0': '2', 'tags': ['corpus', 'switch']},
    {'netlist': ['V1 1 0 5', 'SW1 1 2 no 5', 'R1 2 0 3', 'SW2 2 3 nc 2', 'R2 3 0 1'], 'op': 'switch', 'args': {'t': '3'}, 's0': '2', 'tags': ['corpus', 'switch']},
    # closed chains (both ends of the chain are one node); the first is the degenerate pair that is in series AND in parallel
    {'netlist': ['V1 1 0 step 5', 'R1 1 0 2', 'C1 2 0 3 1', 'C2 2 0 5 1'], 'op': 'simplify', 'args': {}, 's0': '3/2', 'tags': ['corpus', 'closed_loop'],
     'loop': {'at': '0', 'members': ['C1', 'C2'], 'type': 'C', 'len': 2}},
    {'netlist': ['V1 1 0 step 5', 'R1 1 0 2', 'C1 2 0 3 1', 'C2 2 3 5 2', 'C3 3 0 2 1'], 'op': 'simplify', 'args': {}, 's0': '3/2', 'tags': ['corpus', 'closed_loop'],
     'loop': {'at': '0', 'members': ['C1', 'C2', 'C3'], 'type': 'C', 'len': 3}},
    {'netlist': ['V1 1 0 step 5', 'R1 1 0 2', 'R2 2 1 3', 'V2 3 2 step 4', 'R3 1 3 5'], 'op': 'simplify', 'args': {}, 's0': '3/2', 'tags': ['corpus', 'closed_loop'],
     'loop': {'at': '1', 'members': ['R2', 'R3'], 'type': 'R', 'len': 3}},
    {'netlist': ['V1 1 0 step 5', 'R1 1 0 2', 'L1 2 1 3 0', 'L2 2 1 5 0'], 'op': 'simplify', 'args': {'keep_nodes': ['0', '2']}, 's0': '3/2', 'tags': ['corpus', 'closed_loop'],
     'loop': {'at': '1', 'members': ['L1', 'L2'], 'type': 'L', 'len': 2}},
]


def gen_cases(rng, tier):
    n_simpl = int(os.environ.get('VERIF_NCASES', 30 if tier == 'quick' else 260))
    cases = []
    for i in range(n_simpl):
        pol = rng.choice(['same', 'same', 'same', 'mixed'])
        icm = rng.choice(['none', 'none', 'equal', 'unequal', 'partial'])
        nl = G.gen_netlist(rng, pol, icm, 'same', extras=rng.random() < 0.6)
        args = G.gen_simplify_args(rng, nl['lines'], 'default' if i % 3 == 0 else 'rand')
        cases.append({'netlist': nl['lines'], 'tags': nl['tags'], 'op': 'simplify', 'args': args,
                      's0': '%d/%d' % (rng.randint(1, 9), rng.randint(1, 4))})
    n_other = 3 if tier == 'quick' else 16
    for i in range(n_other):
        for op in ('renumber', 'renumber_map', 'copy', 'expand', 's_model', 'ac_model', 'noisy_kill', 'noisy', 'subs'):
            icm = 'unequal' if op in ('s_model', 'ac_model', 'renumber', 'renumber_map') and rng.random() < 0.7 else 'none'
            nl = G.gen_netlist(rng, 'mixed', icm, 'same', extras=False, small=True, kw='step' if op in ('s_model', 'ac_model') else None)
            lines = nl['lines']
            if op in ('noisy_kill', 'noisy'):
                # RC._noisy names the noiseless resistor N<name>: a user component of that name would be overwritten
                # (acknowledged in the source); keep the generated names apart
                lines = [l for l in lines if not l.startswith('NR')] or lines
            if op in ('renumber', 'renumber_map', 'copy') and rng.random() < 0.5:
                lines = G.add_wire_split(rng, lines)
            c = {'netlist': lines, 'tags': nl['tags'] + [op], 'op': op, 'args': {}, 's0': '%d/%d' % (rng.randint(1, 9), rng.randint(1, 4))}
            if op == 'renumber_map':
                c['op'] = 'renumber'
                c['args'] = {'node_map': G.gen_node_map(rng, lines, rng.choice(['small', 'big', 'sym', 'mixed']))}
            if op == 'ac_model':
                c['args'] = {'omega': '%d/%d' % (rng.randint(1, 9), rng.randint(1, 4))}
                c['orig_s_imag'] = c['args']['omega']
            if op == 'subs':
                c['netlist'], c['point'] = G.symbolise(rng, lines)
                c['args'] = {'subs': c['point']}
            cases.append(c)
    # renumber with partial maps: numeral targets inside / above the range of fresh numbers, symbolic, mixed; with wires
    for i in range(12 if tier == 'quick' else 80):
        nl = G.gen_netlist(rng, 'mixed', rng.choice(['none', 'unequal']), 'same', extras=False, small=rng.random() < 0.5)
        lines = nl['lines']
        for _ in range(rng.choice([0, 0, 1, 2])):
            lines = G.add_wire_split(rng, lines)
        mode = ['small', 'small', 'mixed', 'big', 'sym', 'small'][i % 6]
        cases.append({'netlist': lines, 'tags': nl['tags'] + ['renumber_map_' + mode], 'op': 'renumber',
                      'args': {'node_map': G.gen_node_map(rng, lines, mode)}, 's0': '%d/%d' % (rng.randint(1, 9), rng.randint(1, 4))})
    n_sw = 8 if tier == 'quick' else 40
    for i in range(n_sw):
        cases.append(G.gen_switch_case(rng))
    # closed chains hung on one node (appended last: the cases above stay what they were for every seed)
    for i in range(8 if tier == 'quick' else 70):
        nl = G.gen_netlist(rng, 'mixed', rng.choice(['none', 'none', 'unequal']), 'same', extras=False, small=True, kw='step')
        lines, info = G.add_closed_loop(rng, nl['lines'])
        args = {} if i % 2 == 0 else G.gen_simplify_args(rng, lines, 'rand')
        cases.append({'netlist': lines, 'tags': nl['tags'] + ['closed_loop', 'closed_loop_%s%d' % (info['type'], info['len'])], 'op': 'simplify',
                      'args': args, 'loop': info, 's0': '%d/%d' % (rng.randint(1, 9), rng.randint(1, 4))})
    return cases


# ---- Coq cases file ------------------------------------------------------------------
HEADER = ('Require Import LT.FieldSec LT.QcI LT.RewriteModel LT.RewriteCorr LT.RewriteRenum LT.RewriteCorrI.\n'
          'From Coq Require Import List Arith. Import ListNotations.\nLocal Open Scope nat_scope.\n')


def simplify_defs(tag, case, wr):
    """Coq definitions for one simplify run; returns (defs text, args term) or None"""
    enc = E.Enc(wr['orig'])
    net = enc.net(wr['orig'])
    g, unknown_keep = E.sargs(enc, case.get('args'), wr.get('ground'))
    tr = E.build_trace(enc, wr.get('log', []))
    exp = 'Err' if 'exc' in wr else '(Ok %s)' % enc.net(wr['new'])
    if enc.bad:
        return None, enc.bad
    d = ['Definition n_%s : list elemQ := %s.' % (tag, net),
         'Definition t_%s : list stage := %s.' % (tag, tr),
         'Definition e_%s : res (list elemQ) := %s.' % (tag, exp),
         'Definition g_%s : sargs := %s.' % (tag, g)]
    return '\n'.join(d), None


def pick_variant_text(probe_tags):
    codes = '; '.join('simplify_code v g_%s n_%s t_%s e_%s' % (t, t, t, t) for t in probe_tags)
    return ('Definition probe_codes (v : variant) : list nat := [%s].\n'
            'Definition vr : variant := match filter (fun v => forallb (Nat.eqb 0) (probe_codes v)) '
            '[unchanged_tree; repaired; Variant true false; Variant false true] with v :: _ => v | [] => unchanged_tree end.\n' % codes)


RES_RE = re.compile(r'\((\d+),\s*(\d+),\s*\((true|false),\s*(true|false),\s*(true|false),\s*(true|false),\s*\[([^\]]*)\]\)\)')


def parse_results(out):
    m = re.search(r'=\s*\[(.*)\]\s*:\s*list \(nat \* nat', out, re.S)
    if not m:
        return None
    res = {}
    for a, b, c, d, e, f, ev in RES_RE.findall(m.group(1)):
        res[int(a)] = (int(b), (c == 'true', d == 'true', e == 'true', f == 'true'),
                       [int(x.replace('%nat', '').strip()) for x in ev.split(';') if x.strip()])
    return res


def parse_variant(out):
    m = re.search(r'v_polarity := (true|false);\s*v_ic_common := (true|false)', out)
    return (m.group(1) == 'true', m.group(2) == 'true') if m else None


# ---- other operations ------------------------------------------------------------------
def other_check(idx, case, wr):
    """(defs, bool expr) for renumber / copy / expand / subs / s_model / noisy_kill; None when not applicable"""
    op = case['op']
    enc = E.Enc(wr['orig'])
    enc.cplx = op == 'ac_model'
    net = enc.net(wr['orig'])
    if 'exc' in wr and op != 'renumber':
        return None, 'raised ' + wr['exc']
    defs = ['Definition n_o%d : list %s := %s.' % (idx, 'elemI' if enc.cplx else 'elemQ', net)]
    if op in ('copy', 'expand', 'subs'):
        out = enc.net(wr['new'])
        expr = 'net_eqb n_o%d o_o%d' % (idx, idx)
    elif op == 'renumber':
        call, rec = None, None
        for ent in wr.get('log', []):
            if ent[0] == 'node_map_call':
                call = ent
            elif ent[0] == 'node_map':
                rec = ent[1]
        umap = list((case.get('args', {}).get('node_map') or {}).items())
        if call is None and 'exc' not in wr:
            rec = [[k, v] for k, v in umap]          # complete map: used as given
        syms = {}

        def nn(name):
            name = str(name)
            if re.fullmatch(r'\d+', name):
                return '(NdNum %d)' % int(name)
            m_ = re.fullmatch(r'(.+)_(\d+)', name)
            if m_:
                return '(NdSub %s %d)' % (nn(m_.group(1)), int(m_.group(2)))
            if name not in syms:
                syms[name] = len(syms)
            return '(NdSym %d)' % syms[name]
        ids = dict(enc.node_id)
        ids.setdefault('0', 0)

        def idof(name):
            if name not in ids:
                ids[name] = max(ids.values()) + 1
            return ids[name]
        for k_, v_ in (rec or []):
            idof(k_)
            idof(v_)
        for k_, v_ in umap:
            idof(v_)
        new_elems = wr.get('new', [])
        for e_ in new_elems:
            for n_ in e_['nodes']:
                idof(n_)
        enc2 = E.Enc(wr['orig'])
        enc2.node_id = ids
        out = enc2.net(new_elems)
        if enc2.bad:
            return None, enc2.bad
        tab = '[%s]' % '; '.join('(%s, %d)' % (nn(k_), v_) for k_, v_ in ids.items())
        classes = '[%s]' % '; '.join('(%s, [%s])' % (nn(k_), '; '.join(nn(x) for x in v_)) for k_, v_ in (call[2] if call else []))
        rank = '[%s]' % '; '.join(nn(x) for x in (call[3] if call else []))
        um = '[%s]' % '; '.join('(%s, %s)' % (nn(k_), nn(v_)) for k_, v_ in umap)
        recd = 'None' if rec is None or 'exc' in wr else '(Some [%s])' % '; '.join('(%s, %s)' % (nn(k_), nn(v_)) for k_, v_ in rec)
        defs.append('Definition o_o%d : list elemQ := %s.' % (idx, out))
        expr = 'NAT:renumber_code %s n_o%d o_o%d %s %s %s %s %s' % (tab, idx, idx, classes, rank, um, recd, 'true' if call else 'false')
        contract = 'renumber_contract %s n_o%d o_o%d %s %s' % (tab, idx, idx, um, recd)
        return '\n'.join(defs), (expr, contract)
    elif op == 's_model':
        d0 = len(enc.node_id)
        out = enc.net(wr['new'])
        expr = 'NAT:s_model_code %s n_o%d o_o%d %d' % (E.qc(case['s0']), idx, idx, d0)
    elif op == 'ac_model':
        d0 = len(enc.node_id)
        out = enc.net(wr['new'])
        om = Fraction(case['args']['omega'])
        s0 = Fraction(case['s0'])
        expr = 'NAT:ac_model_code (qi 0 1 (%d) %d) (qi (%d) %d 0 1) n_o%d o_o%d %d' % (om.numerator, om.denominator, s0.numerator, s0.denominator, idx, idx, d0)
        if enc.bad:
            return None, enc.bad
        defs.append('Definition o_o%d : list elemI := %s.' % (idx, out))
        return '\n'.join(defs), expr
    elif op == 'noisy':
        # noise_model(): the structure (NR + noise source through a dummy node); the symbolic value sqrt(4 k_B T R) is not compared
        d0 = len(enc.node_id)
        out = enc.net(wr['new'])
        expr = 'net_eqb (@noisy QcF n_o%d %d) o_o%d' % (idx, d0, idx)
    elif op == 'noisy_kill':
        d0 = len(enc.node_id)
        out = enc.net(wr['new'])
        expr = 'noisy_kill_code n_o%d o_o%d %d' % (idx, idx, d0)
    else:
        return None, 'unsupported op'
    if enc.bad:
        return None, enc.bad
    defs.append('Definition o_o%d : list elemQ := %s.' % (idx, out))
    return '\n'.join(defs), expr


def has_none_arg(wr):
    return any(a == 'None' for e in wr.get('new', []) for a in e.get('args', []))


def switch_checks(idx, case, wr):
    """per switch: model (Coq) and independent spec (python) against the observed W / O"""
    before = case['op'] == 'switch_before'
    t = Fraction(case['args']['t'])
    exprs, spec_bad = [], []
    new = {tuple(e['nodes']): e['type'] for e in wr.get('new', []) if e['type'] in ('W', 'O')}
    for ln in case['netlist']:
        tok = ln.split()
        if not tok[0].startswith('SW'):
            continue
        nc = tok[3] == 'nc'
        T = Fraction(tok[4])
        obs = new.get((tok[1], tok[2]))
        if obs is None:
            spec_bad.append('%s not replaced' % tok[0])
            continue
        closed = obs == 'W'
        a_ = ('true' if nc else 'false', 'true' if before else 'false', E.qc(t), E.qc(T), 'true' if closed else 'false')
        exprs.append(('Bool.eqb (switch_closed_specQ %s %s %s %s) %s' % a_, 'Bool.eqb (switch_closedQ %s %s %s %s) %s' % a_))
        activated = (T < t) if before else (T <= t)
        want = (not activated) if nc else activated
        if want != closed:
            spec_bad.append('%s (%s, T=%s) at t=%s%s: %s, should be %s' % (tok[0], tok[3], T, t, ' (just before)' if before else '',
                                                                              'closed' if closed else 'open', 'closed' if want else 'open'))
    return exprs, spec_bad


# ---- run ---------------------------------------------------------------------------------
def run(tier='quick', replay=None):
    res = core.Result(PID, tier)
    rng = random.Random(core.seed() * 104729 + 5)
    core.ensure_theory(THEORY)
    w = core.Work(PID)
    violations = []
    try:
        res.trusted = ['Coq 8.16.1 kernel + vm_compute',
                       'specification coq/theory/Circuit.v (drawn_*/brel_* of each component class)',
                       'hand model coq/theory/RewriteModel.v (validated by correspondence on every run)',
                       'oracles (recorded, contract checked per answer): CircuitGraph.in_series / in_parallel, _find_combine_subsets, '
                       'set enumeration order (list(subset), subset.copy().pop()); for renumber: the dict self.equipotential_nodes and the string order used by sorted() '
                       '(augment_node_map itself is modelled in coq/theory/RewriteRenum.v and compared with the returned dict)',
                       'tools/impl_rewrite.py (re-parses netlist text, solves both circuits), vlib/rewriteenc.py (encoding, contract witness)']
        res.assumptions = ['characteristic-0 field with decidable equality; Laplace variable s <> 0 (covers transient, ivp and ac s = j omega)',
                           'a wire is an ideal 0 V branch; the waveform keyword of a source is a linear factor kwf(keyword) of its value',
                           'components other than R NR Z Y C L V I W O enter the theorems only through ext_of (they neither read nor touch private nodes)']
        # 1. proofs
        texts = {'C05.v': open(os.path.join(core.VERIF, 'coq', 'props', 'C05.v')).read()}
        w.write('C05.v', texts['C05.v'])
        bad = core.gate_text('props/C05.v', texts['C05.v'])
        for f in THEORY[2:]:
            bad += core.gate_text('theory/%s.v' % f, open(os.path.join(core.COQ_THEORY, f + '.v')).read())
        if bad:
            res.failed_obl.append(('gate', 'C05', '; '.join(bad)))
            res.obligations += 1
        log('coqc props')
        import threading
        proof_res = {}

        def prove():
            proof_res.update(core.coqc_many(w.dir, ['C05.v'], timeout=1200))
        th = threading.Thread(target=prove)
        th.start()

        # 2. implementation runs
        cases = PROBES + CORPUS + gen_cases(rng, tier)
        if replay and 'case' in replay:
            cases = PROBES + [replay['case']]
        jobs = []
        for ci, c in enumerate(cases):
            if c['op'] == 'simplify':
                for hs in HASHSEEDS:
                    jobs.append((ci, hs, dict(c, solve=False)))
            else:
                jobs.append((ci, 0, dict(c, solve=False)))
        # lay the jobs out so that job k runs under hash seed HASHSEEDS[k % 4]
        nproc = max(4, (core.NCPU // 4) * 4)
        ordered = []
        buckets = {hs: [j for j in jobs if j[1] == hs] for hs in HASHSEEDS}
        k = 0
        while any(buckets.values()):
            hs = HASHSEEDS[k % 4]
            if buckets[hs]:
                ordered.append(buckets[hs].pop(0))
            else:
                ordered.append(None)
            k += 1
        payload = [(j[2] if j else {'netlist': ['R1 1 0 1'], 'op': 'copy', 'solve': False}) for j in ordered]
        log('run impl on %d jobs' % len(payload))
        out = core.run_impl('impl_rewrite.py', payload, nproc=nproc, hashseeds=[HASHSEEDS[i % 4] for i in range(nproc)])
        runs = {}
        for j, r in zip(ordered, out):
            if j is not None:
                runs.setdefault(j[0], []).append(r)
        # 3. solve jobs: original once, every distinct rewritten text once
        solve_jobs, solve_key = [], {}
        for ci, c in enumerate(cases):
            if c['op'] in ('switch', 'switch_before', 'ac_model', 'noisy'):
                continue
            rs = [r for r in runs.get(ci, []) if 'error' not in r and 'exc' not in r and 'text' in r]
            if not rs:
                continue
            key = ('o', ci)
            solve_key[key] = len(solve_jobs)
            solve_jobs.append({'netlist': c['netlist'], 'op': 'solve_only', 's0': c['s0'], 'point': c.get('point', {})})
            for r in rs:
                key = ('n', ci, r['text'])
                if key not in solve_key:
                    solve_key[key] = len(solve_jobs)
                    solve_jobs.append({'netlist': [l for l in r['text'].split('\n') if l.strip()], 'op': 'solve_only', 's0': c['s0'],
                                       'point': c.get('point', {})})
        log('solve %d circuits' % len(solve_jobs))
        sol = core.run_impl('impl_rewrite.py', solve_jobs) if solve_jobs else []
        log('solved')

        # 4. Coq correspondence files
        probe_tags, probe_defs = [], []
        for pi in range(len(PROBES)):
            for ri, r in enumerate(runs.get(pi, [])):
                if 'error' in r:
                    continue
                tag = 'p%d_%d' % (pi, ri)
                d, badenc = simplify_defs(tag, cases[pi], r)
                if d:
                    probe_defs.append(d)
                    probe_tags.append(tag)
        prelude = HEADER + '\n'.join(probe_defs) + '\n' + pick_variant_text(probe_tags)
        items = []       # (gid, defs, expr) for simplify; expr gives (code, flags)
        meta = {}
        gid = 0
        for ci, c in enumerate(cases):
            for ri, r in enumerate(runs.get(ci, [])):
                if 'error' in r:
                    res.count('impl_error:' + r['error'].split(':')[0])
                    continue
                if c['op'] == 'simplify':
                    tag = 'c%d_%d' % (ci, ri)
                    d, badenc = simplify_defs(tag, c, r)
                    if d is None:
                        res.count('not_encodable')
                        if 'unmapped name' in str(badenc):
                            meta[gid] = ('unmapped', ci, ri, badenc)
                            gid += 1
                        continue
                    items.append((gid, d, '(%d, simplify_code vr g_%s n_%s t_%s e_%s, simplify_flags vr g_%s n_%s t_%s)' % (gid, tag, tag, tag, tag, tag, tag, tag)))
                    meta[gid] = ('simplify', ci, ri)
                    gid += 1
                elif c['op'] in ('switch', 'switch_before'):
                    exprs, spec_bad = switch_checks(gid, c, r)
                    meta[gid] = ('switch', ci, ri, spec_bad)
                    e_spec = ' && '.join(x[0] for x in exprs) if exprs else 'true'
                    e_mod = ' && '.join(x[1] for x in exprs) if exprs else 'true'
                    # 0: what the switches really do; 6: the unchanged tree's `before` test; 1: neither
                    items.append((gid, '', '(%d, (if %s then 0 else if %s then 6 else 1), (true, true, true, true, @nil nat))' % (gid, e_spec, e_mod)))
                    gid += 1
                else:
                    d, expr = other_check(gid, c, r)
                    if d is None:
                        meta[gid] = ('other_skip', ci, ri, expr)
                        gid += 1
                        continue
                    contract = 'true'
                    if isinstance(expr, tuple):
                        expr, contract = expr
                    nat_expr = expr[4:] if expr.startswith('NAT:') else '(if %s then 0 else 1)' % expr
                    items.append((gid, d, '(%d, %s, (true, %s, true, true, @nil nat))' % (gid, nat_expr, contract)))
                    meta[gid] = ('other', ci, ri)
                    gid += 1
        shards = [items[i:i + 120] for i in range(0, len(items), 120)]
        fns = []
        for si, sh in enumerate(shards):
            body = [prelude] + [d for _, d, _ in sh if d]
            body.append('Definition results := [%s].' % ';\n '.join(e for _, _, e in sh))
            body.append('Eval vm_compute in vr.')
            body.append('Eval vm_compute in results.')
            w.write('cases_%d.v' % si, '\n'.join(body))
            fns.append('cases_%d.v' % si)
        log('coqc %d case files' % len(fns))
        cr = core.coqc_many(w.dir, fns, timeout=900) if fns else {}
        th.join()
        res.coq_results(w.dir, proof_res, texts)
        for f in THEORY[2:]:
            names = core.obligations_in(open(os.path.join(core.COQ_THEORY, f + '.v')).read())
            res.obligations += len(names)
            res.discharged += len(names)
        results = {}
        variant = None
        for f, (ok, o, secs) in cr.items():
            pr = parse_results(o) if ok else None
            if pr is None:
                res.failed_obl.append(('correspondence_eval', f, o[-700:]))
                res.obligations += 1
                continue
            results.update(pr)
            variant = variant or parse_variant(o)
        res.extra['code_variant'] = {'polarity_aware': variant[0], 'ic_common': variant[1]} if variant else None
        res.extra['traces_validated_against_impl'] = len(results)

        # 5. decide
        def sol_of(key):
            i = solve_key.get(key)
            return sol[i].get('solve') if i is not None and isinstance(sol[i], dict) else None
        seen = set()

        def add(key, what, case, **kw):
            if key in seen:
                return
            seen.add(key)
            v = {'key': key, 'what': what, 'case': case}
            v.update(kw)
            violations.append(v)
        nprog = 0
        for g, m in sorted(meta.items()):
            kind, ci, ri = m[0], m[1], m[2]
            c = cases[ci]
            r = runs[ci][ri]
            code, flags, events = results.get(g, (None, None, None))
            if kind == 'unmapped':
                add('correspondence:simplify:name', 'the rewritten netlist contains a component name the model cannot produce: ' + str(m[3]),
                    c, found_input=False, rewritten=r.get('text'), correspondence='LT.RewriteModel.fresh_name')
                continue
            if kind == 'other_skip':
                res.count('skipped:%s:%s' % (c['op'], str(m[3])[:40]))
                if has_none_arg(r) or 'None' in str(m[3]):
                    pass
                else:
                    continue
            fp = c['op'] + '|' + '\n'.join(c['netlist']) + '|' + json.dumps(c.get('args', {}), sort_keys=True) + '|' + str(r.get('hashseed'))
            if kind == 'switch':
                res.add_case(fp, True, {'op': c['op'], 'netlist': c['netlist'], 't': c['args']['t']} if len(res.samples) < 2 else None)
                res.count('op_' + c['op'])
                if m[3]:
                    key = 'replace_switches_before:inverted' if c['op'] == 'switch_before' else 'oracle:switch'
                    add(key, 'switch replacement differs from the state the switches have: ' + '; '.join(m[3][:3]), c, found_input=True)
                if code not in (0, 6, None):
                    add('correspondence:switch', 'model of SW._replace_switch and implementation differ', c, found_input=False,
                        correspondence='LT.RewriteModel.switch_closed')
                if code == 6 and not m[3]:
                    add('correspondence:switch:spec', 'Coq model says the switch state is wrong but the python spec does not', c, found_input=False)
                continue
            so = sol_of(('o', ci))
            sn = sol_of(('n', ci, r.get('text'))) if 'text' in r else None
            nontriv = so is not None and 'error' not in so
            res.count('op_' + c['op'])
            if 'exc' in r:
                res.count('raised:' + r['exc'])
            for t in c.get('tags', []):
                if ri == 0:
                    res.count('tag_' + t)
            sample = None
            if len(res.samples) < 5 and 'text' in r and r['text'].split('\n') != c['netlist'] and ri == 0:
                sample = {'op': c['op'], 'args': c.get('args', {}), 'netlist': c['netlist'], 'rewritten': r['text'].split('\n')}
            res.add_case(fp, nontriv or 'exc' in r, sample)
            nprog += 1
            obad = None
            if 'new' in r and nontriv:
                co = c
                if c['op'] == 'renumber':
                    nm = dict(c.get('args', {}).get('node_map') or {})
                    for ent in r.get('log', []):
                        if ent[0] == 'node_map':
                            nm = dict(ent[1])
                    co = dict(c, node_rename=nm)
                obad = G.oracle(co, r['orig'], r['new'], so, sn, r.get('log'))
                if c.get('loop') and obad is not None:
                    lbad = G.loop_current_check(c, r, so, sn)
                    res.count('closed_chain_loop_current_' + ('not_compared' if lbad is None else 'compared'))
                    if lbad is not None and flags is not None and flags[3] and all(flags[:3]) and not events:
                        res.count('closed_chain_meeting_all_theorem_preconditions')
                    obad = obad + (lbad or [])
            tags = []
            if kind == 'simplify' and flags is not None:
                tags = ['simplify:' + TAGS[e] for e in sorted(set(events))]
                if not flags[1]:
                    tags.append('simplify:series-interior-sensed' if G.sensed_interior(r) else 'simplify:oracle-contract')
                if not flags[2]:
                    tags.append('simplify:series-through-ground')
                if not flags[0]:
                    tags.append('simplify:find-combine-subsets-contract')
                if not flags[3]:
                    res.count('theorem_not_directly_applicable(wires)')
                if all(flags[:3]) and not events:
                    res.count('cases_meeting_all_theorem_preconditions')
            if c['op'] == 'renumber' and has_none_arg(r):
                tags.append('renumber:none-arg')
            if c['op'] == 'renumber' and flags is not None and not flags[1]:
                tags.append('oracle-contract:augment_node_map')
                add('oracle-contract:augment_node_map', 'renumber: ' + CODES[8], c, found_input=bool(obad), rewritten=r.get('text'),
                    diff=(obad or [])[:6], correspondence='LT.RewriteRenum.nodemap_ok')
            if c['op'] in ('s_model', 'ac_model') and code == 5:
                tags.append('s_model:L-ic-dc')
                code = 0
            if obad:
                res.counterexamples.append({'case': c, 'diff': obad[:4], 'hashseed': r.get('hashseed')})
                if tags:
                    for tg in tags:
                        add(tg, 'rewritten circuit differs electrically from the original (%s): %s' % (tg, '; '.join(d[1] for d in obad[:2])),
                            c, found_input=True, rewritten=r.get('text'), hashseed=r.get('hashseed'), diff=obad[:6])
                else:
                    add('oracle:%s:unexplained' % c['op'], 'rewritten circuit differs electrically from the original and no known '
                        'precondition fails: ' + '; '.join(d[1] for d in obad[:2]), c, found_input=True, rewritten=r.get('text'),
                        hashseed=r.get('hashseed'), diff=obad[:6])
            if code not in (0, None):
                if c['op'] == 'renumber' and has_none_arg(r):
                    add('renumber:none-arg', 'renumber() prints an absent argument as the string None: the renumbered capacitor / '
                        'inductor / source gets a spurious symbolic argument', c, found_input=bool(obad), rewritten=r.get('text'))
                elif c['op'] == 'renumber' and code == 9:
                    add('oracle-contract:equipotential_nodes',
                        'renumber: %s' % CODES[code], c, found_input=bool(obad), rewritten=r.get('text'), diff=(obad or [])[:6],
                        correspondence='LT.RewriteRenum.nodemap_ok')
                else:
                    res.disagreements.append({'case': c, 'code': code, 'hashseed': r.get('hashseed')})
                    add('correspondence:%s:%s' % (c['op'], code), 'model and implementation differ on %s (%s)' % (c['op'], CODES.get(code, code)),
                        c, found_input=bool(obad), hashseed=r.get('hashseed'), rewritten=r.get('text'), exc=r.get('exc'),
                        correspondence='LT.RewriteCorr.simplify_code' if c['op'] == 'simplify' else 'LT.RewriteCorr.*_code')
            if kind == 'other_skip' and has_none_arg(r):
                add('renumber:none-arg', 'renumber() prints an absent argument as the string None: the renumbered capacitor / '
                    'inductor / source gets a spurious symbolic argument', c, found_input=bool(obad), rewritten=r.get('text'))
        # order dependence across hash seeds (reported through the tags above); count it
        for ci, c in enumerate(cases):
            texts_ = {r.get('text') for r in runs.get(ci, []) if 'text' in r}
            if len(texts_) > 1:
                res.count('outputs_differ_across_hash_seeds')
        if replay and 'case' in replay:
            ci = len(PROBES)
            c = cases[ci]
            print('REPLAY case: op=%s args=%s netlist=%s' % (c['op'], json.dumps(c.get('args', {})), ' | '.join(c['netlist'])))
            for g, m in sorted(meta.items()):
                if m[1] != ci:
                    continue
                r = runs[ci][m[2]]
                code, flags, events = results.get(g, (None, None, None))
                print('REPLAY implementation (PYTHONHASHSEED=%s): %s' % (r.get('hashseed'), ('raised ' + r['exc']) if 'exc' in r else r.get('text', '').replace('\n', ' | ')))
                print('REPLAY model: code=%s (%s) contracts(subsets,in_series/in_parallel,no-ground-inside,chain-on-node-names)=%s failed-preconditions=%s'
                      % (code, 'agrees' if code == 0 else CODES.get(code, {5: 'agrees with the unchanged-tree model', 6: 'agrees with the unchanged-tree model'}.get(code, '?')),
                         flags, [TAGS.get(e, e) for e in (events or [])]))
                if m[0] == 'switch':
                    print('REPLAY oracle (switch state spec): %s' % (m[3] or 'agrees'))
                else:
                    so = sol_of(('o', ci))
                    sn = sol_of(('n', ci, r.get('text'))) if 'text' in r else None
                    if 'new' in r and so is not None and 'error' not in so:
                        co = c
                        if c['op'] == 'renumber':
                            nm = dict(c.get('args', {}).get('node_map') or {})
                            for ent in r.get('log', []):
                                if ent[0] == 'node_map':
                                    nm = dict(ent[1])
                            co = dict(c, node_rename=nm)
                        print('REPLAY oracle (solve both circuits): %s' % (G.oracle(co, r['orig'], r['new'], so, sn, r.get('log')) or 'retained voltages and currents agree'))
                        if c.get('loop'):
                            lb = G.loop_current_check(c, r, so, sn)
                            print('REPLAY oracle (closed chain, current of the combined element vs the member it replaces): %s'
                                  % ('not compared' if lb is None else (lb or 'agree')))
                    else:
                        print('REPLAY oracle: not comparable (original unsolvable or the rewrite raised)')
        res.programs = nprog
        res.rule = ('netlists built from a random skeleton whose edges are expanded into series chains (2-4 elements, like elements R/NR/C/L/V/Z/Y '
                    'with foreign elements in between) and parallel groups (R/NR/C/L/I/Y/Z), random orientation per element, initial conditions '
                    'none/equal/unequal/partial, dangling and disconnected parts, wire-split nodes, a VCVS; random select/ignore/keep_nodes/passes/'
                    'series/parallel/dangling/disconnected; every simplify case under PYTHONHASHSEED 0..3; plus renumber (with and without map), '
                    'copy, expand, subs, s_model, noisy+kill_noise, replace_switches[_before] around the activation times and a fixed corpus; '
                    'closed chains of 2-3 like elements (R/C/L/Z/Y/V, any orientation, initial conditions none/equal/unequal/partial/zero, '
                    'sometimes a foreign element inside) hung on a random node; '
                    'non-trivial = the original circuit was solvable (or the rewrite raised); distinct = distinct (op, netlist, args, hash seed)')
        for name, f, msg in res.failed_obl:
            add('obligation:' + name, 'Coq obligation %s in %s no longer checks' % (name, f), None, theorem=name, file=f, message=msg, found_input=False)
        return core.finish(res, violations)
    finally:
        if not os.environ.get('VERIF_KEEP'):
            w.cleanup()


if __name__ == '__main__':
    sys.exit(run(sys.argv[1] if len(sys.argv) > 1 else 'quick'))
