"""C07 - network algebra (one-ports, two-port sections) agrees with netlist analysis.

  translate  lcapy/oneport.py leaf classes      -> Gen/OnePortGen.v   (tools/tr_oneport.py)
             lcapy/twoport.py section layer     -> Gen/SectionsGen.v  (tools/tr_sections.py, on top of tr_twoport.py)
  prove      theory/OnePort.v     oneport_sem (induction on the tree), code_eq_spec, corollaries
             theory/OnePortNet.v  netlist_of_tree_sem (emitted netlist, restricted to its terminals = sem tree)
             theory/Sections.v    cascade/parallel/series/hybrid connections, ladder_sem_gen (induction on the list)
             props/C07.v          leaf_phys_<Class>: the regenerated table is the text-book law of each class
             props/C07simp.v      combine_sound, simplify_preserves
             generated            leaf_guard_sound_<Class>, C07_oneport_code, nf_*, section_sem_<K>_<ctor>,
                                  section_sem_<Class>, chain_sem, ladder_sem_<Class>
  correspond random one-port trees / two-port compositions through the real classes (tools/impl_oneport.py):
             Z, Y, Voc, Isc, the emitted netlist, simplify() and the section matrices vs the model,
             evaluated inside Coq over Qc (cases_*.v, vm_compute), failing indices printed
  search     exact oracle independent of the model: algebra route vs netlist route vs a text-book
             series/parallel evaluator in Fractions; simplify() must preserve the four quantities;
             section constructors / network classes vs text-book chain matrices
"""
import json
import os
import random
import re
import sys
from fractions import Fraction

sys.path.insert(0, os.path.dirname(os.path.dirname(os.path.abspath(__file__))))
from vlib import core
sys.path.insert(0, os.path.join(core.VERIF, 'tools'))
import tr_oneport as TO
import tr_sections as TSEC
import tr_stamps as TST
import tr_netmake as TNM
import tr_probes as TPR
from checks import c08, c07gen

PID = 'C07'
MANIFEST = {
    'text': 'Coq theorems: for every admissible one-port tree (no ideal V shunted, no ideal I in series, divisions defined) the '
            'terminal relation of the physical network (series: same current, voltages add; parallel: same voltage, currents add; '
            'leaves by their text-book laws) is exactly v = Voc - Z i with the Z, Y, Voc, Isc that the model of oneport.py reports '
            '(induction on the tree, any characteristic-0 field); the netlist emitted for a tree has the same terminal relation '
            '(induction over node threading); simplify() preserves Z, Y, Voc, Isc; every section constructor / network class of '
            'twoport.py, regenerated from the source on each run, satisfies the port relation of the physical section; Chain composes '
            'relations in signal order; Ladder/LadderAlt for every argument list by induction; the source vectors (V2b, I2b) of '
            'Series/Shunt describe the one-port placed in the section, every source conversion between the six two-port model classes '
            '(V1a..V2z from the B model, V2b/I2b from the A/G/H/Y/Z models) keeps the affine port relation, Par2/Ser2/Hybrid2/'
            'InverseHybrid2 add source vectors as the connection requires.  Leaf table, section constructors, source conversions, '
            'Chain/Par2/Ser2/Hybrid2 are translated from the source (fail-closed); the node threading of Ser/Par._net_make is '
            'executed symbolically from the source for each argument count 2..7 (2..11 thorough) and proved equal to the emitters the '
            'netlist theorem is about; control flow (fall-backs, _combine, simplify) is a hand model evaluated inside Coq against '
            'the real code on every run - over Qc at a rational s0 for transient/s-domain sources and over the Gaussian rationals at '
            's = j omega (phasor domain) for ac sources.  Netlist probes: a measurement on a two-port relation is specified (unit test source on '
            'one port, the other port open or shorted, existence and uniqueness of the reading); the formulas of NetlistOpsMixin.Aparams/Bparams/'
            'Zparams are regenerated from the source and proved to return THE A/B/Z representation of every relation that has one '
            '(probe_X_sound), in particular of a network whose port relation is the B relation of a section (probe_X_section); Gparams/Hparams/'
            'Yparams are the probe followed by the C08 conversion; for twoport(model=X) the readings stored as the source vector are proved to '
            'be the source vector of the affine X relation (twoport_src_X_sound: holds for Z; refuted for A, B, G, H, Y on the unchanged tree, '
            'with machine-checked witnesses twoport_src_X_refuted and concrete networks from the oracle).',
    'note': 'Trusted: Coq kernel/vm_compute; tools/tr_oneport.py, tr_sections.py, tr_twoport.py + statement templates in '
            'checks/c07gen.py; specifications coq/theory/OnePort.v (sem), Sections.v, TwoPort.v, Circuit.v; hand models '
            'props/C07model.v (validated by correspondence); tools/tr_netmake.py (symbolic execution of _net_make); signal transforms '
            'of source classes are opaque (C09/C14); tools/tr_probes.py (probe formulas; the except ValueError fall-backs of the probes are '
            'not modelled: they are taken when an analysis has no solution, which the theorems exclude by hypothesis); the conventions of the '
            'measurement specification in props/C07probe.v (direction of the test current, sign of Isc) are validated per run: the regenerated '
            'formulas applied to the readings of the text-book B model (meas_of_Bs, proved right in meas_of_Bs_driven_ok / _alive_ok) must '
            'reproduce what Aparams..Gparams and twoport() return on the emitted netlist; dc and noise source kinds and the physical '
            'semantics of emitted TWO-port netlists (that the netlist of a section has the section relation at its ports) are compared by '
            'the exact oracle only (no theorem).',
    'technique': 'Coq proof by induction over trees/lists on a model translated from source + in-Coq correspondence evaluation + exact three-route search oracle',
}

SQUARES = ['1/4', '9/4', '4/1', '9/1', '4/9', '25/4', '16/9', '1/9', '25/9', '49/4']
VALS = ['1', '2', '3', '4', '5', '1/2', '3/2', '2/3', '5/2', '7/3', '1/3', '6']


def F(x):
    return Fraction(x)


def fs(x):
    x = Fraction(x)
    return '%d/%d' % (x.numerator, x.denominator)


def q(x):
    return core.qc_lit(Fraction(x))


def log(msg):
    if os.environ.get('VERIF_VERBOSE'):
        import time as _t
        sys.stderr.write('[%s] %s\n' % (_t.strftime('%H:%M:%S'), msg))
        sys.stderr.flush()


# ---------------------------------------------------------------------------------------
# exact helpers
def eval_s(expr, s0):
    """value of a rational expression in s (string) at s = s0, exact, independent of lcapy"""
    import sympy as sp
    s = sp.Symbol('s')
    v = sp.sympify(expr, locals={'s': s}).subs(s, sp.Rational(s0.numerator, s0.denominator))
    v = sp.nsimplify(v)
    if not v.is_Rational:
        raise ValueError('not rational: %s' % expr)
    return Fraction(int(v.p), int(v.q))


def rpow(s0, al):
    import sympy as sp
    v = sp.Rational(s0.numerator, s0.denominator) ** sp.Rational(al.numerator, al.denominator)
    v = sp.nsimplify(v)
    if not v.is_Rational:
        raise ValueError('s0 ** alpha is not rational')
    return Fraction(int(v.p), int(v.q))


# ---------------------------------------------------------------------------------------
# leaves: class -> generator of (args for lcapy, constructor values for Coq, text-book form)
IMM = ['R', 'NR', 'G', 'NG', 'L', 'C', 'CPE', 'Y', 'Z', 'Xtal', 'FerriteBead']
VSRC_S = ['sV', 'V', 'Vstep', 'v']          # transient / s-domain kinds: one field element per quantity at s = s0
ISRC_S = ['sI', 'I', 'Istep', 'i']
VSRC_DC = ['Vdc', 'V']
ISRC_DC = ['Idc', 'I']
VSRC_AC = ['Vac']
ISRC_AC = ['Iac']
SEXPRS = ['3/(s+1)', '2/s', '1/(s+2)', '(s+1)/(s+3)', '4/(s*s+1)']
ZEXPRS = ['s+1', '2*s+3', '3/(s+2)', '(s+1)/(s+2)', '5', '1/(2*s)']
TEXPRS = [('exp(-2*t)*u(t)', '1/(s+2)'), ('3*exp(-t)*u(t)', '3/(s+1)'), ('t*u(t)', '1/(s*s)')]


def gen_leaf(rng, cls, s0, ic_prob=0.5, dc=False, acw=None):
    v = lambda: rng.choice(VALS)
    d = {'cls': cls}
    if cls in ('R', 'NR'):
        a = v(); d.update(args=[a], coq=[F(a)], tb=('T', F(0), F(a)))
    elif cls in ('G', 'NG'):
        a = v(); d.update(args=[a], coq=[F(a)], tb=('T', F(0), 1 / F(a)))
    elif cls == 'L':
        a = v(); i0 = v() if rng.random() < ic_prob else None
        if i0 is not None and rng.random() < 0.15:
            i0 = '0'
        d.update(args=[a] + ([i0] if i0 is not None else []), coq=[F(a), None if i0 is None else F(i0)],
                 tb=('T', -F(a) * F(i0 or 0), s0 * F(a)), ic=i0 is not None and F(i0) != 0)
    elif cls == 'C':
        a = v(); v0 = v() if rng.random() < ic_prob else None
        if v0 is not None and rng.random() < 0.15:
            v0 = '0'
        d.update(args=[a] + ([v0] if v0 is not None else []), coq=[F(a), None if v0 is None else F(v0)],
                 tb=('T', F(v0 or 0) / s0, 1 / (s0 * F(a))), ic=v0 is not None and F(v0) != 0)
    elif cls == 'CPE':
        k = v(); al = rng.choice(['1/2', '1'])
        d.update(args=[k, al], coq=[F(k), F(al)], tb=('T', F(0), 1 / (rpow(s0, F(al)) * F(k))))
    elif cls == 'Y':
        e = rng.choice(ZEXPRS); val = eval_s(e, s0)
        d.update(args=[e], coq=[val], tb=('N', F(0), val))
    elif cls == 'Z':
        e = rng.choice(ZEXPRS); val = eval_s(e, s0)
        d.update(args=[e], coq=[val], tb=('T', F(0), val))
    elif cls == 'Xtal':
        a = [v() for _ in range(4)]
        c0, r1, l1, c1 = [F(x) for x in a]
        zs = r1 + s0 * l1 + 1 / (s0 * c1)
        y = 1 / zs + s0 * c0
        d.update(args=a, coq=[F(x) for x in a], tb=('T', F(0), 1 / y))
    elif cls == 'FerriteBead':
        a = [v() for _ in range(4)]
        rs, rp, cp, lp = [F(x) for x in a]
        # as coded in FerriteBead.expand(): all four in series (the doc-string describes Rs + (Rp | Lp | Cp))
        d.update(args=a, coq=[F(x) for x in a], tb=('T', F(0), rs + rp + s0 * lp + 1 / (s0 * cp)))
    elif cls in VSRC_S + ISRC_S + VSRC_DC + ISRC_DC + VSRC_AC + ISRC_AC:
        typ = 'T' if cls[0] in 'Vv' or cls == 'sV' else 'N'
        base = cls.lstrip('s') if cls in ('sV', 'sI') else cls
        if cls in ('sV', 'sI'):
            e = rng.choice(SEXPRS); val = eval_s(e, s0)
            d.update(args=[e], coq=[val])
        elif cls in ('V', 'I'):
            if not dc:
                e = rng.choice(SEXPRS); val = eval_s(e, s0)
            else:
                e = v(); val = F(e) / s0
            d.update(args=[e], coq=[val])
        elif cls in ('Vstep', 'Istep', 'Vdc', 'Idc'):
            e = v(); val = F(e) / s0
            d.update(args=[e], coq=[F(e)])
        elif cls in ('Vac', 'Iac'):
            e = v(); w = acw or rng.choice(['1', '2', '3', '1/2'])
            val = F(e) * s0 / (s0 * s0 + F(w) * F(w))
            d.update(args=[e, '0', w], coq=[val, F(0), F(w)], optmask=[False, cls == 'Vac', True], amp=F(e), w=F(w))
        else:
            te, le = rng.choice(TEXPRS); val = eval_s(le, s0)
            d.update(args=[te], coq=[val])
        d['tb'] = (typ, val, F(0))
        d['src'] = True
        # kind of analysis the source takes part in: only transient / s-domain sources are evaluated at s = s0
        d['skind'] = 's' if (cls in ('sV', 'sI', 'Vstep', 'Istep', 'v', 'i') or (cls in ('V', 'I') and not dc)) else 'other'
    else:
        raise ValueError(cls)
    return d


def gen_tree(rng, s0, depth, root=None, budget=None, profile='s', acw=None):
    """random admissible tree.  Returns nested ['Ser'|'Par', [children]] / leaf dict"""
    if budget is None:
        budget = [rng.randint(2, 5)]
    kind = root or rng.choice(['Ser', 'Par'])
    n = rng.randint(2, 3)
    kids = []
    has_imm = False
    for k in range(n):
        if budget[0] <= 0 and len(kids) >= 2:
            break
        if depth > 1 and rng.random() < 0.35 and budget[0] >= 2:
            sub = gen_tree(rng, s0, depth - 1, 'Par' if kind == 'Ser' else ('Ser' if rng.random() < 0.8 else 'Par'), budget, profile, acw)
            kids.append(sub)
            has_imm = True
        else:
            budget[0] -= 1
            srcs = {'s': (VSRC_S, ISRC_S), 'dc': (VSRC_DC, ISRC_DC), 'ac': (VSRC_AC, ISRC_AC),
                    'mixed': (VSRC_S + VSRC_DC + VSRC_AC, ISRC_S + ISRC_DC + ISRC_AC), 'nosrc': ([], [])}[profile][0 if kind == 'Ser' else 1]
            if profile == 'nosrc':
                cls = rng.choice(IMM)
            elif rng.random() < 0.3 and (has_imm or k < n - 1):
                cls = rng.choice(srcs)
            else:
                cls = rng.choice(IMM if rng.random() < 0.8 else ['R', 'L', 'C'])
                if profile == 'ac' and cls == 'CPE':
                    cls = 'R'       # (j w) ** alpha is not a Gaussian rational
            lf = gen_leaf(rng, cls, s0, ic_prob=0.0 if profile in ('dc', 'ac') else 0.5,
                          dc=(profile == 'dc' or (profile == 'mixed' and rng.random() < 0.5)), acw=acw)
            if 'src' not in lf:
                has_imm = True
            kids.append(lf)
    if not has_imm:
        kids.append(gen_leaf(rng, rng.choice(['R', 'L', 'C']), s0))
    if kind == 'Ser' and rng.random() < 0.5:
        rng.shuffle(kids)
    return [kind, kids]


def ser_meta(m):
    def st(t):
        if isinstance(t, dict):
            d = dict(t)
            d['coq'] = [None if x is None else fs(x) for x in t.get('coq', [])]
            d['tb'] = [t['tb'][0], fs(t['tb'][1]), fs(t['tb'][2])]
            return d
        return [t[0], [st(c) for c in t[1]]]
    out = {k: (fs(v) if isinstance(v, Fraction) else v) for k, v in m.items() if k not in ('tree', 'tp', 's0', 'args', 'm', 'src')}
    for k_ in ('m', 'src'):
        if k_ in m:
            out[k_] = [fs(x) for x in m[k_]]
    if 'tree' in m:
        out['tree'] = st(m['tree'])
    if 'tp' in m:
        def sp(P):
            if P[0] in ('Chain', 'Par2', 'Ser2', 'Hybrid2', 'InverseHybrid2'):
                return [P[0], [sp(a) for a in P[1]]]
            return [P[0], [st(a) for a in P[1]]]
        out['tp'] = sp(m['tp'])
    if 's0' in m:
        out['s0'] = fs(m['s0'])
    if 'args' in m:
        out['args'] = [fs(a) for a in m['args']]
    return out


def deser_meta(m):
    def dt(t):
        if isinstance(t, dict):
            d = dict(t)
            d['coq'] = [None if x is None else F(x) for x in t.get('coq', [])]
            d['tb'] = (t['tb'][0], F(t['tb'][1]), F(t['tb'][2]))
            return d
        return [t[0], [dt(c) for c in t[1]]]
    out = dict(m)
    if 'tree' in m:
        out['tree'] = dt(m['tree'])
    if 'tp' in m:
        def dp(P):
            if P[0] in ('Chain', 'Par2', 'Ser2', 'Hybrid2', 'InverseHybrid2'):
                return [P[0], [dp(a) for a in P[1]]]
            return [P[0], [dt(a) for a in P[1]]]
        out['tp'] = dp(m['tp'])
    if 's0' in m:
        out['s0'] = F(m['s0'])
    if 'args' in m:
        out['args'] = [F(a) for a in m['args']]
    for k_ in ('m', 'src'):
        if k_ in m:
            out[k_] = [F(x) for x in m[k_]]
    for k_ in ('acw', 's1'):
        if k_ in m:
            out[k_] = F(m[k_])
    return out


def to_impl(t):
    if isinstance(t, dict):
        return [t['cls'], t['args']]
    return [t[0], [to_impl(c) for c in t[1]]]


def leaves_of(t):
    if isinstance(t, dict):
        return [t]
    out = []
    for c in t[1]:
        out += leaves_of(c)
    return out


def shape(t):
    if isinstance(t, dict):
        return t['cls'] + ('*' if t.get('ic') else '')
    return '%s(%s)' % (t[0], ','.join(shape(c) for c in t[1]))


# ---- text-book evaluator (independent of lcapy and of the Coq model) --------------------
def tb_forms(t):
    """(thevenin (voc, z) or None, norton (isc, y) or None)"""
    if isinstance(t, dict):
        typ, src, imm = t['tb']
        th = (src, imm) if typ == 'T' else ((src / imm, 1 / imm) if imm != 0 else None)
        no = (src, imm) if typ == 'N' else ((src / imm, 1 / imm) if imm != 0 else None)
        return th, no
    forms = [tb_forms(c) for c in t[1]]
    if t[0] == 'Ser':
        if any(f[0] is None for f in forms):
            return None, None
        voc = sum(f[0][0] for f in forms); z = sum(f[0][1] for f in forms)
        return (voc, z), ((voc / z, 1 / z) if z != 0 else None)
    if any(f[1] is None for f in forms):
        return None, None
    isc = sum(f[1][0] for f in forms); y = sum(f[1][1] for f in forms)
    return ((isc / y, 1 / y) if y != 0 else None), (isc, y)


def tb_values(t):
    th, no = tb_forms(t)
    return {'Z': th[1] if th else None, 'Voc': th[0] if th else None,
            'Y': no[1] if no else None, 'Isc': no[0] if no else None}


def guard_py(t):
    if isinstance(t, dict):
        return bool(t.get('src'))
    return any(guard_py(c) for c in t[1])


def ic_ignored(t, quantity):
    """does the tree contain a Par (for Voc) / Ser (for Isc) node without any independent source
    but with a non-zero initial condition, i.e. a node where ParSer.Voc/Isc return 0 for a non-zero value"""
    if isinstance(t, dict):
        return False
    node = 'Par' if quantity == 'Voc' else 'Ser'
    if t[0] == node and not guard_py(t) and any(l.get('ic') for l in leaves_of(t)):
        v = tb_values(t)[quantity]
        if v is not None and v != 0:
            return True
    return any(ic_ignored(c, quantity) for c in t[1])


# ---- Coq terms --------------------------------------------------------------------------
def coq_leaf(l, order_params):
    ps = order_params[l['cls']]
    vals = l['coq']
    out = []
    for (nm, ty), v in zip(ps, vals + [None] * (len(ps) - len(vals))):
        if ty == 'K':
            out.append(q(v if v is not None else 0))
        else:
            out.append('None' if v is None else '(Some %s)' % q(v))
    return '(Leaf (L_%s (K:=QcF) %s))' % (l['cls'], ' '.join(out))


def coq_tree(t, order_params):
    if isinstance(t, dict):
        return coq_leaf(t, order_params)
    return '(%s [%s])' % (t[0], '; '.join(coq_tree(c, order_params) for c in t[1]))


def qi_(re_, im_=0):
    return '(QI %s %s)' % (q(re_), q(im_))


def eval_jw(expr, w):
    """value of a rational expression in s at s = j w, exact (re, im)"""
    import sympy as sp
    sv = sp.Symbol('s')
    v = sp.simplify(sp.sympify(expr, locals={'s': sv}).subs(sv, sp.I * sp.Rational(w.numerator, w.denominator)))
    re_, im_ = sp.nsimplify(sp.re(v)), sp.nsimplify(sp.im(v))
    if not (re_.is_Rational and im_.is_Rational):
        raise ValueError('not a Gaussian rational')
    return Fraction(int(re_.p), int(re_.q)), Fraction(int(im_.p), int(im_.q))


def coq_tree_c(t, order_params, w=None):
    """the tree over the Gaussian rationals for the phasor evaluation: real parameters, ac sources by their amplitude"""
    if isinstance(t, dict):
        ps = order_params[t['cls']]
        vals = list(t['coq'])
        if t['cls'] in ('Vac', 'Iac'):
            vals[0] = t['amp']
        if t['cls'] in ('Y', 'Z'):
            vals[0] = eval_jw(t['args'][0], w)
        out = []
        for (nm, ty), v in zip(ps, vals + [None] * (len(ps) - len(vals))):
            if ty == 'K':
                out.append(qi_(*v) if isinstance(v, tuple) else qi_(v if v is not None else 0))
            else:
                out.append('None' if v is None else '(Some %s)' % qi_(v))
        return '(Leaf (L_%s (K:=QcIF) %s))' % (t['cls'], ' '.join(out))
    return '(%s [%s])' % (t[0], '; '.join(coq_tree_c(c, order_params, w) for c in t[1]))


def phasor_from_laplace(F0, s0, F1, s1, w):
    """a + j b of the sinusoid a cos(wt) - b sin(wt) from two values of its Laplace transform (a s - b w)/(s^2 + w^2)"""
    G0, G1 = F0 * (s0 * s0 + w * w), F1 * (s1 * s1 + w * w)
    a = (G0 - G1) / (s0 - s1)
    b = (a * s0 - G0) / w
    return a, b


KW2CLS = {('V', 'step'): 'Vstep', ('V', 'dc'): 'Vdc', ('V', 'ac'): 'Vac', ('V', 's'): 'sV', ('V', 'noise'): 'Vnoise', ('V', ''): 'V',
          ('I', 'step'): 'Istep', ('I', 'dc'): 'Idc', ('I', 'ac'): 'Iac', ('I', 's'): 'sI', ('I', 'noise'): 'Inoise', ('I', ''): 'I'}
OPAQUE = ['V', 'I', 'v', 'i', 'Vac', 'Iac', 'Vnoise', 'Inoise', 'sV', 'sI']


def parse_line(line, s0, order_params):
    """one netlist line -> Coq elt literal"""
    toks = []
    cur = ''
    depth = 0
    for ch in line:
        if ch == '{':
            depth += 1
        if ch == '}':
            depth -= 1
        if ch == ' ' and depth == 0:
            if cur:
                toks.append(cur)
            cur = ''
        else:
            cur += ch
    if cur:
        toks.append(cur)
    name = toks[0]
    if name == 'W':
        return '(EW (L:=lf QcF) %s %s)' % (toks[1], toks[2])
    m = re.match(r'^([A-Za-z]+?)(\d+|\?)$', name)
    if not m:
        raise ValueError('cannot parse ' + line)
    typ = m.group(1)
    a, b = toks[1], toks[2]
    rest = toks[3:]
    kw = ''
    if typ in ('V', 'I') and rest and rest[0] in ('step', 'dc', 'ac', 's', 'noise'):
        kw = rest[0]
        rest = rest[1:]
    cls = KW2CLS.get((typ, kw), typ)
    if cls not in order_params:
        raise ValueError('unknown netlist type ' + line)
    ps = order_params[cls]
    vals = []
    if cls in OPAQUE:
        vals = [Fraction(0)] * len(ps)
    else:
        for tkn in rest:
            vals.append(eval_s(tkn.strip('{}'), s0))
    out = []
    for (nm, ty), v in zip(ps, vals + [None] * (len(ps) - len(vals))):
        if ty == 'K':
            out.append(q(v if v is not None else 0))
        else:
            out.append('None' if v is None else '(Some %s)' % q(v))
    return '(EC (L_%s (K:=QcF) %s) %s %s)' % (cls, ' '.join(out), a, b)


def coq_simp_tree(t, s0, order_params):
    """result of the real simplify() ([cls, [values]] nested) -> Coq tree literal"""
    cls, args = t
    if cls in ('Ser', 'Par'):
        return '(%s [%s])' % (cls, '; '.join(coq_simp_tree(a, s0, order_params) for a in args))
    if cls not in order_params:
        raise ValueError('unknown class ' + cls)
    ps = order_params[cls]
    out = []
    for k, (nm, ty) in enumerate(ps):
        v = args[k] if k < len(args) else None
        if cls in OPAQUE:
            v = '0/1' if ty == 'K' else None
        if ty == 'K':
            out.append(q(F(v) if v is not None else 0))
        else:
            out.append('None' if v is None else '(Some %s)' % q(F(v)))
    return '(Leaf (L_%s (K:=QcF) %s))' % (cls, ' '.join(out))


# ---------------------------------------------------------------------------------------
# two-ports: text-book B matrices (exact) and relation tests borrowed from the C08 oracle
def mmul(a, b):
    return [a[0] * b[0] + a[1] * b[2], a[0] * b[1] + a[1] * b[3], a[2] * b[0] + a[3] * b[2], a[2] * b[1] + a[3] * b[3]]


def convert(kind_from, m, kind_to):
    """exact conversion through the defining relations (None when the target does not exist)"""
    basis = c08.nullspace(c08.rel_rows(kind_from, m, Fraction(1)))
    if len(basis) != 2:
        return None
    ins, outs = {'A': ((2, 3), (0, 1)), 'B': ((0, 1), (2, 3)), 'Z': ((1, 3), (0, 2)), 'Y': ((0, 2), (1, 3)),
                 'H': ((1, 2), (0, 3)), 'G': ((0, 3), (1, 2))}[kind_to]
    sg_in = [1, -1] if kind_to == 'A' else [1, 1]
    sg_out = [1, -1] if kind_to == 'B' else [1, 1]
    I = [[sg_in[r] * basis[c][ins[r]] for c in range(2)] for r in range(2)]
    O = [[sg_out[r] * basis[c][outs[r]] for c in range(2)] for r in range(2)]
    det = I[0][0] * I[1][1] - I[0][1] * I[1][0]
    if det == 0:
        return None
    inv = [[I[1][1] / det, -I[0][1] / det], [-I[1][0] / det, I[0][0] / det]]
    M = [[sum(O[r][k] * inv[k][c] for k in range(2)) for c in range(2)] for r in range(2)]
    return [M[0][0], M[0][1], M[1][0], M[1][1]]


def tb_B(P):
    """text-book B matrix of a two-port spec (cascade of series/shunt elements; sums of Y/Z/H/G)"""
    cls, args = P
    one = lambda t: tb_values(t)
    ser = lambda t: [F(1), -one(t)['Z'], F(0), F(1)]
    sh = lambda t: [F(1), F(0), -one(t)['Y'], F(1)]

    def chain(ms):
        B = ms[0]
        for m in ms[1:]:
            B = mmul(m, B)
        return B
    if cls in ('Series', 'SeriesAlt'):
        return ser(args[0])
    if cls == 'Shunt':
        return sh(args[0])
    if cls == 'SeriesPair':
        return chain([ser(args[0]), ser(args[1])])
    if cls == 'LSection':
        return chain([ser(args[0]), sh(args[1])])
    if cls == 'TSection':
        return chain([ser(args[0]), sh(args[1]), ser(args[2])])
    if cls == 'PiSection':
        return chain([sh(args[0]), ser(args[1]), sh(args[2])])
    if cls == 'CSection':
        return chain([ser(args[0]), ser(args[1]), sh(args[2])])
    if cls == 'HSection':
        return chain([ser(args[0]), ser(args[1]), sh(args[2]), ser(args[3]), ser(args[4])])
    if cls == 'BoxSection':
        return chain([sh(args[0]), ser(args[1]), ser(args[2]), sh(args[3])])
    if cls == 'Ladder':
        return chain([ser(args[0])] + [(ser if k & 1 else sh)(a) for k, a in enumerate(args[1:])])
    if cls == 'LadderAlt':
        return chain([sh(args[0])] + [(sh if k & 1 else ser)(a) for k, a in enumerate(args[1:])])
    if cls == 'Chain':
        return chain([tb_B(a) for a in args])
    if cls in ('Par2', 'Ser2', 'Hybrid2', 'InverseHybrid2'):
        k = {'Par2': 'Y', 'Ser2': 'Z', 'Hybrid2': 'H', 'InverseHybrid2': 'G'}[cls]
        ms = [convert('B', tb_B(a), k) for a in args]
        if any(m is None for m in ms):
            return None
        return convert(k, [x + y for x, y in zip(*ms)], 'B')
    raise ValueError(cls)


def tp_to_impl(P):
    cls, args = P
    if cls in ('Chain', 'Par2', 'Ser2', 'Hybrid2', 'InverseHybrid2'):
        return [cls, [tp_to_impl(a) for a in args]]
    return [cls, [to_impl(a) for a in args]]


def tp_shape(P):
    cls, args = P
    if cls in ('Chain', 'Par2', 'Ser2', 'Hybrid2', 'InverseHybrid2'):
        return '%s(%s)' % (cls, ','.join(tp_shape(a) for a in args))
    return '%s(%s)' % (cls, ','.join(shape(a) for a in args))


def small_op(rng, s0):
    r = rng.random()
    if r < 0.7:
        return gen_leaf(rng, rng.choice(['R', 'L', 'C', 'G', 'Z', 'Y']), s0, ic_prob=0.0)
    a, b = [gen_leaf(rng, rng.choice(['R', 'L', 'C', 'G', 'Z']), s0, ic_prob=0.0) for _ in range(2)]
    return [rng.choice(['Ser', 'Par']), [a, b]]


def gen_section(rng, s0):
    cls = rng.choice(['Series', 'Shunt', 'LSection', 'TSection', 'PiSection', 'Ladder', 'LadderAlt', 'CSection', 'HSection',
                      'BoxSection', 'SeriesPair', 'LSection', 'TSection', 'PiSection', 'Ladder'])
    n = {'Series': 1, 'Shunt': 1, 'LSection': 2, 'TSection': 3, 'PiSection': 3, 'CSection': 3, 'HSection': 5, 'BoxSection': 4,
         'SeriesPair': 2}.get(cls) or rng.randint(2, 5)
    return [cls, [small_op(rng, s0) for _ in range(n)]]


def gen_twoport(rng, s0):
    r = rng.random()
    if r < 0.5:
        return gen_section(rng, s0)
    if r < 0.7:
        return ['Chain', [gen_section(rng, s0), gen_section(rng, s0)]]
    if r < 0.85:
        three = lambda: [rng.choice(['TSection', 'PiSection', 'LSection']), None]

        def mk():
            c = rng.choice(['TSection', 'PiSection', 'LSection'])
            return [c, [small_op(rng, s0) for _ in range(2 if c == 'LSection' else 3)]]
        return ['Par2', [mk(), mk()]]
    # series / hybrid connections: the second two-port is a shunt element so that the port condition holds
    c = rng.choice(['Ser2', 'Hybrid2', 'InverseHybrid2'])
    a = [rng.choice(['TSection', 'PiSection']), [small_op(rng, s0) for _ in range(3)]]
    return [c, [a, ['Shunt', [small_op(rng, s0)]]]]


def coq_opd(t):
    v = tb_values(t)
    z = v['Z'] if v['Z'] is not None else 0
    y = v['Y'] if v['Y'] is not None else 0
    return '(OPD (K:=QcF) %s %s %s %s)' % (q(z), q(y), q(v['Voc'] or 0), q(v['Isc'] or 0))


def coq_tpB(P):
    """Coq term : mat QcF for the B matrix of the composition, through the regenerated definitions"""
    cls, args = P
    z0 = '(1%Qc : QcF)'
    if cls in ('Ladder', 'LadderAlt'):
        return '(tB (tp_%s %s %s [%s]))' % (cls, z0, coq_opd(args[0]), '; '.join(coq_opd(a) for a in args[1:]))
    if cls == 'Chain':
        return '(mmul %s %s)' % (coq_tpB(args[1]), coq_tpB(args[0])) if False else '(tB (tp_Chain (TPM %s 0%%Qc 0%%Qc) (TPM %s 0%%Qc 0%%Qc)))' % (coq_tpB(args[0]), coq_tpB(args[1]))
    if cls in ('Par2', 'Ser2', 'Hybrid2', 'InverseHybrid2'):
        return '(tp_%s_B %s %s %s)' % (cls, z0, coq_tpB(args[0]), coq_tpB(args[1]))
    return '(tB (tp_%s %s %s))' % (cls, z0, ' '.join(coq_opd(a) for a in args))



# ---- two-port models with source vectors (exact, independent of the Coq model) ----------------
SRC_OWN = {'B': ('V2b', 'I2b'), 'A': ('V1a', 'I1a'), 'G': ('I1g', 'V2g'), 'H': ('V1h', 'I2h'), 'Y': ('I1y', 'I2y'), 'Z': ('V1z', 'V2z')}
SRC_SIGN = {'A': 1, 'B': -1, 'G': -1, 'H': -1, 'Y': -1, 'Z': -1}     # rel_rows(kind) . v = SRC_SIGN * source


def solve_affine(rows, rhs):
    """particular solution and null-space basis of a 2 x 4 rational system (None when rank < 2)"""
    basis = c08.nullspace(rows)
    if len(basis) != 2:
        return None
    # particular solution: eliminate on an augmented copy
    A = [[Fraction(x) for x in r] + [Fraction(b)] for r, b in zip(rows, rhs)]
    piv = []
    r = 0
    for c in range(4):
        p = None
        for i in range(r, 2):
            if A[i][c] != 0:
                p = i
                break
        if p is None:
            continue
        A[r], A[p] = A[p], A[r]
        A[r] = [x / A[r][c] for x in A[r]]
        for i in range(2):
            if i != r and A[i][c] != 0:
                f = A[i][c]
                A[i] = [x - f * y for x, y in zip(A[i], A[r])]
        piv.append(c)
        r += 1
        if r == 2:
            break
    v0 = [Fraction(0)] * 4
    for i, c in enumerate(piv):
        v0[c] = A[i][4]
    return v0, basis


def src_points(kind, m, src):
    """three port states (V1, I1, V2, I2) spanning the affine relation of the model (kind, m, src)"""
    rows = c08.rel_rows(kind, m, Fraction(1))
    sol = solve_affine(rows, [SRC_SIGN[kind] * s for s in src])
    if sol is None:
        return None
    v0, (n1, n2) = sol
    return [v0, [a + b for a, b in zip(v0, n1)], [a + b for a, b in zip(v0, n2)]]


def src_residual(kind, m, which, val, pts):
    """does source number `which` (0/1) of the model (kind, m) have the value val on the given states?"""
    row = c08.rel_rows(kind, m, Fraction(1))[which]
    return all(sum(a * b for a, b in zip(row, v)) == SRC_SIGN[kind] * val for v in pts)


def tb_src(P, flip_series=False):
    """text-book B-model source vector (V2b, I2b) of a composition: a series one-port with Thevenin voltage e
    contributes V2 = V1 - Z I1 - e, a shunt one-port with Norton current j contributes -I2 = -Y V1 + I1 + j"""
    cls, args = P
    sgn = 1 if flip_series else -1
    ser = lambda t: ([F(1), -tb_values(t)['Z'], F(0), F(1)], (sgn * tb_values(t)['Voc'], F(0)))
    sh = lambda t: ([F(1), F(0), -tb_values(t)['Y'], F(1)], (F(0), tb_values(t)['Isc']))

    def chain(parts):
        B, (vb, ib) = parts[0]
        for Bn, (v2, i2) in parts[1:]:
            vb, ib = v2 + Bn[0] * vb + Bn[1] * ib, i2 + Bn[2] * vb + Bn[3] * ib
            B = mmul(Bn, B)
        return B, (vb, ib)
    if cls in ('Series', 'SeriesAlt'):
        return ser(args[0])
    if cls == 'Shunt':
        return sh(args[0])
    seq = {'SeriesPair': 'ss', 'LSection': 'sp', 'TSection': 'sps', 'PiSection': 'psp', 'CSection': 'ssp', 'HSection': 'sspss',
           'BoxSection': 'pssp'}.get(cls)
    if cls == 'Ladder':
        seq = 's' + ''.join('s' if k & 1 else 'p' for k in range(len(args) - 1))
    if cls == 'LadderAlt':
        seq = 'p' + ''.join('p' if k & 1 else 's' for k in range(len(args) - 1))
    if seq is not None:
        return chain([(ser if c == 's' else sh)(a) for c, a in zip(seq, args)])
    if cls == 'Chain':
        return chain([tb_src(a, flip_series) for a in args])
    raise ValueError(cls)


def src_op(rng, s0, series):
    """a one-port with a source for a series (Thevenin-able) or shunt (Norton-able) position"""
    imm = gen_leaf(rng, rng.choice(['R', 'L', 'C', 'Z']), s0, ic_prob=0.0)
    if rng.random() < 0.35:
        return imm
    if series:
        return ['Ser', [gen_leaf(rng, rng.choice(['Vstep', 'sV']), s0), imm]]
    return ['Par', [imm, gen_leaf(rng, rng.choice(['Istep', 'sI']), s0)]]


def gen_src_section(rng, s0, shunt_sources_only=False):
    cls = rng.choice(['LSection', 'TSection', 'PiSection', 'Ladder', 'LadderAlt', 'Series', 'Shunt'])
    seq = {'LSection': 'sp', 'TSection': 'sps', 'PiSection': 'psp', 'Series': 's', 'Shunt': 'p'}.get(cls)
    if cls == 'Ladder':
        seq = 's' + ''.join('s' if k & 1 else 'p' for k in range(rng.randint(2, 3)))
    if cls == 'LadderAlt':
        seq = 'p' + ''.join('p' if k & 1 else 's' for k in range(rng.randint(2, 3)))
    args = []
    for c in seq:
        if c == 's' and shunt_sources_only:
            args.append(gen_leaf(rng, rng.choice(['R', 'L', 'C']), s0, ic_prob=0.0))
        else:
            args.append(src_op(rng, s0, c == 's'))
    return [cls, args]

# ---------------------------------------------------------------------------------------
CASES_HDR = ('Require Import LT.FieldSec LT.QcI LT.OnePort LT.OnePortNet LT.TwoPort LT.Sections Gen.OnePortGen Gen.C07model Gen.TwoPortGen Gen.SectionsGen.\n'
             'From Coq Require Import List Bool.\nImport ListNotations.\n'
             'Definition meq (a b : mat QcF) : bool := qc_eqb (m11 a) (m11 b) && qc_eqb (m12 a) (m12 b) && qc_eqb (m21 a) (m21 b) && qc_eqb (m22 a) (m22 b).\n')


def cases_file(defs, items, extra_hdr=''):
    lines = [CASES_HDR + extra_hdr] + defs
    lines.append('Definition cases : list (nat * bool) := [')
    lines.append(';\n'.join('(%d%%nat, %s)' % (gi, e) for gi, e in items))
    lines.append('].\nDefinition failing := map fst (filter (fun p => negb (snd p)) cases).\nEval vm_compute in failing.\n')
    return '\n'.join(lines)


def ratval(x):
    if isinstance(x, str) and x != 'zoo':
        return Fraction(x)
    return None


CORPUS = [
    # DESIGN F9: initial conditions are ignored by ParSer.Voc / ParSer.Isc
    ('f9a', lambda s0: ['Par', [dict(cls='R', args=['2'], coq=[F(2)], tb=('T', F(0), F(2))),
                                dict(cls='C', args=['3', '4'], coq=[F(3), F(4)], tb=('T', F(4) / s0, 1 / (s0 * 3)), ic=True)]]),
    ('f9b', lambda s0: ['Par', [['Ser', [dict(cls='R', args=['2'], coq=[F(2)], tb=('T', F(0), F(2))),
                                         dict(cls='C', args=['3', '4'], coq=[F(3), F(4)], tb=('T', F(4) / s0, 1 / (s0 * 3)), ic=True)]],
                                ['Ser', [dict(cls='L', args=['5', '1'], coq=[F(5), F(1)], tb=('T', -F(5), s0 * 5), ic=True),
                                         dict(cls='Vstep', args=['6'], coq=[F(6)], tb=('T', F(6) / s0, F(0)), src=True)]]]]),
]


def run(tier='quick', replay=None):
    res = core.Result(PID, tier)
    rng = random.Random(core.seed() * 7919 + 7)
    core.ensure_theory(['FieldSec', 'QcI', 'TwoPort', 'OnePort', 'OnePortNet', 'Sections', 'Circuit'])
    w = core.Work(PID)
    violations = []
    try:
        res.trusted = ['Coq 8.16.1 kernel + vm_compute',
                       'translators tools/tr_oneport.py (sha256 %s), tools/tr_sections.py (%s), tools/tr_twoport.py; statement templates checks/c07gen.py'
                       % (core.sha256_file(os.path.join(core.VERIF, 'tools', 'tr_oneport.py'))[:12],
                          core.sha256_file(os.path.join(core.VERIF, 'tools', 'tr_sections.py'))[:12]),
                       'translator tools/tr_probes.py (%s) of NetlistOpsMixin.Aparams..Zparams/twoport; measurement specification props/C07probe.v (port_cond, is_meas)'
                       % core.sha256_file(os.path.join(core.VERIF, 'tools', 'tr_probes.py'))[:12],
                       'specifications coq/theory/OnePort.v (sem), Sections.v (section relations, affine relations with source vectors), TwoPort.v (rel_A..rel_Z), Circuit.v (component laws)',
                       'hand models props/C07model.v (_combine, simplify, _net_make) and theory/OnePort.v (fall-backs, Ser/Par sums, guard) validated per run by the correspondence evaluation',
                       'opaque: Laplace/phasor transforms of the source classes (xf_*), sympy arithmetic/cancellation']
        res.assumptions = ['characteristic-0 field with decidable equality',
                           'the premise of the property: admissible tree (no ideal V shunted, no ideal I in series) and the divisions the algebra performs are defined',
                           'dc transform additive (xf_dc (a+b) = xf_dc a + xf_dc b) for the Vdc/Idc combination rule']
        texts = {}
        failed_translate = False
        # ---- 1. translate --------------------------------------------------------------
        log('translate')
        otr = stt = sect = tr2 = None
        try:
            otr = TO.main(core.REPO)
            stt = TST.StampTranslator(os.path.join(core.REPO, 'lcapy', 'mnacpts.py'))
            stt.translate_all()
            texts['OnePortGen.v'] = otr.emit(lambda t: stt.stamp_owner(t) if t in stt.bases else None)
        except (TO.Untranslatable, TST.Untranslatable) as e:
            res.failed_obl.append(('translate_oneport', 'lcapy/oneport.py', str(e)))
            res.obligations += 1
            otr = None
        try:
            tr2 = c08.translate(core.REPO)
            texts['TwoPortGen.v'] = c08.gen_defs(tr2)
            sect = TSEC.SectionTranslator(tr2).translate_all()
            texts['SectionsGen.v'] = sect.emit()
        except TSEC.Untranslatable as e:
            res.failed_obl.append(('translate_sections', 'lcapy/twoport.py', str(e)))
            res.obligations += 1
            sect = None
        # ---- 2. prove -------------------------------------------------------------------
        base_ok = {}
        for f in ('OnePortGen.v', 'TwoPortGen.v'):
            if f in texts:
                w.write(f, texts[f])
        r0 = core.coqc_many(w.dir, [f for f in ('OnePortGen.v', 'TwoPortGen.v') if f in texts], timeout=300)
        for f, (ok, out, secs) in r0.items():
            base_ok[f] = ok
            if not ok:
                res.failed_obl.append((f[:-2], f, out[-800:]))
                res.obligations += 1
        stage2 = []
        if base_ok.get('OnePortGen.v'):
            for f in ('C07lem.v', 'C07model.v'):
                texts[f] = open(os.path.join(core.VERIF, 'coq', 'props', f)).read()
                w.write(f, texts[f])
                stage2.append(f)
        if base_ok.get('TwoPortGen.v') and 'SectionsGen.v' in texts:
            w.write('SectionsGen.v', texts['SectionsGen.v'])
            stage2.append('SectionsGen.v')
        # the netlist probes (Aparams ... twoport): specification + text-book extraction theorems, then the regenerated formulas
        texts['C07probe.v'] = open(os.path.join(core.VERIF, 'coq', 'props', 'C07probe.v')).read()
        w.write('C07probe.v', texts['C07probe.v'])
        stage2.append('C07probe.v')
        ptr = None
        try:
            ptr = TPR.ProbeTranslator(core.REPO).translate_all()
            for k_, v_ in ptr.errors.items():
                res.failed_obl.append((k_, 'lcapy/netlistopsmixin.py', v_))
                res.obligations += 1
        except TPR.Untranslatable as e:
            res.failed_obl.append(('translate_probes', 'lcapy/netlistopsmixin.py', str(e)))
            res.obligations += 1
        log('coqc stage 2')
        r1 = core.coqc_many(w.dir, stage2, timeout=600)
        for f, (ok, out, secs) in r1.items():
            base_ok[f] = ok
            if f == 'C07probe.v':
                res.coq_results(w.dir, {f: r1[f]}, {f: texts[f]})
            elif not ok:
                res.failed_obl.append((f[:-2], f, out[-800:]))
                res.obligations += 1
        probes_ok = False
        if ptr is not None and base_ok.get('C07probe.v') and base_ok.get('TwoPortGen.v'):
            texts['ProbesGen.v'] = ptr.emit_defs()
            w.write('ProbesGen.v', texts['ProbesGen.v'])
            rp = core.coqc_many(w.dir, ['ProbesGen.v'], timeout=300)
            probes_ok = rp['ProbesGen.v'][0]
            if not probes_ok:
                res.failed_obl.append(('ProbesGen', 'ProbesGen.v', rp['ProbesGen.v'][1][-800:]))
                res.obligations += 1
        obl_files = {}     # file -> names
        if probes_ok:
            for f, (names, txt) in ptr.emit_obligations().items():
                texts[f] = txt
                w.write(f, txt)
                obl_files[f] = names
        if base_ok.get('C07lem.v'):
            for f in ('C07.v', 'C07simp.v', 'C07thy.v'):
                p = os.path.join(core.VERIF, 'coq', 'props', f)
                if os.path.exists(p):
                    texts[f] = open(p).read()
                    w.write(f, texts[f])
                    obl_files[f] = core.obligations_in(texts[f])
            for f, (names, txt) in c07gen.guard_files(otr).items():
                texts[f] = txt
                w.write(f, txt)
                obl_files[f] = names
            # node threading of Ser._net_make / Par._net_make, executed symbolically from the source per arity
            try:
                nmt = TNM.NetMakeTranslator(core.REPO)
                for cls_ in ('Ser', 'Par'):
                    nn_, errs_, txt_ = nmt.emit(arities=(2, 3, 4, 5, 6, 7) if tier == 'quick' else tuple(range(2, 12)), classes=(cls_,))
                    fn_ = 'C07_netmake_%s.v' % cls_
                    texts[fn_] = txt_
                    w.write(fn_, txt_)
                    obl_files[fn_] = nn_
                    for k_, v_ in errs_.items():
                        res.failed_obl.append((k_, 'lcapy/oneport.py', v_))
                        res.obligations += 1
            except TNM.Untranslatable as e:
                res.failed_obl.append(('translate_net_make', 'lcapy/oneport.py', str(e)))
                res.obligations += 1
            names, txt = c07gen.nf_file(otr)
            texts['C07_nf.v'] = txt
            w.write('C07_nf.v', txt)
            obl_files['C07_nf.v'] = names
        unsupported_ctor = {}
        if base_ok.get('SectionsGen.v'):
            for (kind, ctor), (ps, ir) in sect.ctors.items():
                r = c07gen.section_file(kind, ctor, len(ps))
                if r:
                    fn = 'C07_sec_%s_%s.v' % (kind, ctor)
                    texts[fn] = r[1]
                    w.write(fn, r[1])
                    obl_files[fn] = [r[0]]
            for f, (names, txt) in c07gen.tp_files(sect).items():
                texts[f] = txt
                w.write(f, txt)
                obl_files[f] = names
            for f, (names, txt) in c07gen.srcconv_files(sect).items():
                texts[f] = txt
                w.write(f, txt)
                obl_files[f] = names
            for k_, v_ in sect.srcconv_err.items():
                res.failed_obl.append(('translate_src_%s_%s' % (k_[0], k_[2]), 'lcapy/twoport.py', v_))
                res.obligations += 1
            unsupported_ctor = dict(('%sMatrix.%s' % k, v) for k, v in sect.ctor_err.items())
            unsupported_ctor.update(sect.unsupported)
        bad = core.gate_text('generated+props', '\n'.join(texts.values()))
        if bad:
            res.failed_obl.append(('gate', 'props', '; '.join(bad)))
            res.obligations += 1
        if replay and 'case' in replay:
            obl_files = {}
        log('coqc %d obligation files' % len(obl_files))
        r2 = core.coqc_many(w.dir, list(obl_files), timeout=900 if tier == 'quick' else 2400)
        res.coq_results(w.dir, r2, {f: texts[f] for f in r2})
        guard_ok = all(r2.get('C07_guard_%s.v' % c, (False,))[0] for c in (otr.order if otr else []))
        if otr is not None and base_ok.get('C07lem.v') and not (replay and 'case' in replay):
            stage3 = []
            names, txt = c07gen.guard_all_file(otr)
            texts['C07_guard_all.v'] = txt
            if guard_ok:
                w.write('C07_guard_all.v', txt)
                stage3.append('C07_guard_all.v')
            else:
                res.obligations += len(names)
                for n_ in names:
                    res.failed_obl.append((n_, 'C07_guard_all.v', 'not checked: a per-class guard obligation failed'))
            # the netlist route: needs the leaf lemmas of C07.v and the emitters of C07model.v
            texts['C07net.v'] = open(os.path.join(core.VERIF, 'coq', 'props', 'C07net.v')).read()
            if r2.get('C07.v', (False,))[0] and base_ok.get('C07model.v'):
                w.write('C07net.v', texts['C07net.v'])
                stage3.append('C07net.v')
            else:
                nn = core.obligations_in(texts['C07net.v'])
                res.obligations += len(nn)
                res.failed_obl.append(('C07_netlist_of_tree_sem', 'C07net.v', 'not checked: a prerequisite file failed'))
            if stage3:
                r3 = core.coqc_many(w.dir, stage3, timeout=600)
                res.coq_results(w.dir, r3, {f: texts[f] for f in stage3})
        # theory obligations are checked by the setup build; count them
        for f in ('OnePort.v', 'Sections.v', 'OnePortNet.v'):
            p = os.path.join(core.COQ_THEORY, f)
            if os.path.exists(p) and os.path.exists(p + 'o'):
                names = core.obligations_in(open(p).read())
                res.obligations += len(names)
                res.discharged += len(names)
        res.extra['coq_seconds'] = {f: round(r[2], 1) for f, r in r2.items() if r[2] > 5}
        res.extra['constructors_that_raise'] = unsupported_ctor

        # ---- 3. cases ---------------------------------------------------------------------
        n_one = int(os.environ.get('VERIF_NCASES', 44 if tier == 'quick' else 500))
        n_two = int(os.environ.get('VERIF_NCASES2', 20 if tier == 'quick' else 250))
        cases = []
        meta = []
        s0c = F('9/4')
        # deterministic witnesses of the open source-vector findings (first in the list: one per worker, generous budget), so that an
        # obligation that fails because of a recorded defect is always accompanied by its concrete input
        R_ = lambda a: dict(cls='R', args=[a], coq=[F(a)], tb=('T', F(0), F(a)))
        Is_ = lambda a: dict(cls='Istep', args=[a], coq=[F(a)], tb=('N', F(a) / s0c, F(0)), src=True, skind='s')
        Vs_ = lambda a: dict(cls='Vstep', args=[a], coq=[F(a)], tb=('T', F(a) / s0c, F(0)), src=True, skind='s')
        shunt_ = ['Shunt', [['Par', [R_('2'), Is_('3')]]]]
        lsec_ = ['LSection', [['Ser', [R_('2'), Vs_('5')]], ['Par', [R_('3'), Is_('3')]]]]
        for P_, mods_, netq_ in ((shunt_, 'B', ['V2z']), (shunt_, 'A', ['V1z']), (shunt_, 'G', ['V2g']), (shunt_, 'H', ['V1h']),
                                 (lsec_, 'Y', ['I1y']), (lsec_, 'Z', ['V1z', 'V2z', 'I2h']),
                                 (['LSection', [['Ser', [Vs_('5'), R_('2')]], R_('3')]], '', ['V1z'])):
            cases.append({'mode': 'twoport_src', 'tp': tp_to_impl(P_), 's0': fs(s0c), 'timeout': 400, 'tpmodels': mods_, 'netq': netq_})
            meta.append({'kind': 'twoport_src', 'tp': P_, 's0': s0c, 'tag': 'corpus'})
        for name, mk in CORPUS:
            t = mk(s0c)
            cases.append({'mode': 'oneport', 'tree': to_impl(t), 's0': fs(s0c), 'timeout': 50})
            meta.append({'kind': 'oneport', 'tree': t, 's0': s0c, 'tag': 'corpus:' + name})
        # targeted: classes whose guard obligation failed
        failed_names = [n_ for n_, f_, m_ in res.failed_obl]
        for fn_ in failed_names:
            if fn_.startswith('leaf_guard_sound_') and fn_ != 'leaf_guard_sound_all':
                cls = fn_[len('leaf_guard_sound_'):]
                if cls in ('L', 'C'):
                    for k in range(3):
                        s0 = F(rng.choice(SQUARES))
                        lf = gen_leaf(rng, cls, s0, ic_prob=1.0)
                        r_ = gen_leaf(rng, 'R', s0)
                        for t in (['Par', [r_, lf]], ['Ser', [r_, lf]], ['Par', [['Ser', [r_, lf]], gen_leaf(rng, 'R', s0)]]):
                            cases.append({'mode': 'oneport', 'tree': to_impl(t), 's0': fs(s0), 'timeout': 50, 'want': ['alg', 'net']})
                            meta.append({'kind': 'oneport', 'tree': t, 's0': s0, 'tag': 'targeted:' + fn_})
        # every rule of ParSer._combine at least once (pairs of equal classes, removal of zero elements)
        def lf_(cls, s0, **kw):
            return gen_leaf(rng, cls, s0, **kw)

        def zero_leaf(cls, s0):
            d = gen_leaf(rng, cls, s0)
            if cls in ('R', 'Z', 'Y', 'G'):
                d.update(args=['0'], coq=[F(0)], tb=(d['tb'][0], F(0), F(0)))
            else:
                d.update(args=['0'], coq=[F(0)], tb=(d['tb'][0], F(0), F(0)))
            return d
        for mode, classes in (('Ser', ['R', 'NR', 'G', 'NG', 'L', 'C', 'Vstep']), ('Par', ['R', 'NR', 'G', 'NG', 'L', 'C', 'Istep'])):
            for cls in classes:
                s0 = F(rng.choice(SQUARES))
                a_, b_ = lf_(cls, s0, ic_prob=0.0), lf_(cls, s0, ic_prob=0.0)
                if cls in ('L', 'C') and rng.random() < 0.6:
                    # equal initial conditions (the rule for the common quantity), or one-sided
                    a_ = lf_(cls, s0, ic_prob=1.0)
                    b_ = lf_(cls, s0, ic_prob=1.0)
                    if (mode, cls) in (('Ser', 'L'), ('Par', 'C')):
                        b_['args'][1] = a_['args'][1]
                        b_['coq'][1] = a_['coq'][1]
                        b_ = dict(b_)
                        ic = F(a_['args'][1])
                        b_['tb'] = ('T', -F(b_['args'][0]) * ic, s0 * F(b_['args'][0])) if cls == 'L' else ('T', ic / s0, 1 / (s0 * F(b_['args'][0])))
                        b_['ic'] = ic != 0
                extra = lf_(rng.choice(['R', 'L', 'C', 'Z']), s0)
                kids = [a_, extra, b_] if rng.random() < 0.5 else [a_, b_, extra]
                t = [mode, kids]
                cases.append({'mode': 'oneport', 'tree': to_impl(t), 's0': fs(s0), 'timeout': 30, 'want': ['alg', 'simp']})
                meta.append({'kind': 'oneport', 'tree': t, 's0': s0, 'tag': 'combine', 'profile': 's'})
        for mode, zc, other in (('Ser', 'R', 'C'), ('Ser', 'Z', 'L'), ('Par', 'Y', 'R'), ('Par', 'G', 'C')):
            s0 = F(rng.choice(SQUARES))
            if zc == 'G':
                continue    # G(0) divides by zero in the constructor
            t = [mode, [zero_leaf(zc, s0), lf_(other, s0)]]
            cases.append({'mode': 'oneport', 'tree': to_impl(t), 's0': fs(s0), 'timeout': 30, 'want': ['alg', 'simp']})
            meta.append({'kind': 'oneport', 'tree': t, 's0': s0, 'tag': 'combine', 'profile': 's'})
        for i in range(n_one):
            s0 = F(rng.choice(SQUARES))
            prof = ['s', 's', 's', 's', 's', 's', 's', 'dc', 'ac', 'mixed'][i % 10]
            acw = rng.choice(['1', '2', '3', '1/2']) if prof == 'ac' else None
            t = gen_tree(rng, s0, rng.randint(1, 4), profile=prof, acw=acw)
            c_ = {'mode': 'oneport', 'tree': to_impl(t), 's0': fs(s0), 'timeout': 30}
            m_ = {'kind': 'oneport', 'tree': t, 's0': s0, 'tag': 'random', 'profile': prof}
            if prof == 'ac':
                s1 = F(rng.choice([x for x in SQUARES if F(x) != s0]))
                c_['ac'] = {'omega': acw, 's1': fs(s1)}
                c_['timeout'] = 45
                m_.update(acw=F(acw), s1=s1)
            cases.append(c_)
            meta.append(m_)
        # section constructors of the matrix classes
        if sect is not None:
            for (kind, ctor) in sorted(set(list(sect.ctors) + list(sect.ctor_err))):
                spec = c07gen.CTOR_SPEC.get(ctor)
                if spec is None:
                    continue
                for k in range(2):
                    s0 = F(rng.choice(SQUARES))
                    args = [F(x) for x in rng.sample(VALS, len(spec[0]))]
                    typed = kind == 'A' or ctor in ('Zseries', 'Yseries', 'Yshunt', 'Zshunt') or (kind == 'B' and ctor == 'Pisection')
                    types = [('Y' if a.startswith('y') else 'Z') if typed and ctor not in ('transformer', 'gyrator') else 'N' for a in spec[0]]
                    cases.append({'mode': 'ctor', 'kind': kind, 'meth': ctor, 'args': [fs(a) for a in args], 'types': types, 's0': fs(s0), 'timeout': 30})
                    meta.append({'kind': 'ctor', 'K': kind, 'ctor': ctor, 'args': args, 's0': s0, 'tag': 'ctor'})
        # two-port models with source vectors: (i) every model class on numeric matrices, (ii) sections built from
        # one-ports with sources, measured on the emitted netlist
        if sect is not None:
            for X in 'BAGHYZ':
                for k in range(2 if tier == 'quick' else 8):
                    m_ = [F(x) for x in rng.sample(VALS, 4)]
                    src_ = [F(x) for x in rng.sample(VALS, 2)]
                    cases.append({'mode': 'srcunit', 'kind': X, 'm': [fs(x) for x in m_], 'src': [fs(x) for x in src_], 's0': '9/4', 'timeout': 30})
                    meta.append({'kind': 'srcunit', 'X': X, 'm': m_, 'src': src_, 's0': F('9/4'), 'tag': 'srcunit'})
            for k in range(int(os.environ.get('VERIF_NCASES3', 8 if tier == 'quick' else 80))):
                s0 = F(rng.choice(SQUARES))
                P = gen_src_section(rng, s0, shunt_sources_only=(k % 3 == 2))
                if k % 4 == 3:
                    P = ['Chain', [P, gen_src_section(rng, s0)]]
                cases.append({'mode': 'twoport_src', 'tp': tp_to_impl(P), 's0': fs(s0), 'timeout': 50 if tier == 'quick' else 90,
                              'tpmodels': ['BZ', 'AH', 'BG', 'ZY'][k % 4] if tier == 'quick' else ['BZA', 'AHG', 'BGY', 'ZYH'][k % 4]})
                meta.append({'kind': 'twoport_src', 'tp': P, 's0': s0, 'tag': 'random'})
        # targeted: network classes whose obligation failed
        for fn_ in failed_names:
            m_ = re.match(r'^(?:section_sem|ladder_sem)_([A-Za-z0-9]+)$', fn_)
            if m_ and sect is not None and (m_.group(1) in sect.sections or m_.group(1) in sect.ladders or m_.group(1) in ('Series', 'Shunt')):
                cls_ = m_.group(1)
                for k in range(3):
                    s0 = F(rng.choice(SQUARES))
                    n_ = {'Series': 1, 'Shunt': 1, 'LSection': 2, 'TSection': 3, 'PiSection': 3, 'CSection': 3, 'HSection': 5,
                          'BoxSection': 4, 'SeriesPair': 2}.get(cls_) or (3 + k)
                    P = [cls_, [small_op(rng, s0) for _ in range(n_)]]
                    cases.append({'mode': 'twoport', 'tp': tp_to_impl(P), 's0': fs(s0), 'timeout': 40, 'kinds': 'AB', 'netkinds': 'B'})
                    meta.append({'kind': 'twoport', 'tp': P, 's0': s0, 'tag': 'targeted:' + fn_})
        for i in range(n_two):
            s0 = F(rng.choice(SQUARES))
            P = gen_twoport(rng, s0)
            c_ = {'mode': 'twoport', 'tp': tp_to_impl(P), 's0': fs(s0), 'timeout': 40,
                  'kinds': 'ABZY' if i % 3 else 'ABZYHG', 'netkinds': rng.choice(['B', 'A', 'Z', 'AB', 'BY', 'BH', 'AG'])}
            if P[0] in ('Hybrid2', 'InverseHybrid2'):
                # the emitted netlist of a hybrid connection of common-ground sections violates the port condition
                # (the series side shorts a port), so only the algebra is compared with the text-book sum
                c_['want'] = ['alg', 'netlist']
            cases.append(c_)
            meta.append({'kind': 'twoport', 'tp': P, 's0': s0, 'tag': 'random'})
        if replay and 'case' in replay and 'meta' in replay:
            cases = [replay['case']]
            meta = [deser_meta(replay['meta'])]
        log('run impl on %d cases' % len(cases))
        wres = core.run_impl('impl_oneport.py', cases, timeout=1500 if tier == 'quick' else 7200)
        log('impl done')

        # ---- 4. oracle + correspondence items ------------------------------------------------
        order_params = {c: otr.leaves[c].params for c in otr.order} if otr else {}
        skip_tags = '[%s]' % '; '.join('%d%%nat' % otr.order.index(c) for c in OPAQUE if otr and c in otr.order) if otr else '[]'
        norm_tags = '[%s]' % '; '.join('(%d%%nat, %d%%nat)' % (otr.order.index(a), otr.order.index(b)) for a, b in (('v', 'V'), ('i', 'I'))
                                       if otr and a in otr.order and b in otr.order) if otr else '[]'
        items = []      # (gi, defs, expr, ci)
        labels = {}
        gi = 0
        model1 = bool(base_ok.get('C07model.v'))
        model2 = bool(base_ok.get('SectionsGen.v'))
        for ci, (c, m, r) in enumerate(zip(cases, meta, wres)):
            if 'error' in r:
                res.count('impl_error:' + r['error'].split(':')[0])
                continue
            if m.get('kind') == 'oneport':
                t, s0 = m['tree'], m['s0']
                prof = m.get('profile', 's')
                # the text-book evaluator and the Coq model evaluate one field element per quantity at s = s0:
                # valid when every source is of a transient / s-domain kind (dc and ac parts are analysed at s = 0 / j omega)
                all_s = all(l.get('skind', 's') == 's' for l in leaves_of(t))
                tb = tb_values(t)
                if not all_s:
                    tb['Voc'] = tb['Isc'] = None
                res.count('oneport_' + m['tag'].split(':')[0] + '_' + prof)
                res.add_case(shape(t) + '@' + fs(s0), True, {'tree': shape(t), 's0': fs(s0), 'alg': r.get('alg'), 'net': r.get('net')} if len(res.samples) < 3 else None)
                alg, net = r.get('alg', {}), r.get('net', {})
                for qn in ('Z', 'Y', 'Voc', 'Isc'):
                    a, n_ = ratval(alg.get(qn)), ratval(net.get(qn))
                    if a is None or n_ is None:
                        res.count('not_compared_' + qn)
                        continue
                    res.count('compared_' + qn)
                    if a != n_:
                        key = None
                        if qn in ('Voc', 'Isc') and tb[qn] is not None and n_ == tb[qn] and ic_ignored(t, qn):
                            key = 'ParSer.%s:initial-conditions-ignored-by-has_independent_source' % qn
                        elif qn in ('Z', 'Y') and tb[qn] is not None and a == tb[qn] and any(l.get('ic') for l in leaves_of(t)):
                            key = 'cct.%s:initial-conditions-not-ignored' % {'Z': 'impedance', 'Y': 'admittance'}[qn]
                        if key is None and qn in ('Voc', 'Isc') and not all_s and any(l['cls'] in ('L', 'C') and len(l['args']) > 1 for l in leaves_of(t)):
                            # a dc/ac source in a branch without initial conditions is solved in steady state by the branch's own
                            # circuit, while the netlist of the whole network is an initial value problem
                            key = '%s:branches-not-solved-as-the-initial-value-problem-of-the-network' % {'Voc': 'Ser.Voc', 'Isc': 'Par.Isc'}[qn]
                        if key is None:
                            key = 'oneport.%s:%s' % (qn, re.sub(r'[^A-Za-z(),*]', '', shape(t))[:50])
                        res.counterexamples.append({'key': key, 'case': c, 'quantity': qn, 'algebra': fs(a), 'netlist': fs(n_),
                                                    'textbook': fs(tb[qn]) if tb[qn] is not None else None, 'shape': shape(t)})
                sp_ = r.get('simp')
                if isinstance(sp_, dict) and 'alg' in sp_:
                    for qn in ('Z', 'Y', 'Voc', 'Isc'):
                        a, b_ = ratval(alg.get(qn)), ratval(sp_['alg'].get(qn))
                        if a is None or b_ is None:
                            continue
                        res.count('simplify_compared')
                        if a != b_:
                            # simplify may turn a guarded ParSer into a leaf whose Voc is right: attribute to F9 when so
                            key = 'simplify.%s:%s' % (qn, re.sub(r'[^A-Za-z(),*]', '', shape(t))[:50])
                            if qn in ('Voc', 'Isc') and tb[qn] is not None and b_ == tb[qn] and ic_ignored(t, qn):
                                key = 'ParSer.%s:initial-conditions-ignored-by-has_independent_source' % qn
                            res.counterexamples.append({'key': key, 'case': c, 'quantity': qn, 'before': fs(a), 'after': fs(b_),
                                                        'simplified': sp_.get('repr'), 'shape': shape(t)})
                # phasor-domain correspondence: ac sources of one angular frequency, model over Q(i) at s = j w
                if model1 and prof == 'ac' and isinstance(r.get('ac'), dict) and all(l['cls'] in ('Vac', 'Iac') for l in leaves_of(t) if l.get('src')):
                    try:
                        w_, s1 = m['acw'], m['s1']
                        tdefc = 'Definition tc_%d : tree (lf QcIF) := %s.' % (ci, coq_tree_c(t, order_params, w_))
                        ldc = '(LDc (QI 0%%Qc %s))' % q(w_)
                        firstc = True
                        for qn, fn_ in (('Z', 'Zt %s' % ldc), ('Y', 'Yt %s' % ldc)):
                            cv = r['ac'].get(qn)
                            if isinstance(cv, list):
                                items.append((gi, [tdefc] if firstc else [], 'cchk (%s tc_%d) %s' % (fn_, ci, qi_(F(cv[0]), F(cv[1]))), ci))
                                labels[gi] = ('phasor.' + qn, ci)
                                gi += 1
                                firstc = False
                        for qn, fn_ in (('Voc', 'Voc_code %s gl' % ldc), ('Isc', 'Isc_code %s gl' % ldc)):
                            f0, f1 = ratval(alg.get(qn)), ratval(r['ac'].get(qn + '2')) if isinstance(r['ac'].get(qn + '2'), str) else None
                            if f0 is None or f1 is None:
                                continue
                            a_, b_ = phasor_from_laplace(f0, s0, f1, s1, w_)
                            items.append((gi, [tdefc] if firstc else [], 'cchk (%s tc_%d) %s' % (fn_, ci, qi_(a_, b_)), ci))
                            labels[gi] = ('phasor.' + qn, ci)
                            gi += 1
                            firstc = False
                        res.count('phasor_model_cases')
                    except Exception as ex:
                        res.count('phasor_term_unavailable')
                # correspondence
                if model1 and all_s:
                    try:
                        tdef = 'Definition t_%d : tree (lf QcF) := %s.' % (ci, coq_tree(t, order_params))
                    except Exception:
                        res.count('coq_term_unavailable')
                        continue
                    sp12 = None
                    try:
                        sp12 = rpow(s0, F('1/2'))
                    except ValueError:
                        pass
                    spf = '(fun a : Qc => if qc_eqb a %s then %s else if qc_eqb a %s then %s else 1%%Qc)' % (
                        q('1/2'), q(sp12 if sp12 is not None else 0), q(1), q(s0))
                    ldq = '(LDq %s %s)' % (q(s0), spf)
                    first = True
                    for qn, fn_ in (('Z', 'Zt %s' % ldq), ('Y', 'Yt %s' % ldq), ('Voc', 'Voc_code %s gl' % ldq), ('Isc', 'Isc_code %s gl' % ldq)):
                        a = ratval(alg.get(qn))
                        if a is None:
                            continue
                        items.append((gi, [tdef] if first else [], 'vchk (%s t_%d) %s' % (fn_, ci, q(a)), ci))
                        labels[gi] = ('alg.' + qn, ci)
                        gi += 1
                        first = False
                    nl = r.get('netlist')
                    if isinstance(nl, list):
                        try:
                            exp = '[%s]' % '; '.join(parse_line(l, s0, order_params) for l in nl)
                            items.append((gi, [tdef] if first else [], 'listeqb (elt_eqb %s %s) (netlist_q t_%d) %s' % (skip_tags, norm_tags, ci, exp), ci))
                            labels[gi] = ('netlist', ci)
                            gi += 1
                            first = False
                        except Exception as ex:
                            res.count('netlist_unparsed')
                    if isinstance(sp_, dict):
                        try:
                            if 'tree' in sp_:
                                exp = '(Some %s)' % coq_simp_tree(sp_['tree'], s0, order_params)
                            else:
                                exp = 'None'
                            items.append((gi, [tdef] if first else [], 'otree_eqb %s (simplify_q %s %s t_%d) %s' % (skip_tags, q(s0), spf, ci, exp), ci))
                            labels[gi] = ('simplify', ci)
                            gi += 1
                        except Exception:
                            res.count('simplify_unparsed')
            elif m.get('kind') == 'ctor':
                K_, ctor, args, s0 = m['K'], m['ctor'], m['args'], m['s0']
                res.count('ctor_cases')
                if 'mat' not in r or any(x is None or x == 'zoo' for x in r['mat']):
                    continue
                got = [F(x) for x in r['mat']]
                res.add_case('%sMatrix.%s%s' % (K_, ctor, [fs(a) for a in args]), True)
                z = lambda x: ['Series', [dict(cls='Z', tb=('T', F(0), x))]]
                y = lambda x: ['Shunt', [dict(cls='Y', tb=('N', F(0), x))]]
                inv = lambda x: 1 / x
                spec = {'Zseries': lambda a: z(a[0]), 'Yseries': lambda a: z(inv(a[0])), 'Yshunt': lambda a: y(a[0]),
                        'Zshunt': lambda a: y(inv(a[0])),
                        'Lsection': lambda a: ['Chain', [z(a[0]), y(inv(a[1]))]],
                        'Tsection': lambda a: ['Chain', [['Chain', [z(a[0]), y(inv(a[1]))]], z(a[2])]],
                        'Pisection': lambda a: ['Chain', [['Chain', [y(inv(a[0])), z(a[1])]], y(inv(a[2]))]]}
                if ctor in spec:
                    B = tb_B(spec[ctor](args))
                elif ctor == 'transformer':
                    B = [args[0], F(0), F(0), 1 / args[0]]
                else:
                    B = [F(0), args[0], 1 / args[0], F(0)]
                ok_ = c08.oracle_check('B', K_ + 'params', B, Fraction(1), {'mat': [fs(x) for x in got]})
                if ok_ is False:
                    res.counterexamples.append({'key': '%sMatrix.%s' % (K_, ctor), 'case': c, 'lcapy': r['mat'],
                                                'textbook_B': [fs(x) for x in B], 'found_by': 'text-book section vs constructor'})
                if model2 and (K_, ctor) in sect.ctors:
                    items.append((gi, [], 'meq (%s_ctor_%s (K:=QcF) %s) (Mat (K:=QcF) %s)' % (
                        K_, ctor, ' '.join(q(a) for a in args), ' '.join(q(x) for x in got)), ci))
                    labels[gi] = ('ctor.%sMatrix.%s' % (K_, ctor), ci)
                    gi += 1
            elif m.get('kind') == 'srcunit':
                X, Mx, srcx = m['X'], m['m'], m['src']
                res.count('srcunit_cases')
                alg = r.get('alg', {})
                res.add_case('TwoPort%sModel%s%s' % (X, [fs(x) for x in Mx], [fs(x) for x in srcx]), True)
                pts = src_points(X, Mx, srcx)
                own_b_bad = False
                for T_ in 'BAGHYZ':
                    if T_ == X or pts is None:
                        continue
                    if own_b_bad:
                        break       # every other source of this model is derived from its (wrong) B-model sources
                    MT = convert(X, Mx, T_)
                    if MT is None:
                        continue
                    for wi, pr in enumerate(SRC_OWN[T_]):
                        val = ratval(alg.get(pr)) if isinstance(alg.get(pr), str) else None
                        if val is None:
                            continue
                        res.count('srcunit_checked')
                        if not src_residual(T_, MT, wi, val, pts):
                            if T_ == 'B':
                                own_b_bad = True
                            owner = 'TwoPort%sModel' % X
                            if sect is not None and (owner, X, pr) not in sect.srcconv:
                                owner = 'TwoPort'
                            res.counterexamples.append({'key': '%s.%s' % (owner, pr), 'case': c, 'lcapy': alg.get(pr),
                                                        'found_by': 'the %s-model equations of the two-port (%s-model %s, sources %s) do not hold with this source value'
                                                        % (T_, X, [fs(x) for x in Mx], [fs(x) for x in srcx])})
                        if model2 and sect is not None:
                            owner = 'TwoPort%sModel' % X
                            if (owner, X, pr) not in sect.srcconv:
                                owner = 'TwoPort' if X == 'B' else None
                            if owner and (owner, X, pr) in sect.srcconv:
                                items.append((gi, [], 'qc_eqb (src_%s_%s (K:=QcF) (1%%Qc : QcF) (Mat (K:=QcF) %s) %s %s) %s' % (
                                    owner, pr, ' '.join(q(x) for x in Mx), q(srcx[0]), q(srcx[1]), q(val)), ci))
                                labels[gi] = ('src.%s.%s' % (owner, pr), ci)
                                gi += 1
            elif m.get('kind') == 'twoport_src':
                P, s0 = m['tp'], m['s0']
                res.count('twoport_src_' + P[0])
                res.add_case('src:' + tp_shape(P) + '@' + fs(s0), True)
                alg, net = r.get('alg', {}), r.get('net', {})
                try:
                    Btb, (vb_t, ib_t) = tb_src(P)
                    _, (vb_f, ib_f) = tb_src(P, flip_series=True)
                except Exception:
                    Btb = None
                av, ai = ratval(alg.get('V2b')) if isinstance(alg.get('V2b'), str) else None, ratval(alg.get('I2b')) if isinstance(alg.get('I2b'), str) else None
                flipped = Btb is not None and av is not None and ai is not None and (av, ai) == (vb_f, ib_f) and (av, ai) != (vb_t, ib_t)
                for qn in ('V1z', 'V2z', 'I1y', 'I2y', 'V1h', 'I2h', 'I1g', 'V2g'):
                    a = ratval(alg.get(qn)) if isinstance(alg.get(qn), str) else None
                    n_ = ratval(net.get(qn)) if isinstance(net.get(qn), str) else None
                    if a is None or n_ is None:
                        res.count('twoport_src_not_compared')
                        continue
                    res.count('twoport_src_compared')
                    if a != n_:
                        def has_cls(P_, names):
                            return P_[0] in names or (P_[0] == 'Chain' and any(has_cls(x, names) for x in P_[1]))
                        if flipped:
                            key = 'Series.V2b:sign'
                        elif Btb is not None and (av, ai) == (vb_t, ib_t) and qn in ('I2h', 'V2g'):
                            key = '%s.%s' % ((sect.src_B.get(qn) if sect is not None else None) or 'TwoPort', qn)
                        else:
                            key = 'twoport_src.%s.%s' % (P[0], qn)
                        res.counterexamples.append({'key': key, 'case': c, 'quantity': qn, 'algebra': fs(a), 'netlist': fs(n_),
                                                    'algebra_V2b_I2b': [alg.get('V2b'), alg.get('I2b')],
                                                    'textbook_V2b_I2b': [fs(vb_t), fs(ib_t)] if Btb is not None else None, 'shape': tp_shape(P)})
                if model2 and sect is not None and P[0] != 'Chain':
                    try:
                        if P[0] in ('Ladder', 'LadderAlt'):
                            tterm = '(tp_%s (1%%Qc : QcF) %s [%s])' % (P[0], coq_opd(P[1][0]), '; '.join(coq_opd(a_) for a_ in P[1][1:]))
                        else:
                            tterm = '(tp_%s (1%%Qc : QcF) %s)' % (P[0], ' '.join(coq_opd(a_) for a_ in P[1]))
                        for qn, fn_ in (('V2b', 'tV2b %s' % tterm), ('I2b', 'tI2b %s' % tterm)):
                            a = ratval(alg.get(qn)) if isinstance(alg.get(qn), str) else None
                            if a is not None:
                                items.append((gi, [], 'qc_eqb (%s) %s' % (fn_, q(a)), ci))
                                labels[gi] = ('twoport_src.' + qn, ci)
                                gi += 1
                    except Exception:
                        res.count('twoport_src_term_unavailable')
                # NetlistOpsMixin.twoport(model=X) on the emitted netlist: the returned model against the text-book affine relation
                pts = src_points('B', Btb, (vb_t, ib_t)) if Btb is not None else None
                tterm_tb = ('(TPM (Mat (K:=QcF) %s) %s %s)' % (' '.join(q(x) for x in Btb), q(vb_t), q(ib_t))) if Btb is not None else None
                for X, d_ in (r.get('tpmodel') or {}).items():
                    if not isinstance(d_, dict) or 'M' not in d_:
                        res.count('twoport_model_not_returned')
                        continue
                    okm = lambda x: isinstance(x, list) and all(isinstance(v, str) and v != 'zoo' for v in x)
                    if not (okm(d_['M']) and okm(d_['src'])) or Btb is None:
                        res.count('twoport_model_not_compared')
                        continue
                    res.count('twoport_model_' + X)
                    MX = convert('B', Btb, X)
                    if MX is not None and [F(x) for x in d_['M']] != MX:
                        res.counterexamples.append({'key': 'NetlistOpsMixin.twoport:model-%s-matrix' % X, 'case': c, 'lcapy': d_, 'textbook': [fs(x) for x in MX],
                                                    'shape': tp_shape(P)})
                    if MX is not None and pts is not None:
                        for wi in (0, 1):
                            if not src_residual(X, MX, wi, F(d_['src'][wi]), pts):
                                res.counterexamples.append({'key': 'NetlistOpsMixin.twoport:model-%s-source-vector' % X, 'case': c, 'lcapy': d_,
                                                            'source': SRC_OWN[X][wi], 'textbook_B_V2b_I2b': [[fs(x) for x in Btb], fs(vb_t), fs(ib_t)],
                                                            'found_by': 'the %s-model equations of the network do not hold with the source value returned by twoport(model=%r)' % (X, X),
                                                            'shape': tp_shape(P)})
                                break
                    if probes_ok and ptr is not None and X in ptr.models and ptr.models[X].get('via'):
                        res.count('twoport_model_via_%smodel_oracle_only' % ptr.models[X]['via'])
                    elif probes_ok and ptr is not None and X in ptr.models and tterm_tb:
                        for wi in (0, 1):
                            items.append((gi, [], 'qc_eqb (tp_src_%s_%d (meas_of_Bs %s)) %s' % (X, wi + 1, tterm_tb, q(F(d_['src'][wi]))), ci))
                            labels[gi] = ('twoport_model.%s.%s' % (X, SRC_OWN[X][wi]), ci)
                            gi += 1
                        items.append((gi, [], 'meq (tp_mat_%s (1%%Qc : QcF) (meas_of_Bs %s)) (Mat (K:=QcF) %s)' % (X, tterm_tb, ' '.join(q(F(x)) for x in d_['M'])), ci))
                        labels[gi] = ('twoport_model.%s.matrix' % X, ci)
                        gi += 1
            elif m.get('kind') == 'twoport':
                P, s0 = m['tp'], m['s0']
                res.count('twoport_' + P[0])
                res.add_case(tp_shape(P) + '@' + fs(s0), True, {'twoport': tp_shape(P), 's0': fs(s0), 'alg': r.get('alg', {}).get('B'), 'net': r.get('net')} if len(res.samples) < 5 else None)
                try:
                    B = tb_B(P)
                except Exception:
                    B = None
                alg, net = r.get('alg', {}), r.get('net', {})
                for kd in 'ABZYHG':
                    a, n_ = alg.get(kd), net.get(kd)
                    okm = lambda x: isinstance(x, list) and all(v is not None and v != 'zoo' for v in x)
                    if okm(a) and okm(n_):
                        res.count('twoport_compared')
                        if [F(x) for x in a] != [F(x) for x in n_]:
                            res.counterexamples.append({'key': 'twoport.%s.%sparams' % (P[0], kd), 'case': c, 'algebra': a, 'netlist': n_,
                                                        'textbook_B': [fs(x) for x in B] if B else None, 'shape': tp_shape(P)})
                    for route, val in (('algebra', a), ('netlist', n_)):
                        if okm(val) and B is not None:
                            ok_ = c08.oracle_check('B', kd + 'params', B, Fraction(1), {'mat': val})
                            if ok_ is False and not (okm(a) and okm(n_) and a != n_):
                                res.counterexamples.append({'key': 'twoport.%s.%sparams:%s-vs-textbook' % (P[0], kd, route), 'case': c,
                                                            route: val, 'textbook_B': [fs(x) for x in B], 'shape': tp_shape(P)})
                if probes_ok and ptr is not None and B is not None:
                    for kd in 'ABZYHG':
                        n_ = net.get(kd)
                        if not (isinstance(n_, list) and all(v is not None and v != 'zoo' for v in n_)) or not (kd in ptr.probes or kd in ptr.via):
                            continue
                        items.append((gi, [], 'meq (probe_%s %s(meas_of_Bs (TPM (Mat (K:=QcF) %s) 0%%Qc 0%%Qc))) (Mat (K:=QcF) %s)' % (
                            kd, '' if kd in ptr.probes else '(1%Qc : QcF) ', ' '.join(q(x) for x in B), ' '.join(q(F(x)) for x in n_)), ci))
                        labels[gi] = ('probe.%sparams' % kd, ci)
                        gi += 1
                if model2 and isinstance(alg.get('B'), list) and all(v is not None and v != 'zoo' for v in alg['B']):
                    try:
                        items.append((gi, [], 'meq %s (Mat (K:=QcF) %s)' % (coq_tpB(P), ' '.join(q(F(x)) for x in alg['B'])), ci))
                        labels[gi] = ('twoport.' + P[0], ci)
                        gi += 1
                    except Exception:
                        res.count('twoport_term_unavailable')
        res.programs = len(set(labels[g][0] for g in labels)) + len(set(shape(m['tree']).split('(')[0] for m in meta if m.get('kind') == 'oneport'))

        # ---- 5. correspondence evaluation inside Coq ---------------------------------------------
        failing = []
        if items:
            shards, cur, cur_c = [], [], set()
            for it in items:
                if len(cur) >= 150 and it[3] not in cur_c:
                    shards.append(cur)
                    cur, cur_c = [], set()
                cur.append(it)
                cur_c.add(it[3])
            if cur:
                shards.append(cur)
            fns = []
            for si, sh in enumerate(shards):
                defs = []
                for it in sh:
                    for d_ in it[1]:
                        if d_ not in defs:
                            defs.append(d_)
                # definitions may have been emitted with an item that was dropped: make sure each used tree is defined
                for k in set(re.findall(r'\btc_(\d+)\b', ' '.join(it[2] for it in sh))) - set(re.findall(r'Definition tc_(\d+)', ' '.join(defs))):
                    defs.append('Definition tc_%s : tree (lf QcIF) := %s.' % (k, coq_tree_c(meta[int(k)]['tree'], order_params, meta[int(k)]['acw'])))
                need = set(re.findall(r'\bt_(\d+)\b', ' '.join(it[2] for it in sh)))
                have = set(re.findall(r'Definition t_(\d+)', ' '.join(defs)))
                for k in need - have:
                    mm = meta[int(k)]
                    defs.append('Definition t_%s : tree (lf QcF) := %s.' % (k, coq_tree(mm['tree'], order_params)))
                w.write('cases_%d.v' % si, cases_file(defs, [(a, c_) for a, b_, c_, d_ in sh],
                                                      'Require Import Gen.C07probe Gen.ProbesGen.\n' if probes_ok else ''))
                fns.append('cases_%d.v' % si)
            log('coqc %d case files' % len(fns))
            cr = core.coqc_many(w.dir, fns, timeout=900)
            for f, (ok, out, secs) in cr.items():
                fl = core.parse_eval_list(out) if ok else None
                if fl is None:
                    res.failed_obl.append(('correspondence_eval', f, out[-700:]))
                    res.obligations += 1
                else:
                    failing += fl
            res.extra['traces_validated_against_impl'] = len(items)
        for g in failing:
            lab, ci = labels[g]
            res.disagreements.append({'check': lab, 'case': cases[ci], 'lcapy': wres[ci]})
        res.rule = ('one-ports: random admissible trees (depth <= 4, <= 6 leaves) over R NR G NG L C (with/without initial conditions) CPE Y Z '
                    'Xtal FerriteBead and sV V Vstep v / sI I Istep i (model + oracle, evaluated at a rational s0), Vac Iac of one angular frequency '
                    '(oracle + phasor-domain model over Q(i): the phasor is recovered exactly from two values of the Laplace transform), Vdc Idc and mixtures '
                    '(oracle only: algebra vs netlist through the Laplace transform of the result), one tree per _combine rule, the DESIGN F9 corpus; '
                    'two-ports: every section class, chains, Par2, Ser2/Hybrid2/InverseHybrid2 (second argument a shunt so that the port '
                    'condition holds), every section constructor of AMatrix/BMatrix/ZMatrix; source vectors: each of the six two-port model '
                    'classes on random numeric matrices and sources (every source property against the defining affine relation), sections '
                    'and ladders built from one-ports with sources measured on the emitted netlist (8 open/short quantities), and '
                    'Circuit(netlist).twoport(1, 0, 3, 2, model=X) of the same netlists against the text-book affine relation; '
                    'non-trivial = the real code returned values; '
                    'distinct = distinct tree shape + values')

        # ---- 6. decide -------------------------------------------------------------------------------
        by_key = {}
        for ce in res.counterexamples:
            if 'case' in ce and ce['case'] in cases:
                ce.setdefault('meta', ser_meta(meta[cases.index(ce['case'])]))
            by_key.setdefault(ce['key'], ce)
        if replay and 'case' in replay:
            for ci, (c, r) in enumerate(zip(cases, wres)):
                print('REPLAY case=%s' % json.dumps(c))
                print('REPLAY implementation=%s' % json.dumps(r)[:1500])
                m = meta[ci]
                if m.get('kind') == 'oneport':
                    print('REPLAY textbook=%s' % json.dumps({k: (fs(v) if v is not None else None) for k, v in tb_values(m['tree']).items()}))
                elif m.get('kind') == 'twoport':
                    print('REPLAY textbook_B=%s' % [fs(x) for x in tb_B(m['tp'])])
                print('REPLAY model_disagreements=%s' % [labels[g][0] for g in failing if labels[g][1] == ci])
        for k, ce in by_key.items():
            v = dict(ce)
            v.update({'key': k, 'what': 'network algebra and netlist analysis disagree: ' + k, 'found_input': True,
                      'how': './check C07 --replay <this file>'})
            violations.append(v)
        # generic keys: at most two reported inputs per family (the first ones found)
        fam_count = {}
        for k in list(by_key):
            fam = k.split(':')[0]
            if k.startswith('oneport.') or k.startswith('simplify.') or k.startswith('twoport.'):
                fam_count[fam] = fam_count.get(fam, 0) + 1
                if fam_count[fam] > 2:
                    violations[:] = [v for v in violations if v.get('key') != k]
        explained = set()
        fams = set(k.split(':')[0] for k in by_key)
        for q_ in ('Z', 'Y', 'Voc', 'Isc'):
            if 'oneport.' + q_ in fams or 'simplify.' + q_ in fams:
                explained.update({'Z': ['nf_Ser_impedance', 'nf_Par_impedance'], 'Y': ['nf_Ser_admittance', 'nf_Par_admittance'],
                                  'Voc': ['nf_Ser_Voc'], 'Isc': ['nf_Par_Isc']}[q_])
                explained.add('correspondence:alg.' + q_)
        if any(f.startswith('simplify.') for f in fams):
            explained.update(['correspondence:simplify', 'combine_sound_ser', 'combine_sound_par', 'simplify_preserves'])
        for f in fams:
            if f.startswith('twoport.'):
                cls_ = f.split('.')[1]
                explained.update(['correspondence:twoport.' + cls_, 'section_sem_' + cls_, 'ladder_sem_' + cls_])
                if cls_ in ('Chain',):
                    explained.update(['chain_sem', 'chain_B_sem', 'chain_assoc'])
        SRC_EXPL = {'Series.V2b:sign': ['section_src_Series', 'section_src_SeriesAlt'], 'SeriesAlt.V2b:sign': ['section_src_SeriesAlt'],
                    'TwoPortBModel.I2h': ['src_conv_B_H'], 'TwoPort.I2h': ['src_conv_TwoPort_H', 'src_conv_B_H'],
                    'TwoPort.V2g': ['src_conv_B_G', 'src_conv_TwoPort_G'], 'TwoPortGModel.V2b': ['src_conv_G_B'],
                    'TwoPortHModel.I2b': ['src_conv_H_B']}
        for k in by_key:
            explained.update(SRC_EXPL.get(k, []))
            m_ = re.match(r'^NetlistOpsMixin\.twoport:model-([ABGHYZ])-source-vector$', k)
            if m_:
                explained.add('twoport_src_%s_sound' % m_.group(1))
            if k.startswith('ParSer.'):
                explained.update(['leaf_guard_sound_L', 'leaf_guard_sound_C', 'leaf_guard_sound_all', 'C07_oneport_code', 'C07_code_eq_spec'])
            m_ = re.match(r'^([ABZ])Matrix\.(\w+)$', k)
            if m_:
                explained.add('section_sem_%s_%s' % (m_.group(1), m_.group(2)))
        have_input = bool(by_key)
        for name, f, msg in res.failed_obl:
            if name in explained:
                continue
            violations.append({'key': 'obligation:' + name, 'what': 'Coq obligation %s in %s no longer checks' % (name, f),
                               'theorem': name, 'file': f, 'message': msg[-600:], 'found_input': False})
        seen = set()
        for d in res.disagreements:
            k = 'correspondence:' + d['check']
            if k in seen or k in explained:
                continue
            seen.add(k)
            violations.append({'key': k, 'what': 'hand model / translation and the real code differ on ' + d['check'],
                               'case': d['case'], 'lcapy': d['lcapy'], 'found_input': False,
                               'meta': ser_meta(meta[cases.index(d['case'])]) if d['case'] in cases else None,
                               'correspondence': 'Gen.C07model / Gen.OnePortGen / Gen.SectionsGen vs lcapy (%s)' % d['check']})
        return core.finish(res, violations)
    finally:
        if not os.environ.get('VERIF_KEEP'):
            w.cleanup()


if __name__ == '__main__':
    sys.exit(run(sys.argv[1] if len(sys.argv) > 1 else 'quick'))
