"""C11 — re-formatting a rational expression never changes its value.

  translate  lcapy/ratfun.py -> Gen/RatfunAttach.v          (tools/tr_ratfun.py)
             how every method re-attaches exp(..delay..) and undef, the delay
             update of as_B_A_delay_undef, the partner-order guard of as_QRF
  prove      Gen/C11_<m>.v   fmt_preserves_<m> for every format: for ALL B, A<>0,
             delay, undef, interpretation of exp and point x, the value of the
             formatted expression equals (B/A) exp(-x delay) undef; instantiates
             the hand-proved lemmas of coq/theory/RatfunFmt.v with the generated
             records.   props/C11.v: division identity, poles_are_roots,
             residues_reconstruct, continued fraction, rationalisation ...
  correspond real Lcapy output (exact values at rational / Gaussian points,
             roots, residues, N, D, continued-fraction coefficients) against the
             model evaluated inside Coq over Q(i) (Eval vm_compute, cases_k.v)
  search     exact oracle independent of the model: value(fmt(H)) == value(H)
             at the sample points (Fractions, exp |-> 3^re 5^im homomorphism),
             reported roots are roots, residues reconstruct.
"""
import json
import os
import random
import re
import sys
from fractions import Fraction

sys.path.insert(0, os.path.dirname(os.path.dirname(os.path.abspath(__file__))))
from vlib import core
sys.path.insert(0, os.path.join(core.VERIF, 'tools'))
import tr_ratfun as T
from ratfun_exact import G, evaluate, undef_value, E3, NotExact

PID = 'C11'
MANIFEST = {
    'text': 'Coq theorems fmt_preserves_<m> (one per formatting method and option of lcapy.ratfun.Ratfun / Expr), regenerated on every '
            'run from the way the CURRENT source re-attaches exp(..delay..) and the undefined-function factor, state that for all '
            'polynomials B, A<>0 over any characteristic-0 field, any delay, any interpretation of exp with exp(0)=1 and any value of '
            'the undef factor, the formatted value equals (B/A) exp(-x delay) undef: from the proved Euclidean-division identity, monic '
            'scaling, gcd cancellation, verified root certificates (K Prod(x-z)/Prod(x-p)), verified partial-fraction certificates '
            '(pf_check_sound), conjugate pairing (pair_conjugates_preserves_multiplicity / pair_step_preserves_product, translated from '
            'lcapy/root.py), x->1/x reversal, and the continued-fraction chains of BOTH as_continued_fraction (leading terms) and '
            'as_continued_fraction_inverse (trailing terms; cf_inverse_preserves); poles_are_roots / poles_full_degree cover reported '
            'Gaussian-rational poles and zeros, irrational_roots_are_roots covers irrational ones (any degree) through the checked '
            'identity A = lc Prod m_i^n_i over their minimal polynomials.  The hand model is validated on each run by evaluating it '
            'inside Coq (vm_compute over Q(i)) against what the real methods returned for generated rational functions in s, z, '
            'j omega, j 2 pi f (49 method variants incl. timeconst_terms, as_N_D(monic), coeffs/normcoeffs, as_monic_terms, '
            'expand_response, poles/zeros/roots(pairs=True)).  Delay/undef side channel of the tuple decompositions: Ratfun.as_QMA '
            '(as_QMA_preserves: quotient + remainder/A with the TRANSLATED delay and undef slots equals the value, deg M < deg A; '
            'as_QMA_observed_preserves for the observed Q, M, A accepted by the in-Coq comparison) and Expr.as_ratfun_delay '
            '(as_ratfun_delay_preserves over the slot selection translated fail-closed from lcapy/expr.py).',
    'note': 'Trusted: Coq kernel/vm_compute; tools/tr_ratfun.py (abstract interpreter over the method bodies, pair_conjugates branches) + '
            'statement templates in checks/c11.py; harness exact evaluator tools/ratfun_exact.py; sympy roots/residues/cancel/simplify '
            'are oracles whose answers are checked per case by the verified checkers roots_cert / pf_check / pairing_ok / minpoly_cert; '
            'sympy.minimal_polynomial is trusted for "m(r)=0" of irrational roots (cross-checked at 60 digits); simplify variants, '
            'timeconst_terms, as_sum/as_monic_terms/expand_response: value compared with the specification inside Coq, no structural '
            'model; values of formats containing radicals: exact radical arithmetic oracle only.',
    'technique': 'Coq proof over abstract fields (polynomial theory PolyQ) + source-translated attachment table + in-Coq '
                 'correspondence evaluation over Gaussian rationals + exact value oracle',
}

PI_VAL = Fraction(22, 7)
SYM_VALUES = [Fraction(1, 2), Fraction(3, 2), Fraction(2), Fraction(3), Fraction(5, 2), Fraction(1, 3), Fraction(4), Fraction(5), Fraction(7, 3), Fraction(1), Fraction(7, 2)]
SYM_NAMES = ['a', 'b', 'c', 'g', 'h', 'r', 'm']

# method keys: (key, impl name, kwargs)
VALUE_METHODS = [
    ('canonical', 'canonical', {}), ('canonical_fc', 'canonical', {'factor_const': True}),
    ('general', 'general', {}), ('standard', 'standard', {}), ('mixedfrac', 'mixedfrac', {}),
    ('expandcanonical', 'expandcanonical', {}), ('timeconst', 'timeconst', {}),
    ('ZPK', 'ZPK', {}), ('ZPK_cc', 'ZPK', {'combine_conjugates': True}),
    ('factored', 'factored', {}), ('factored_pairs', 'factored', {'pairs': True}),
    ('partfrac', 'partfrac', {}), ('partfrac_cc', 'partfrac', {'combine_conjugates': True}),
    ('partfrac_ec', 'partfrac', {'method': 'ec'}),
    ('recippartfrac', 'recippartfrac', {}), ('recippartfrac_cc', 'recippartfrac', {'combine_conjugates': True}),
    ('cf', 'as_continued_fraction', {}),
    ('cfi', 'as_continued_fraction_inverse', {}), ('timeconst_terms', 'timeconst_terms', {}),
    ('as_monic_terms', 'as_monic_terms', {}), ('as_nonmonic_terms', 'as_nonmonic_terms', {}), ('expand_response', 'expand_response', {}), ('as_sum', 'as_sum', {}),
    ('ratden', 'rationalize_denominator', {}), ('mtb', 'multiply_top_and_bottom', {}), ('dtb', 'divide_top_and_bottom', {}),
    ('simplify', 'simplify', {}), ('simplify_terms', 'simplify_terms', {}), ('simplify_factors', 'simplify_factors', {}),
]
DATA_METHODS = [
    ('ND', 'N_D', {}), ('poles', 'poles', {}), ('zeros', 'zeros', {}), ('as_ZPK', 'as_ZPK', {}),
    ('as_QRPO', 'as_QRPO', {}), ('as_QRPO_ec', 'as_QRPO', {'method': 'ec'}), ('residues', 'residues', {}),
    ('as_QRF', 'as_QRF', {}), ('as_QRF_cc', 'as_QRF', {'combine_conjugates': True}),
    ('recip_QRPO', 'recip_QRPO', {}), ('cf_coeffs', 'cf_coeffs', {}),
    ('cfi_coeffs', 'cfi_coeffs', {}), ('as_N_D_monic', 'as_N_D_monic', {}), ('coeffs', 'coeffs', {}),
    ('poles_pairs', 'poles_pairs', {}), ('zeros_pairs', 'zeros_pairs', {}), ('N_roots_pairs', 'N_roots_pairs', {}), ('D_roots_pairs', 'D_roots_pairs', {}),
    ('as_QMA', 'as_QMA', {}), ('as_ratfun_delay', 'as_ratfun_delay', {}),
]
# execution order: timeout-prone methods last (an interrupted method taints the rest of its case)
_LATE = ('simplify', 'simplify_terms', 'simplify_factors', 'ratden')
ALL_METHODS = ([m for m in VALUE_METHODS if m[0] not in _LATE] + DATA_METHODS + [m for m in VALUE_METHODS if m[0] in _LATE])
# variants that repeat an expensive computation; quick tier runs them on every third case only
HEAVY_VARIANTS = ('as_monic_terms', 'as_nonmonic_terms', 'as_sum', 'partfrac_ec', 'as_QRPO_ec', 'as_QRF', 'mixedfrac', 'factored_pairs', 'simplify_terms', 'simplify_factors')
# which public method a key belongs to (known-finding keys use the public name)
PUBLIC = {'canonical_fc': 'canonical', 'ZPK_cc': 'ZPK', 'factored_pairs': 'factored', 'partfrac_cc': 'partfrac', 'partfrac_ec': 'partfrac',
          'recippartfrac_cc': 'recippartfrac', 'cf': 'as_continued_fraction', 'ratden': 'rationalize_denominator',
          'mtb': 'multiply_top_and_bottom', 'dtb': 'divide_top_and_bottom', 'ND': 'N/D', 'as_QRPO_ec': 'as_QRPO',
          'as_QRF_cc': 'as_QRF', 'recip_QRPO': 'recippartfrac', 'cf_coeffs': 'continued_fraction_coeffs', 'cfi': 'as_continued_fraction_inverse', 'cfi_coeffs': 'continued_fraction_inverse_coeffs',
          'as_N_D_monic': 'as_N_D(monic_denominator=True)', 'coeffs': 'coeffs/normcoeffs',
          'poles_pairs': 'poles(pairs=True)', 'zeros_pairs': 'zeros(pairs=True)', 'N_roots_pairs': 'roots(pairs=True)', 'D_roots_pairs': 'roots(pairs=True)'}


def public(key):
    return PUBLIC.get(key, key)


# ----------------------------------------------------------------------------
# generator
def gser(x):
    return x.ser()


def fr_str(q):
    q = Fraction(q)
    if q.denominator == 1:
        return str(q.numerator)
    return '%d/%d' % (q.numerator, q.denominator)


class CaseBuilder:
    def __init__(self, rng):
        self.rng = rng
        import sympy as sp
        self.sp = sp

    def domain(self, dom):
        sp = self.sp
        if dom == 's':
            v = sp.Symbol('s')
            return v, v, 's'
        if dom == 'z':
            v = sp.Symbol('z')
            return v, v, 'z'
        if dom == 'omega':
            v = sp.Symbol('omega', real=True)
            return v, sp.I * v, 'omega'
        v = sp.Symbol('f', real=True)
        return v, sp.I * 2 * sp.pi * v, 'f'

    def pretty(self, e):
        s = self.sp.sstr(e)
        s = re.sub(r'\bI\b', 'j', s)
        return s

    def root_factor(self, S, spec):
        """returns (sympy poly expression in S, list of (root G or None, multiplicity 1))"""
        sp = self.sp
        kind = spec[0]
        if kind == 'real':
            return S - sp.Rational(spec[1].numerator, spec[1].denominator)
        if kind == 'cpair':
            a, b = [sp.Rational(x.numerator, x.denominator) for x in spec[1:3]]
            return sp.expand(S ** 2 - 2 * a * S + a ** 2 + b ** 2)
        if kind == 'cplx':
            a, b = [sp.Rational(x.numerator, x.denominator) for x in spec[1:3]]
            return S - (a + b * sp.I)
        if kind == 'symreal':
            return S + sp.Symbol(spec[1], positive=True)
        if kind == 'sympair':
            a, b = sp.Symbol(spec[1], positive=True), sp.Symbol(spec[2], positive=True)
            return S ** 2 + 2 * a * S + a ** 2 + b ** 2
        if kind == 'symquad':
            a, b = sp.Symbol(spec[1], positive=True), sp.Symbol(spec[2], positive=True)
            return S ** 2 + (a + b) * S + a * b
        if kind == 'poly':
            return sum(sp.Rational(c.numerator, c.denominator) * S ** i for i, c in enumerate(spec[1]))
        raise ValueError(kind)

    def rand_frac(self, lo=-4, hi=4, dens=(1, 1, 1, 2, 3), nz=False):
        while True:
            q = Fraction(self.rng.randint(lo, hi), self.rng.choice(dens))
            if q != 0 or not nz:
                return q

    def rand_specs(self, n, symbolic, allow_complex, used_syms, origin_ok=True):
        rng = self.rng
        specs = []
        for _ in range(n):
            k = rng.choice([1, 1, 1, 2, 2, 3]) if not symbolic else rng.choice([1, 1, 1, 2])
            t = rng.random()
            if symbolic and t < 0.6:
                avail = [x for x in SYM_NAMES if x not in used_syms]
                if len(avail) >= 2:
                    kind = rng.choice(['symreal', 'sympair', 'symquad'])
                    if kind == 'symreal':
                        nm = avail[0]
                        used_syms.append(nm)
                        specs.append((('symreal', nm), k))
                    else:
                        used_syms.extend(avail[:2])
                        specs.append(((kind, avail[0], avail[1]), min(k, 2)))
                    continue
            if allow_complex and t < 0.35:
                a = self.rand_frac(-3, 3, (1, 1, 2))
                b = self.rand_frac(1, 3, (1, 1, 2), nz=True)
                specs.append((('cpair', a, abs(b)), min(k, 2)))
            elif allow_complex and t < 0.42:
                a = self.rand_frac(-3, 3, (1, 2))
                b = self.rand_frac(-3, 3, (1, 2), nz=True)
                specs.append((('cplx', a, b), 1))
            elif origin_ok and t < 0.52:
                specs.append((('real', Fraction(0)), k))
            else:
                specs.append((('real', self.rand_frac(-5, 3, (1, 1, 2, 3))), k))
        return specs

    def build(self, idx, dom, opts):
        """opts: symbolic, delay ('none'|'num'|'sym'|'numc'), undef, expanded, nz, np, gain"""
        sp = self.sp
        rng = self.rng
        var, S, vname = self.domain(dom)
        used = []
        zspecs = self.rand_specs(opts['nz'], opts['symbolic'], opts.get('complex', True), used)
        pspecs = self.rand_specs(opts['np'], opts['symbolic'], opts.get('complex', True), used)
        if opts.get('repeated_cpair'):
            a = self.rand_frac(-3, 3, (1, 2))
            b = self.rand_frac(1, 3, (1, 2), nz=True)
            pspecs = pspecs[:max(0, len(pspecs) - 1)] + [(('cpair', a, abs(b)), 2)]
        if opts.get('uneq_conj'):
            # a complex root and its conjugate with DIFFERENT multiplicities (complex-coefficient polynomial);
            # in the omega / f domains the variable is S/j, so conjugates in the variable are a+bj, -a+bj in S
            where, k1, k2 = opts['uneq_conj']
            a = self.rand_frac(-3, 3, (1, 2))
            b = self.rand_frac(1, 3, (1, 2), nz=True)
            if dom in ('s', 'z'):
                pr_ = [(('cplx', a, abs(b)), k1), (('cplx', a, -abs(b)), k2)]
            else:
                a = a if a != 0 else Fraction(1)
                pr_ = [(('cplx', a, abs(b)), k1), (('cplx', -a, abs(b)), k2)]
            if rng.random() < 0.5:
                pr_.reverse()
            if where == 'p':
                pspecs = pspecs[:1] + pr_
            else:
                zspecs = zspecs[:1] + pr_
        if opts.get('surd'):
            # an irreducible quadratic whose roots are NOT in Q(i): poles with square roots
            while True:
                c1 = self.rand_frac(-3, 3, (1, 1, 2))
                c0 = self.rand_frac(-4, 5, (1, 1, 2), nz=True)
                disc = c1 * c1 - 4 * c0
                from ratfun_exact import frac_sqrt
                if frac_sqrt(abs(disc)) is None:
                    break
            pspecs = pspecs[:1] + [(('poly', [c0, c1, Fraction(1)]), 1)]
        if opts.get('cubic'):
            cub = (('poly', [Fraction(rng.choice([1, -1, 2])), Fraction(rng.choice([1, 2, -3])), Fraction(0), Fraction(1)]), 1)   # x^3 + p x + q
            if opts['cubic'] == 'p':
                pspecs = pspecs[:1] + [cub]
            else:
                zspecs = zspecs[:1] + [cub]
        if opts.get('genpoly'):
            zspecs = [(('poly', [self.rand_frac(-3, 3, (1, 2), nz=True) for _ in range(rng.randint(2, 4))]), 1)]
        # merge duplicate specs (same factor twice -> raise the power)
        def merge(specs):
            out = []
            for sp_, k in specs:
                for i, (s2, k2) in enumerate(out):
                    if s2 == sp_:
                        out[i] = (s2, k2 + k)
                        break
                else:
                    out.append((sp_, k))
            return out
        zspecs, pspecs = merge(zspecs), merge(pspecs)

        def cap(specs, maxdeg):
            out, tot = [], 0
            for sp_, k in specs:
                dg = 2 if sp_[0] in ('cpair', 'sympair', 'symquad') else (len(sp_[1]) - 1 if sp_[0] == 'poly' else 1)
                while k > 0 and tot + dg * k > maxdeg:
                    k -= 1
                if k > 0:
                    out.append((sp_, k))
                    tot += dg * k
            return out
        md = 4 if opts['symbolic'] else 6
        zspecs, pspecs = cap(zspecs, md), cap(pspecs, md)
        # avoid common factors between numerator and denominator unless asked
        if not opts.get('common'):
            zspecs = [(s_, k) for s_, k in zspecs if s_ not in [p for p, _ in pspecs]]
        gain = opts.get('gain', Fraction(1))
        env = {}
        vals = list(SYM_VALUES)
        rng.shuffle(vals)
        for i, nm in enumerate(used):
            env[nm] = G(vals[i % len(vals)])
        gsym = None
        if opts.get('symgain'):
            gsym = 'K0' if False else 'q'
            env[gsym] = G(vals[-1])
        if dom == 'f':
            env['pi'] = G(PI_VAL)
        # factor expressions
        zf = [(self.root_factor(S, s_), k) for s_, k in zspecs]
        pf = [(self.root_factor(S, s_), k) for s_, k in pspecs]
        gexpr = sp.Rational(gain.numerator, gain.denominator)
        if gsym:
            gexpr = gexpr * sp.Symbol(gsym, positive=True)
        factors = []     # model factor list
        parts_num, parts_den = [], []
        if opts.get('expanded'):
            Bx = sp.expand(gexpr * sp.Mul(*[f ** k for f, k in zf])) if zf else gexpr
            Ax = sp.expand(sp.Mul(*[f ** k for f, k in pf])) if pf else sp.Integer(1)
            factors.append(('pow', Bx, False, 1))
            if pf:
                factors.append(('pow', Ax, True, 1))
            txt = '(%s)' % self.pretty(Bx)
            if pf:
                txt += '/(%s)' % self.pretty(Ax)
        else:
            factors.append(('pow', gexpr, False, 1))
            pieces = [self.pretty(gexpr)] if gexpr != 1 else []
            for f, k in zf:
                factors.append(('pow', f, False, k))
                pieces.append('(%s)' % self.pretty(f) + ('**%d' % k if k > 1 else ''))
            txt = '*'.join(pieces) if pieces else '1'
            dens = []
            for f, k in pf:
                factors.append(('pow', f, True, k))
                dens.append('(%s)' % self.pretty(f) + ('**%d' % k if k > 1 else ''))
            if dens:
                txt = '%s/(%s)' % (txt, '*'.join(dens))
        # delay
        dl = opts.get('delay', 'none')
        dval = G(0)
        mult = 1      # evaluation points must be multiples of this for exact exp
        if dl != 'none':
            T_ = rng.randint(1, 4)
            c0 = 0
            if dl == 'sym':
                nm = rng.choice(['T', 'tau'])
                env[nm] = G(T_)
                Tx = sp.Symbol(nm, positive=True)
            else:
                Tx = sp.Integer(T_)
            if dl == 'numc':
                c0 = rng.choice([-2, -1, 1, 2])
            if dl == 'neg':
                Tx = -Tx           # an advance: exp(+T s)
                T_ = -T_
            earg = -Tx * S + c0
            # c1 = coefficient of var in the exponent
            c1 = evaluate(sp.Poly(sp.expand(earg), var).all_coeffs()[0], env)
            factors.append(('exp', c1, G(c0)))
            txt = 'exp(%s)*%s' % (self.pretty(earg), txt)
            dval = G(0) - c1
            if dom == 'f':
                mult = 7
        if opts.get('undef'):
            uname = rng.choice(['X', 'V', 'Y'])
            factors.append(('undef', uname))
            txt = '%s(%s)*%s' % (uname, vname, txt)
        # instantiate the model polynomials
        inst = []
        for f in factors:
            if f[0] == 'pow':
                p = sp.Poly(sp.expand(f[1]), var)
                cs = [evaluate(c, env) for c in reversed(p.all_coeffs())]
                inst.append(('pow', cs, f[2], f[3]))
            else:
                inst.append(f)
        # numerator / denominator (instantiated) to choose points away from roots
        def peval(cs, x):
            r = G(0)
            for c in reversed(cs):
                r = r * x + c
            return r
        def value_ok(x):
            if x.is_zero():
                return False
            for f in inst:
                if f[0] == 'pow' and peval(f[1], x).is_zero():
                    return False
            return True
        pts, rpts = [], []
        tries = 0
        while len(pts) < opts.get('npoints', 2) and tries < 200:
            tries += 1
            if dl != 'none':
                x = G(mult * rng.choice([-3, -2, -1, 1, 2, 3]), mult * rng.choice([0, 0, 1, -1, 2]) if dom in ('s', 'z') else 0)
            else:
                x = G(Fraction(rng.randint(-7, 7), rng.choice([1, 2, 3])), Fraction(rng.randint(-3, 3), rng.choice([1, 2])) if (dom in ('s', 'z') and rng.random() < 0.5) else 0)
            if dom in ('omega', 'f'):
                x = G(x.re, 0)
            if value_ok(x) and x not in pts:
                pts.append(x)
        tries = 0
        while len(rpts) < 1 and tries < 100:
            tries += 1
            x = G(mult * rng.choice([-3, -2, -1, 1, 2, 3, 4]), 0)
            if value_ok(x):
                rpts.append(x)
        # multiply/divide factors, non-zero at the points
        mf = None
        for _ in range(20):
            cand = rng.randint(-4, 4)
            xs = pts
            if all(not (x + G(cand)).is_zero() for x in xs):
                mf = '%s + %d' % (vname, cand) if cand >= 0 else '%s - %d' % (vname, -cand)
                break
        dfc = rng.choice(['2', '3', '5/2', vname if all(not x.is_zero() for x in pts) else '2'])
        has_rep_conj = any(s_[0] in ('cpair', 'sympair') and k >= 2 for s_, k in pspecs)
        cpl = {(s_[1], s_[2]): k for s_, k in pspecs if s_[0] == 'cplx'}
        for (a_, b_), k_ in cpl.items():
            other = (a_, -b_) if dom in ('s', 'z') else (-a_, b_)
            if other in cpl and other != (a_, b_) and max(k_, cpl[other]) >= 2:
                has_rep_conj = True
        tags = dict(opts)
        tags.update({'dom': dom, 'repeated_conjugate_poles': has_rep_conj,
                     'zeros_known': all(s_[0] != 'poly' for s_, k in zspecs),
                     'poles_known': all(s_[0] != 'poly' for s_, k in pspecs)})
        return {'id': idx, 'expr': txt, 'var': vname, 'env': {k: v.ser() for k, v in env.items()},
                'points': [p.ser() for p in pts], 'rpoints': [p.ser() for p in rpts],
                'mfactor': mf or (vname + ' + 11'), 'dfactor': dfc,
                'methods': [[k, n, kw] for k, n, kw in ALL_METHODS if (idx % 3 == 0 or opts.get('thorough') or k not in HEAVY_VARIANTS)],
                'factors': [(f[0], [c.ser() for c in f[1]], f[2], f[3]) if f[0] == 'pow' else
                            (('exp', f[1].ser(), f[2].ser()) if f[0] == 'exp' else f) for f in inst],
                'delay': dval.ser(), 'tags': {k: (fr_str(v) if isinstance(v, Fraction) else v) for k, v in tags.items()}}


def gen_cases(rng, tier):
    cb = CaseBuilder(rng)
    cases = []
    n_rand = 42 if tier == 'quick' else 400
    plan = []
    # fixed seed corpus: every delay-attaching method meets a delay, the documented reproducers
    for dom in ('s', 's', 'omega', 'f', 'z'):
        for dl in ('num', 'sym'):
            plan.append((dom, dict(symbolic=False, delay=dl, undef=False, expanded=(dl == 'sym'), nz=1, np=2, complex=(dom in ('s', 'z')))))
    plan.append(('s', dict(symbolic=False, delay='numc', undef=True, expanded=False, nz=1, np=2)))
    plan.append(('s', dict(symbolic=False, delay='neg', undef=False, expanded=True, nz=2, np=2)))
    plan.append(('s', dict(symbolic=True, delay='sym', undef=True, expanded=False, nz=1, np=2)))
    plan.append(('s', dict(symbolic=False, delay='none', undef=False, expanded=False, nz=1, np=1, repeated_cpair=True)))
    plan.append(('s', dict(symbolic=False, delay='none', undef=False, expanded=True, nz=1, np=2, repeated_cpair=True)))
    plan.append(('z', dict(symbolic=False, delay='none', undef=False, expanded=False, nz=1, np=1, repeated_cpair=True)))
    # continued-fraction friendly (no delay / undef; proper, improper and ladder-like)
    for dom, nz_, np_, ex in (('s', 3, 2, True), ('s', 2, 2, False), ('z', 3, 1, True), ('s', 1, 3, True), ('omega', 2, 1, False), ('s', 2, 3, False)):
        plan.append((dom, dict(symbolic=False, delay='none', undef=False, expanded=ex, nz=nz_, np=np_, complex=(dom == 's'), nocommon_origin=True)))
    plan.append(('s', dict(symbolic=True, delay='none', undef=False, expanded=False, nz=1, np=1)))
    # irrational poles (oracle by exact radical arithmetic; root-free formats still go through Coq)
    plan.append(('s', dict(symbolic=False, delay='none', undef=False, expanded=False, nz=1, np=1, surd=True)))
    plan.append(('s', dict(symbolic=False, delay='num', undef=False, expanded=True, nz=1, np=1, surd=True, complex=False)))
    plan.append(('z', dict(symbolic=False, delay='none', undef=True, expanded=False, nz=2, np=1, surd=True, complex=False)))
    plan.append(('s', dict(symbolic=False, delay='none', undef=False, expanded=False, nz=0, np=0, gain=Fraction(5, 3))))
    # irrational roots of degree 3 (Cardano): certificates by minimal polynomials
    plan.append(('s', dict(symbolic=False, delay='none', undef=False, expanded=False, nz=1, np=1, complex=False, cubic='p')))
    plan.append(('z', dict(symbolic=False, delay='none', undef=False, expanded=True, nz=1, np=1, complex=False, cubic='z')))
    # conjugate roots with unequal multiplicities, both orientations, in poles and in zeros
    for dom, where, k1, k2, ex in (('s', 'p', 2, 1, False), ('s', 'p', 1, 2, False), ('s', 'z', 3, 1, False), ('s', 'z', 1, 2, True),
                                   ('z', 'p', 1, 3, False), ('z', 'z', 2, 1, False), ('omega', 'p', 1, 2, False), ('s', 'p', 2, 3, True)):
        plan.append((dom, dict(symbolic=False, delay='none', undef=False, expanded=ex, nz=1, np=1, complex=False, uneq_conj=(where, k1, k2))))
    plan.append(('s', dict(symbolic=False, delay='num', undef=True, expanded=False, nz=1, np=1, complex=False, uneq_conj=('p', 1, 2))))
    plan.append(('s', dict(symbolic=False, delay='num', undef=True, expanded=False, nz=2, np=0)))
    for i in range(n_rand):
        dom = rng.choice(['s', 's', 's', 'z', 'z', 'omega', 'f'])
        symbolic = rng.random() < 0.3
        if symbolic:
            nz, np_ = rng.choice([0, 1, 1]), rng.choice([1, 1, 2])
        else:
            nz, np_ = rng.choice([0, 1, 1, 2, 2, 3]), rng.choice([0, 1, 1, 2, 2, 3])
        plan.append((dom, dict(
            symbolic=symbolic,
            delay=rng.choice(['none', 'none', 'none', 'num', 'sym', 'numc', 'neg']) if dom != 'z' else 'none',
            undef=rng.random() < 0.25,
            expanded=rng.random() < (0.45 if not symbolic else 0.25),
            nz=nz, np=np_,
            complex=rng.random() < 0.7,
            common=rng.random() < 0.1,
            genpoly=(not symbolic) and rng.random() < 0.12,
            symgain=rng.random() < 0.15,
            gain=Fraction(rng.choice([1, 1, 2, 3, -1, -2, 5]), rng.choice([1, 1, 2, 3])),
            surd=(not symbolic) and rng.random() < 0.08,
            uneq_conj=((rng.choice('pz'),) + rng.choice([(1, 2), (2, 1), (1, 3), (3, 1), (2, 3), (3, 2)])) if (not symbolic and rng.random() < 0.1) else None,
            repeated_cpair=(not symbolic) and rng.random() < 0.08)))
    for i, (dom, opts) in enumerate(plan):
        if tier != 'quick':
            opts['thorough'] = True
        try:
            cases.append(cb.build(i, dom, opts))
        except (NotExact, ZeroDivisionError) as e:
            continue
    for i, c in enumerate(cases):
        c['id'] = i
    return cases


# ----------------------------------------------------------------------------
# exact oracle (Python, Fractions) — independent of the Coq model
def peval(cs, x):
    r = G(0)
    for c in reversed(cs):
        r = r * x + c
    return r


def polydiv_linear(cs, p):
    """divide poly (low first) by (x - p): returns (quotient, remainder)"""
    n = len(cs)
    if n == 0:
        return [], G(0)
    q = [G(0)] * (n - 1)
    carry = G(0)
    for i in range(n - 1, -1, -1):
        cur = cs[i] + carry * p
        if i > 0:
            q[i - 1] = cur
            carry = cur
        else:
            rem = cur
    return q, rem


def trim(cs):
    cs = list(cs)
    while cs and cs[-1].is_zero():
        cs.pop()
    return cs


def oracle_roots(cs, roots):
    """every (p, n): (x-p)^n | poly; returns (ok, full)"""
    cur = trim(cs)
    tot = 0
    for p, n in roots:
        for _ in range(n):
            q, rem = polydiv_linear(cur, p)
            if not rem.is_zero():
                return False, False
            cur = q
        tot += n
    return True, tot == len(trim(cs)) - 1


def oracle_case(c, r):
    """returns list of (key, point index, what) for every exact disagreement with the input's value"""
    bad = []
    if 'error' in r:
        return bad
    orig = [G.des(v) for v in r['orig']]
    orig_r = [G.des(v) for v in (r.get('orig_r') or [])]
    pts = [G.des(p) for p in c['points']]
    dec = r['decomp']
    A = [G.des(x) for x in dec['A']]
    B = [G.des(x) for x in dec['B']]
    for key, _, _ in ALL_METHODS:
        m = r['m'].get(key)
        if not m or 'error' in m:
            continue
        if 'vals' in m and key not in ('ND',):
            ref = orig_r if m.get('real_points') else orig
            for k, v in enumerate(m['vals']):
                if k < len(ref) and G.des(v) != ref[k]:
                    bad.append((key, k, 'value'))
                    break
        if key == 'ND':
            for k in range(len(pts)):
                n, d = G.des(m['N'][k]), G.des(m['D'][k])
                if d.is_zero() or n / d != orig[k]:
                    bad.append((key, k, 'N/D'))
                    break
        if key == 'as_N_D_monic':
            for k in range(len(pts)):
                n, d_ = G.des(m['N'][k]), G.des(m['D'][k])
                if d_.is_zero() or n / d_ != orig[k]:
                    bad.append((key, k, 'N/D'))
                    break
            dp = trim([G.des(x) for x in m['Dpoly']])
            if dp and dp[-1] != G(1):
                bad.append((key, 0, 'denominator not monic'))
        if key == 'coeffs':
            for nm_ in ('N', 'D'):
                cs = [G.des(x) for x in reversed(m[nm_ + 'c'])]
                ns = [G.des(x) for x in reversed(m[nm_ + 'n'])]
                for k, x in enumerate(pts):
                    if peval(cs, x) != G.des(m[nm_][k]) or G.des(m[nm_ + 'c'][0]) * peval(ns, x) != G.des(m[nm_][k]):
                        bad.append((key, k, 'coeffs/normcoeffs of %s do not reconstruct it' % nm_))
                        break
        if key in ('poles', 'zeros') and 'minpolys' in m:
            # exact, independent: lc * prod m^n == polynomial (Fractions), all conjugates reported
            poly = trim(A if key == 'poles' else B)
            if any(x.im != 0 for x in poly):
                continue
            okm = all(n_ > 0 and cnt == len(cs) - 1 for cs, n_, cnt in m['minpolys'])
            if okm:
                prod = [poly[-1]]
                for cs, n_, cnt in m['minpolys']:
                    mc = [G.des(x) for x in cs]
                    for _ in range(n_):
                        nw = [G(0)] * (len(prod) + len(mc) - 1)
                        for i_, a_ in enumerate(prod):
                            for j_, b_ in enumerate(mc):
                                nw[i_ + j_] = nw[i_ + j_] + a_ * b_
                        prod = nw
                okm = trim(prod) == poly
            if not okm:
                bad.append((key, 0, 'reported irrational roots (by minimal polynomial) do not account for the polynomial'))
            continue
        if key in ('poles', 'zeros'):
            ok, full = oracle_roots(A if key == 'poles' else B, [(G.des(p), n) for p, n in m['roots']])
            if not ok:
                bad.append((key, 0, 'reported root is not a root with that multiplicity'))
        if key in ('poles_pairs', 'zeros_pairs', 'N_roots_pairs', 'D_roots_pairs'):
            # reported multiplicities (pairs count for both members) against the true ones
            poly = [G.des(x) for x in m['poly']] if 'poly' in m else (A if key == 'poles_pairs' else B)
            for pl_, sl_, tag in ((m['pairs'], m['singles'], 'dict'), ([p_ + [1] for p_ in m['pairs_list']], [[p_, 1] for p_ in m['singles_list']], 'list')):
                cnt = {}
                for a_, b_, n_ in pl_:
                    for q_ in (G.des(a_), G.des(b_)):
                        cnt[q_] = cnt.get(q_, 0) + n_
                for p_, n_ in sl_:
                    cnt[G.des(p_)] = cnt.get(G.des(p_), 0) + n_
                okr, full = oracle_roots(poly, list(cnt.items()))
                extra = False
                if okr:
                    # not under-reported either: dividing all of them out leaves no further copy of a reported root
                    cur = trim(poly)
                    for p_, n_ in cnt.items():
                        for _ in range(n_):
                            cur, _r = polydiv_linear(cur, p_)
                    extra = any(peval(cur, p_).is_zero() for p_ in cnt) and len(cur) > 1
                if not okr or extra:
                    bad.append((key, 0, 'multiplicities reported with pairs=True (%s form) differ from the true ones' % tag))
                    break
        if key in ('as_QRPO', 'as_QRPO_ec'):
            try:
                for k, x in enumerate(pts):
                    v = peval([G.des(q) for q in m['Q']], x)
                    for rr, p, o in zip(m['R'], m['P'], m['O']):
                        v = v + G.des(rr) / (x - G.des(p)).ipow(o)
                    v = v * E3(G(0) - x * G.des(m['delay'])) * G.des(m['undef'][k])
                    if v != orig[k]:
                        bad.append((key, k, 'residues do not reconstruct'))
                        break
            except (NotExact, ZeroDivisionError):
                pass
        if key == 'as_QMA':
            # (Q + M/A) exp(-delay var) undef == expression, deg M < deg A   (Fractions; independent of the Coq division)
            try:
                Qo, Mo, Ao = ([G.des(q) for q in m[nm_]] for nm_ in ('Q', 'M', 'A'))
                for k, x in enumerate(pts):
                    v = (peval(Qo, x) + peval(Mo, x) / peval(Ao, x)) * E3(G(0) - x * G.des(m['delay'])) * G.des(m['undef'][k])
                    if v != orig[k]:
                        bad.append((key, k, '(Q + M/A) exp(-delay var) undef does not reconstruct'))
                        break
                else:
                    if len(trim(Mo)) >= len(trim(Ao)):
                        bad.append((key, 0, 'remainder degree not below the denominator degree'))
            except (NotExact, ZeroDivisionError):
                pass
        if key == 'as_ratfun_delay':
            try:
                for k, x in enumerate(pts):
                    if G.des(m['rvals'][k]) * E3(G(0) - x * G.des(m['delay'])) != orig[k]:
                        bad.append((key, k, 'ratfun exp(-delay var) does not reconstruct'))
                        break
            except (NotExact, ZeroDivisionError):
                pass
        if key in ('as_QRF', 'as_QRF_cc'):
            try:
                for k, x in enumerate(pts):
                    v = G.des(m['Q'][k])
                    for a, b in m['terms']:
                        v = v + G.des(a[k]) / G.des(b[k])
                    v = v * E3(G(0) - x * G.des(m['delay'])) * G.des(m['undef'][k])
                    if v != orig[k]:
                        bad.append((key, k, 'Q + sum R/F does not reconstruct'))
                        break
            except (NotExact, ZeroDivisionError):
                pass
    return bad


def fingerprint(c, r, key, k):
    """stable structural fingerprint of one counterexample -> known-finding key"""
    pub = public(key)
    try:
        dec = r['decomp']
        d = G.des(dec['delay'])
        m = r['m'][key]
        if not d.is_zero() and 'vals' in m:
            ref = r['orig_r'] if m.get('real_points') else r['orig']
            x = G.des((c['rpoints'] if m.get('real_points') else c['points'])[k])
            flipped = G.des(ref[k]) * E3(x * d) * E3(x * d)
            if G.des(m['vals'][k]) == flipped:
                return '%s delay' % pub
        # repeated complex-conjugate pole pair combined by combine_conjugates
        if key in ('partfrac_cc', 'as_QRF_cc', 'recippartfrac_cc') and c.get('tags', {}).get('repeated_conjugate_poles'):
            # generator knowledge: the denominator has a complex-conjugate pole pair of multiplicity >= 2
            return '%s combine_conjugates repeated-conjugate-poles' % pub
        if key in ('partfrac_cc', 'as_QRF_cc', 'recippartfrac_cc'):
            src = r['m'].get('as_QRPO' if key != 'recippartfrac_cc' else 'recip_QRPO')
            if src and 'P' in src:
                P = [G.des(p) for p in src['P']]
                O = src['O']
                for i, p in enumerate(P):
                    for jx in range(i + 1, len(P)):
                        if P[jx] == p.conj() and p.im != 0 and (O[i] > 1 or O[jx] > 1):
                            return '%s combine_conjugates repeated-conjugate-poles' % pub
        if key in ('ZPK_cc', 'factored_pairs') and 'vals' in m:
            # a Python float went through sympy: the value is off by a relative error below 1e-12 (exact test),
            # and the gain is printed as a ratio of >= 14-digit integers
            ob, og = G.des(m['vals'][k]), G.des(r['orig'][k])
            refs = [og]
            if not d.is_zero():
                x = G.des(c['points'][k])
                refs.append(og * E3(x * d) * E3(x * d))      # together with the (known) flipped delay sign
            for rf_ in refs:
                if not rf_.is_zero():
                    dev = ob / rf_ - G(1)
                    if Fraction(0) < dev.norm() < Fraction(1, 10 ** 24) and re.search(r'\d{14,}', m.get('str', '')):
                        return '%s combine_conjugates no-conjugate-pairs float-gain' % pub
    except Exception:
        pass
    return '%s value-changed' % pub


# ----------------------------------------------------------------------------
# Coq generation
def qi(x):
    x = x if isinstance(x, G) else G.des(x)
    return '(qi (%d) %d (%d) %d)' % (x.re.numerator, x.re.denominator, x.im.numerator, x.im.denominator)


def plist(cs):
    return '[' + '; '.join(qi(c) for c in cs) + ']'


def tplist(cs):
    return '(%s : list QcIF)' % plist(cs)


def rlist(roots):
    return '[' + '; '.join('(%s, %d%%nat)' % (qi(p), n) for p, n in roots) + ']'


def tlist(R, P, O):
    return '[' + '; '.join('(%s, %s, %d%%nat)' % (qi(a), qi(b), o) for a, b, o in zip(R, P, O)) + ']'


def pairlist(l):
    return '[' + '; '.join('(%s, %s, %d%%nat)' % (qi(a), qi(b), n) for a, b, n in l) + ']'


HEADER = '''(* GENERATED by checks/c11.py from lcapy/ratfun.py (sha256 %s).  Do not edit. *)
Require Import LT.FieldSec LT.PolyQ LT.QcI LT.RatfunFmt LT.RatfunCF LT.RatfunCorr Gen.RatfunAttach.
Local Open Scope F_scope.
'''

THM_HEAD = '''(* GENERATED by checks/c11.py from lcapy/ratfun.py (sha256 %s).  Do not edit. *)
Require Import LT.FieldSec LT.PolyQ LT.RatfunFmt Gen.RatfunAttach.
Local Open Scope F_scope.
Section Obl.
Variable K : fld.
Add Field KFo : (fth K).
Variable E : K -> K.
Hypothesis E0 : E 0 = 1.
Lemma attach_%s_ok : att_ok (%s K).
Proof. split; [intros x d; cbn [a_exp %s]; ring | reflexivity]. Qed.
Local Notation att_ok_here := attach_%s_ok.
'''

def translate_ratfun_delay(repo):
    """fail-closed extraction of Expr.as_ratfun_delay (lcapy/expr.py): which slots of the tuple returned by
    Ratfun.as_B_A_delay_undef() make up the returned expression (a quotient), the returned delay and the guarded
    (must-be-1) factor.  Returns (coq text, sha, line); anything but the recognised shape raises Untranslatable."""
    import ast
    path = os.path.join(repo, 'lcapy', 'expr.py')
    src = open(path).read()
    fns = [n for n in ast.walk(ast.parse(src)) if isinstance(n, ast.FunctionDef) and n.name == 'as_ratfun_delay']
    if len(fns) != 1:
        raise T.Untranslatable('lcapy/expr.py: expected exactly one def as_ratfun_delay, found %d' % len(fns))
    fn = fns[0]

    def bad(node, msg):
        raise T.Untranslatable('lcapy/expr.py:%d: as_ratfun_delay: %s' % (getattr(node, 'lineno', fn.lineno), msg))
    body = list(fn.body)
    if body and isinstance(body[0], ast.Expr) and isinstance(body[0].value, ast.Constant) and isinstance(body[0].value.value, str):
        body = body[1:]
    if len(body) != 4:
        bad(fn, 'expected 4 statements, found %d' % len(body))
    s0, s1, s2, s3 = body
    if not (isinstance(s0, ast.Assign) and len(s0.targets) == 1 and isinstance(s0.targets[0], ast.Name)
            and ast.unparse(s0.value) == 'self._ratfun_check()'):
        bad(s0, 'expected `<name> = self._ratfun_check()`')
    rname = s0.targets[0].id
    if not (isinstance(s1, ast.Assign) and len(s1.targets) == 1 and isinstance(s1.targets[0], ast.Tuple) and len(s1.targets[0].elts) == 4
            and all(isinstance(e, ast.Name) for e in s1.targets[0].elts) and ast.unparse(s1.value) == rname + '.as_B_A_delay_undef()'):
        bad(s1, 'expected `b, a, delay, undef = %s.as_B_A_delay_undef()`' % rname)
    names = [e.id for e in s1.targets[0].elts]
    if len(set(names)) != 4:
        bad(s1, 'repeated name in the unpacked tuple')
    if not (isinstance(s2, ast.If) and not s2.orelse and len(s2.body) == 1 and isinstance(s2.body[0], ast.Raise)
            and isinstance(s2.test, ast.Compare) and len(s2.test.ops) == 1 and isinstance(s2.test.ops[0], ast.NotEq)
            and isinstance(s2.test.left, ast.Name) and s2.test.left.id in names
            and len(s2.test.comparators) == 1 and isinstance(s2.test.comparators[0], ast.Constant) and s2.test.comparators[0].value == 1
            and type(s2.test.comparators[0].value) is int):
        bad(s2, 'expected `if <slot> != 1: raise ...`')
    guard = names.index(s2.test.left.id)
    ok = (isinstance(s3, ast.Return) and isinstance(s3.value, ast.Tuple) and len(s3.value.elts) == 2)
    if ok:
        e0, e1 = s3.value.elts
        ok = (isinstance(e0, ast.Call) and ast.unparse(e0.func) == 'self.__class__' and len(e0.args) == 1
              and len(e0.keywords) == 1 and e0.keywords[0].arg is None and ast.unparse(e0.keywords[0].value) == 'self.assumptions'
              and isinstance(e0.args[0], ast.BinOp) and isinstance(e0.args[0].op, ast.Div)
              and isinstance(e0.args[0].left, ast.Name) and e0.args[0].left.id in names
              and isinstance(e0.args[0].right, ast.Name) and e0.args[0].right.id in names
              and isinstance(e1, ast.Name) and e1.id in names)
    if not ok:
        bad(s3, 'expected `return self.__class__(<slot> / <slot>, **self.assumptions), <slot>`')
    num, den, dly = names.index(e0.args[0].left.id), names.index(e0.args[0].right.id), names.index(e1.id)
    seg = ast.get_source_segment(src, fn) or ''
    import hashlib
    sha = hashlib.sha256(seg.encode()).hexdigest()[:16]
    txt = ('\n(* Expr.as_ratfun_delay (lcapy/expr.py line %d, sha256 %s): slots t0..t3 of as_B_A_delay_undef() = (B, A, delay, undef);\n'
           '   returns (%s / %s, %s), raises unless %s = 1 *)\n'
           'Definition att_rd_val (K : fld) (t0 t1 t2 t3 : K) : K := t%d / t%d.\n'
           'Definition att_rd_delay (K : fld) (t0 t1 t2 t3 : K) : K := t%d.\n'
           'Definition att_rd_guard (K : fld) (t0 t1 t2 t3 : K) : K := t%d.\n') % (
               fn.lineno, sha, names[num], names[den], names[dly], names[guard], num, den, dly, guard)
    return txt, sha, fn.lineno


# statement templates: key -> (attach name, theorem body, proof)
def theorem_files(tr):
    res = tr.result
    files = {}
    meta = {}

    def mk(key, att, stmts):
        if att is None:
            txt = THM_HEAD.split('Lemma attach_')[0] % tr.sha
        else:
            txt = THM_HEAD % (tr.sha, key, att, att, key)
        names = []
        for name, stmt, proof in stmts:
            txt += 'Theorem %s :\n  %s.\nProof. %s Qed.\n' % (name, stmt, proof)
            names.append(name)
            meta[name] = stmt
        txt += 'End Obl.\n' + '\n'.join('Print Assumptions %s.' % n for n in names) + '\n'
        files['C11_%s.v' % key] = txt

    V = 'forall (B A : list K) (d u x : K)'
    f = res['formats']
    if 'canonical' in f:
        mk('canonical', 'att_canonical', [('fmt_preserves_canonical',
            V + ', pzerob A = false -> peval A x <> 0 -> fmt_canonical E (att_canonical K) B A d u x = sem E B A d u x',
            'intros. apply fmt_canonical_sound; auto using att_ok_here.')])
    if 'canonical_fc' in f:
        mk('canonical_fc', 'att_canonical_fc', [('fmt_preserves_canonical_factor_const',
            V + ', pzerob A = false -> pzerob B = false -> peval A x <> 0 -> fmt_canonical_fc E (att_canonical_fc K) B A d u x = sem E B A d u x',
            'intros. apply fmt_canonical_fc_sound; auto using att_ok_here.')])
    if 'general' in f:
        mk('general', 'att_general', [('fmt_preserves_general',
            V + ', peval A x <> 0 -> fmt_general E (att_general K) B A d u x = sem E B A d u x',
            'intros. apply fmt_general_sound; auto using att_ok_here.')])
    if 'standard' in f:
        mk('standard', 'att_standard', [('fmt_preserves_standard',
            V + ', pzerob A = false -> peval A x <> 0 -> fmt_standard E (att_standard K) B A d u x = sem E B A d u x',
            'intros. apply fmt_standard_sound; auto using att_ok_here.')])
    if 'expandcanonical' in f:
        mk('expandcanonical', 'att_expandcanonical', [('fmt_preserves_expandcanonical',
            V + ', peval A x <> 0 -> fmt_expandcanonical E (att_expandcanonical K) B A d u x = sem E B A d u x',
            'intros. apply fmt_expandcanonical_sound; auto using att_ok_here.')])
    if 'timeconst' in f:
        mk('timeconst', 'att_timeconst', [('fmt_preserves_timeconst',
            V + ', pzerob A = false -> peval A x <> 0 -> fmt_timeconst E (att_timeconst K) B A d u x = sem E B A d u x',
            'intros. apply fmt_timeconst_sound; auto using att_ok_here.')])
    if 'ZPK' in f:
        mk('ZPK', 'att_ZPK', [('fmt_preserves_ZPK',
            'forall (zs ps : list (K * nat)) (B A : list K) (d u x : K), roots_cert B zs = true -> roots_cert A ps = true -> '
            'pzerob A = false -> peval A x <> 0 -> fmt_ZPK E (att_ZPK K) zs ps B A d u x = sem E B A d u x',
            'intros. apply fmt_ZPK_sound; auto using att_ok_here.')])
    if 'ZPK_cc' in f:
        mk('ZPK_cc', 'att_ZPK_cc', [('fmt_preserves_ZPK_combine_conjugates',
            'forall (zs ps : list (K * nat)) zp zs1 pp ps1 (B A : list K) (d u x : K), roots_cert B zs = true -> roots_cert A ps = true -> '
            'pairing_ok zs zp zs1 = true -> pairing_ok ps pp ps1 = true -> '
            'pzerob A = false -> peval A x <> 0 -> fmt_ZPK_cc E (att_ZPK_cc K) zp zs1 pp ps1 B A d u x = sem E B A d u x',
            'intros. apply (fmt_ZPK_cc_sound K E E0 (att_ZPK_cc K) zs ps); auto using att_ok_here.')])
    if 'partfrac' in f:
        mk('partfrac', 'att_partfrac', [
            ('fmt_preserves_partfrac',
             'forall (Q : list K) (ts : list (pfterm K)) (B A : list K) (d u x : K), pf_check B A Q ts = true -> peval A x <> 0 -> '
             'fmt_partfrac E (att_partfrac K) Q ts d u x = sem E B A d u x',
             'intros. apply fmt_partfrac_sound; auto using att_ok_here.'),
            ('fmt_preserves_recippartfrac',
             'forall (Q : list K) (ts : list (pfterm K)) (B A : list K) (u x : K), '
             'pf_check (recip_num B A) (recip_den B A) Q ts = true -> x <> 0 -> peval A x <> 0 -> '
             'fmt_recippartfrac (att_partfrac K) Q ts 0 u x = sem E B A 0 u x',
             'intros. apply fmt_recippartfrac_sound; auto using att_ok_here.')])
    if 'partfrac_cc' in f and 'oguard' in res:
        mk('partfrac_cc', 'att_partfrac_cc', [
            ('fmt_preserves_partfrac_combine_conjugates_order1',
             'forall isconj (Q : list K) (ts : list (pfterm K)) (B A : list K) (d u x v : K), pf_check B A Q ts = true -> peval A x <> 0 -> '
             'pf_poles_nz ts x -> fmt_partfrac_cc E (att_partfrac_cc K) isconj qrf_oguard Q ts d u x = Some (v, true) -> v = sem E B A d u x',
             'intros. eapply fmt_partfrac_cc_sound; eauto using att_ok_here.'),
        ])
        mk('partfrac_cc_all', 'att_partfrac_cc', [
            ('fmt_preserves_partfrac_combine_conjugates',
             'forall isconj (Q : list K) (ts : list (pfterm K)) (B A : list K) (d u x v : K) ok, pf_check B A Q ts = true -> peval A x <> 0 -> '
             'pf_poles_nz ts x -> fmt_partfrac_cc E (att_partfrac_cc K) isconj qrf_oguard Q ts d u x = Some (v, ok) -> v = sem E B A d u x',
             'intros isconj Q ts B A d u x v ok Hc Hx Hn Hf. assert (G : qrf_oguard = true) by reflexivity. rewrite G in Hf. '
             'eapply fmt_partfrac_cc_guarded; eauto using att_ok_here.'),
        ])
    if 'init_N' in f:
        mk('init_N', 'att_init_N', [('init_N_over_D',
            V + ', peval A x <> 0 -> (peval B x * dfac E (att_init_N K) x d * ufac (att_init_N K) u) / peval A x = sem E B A d u x',
            'intros. rewrite (dfac_ok K E E0 _ _ _ att_ok_here), (ufac_ok K _ _ att_ok_here). unfold sem. field. assumption.')])
    if 'as_QMA' in res['tuples'] and 'delay' in res['tuples']['as_QMA']:
        # Ratfun.as_QMA returns (Q, M, A, delay, undef) with Q, M = sym.div(B, A): the model quotient / remainder with the
        # TRANSLATED delay and undef slots reconstruct the value; an observed (Q, M) accepted by the in-Coq comparison does too
        mk('as_QMA', None, [
            ('as_QMA_preserves',
             V + ', pzerob A = false -> peval A x <> 0 -> '
             '(peval (pquo B A) x + peval (pmod B A) x / peval A x) * E (- (x * dslot_as_QMA K x d)) * (if uslot_as_QMA then u else 1) = sem E B A d u x '
             '/\\ (psize (pmod B A) < psize A)%nat',
             'intros B A d u x HA Hx. destruct (pmod_spec K B A HA) as [He Hs]. split; [|exact Hs]. '
             'unfold sem, dslot_as_QMA, uslot_as_QMA. rewrite (He x). field. exact Hx.'),
            ('as_QMA_observed_preserves',
             'forall (B A Q M A\' : list K) (d u x : K), pzerob A = false -> peval A x <> 0 -> '
             'peqb Q (pquo B A) = true -> peqb M (pmod B A) = true -> peqb A\' A = true -> '
             '(peval Q x + peval M x / peval A\' x) * E (- (x * dslot_as_QMA K x d)) * (if uslot_as_QMA then u else 1) = sem E B A d u x '
             '/\\ (psize M < psize A\')%nat',
             'intros B A Q M A\' d u x HA Hx HQ HM HA\'. destruct (as_QMA_preserves B A d u x HA Hx) as [Hv Hs]. '
             'rewrite (peqb_sound K _ _ HQ x), (peqb_sound K _ _ HM x), (peqb_sound K _ _ HA\' x), (peqb_size K _ _ HM), (peqb_size K _ _ HA\'). '
             'split; assumption.')])
    if getattr(tr, 'rd', None) is not None:
        mk('as_ratfun_delay', None, [
            ('as_ratfun_delay_preserves',
             'forall (B A : list K) (d u x : K), peval A x <> 0 -> att_rd_guard K (peval B x) (peval A x) d u = 1 -> '
             'att_rd_val K (peval B x) (peval A x) d u * E (- (x * att_rd_delay K (peval B x) (peval A x) d u)) = sem E B A d u x',
             'intros B A d u x Hx Hg. unfold att_rd_guard in Hg. unfold att_rd_val, att_rd_delay, sem. rewrite Hg. field. exact Hx.')])
    # tuple slots
    slot_stmts = []
    for key, t in sorted(res['tuples'].items()):
        if 'delay' in t:
            slot_stmts.append(('delay_slot_%s' % key, 'forall x d : K, dslot_%s K x d = d' % key, 'intros. unfold dslot_%s. ring.' % key))
        slot_stmts.append(('undef_slot_%s' % key, 'uslot_%s = true' % key, 'reflexivity.'))
    if slot_stmts:
        mk('slots', None, slot_stmts)
    if 'pair_conjugates' in res:
        txt = ('(* GENERATED by checks/c11.py from lcapy/root.py (sha256 %s).  Do not edit. *)\n'
               'Require Import LT.FieldSec LT.PolyQ LT.RatfunFmt Gen.RatfunAttach.\nFrom Coq Require Import Lia.\nLocal Open Scope F_scope.\n'
               '(* the three branches of pair_conjugates for a root (multiplicity o1) and a later conjugate (o2) *)\n'
               'Definition pc_branch (o1 o2 : nat) : nat * nat * nat :=\n'
               '  if (o1 =? o2)%%nat then pc_eq o1 o2 else if (o2 <? o1)%%nat then pc_gt o1 o2 else pc_lt o1 o2.\n'
               'Theorem pair_conjugates_preserves_multiplicity : forall o1 o2 : nat,\n'
               '  let \'(p, la, lb) := pc_branch o1 o2 in (p + la = o1 /\\ p + lb = o2)%%nat.\n'
               'Proof. intros o1 o2. unfold pc_branch, pc_eq, pc_gt, pc_lt. destruct (Nat.eqb_spec o1 o2); [split; lia|].\n'
               '  destruct (Nat.ltb_spec o2 o1); split; lia. Qed.\n'
               'Section Obl.\nVariable K : fld.\nAdd Field KFo : (fth K).\n'
               'Theorem pair_step_preserves_product : forall (x a b : K) (o1 o2 : nat),\n'
               '  let \'(p, la, lb) := pc_branch o1 o2 in\n'
               '  fpow (x - a) o1 * fpow (x - b) o2 = fpow (x * x - a * x - b * x + a * b) p * fpow (x - a) la * fpow (x - b) lb.\n'
               'Proof. intros x a b o1 o2. pose proof (pair_conjugates_preserves_multiplicity o1 o2) as H.\n'
               '  destruct (pc_branch o1 o2) as [[p la] lb]. destruct H as [H1 H2]. rewrite <- H1, <- H2, !fpow_add.\n'
               '  replace (x * x - a * x - b * x + a * b) with ((x - a) * (x - b)) by ring. rewrite fpow_mul. ring. Qed.\n'
               'End Obl.\nPrint Assumptions pair_conjugates_preserves_multiplicity.\nPrint Assumptions pair_step_preserves_product.\n') % res['pair_conjugates']['sha']
        files['C11_pairconj.v'] = txt
        meta['pair_conjugates_preserves_multiplicity'] = 'pairs + leftover(root) = o1 and pairs + leftover(root_c) = o2 in every branch of lcapy.root.pair_conjugates'
        meta['pair_step_preserves_product'] = '(x-a)^o1 (x-b)^o2 = ((x-a)(x-b))^pairs (x-a)^la (x-b)^lb'
    if 'decomp' in res:
        txt = THM_HEAD.split('Lemma attach_')[0] % tr.sha
        txt += ('Hypothesis Eadd : forall a b, E (a + b) = E a * E b.\n'
                'Theorem decomposition_preserves :\n  forall (fs : list (factor K)) (x : K), factor_nz fs x ->\n'
                '  let s := decompose E (dupd K) fs in peval (dA s) x <> 0 /\\\n'
                '  sem E (dB s) (dA s) (dd s) (du s) x = fold_right (fun f acc => factor_val E f x * acc) 1 fs.\n'
                'Proof. intros fs x Hn. apply decompose_sound; [exact E0 | exact Eadd | intros; unfold dupd; ring | exact Hn]. Qed.\nEnd Obl.\nPrint Assumptions decomposition_preserves.\n')
        files['C11_decomp.v'] = txt
        meta['decomposition_preserves'] = 'value of a product of polynomial powers, exp(c1 x + c0) and undef factors = sem (decompose ...)'
    return files, meta


def case_defs(c, r, pre, avail=None):
    """Coq definitions for one case (prefix pre) + list of (label, boolean term)"""
    defs = []
    checks = []
    dec = r['decomp']
    defs.append('Definition %sB : list QcIF := %s.' % (pre, plist(dec['B'])))
    defs.append('Definition %sA : list QcIF := %s.' % (pre, plist(dec['A'])))
    defs.append('Definition %sd : QcIF := %s.' % (pre, qi(dec['delay'])))
    pts = c['points']
    for k, p in enumerate(pts):
        defs.append('Definition %sx%d : QcIF := %s.' % (pre, k, qi(p)))
        defs.append('Definition %su%d : QcIF := %s.' % (pre, k, qi(dec['undef'][k])))
    for k, p in enumerate(c['rpoints']):
        defs.append('Definition %srx%d : QcIF := %s.' % (pre, k, qi(p)))
        if k < len(dec.get('undef_r', [])):
            defs.append('Definition %sru%d : QcIF := %s.' % (pre, k, qi(dec['undef_r'][k])))
    B, A, d = pre + 'B', pre + 'A', pre + 'd'
    # decomposition: model factor list (undef values depend on the point)
    def factors_at(k):
        fs = []
        for f in c['factors']:
            if f[0] == 'pow':
                fs.append('FPow (K:=QcIF) %s %s %d%%nat' % (plist(f[1]), 'true' if f[2] else 'false', f[3]))
            elif f[0] == 'exp':
                fs.append('FExp (K:=QcIF) %s %s' % (qi(f[1]), qi(f[2])))
            else:
                fs.append('FUndef (K:=QcIF) %s' % qi(undef_value(f[1], [G.des(pts[k])])))
        return '[' + '; '.join(fs) + ']'
    for k in range(len(pts)):
        checks.append(('decomp', k, 'chk_decomp (decompose E3 (dupd QcIF) %s) %s %s %s %su%d' % (factors_at(k), B, A, d, pre, k)))
        # Ratfun.N, Ratfun.D
        checks.append(('init_N', k, 'veq (peval %s %sx%d * dfac E3 (att_init_N QcIF) %sx%d %s * ufac (att_init_N QcIF) %su%d) %s && veq (peval %s %sx%d) %s' % (
            B, pre, k, pre, k, d, pre, k, qi(dec['N'][k]), A, pre, k, qi(dec['D'][k]))))
    M = r['m']

    def ok(key):
        return key in M and 'error' not in M[key]

    simple = {'canonical': 'fmt_canonical E3 (att_canonical QcIF)', 'canonical_fc': 'fmt_canonical_fc E3 (att_canonical_fc QcIF)',
              'general': 'fmt_general E3 (att_general QcIF)', 'standard': 'fmt_standard E3 (att_standard QcIF)',
              'mixedfrac': 'fmt_standard E3 (att_standard QcIF)', 'expandcanonical': 'fmt_expandcanonical E3 (att_expandcanonical QcIF)',
              'timeconst': 'fmt_timeconst E3 (att_timeconst QcIF)'}
    for key, fn in simple.items():
        if ok(key):
            for k in range(len(pts)):
                checks.append((key, k, 'veq (%s %s %s %s %su%d %sx%d) %s' % (fn, B, A, d, pre, k, pre, k, qi(M[key]['vals'][k]))))
    if ok('as_ZPK'):
        z = M['as_ZPK']
        defs.append('Definition %szs : rootlist := %s.' % (pre, rlist(z['zeros'])))
        defs.append('Definition %sps : rootlist := %s.' % (pre, rlist(z['poles'])))
        full = 'roots_cert %s %szs && roots_cert %s %sps' % (B, pre, A, pre)
        for key in ('ZPK', 'factored'):
            if ok(key):
                for k in range(len(pts)):
                    checks.append((key, k, 'veq (fmt_ZPK E3 (att_ZPK QcIF) %szs %sps %s %s %s %su%d %sx%d) %s' % (
                        pre, pre, B, A, d, pre, k, pre, k, qi(M[key]['vals'][k]))))
        checks.append(('as_ZPK_cert', 0, full))
        defs.append('Definition %szp : list (QcIF * QcIF * nat) := %s.' % (pre, pairlist(z['zpairs'])))
        defs.append('Definition %szs1 : rootlist := %s.' % (pre, rlist(z['zsingles'])))
        defs.append('Definition %spp : list (QcIF * QcIF * nat) := %s.' % (pre, pairlist(z['ppairs'])))
        defs.append('Definition %sps1 : rootlist := %s.' % (pre, rlist(z['psingles'])))
        checks.append(('pairing', 0, 'pairing_ok %szs %szp %szs1 && pairing_ok %sps %spp %sps1' % (pre, pre, pre, pre, pre, pre)))
        for key in ('ZPK_cc', 'factored_pairs'):
            if ok(key):
                for k in range(len(pts)):
                    checks.append((key, k, 'veq (fmt_ZPK_cc E3 (att_ZPK_cc QcIF) %szp %szs1 %spp %sps1 %s %s %s %su%d %sx%d) %s' % (
                        pre, pre, pre, pre, B, A, d, pre, k, pre, k, qi(M[key]['vals'][k]))))
    for key, src in (('poles_pairs', 'poles'), ('zeros_pairs', 'zeros'), ('N_roots_pairs', 'zeros'), ('D_roots_pairs', 'poles')):
        if ok(key) and ((ok(src) and 'roots' in M[src]) or 'roots' in M[key]):
            m_ = M[key]
            if 'roots' in m_:
                orig_l = rlist(m_['roots'])
                checks.append((key, 2, 'chk_roots %s %s' % (plist(m_['poly']), orig_l)))
            else:
                orig_l = rlist(M[src]['roots'])
            checks.append((key, 0, 'pairing_ok (K:=QcIF) %s %s %s' % (orig_l, pairlist(m_['pairs']), rlist(m_['singles']))))
            # list form: every entry once
            checks.append((key, 1, 'pairing_ok (K:=QcIF) %s %s %s' % (orig_l, pairlist([p_ + [1] for p_ in m_['pairs_list']]),
                                                                   rlist([[p_, 1] for p_ in m_['singles_list']]))))
    for key, poly in (('poles', A), ('zeros', B)):
        if ok(key) and 'minpolys' in M[key]:
            mp = M[key]['minpolys']
            if any(G.des(x).im != 0 for x in dec['A' if key == 'poles' else 'B']):
                continue        # minimal polynomials over Q only certify polynomials with rational coefficients
            # all conjugates of every group reported, with one multiplicity (else: term false)
            shape = all(n_ > 0 and cnt == len(cs) - 1 for cs, n_, cnt in mp)
            if shape:
                lst = '[' + '; '.join('(%s, %d%%nat)' % (tplist(cs), n_) for cs, n_, cnt in mp) + ']'
                checks.append((key, 0, 'chk_minpoly %s %s' % (poly, lst)))
            else:
                checks.append((key, 0, 'false'))
            continue
    for key, poly in (('poles', A), ('zeros', B)):
        if ok(key):
            # all roots of the generated polynomial are Gaussian rationals by construction: symbolic root
            # finding succeeds, so the report must account for the full degree
            if c['tags'].get(key + '_known'):
                checks.append((key, 0, 'roots_full %s %s && roots_cert %s %s' % (poly, rlist(M[key]['roots']), poly, rlist(M[key]['roots']))))
            else:
                checks.append((key, 0, 'chk_roots %s %s' % (poly, rlist(M[key]['roots']))))
    for qk, pk, ck in (('as_QRPO', 'partfrac', 'partfrac_cc'), ('as_QRPO_ec', 'partfrac_ec', None)):
        if ok(qk):
            q = M[qk]
            defs.append('Definition %sQ_%s : list QcIF := %s.' % (pre, qk, plist(q['Q'])))
            defs.append('Definition %sts_%s : list (pfterm QcIF) := %s.' % (pre, qk, tlist(q['R'], q['P'], q['O'])))
            Q, ts = '%sQ_%s' % (pre, qk), '%sts_%s' % (pre, qk)
            checks.append((qk, 0, 'pf_check %s %s %s %s && veq (dslot_as_QRPO QcIF %sx0 %s) %s' % (B, A, Q, ts, pre, d, qi(q['delay']))))
            if ok(pk):
                for k in range(len(pts)):
                    checks.append((pk, k, 'veq (fmt_partfrac E3 (att_partfrac QcIF) %s %s %s %su%d %sx%d) %s' % (
                        Q, ts, d, pre, k, pre, k, qi(M[pk]['vals'][k]))))
            if ck and ok(ck):
                for k in range(len(pts)):
                    checks.append((ck, k, 'chk_pf_cc (fmt_partfrac_cc E3 (att_partfrac_cc QcIF) isconj qrf_oguard %s %s %s %su%d %sx%d) %s' % (
                        Q, ts, d, pre, k, pre, k, qi(M[ck]['vals'][k]))))
            if qk == 'as_QRPO' and ok('residues'):
                checks.append(('residues', 0, 'veql %s %s' % (plist(M['residues']['R']), plist(q['R']))))
    if ok('recip_QRPO'):
        q = M['recip_QRPO']
        defs.append('Definition %sQr : list QcIF := %s.' % (pre, plist(q['Q'])))
        defs.append('Definition %stsr : list (pfterm QcIF) := %s.' % (pre, tlist(q['R'], q['P'], q['O'])))
        checks.append(('recip_QRPO', 0, 'pf_check (recip_num %s %s) (recip_den %s %s) %sQr %stsr' % (B, A, B, A, pre, pre)))
        if ok('recippartfrac'):
            for k in range(len(pts)):
                checks.append(('recippartfrac', k, 'veq (fmt_recippartfrac (att_partfrac QcIF) %sQr %stsr 0 %su%d %sx%d) %s' % (
                    pre, pre, pre, k, pre, k, qi(M['recippartfrac']['vals'][k]))))
    if ok('ND'):
        for k in range(len(pts)):
            checks.append(('ND', k, 'nd_ok E3 %s %s %s %su%d %sx%d %s %s' % (B, A, d, pre, k, pre, k, qi(M['ND']['N'][k]), qi(M['ND']['D'][k]))))
    for key in ('mtb', 'dtb'):
        if ok(key):
            m = M[key]
            for k in range(len(pts)):
                f = qi(m['f'][k]) if key == 'mtb' else '(fdiv (f:=QcIF) 1 %s)' % qi(m['f'][k])
                checks.append((key, k, 'veq (fmt_scale_top_bottom (K:=QcIF) %s %s %s) %s' % (qi(m['N'][k]), qi(m['D'][k]), f, qi(m['vals'][k]))))
    if ok('ratden'):
        m = M['ratden']
        for k in range(len(m['vals'])):
            checks.append(('ratden', k, 'veq (cidiv (cimul %s (ciconj %s)) (ciofq (cinorm %s))) %s' % (qi(m['N'][k]), qi(m['D'][k]), qi(m['D'][k]), qi(m['vals'][k]))))
    if ok('cfi') and ok('cfi_coeffs'):
        for k in range(len(pts)):
            checks.append(('cfi', k, 'chk_cfi %s %s %sx%d %s %s' % (B, A, pre, k, plist([cf[k] for cf in M['cfi_coeffs']['coeffs']]), qi(M['cfi']['vals'][k]))))
    for key in ('timeconst_terms', 'as_monic_terms', 'as_nonmonic_terms', 'expand_response', 'as_sum'):
        # no structural model: the value must be the specified one (sem), evaluated inside Coq
        if ok(key):
            for k in range(len(pts)):
                checks.append((key, k, 'veq (sem E3 %s %s %s %su%d %sx%d) %s' % (B, A, d, pre, k, pre, k, qi(M[key]['vals'][k]))))
    if ok('as_N_D_monic'):
        m_ = M['as_N_D_monic']
        for k in range(len(pts)):
            checks.append(('as_N_D_monic', k, 'nd_ok E3 %s %s %s %su%d %sx%d %s %s && veq (plc (K:=QcIF) %s) (qi 1 1 0 1) && veq (peval %s %sx%d) %s' % (
                B, A, d, pre, k, pre, k, qi(m_['N'][k]), qi(m_['D'][k]), tplist(m_['Dpoly']), tplist(m_['Dpoly']), pre, k, qi(m_['D'][k]))))
    if ok('coeffs'):
        m_ = M['coeffs']
        for nm_ in ('N', 'D'):
            cs, ns = list(reversed(m_[nm_ + 'c'])), list(reversed(m_[nm_ + 'n']))
            for k in range(len(pts)):
                checks.append(('coeffs', k, 'veq (peval %s %sx%d) %s && veq (fmul (f:=QcIF) %s (peval %s %sx%d)) %s && veq (plc (K:=QcIF) %s) (qi 1 1 0 1)' % (
                    tplist(cs), pre, k, qi(m_[nm_][k]), qi(m_[nm_ + 'c'][0]), tplist(ns), pre, k, qi(m_[nm_][k]), tplist(ns))))
    if ok('as_QMA'):
        m_ = M['as_QMA']
        for k in range(len(pts)):
            checks.append(('as_QMA', k, 'peqb %s (pquo %s %s) && peqb %s (pmod %s %s) && peqb %s %s && veq (dslot_as_QMA QcIF %sx%d %s) %s && uslot_as_QMA && veq %su%d %s' % (
                tplist(m_['Q']), B, A, tplist(m_['M']), B, A, tplist(m_['A']), A, pre, k, d, qi(m_['delay']), pre, k, qi(m_['undef'][k]))))
    if ok('as_ratfun_delay'):
        m_ = M['as_ratfun_delay']
        for k in range(len(pts)):
            args = '(peval %s %sx%d) (peval %s %sx%d) %s %su%d' % (B, pre, k, A, pre, k, d, pre, k)
            checks.append(('as_ratfun_delay', k, 'veq (att_rd_val QcIF %s) %s && veq (att_rd_delay QcIF %s) %s && veq (att_rd_guard QcIF %s) (qi 1 1 0 1)' % (
                args, qi(m_['rvals'][k]), args, qi(m_['delay']), args)))
    if ok('cf') and ok('cf_coeffs'):
        for k in range(len(pts)):
            checks.append(('cf', k, 'chk_cf %s %s %sx%d %s %s' % (B, A, pre, k, plist([cf[k] for cf in M['cf_coeffs']['coeffs']]), qi(M['cf']['vals'][k]))))
    if avail is not None:
        def usable(term):
            for nm in re.findall(r'\b(att_\w+|dslot_\w+|dupd|qrf_oguard)\b', term):
                if nm not in avail:
                    return False
            return True
        checks = [ch for ch in checks if usable(ch[2])]
    return defs, checks


def cases_file(sha, entries_defs, entries):
    """entries: list of (global id, term)"""
    out = [HEADER % sha]
    out += entries_defs
    out.append('Definition cases : list (nat * bool) := [')
    out.append(';\n'.join('(%d%%nat, %s)' % (i, t) for i, t in entries))
    out.append('].\nEval vm_compute in (failing cases).\n')
    return '\n'.join(out)


# ----------------------------------------------------------------------------
OBL_METHOD = {
    'fmt_preserves_canonical': 'canonical', 'fmt_preserves_canonical_factor_const': 'canonical', 'fmt_preserves_general': 'general',
    'fmt_preserves_standard': 'standard', 'fmt_preserves_expandcanonical': 'expandcanonical', 'fmt_preserves_timeconst': 'timeconst',
    'fmt_preserves_ZPK': 'ZPK', 'fmt_preserves_ZPK_combine_conjugates': 'ZPK', 'fmt_preserves_partfrac': 'partfrac',
    'fmt_preserves_recippartfrac': 'recippartfrac', 'fmt_preserves_partfrac_combine_conjugates': 'partfrac',
    'fmt_preserves_partfrac_combine_conjugates_order1': 'partfrac', 'att_ok_here': None,
}
FILE_FP = {'C11_canonical.v': ['canonical delay'], 'C11_canonical_fc.v': ['canonical delay'], 'C11_general.v': ['general delay'],
           'C11_timeconst.v': ['timeconst delay'], 'C11_ZPK.v': ['ZPK delay'], 'C11_ZPK_cc.v': ['ZPK delay'],
           'C11_partfrac_cc_all.v': ['partfrac combine_conjugates repeated-conjugate-poles']}
FILE_METHOD = {'C11_canonical.v': ['canonical'], 'C11_canonical_fc.v': ['canonical'], 'C11_general.v': ['general'], 'C11_standard.v': ['standard', 'mixedfrac'],
               'C11_expandcanonical.v': ['expandcanonical'], 'C11_timeconst.v': ['timeconst'], 'C11_ZPK.v': ['ZPK', 'factored'],
               'C11_ZPK_cc.v': ['ZPK', 'factored'], 'C11_partfrac.v': ['partfrac', 'recippartfrac'], 'C11_partfrac_cc.v': ['partfrac'],
               'C11_partfrac_cc_all.v': ['partfrac'], 'C11_init_N.v': ['N'], 'C11_decomp.v': ['decomposition'], 'C11_slots.v': ['as_QRPO'],
               'C11_as_QMA.v': ['as_QMA'], 'C11_as_ratfun_delay.v': ['as_ratfun_delay'],
               'C11_pairconj.v': ['ZPK', 'factored', 'poles(pairs=True)', 'zeros(pairs=True)', 'roots(pairs=True)']}


MY_THEORY = ['PolyQ.v', 'QcI.v', 'RatfunFmt.v', 'RatfunCF.v', 'RatfunCorr.v']     # in dependency order


def ensure_my_theory():
    """make sure the theory files this check needs are compiled.  The shared
    `core.ensure_theory()` rebuilds ALL of coq/theory with make and fails when
    any other builder's file is momentarily broken; this only (re)compiles the
    C11 files (and FieldSec.v) with coqc, under the same lock."""
    import fcntl
    import subprocess
    os.makedirs(os.path.join(core.VERIF, '.work'), exist_ok=True)
    with open(os.path.join(core.VERIF, '.work', 'theory.lock'), 'w') as lk:
        fcntl.flock(lk, fcntl.LOCK_EX)
        stale = False
        for f in ['FieldSec.v'] + MY_THEORY:
            src = os.path.join(core.COQ_THEORY, f)
            vo = src + 'o'
            if stale or not os.path.exists(vo) or os.path.getmtime(vo) < os.path.getmtime(src):
                stale = True
                r = subprocess.run(['timeout', '600', 'coqc', '-q', '-Q', core.COQ_THEORY, 'LT', f], cwd=core.COQ_THEORY,
                                   stdout=subprocess.PIPE, stderr=subprocess.STDOUT, text=True)
                if r.returncode != 0:
                    raise RuntimeError('theory file %s does not compile:\n%s' % (f, r.stdout[-1500:]))


def run(tier='quick', replay=None):
    res = core.Result(PID, tier)
    rng = random.Random(core.seed() * 104729 + 11)
    ensure_my_theory()
    w = core.Work(PID)
    violations = []
    try:
        trp = os.path.join(core.VERIF, 'tools', 'tr_ratfun.py')
        res.trusted = [
            'Coq 8.16.1 kernel + vm_compute (no native_compute)',
            'translator tools/tr_ratfun.py (sha256 %s): abstract interpreter extracting exp(...)/undef attachment, delay slots, delay update and the as_QRF partner-order guard; statement templates in checks/c11.py' % core.sha256_file(trp)[:16],
            'hand model coq/theory/RatfunFmt.v, RatfunCF.v (formats as value functions), polynomial theory PolyQ.v, Gaussian rationals QcI.v',
            'shape recogniser translate_ratfun_delay in checks/c11.py (Expr.as_ratfun_delay: exact statement shape, slot indices extracted; anything else is Untranslatable)',
            'harness exact evaluator tools/ratfun_exact.py (Fractions over Q(i); exp |-> 3^re 5^im homomorphism; undef |-> fixed rationals; pi |-> 22/7 as an indeterminate)',
            'oracles, not verified: sympy roots / residue computation / cancel / div / simplify — their answers are accepted only through the verified checkers roots_cert, roots_partial, pf_check, pairing_ok (theorems *_sound) or compared by value',
        ]
        res.assumptions = ['field of characteristic 0 with decidable equality (record fld)', 'exp interpreted by any function E with E 0 = 1 (decomposition theorem: E additive)',
                           'theorems hold at every point x where the denominator A(x) is non-zero (and x <> 0 for recippartfrac)',
                           'ZPK/poles/partfrac theorems are conditional on the certificate check evaluated per case inside Coq']
        # 1. translate
        tr = None
        try:
            tr = T.translate(core.REPO)
        except T.Untranslatable as e:
            res.failed_obl.append(('translate', 'lcapy/ratfun.py', str(e)))
            res.obligations += 1
        texts = {}
        attach_ok = False
        thm_meta = {}
        if tr is not None:
            for key, msg in tr.result['errors'].items():
                res.failed_obl.append(('translate_%s' % key, 'lcapy/ratfun.py', msg))
                res.obligations += 1
            tr.rd = None
            rd_txt = ''
            try:
                rd_txt, rd_sha, rd_line = translate_ratfun_delay(core.REPO)
                tr.rd = {'sha': rd_sha, 'line': rd_line}
            except T.Untranslatable as e:
                res.failed_obl.append(('translate_as_ratfun_delay', 'lcapy/expr.py', str(e)))
                res.obligations += 1
            texts['RatfunAttach.v'] = tr.coq() + rd_txt
            w.write('RatfunAttach.v', texts['RatfunAttach.v'])
            ok, out, secs = core.coqc(w.dir, 'RatfunAttach.v')
            if not ok:
                res.failed_obl.append(('RatfunAttach', 'RatfunAttach.v', out[-800:]))
                res.obligations += 1
            else:
                attach_ok = True
            res.extra['attachment_table'] = {k: {'exp': v['py'], 'guard': v['guard'], 'undef': v['undef'], 'line': v['line']} for k, v in tr.result['formats'].items()}
            res.extra['qrf_partner_order_guard'] = tr.result.get('oguard')
        # 2. prove
        thm_results = {}
        if attach_ok:
            files, thm_meta = theorem_files(tr)
            ptxt = open(os.path.join(core.VERIF, 'coq', 'props', 'C11.v')).read()
            files['C11.v'] = ptxt
            for fn_, txt in files.items():
                texts[fn_] = txt
                w.write(fn_, txt)
            bad = core.gate_text('generated', '\n'.join(texts.values()))
            theory_files = [os.path.join(core.COQ_THEORY, f) for f in ('PolyQ.v', 'QcI.v', 'RatfunFmt.v', 'RatfunCF.v', 'RatfunCorr.v')]
            bad += core.gate_files(theory_files)
            if bad:
                res.failed_obl.append(('gate', 'generated', '; '.join(bad)))
                res.obligations += 1
            thm_results = core.coqc_many(w.dir, list(files), timeout=600)
            res.coq_results(w.dir, thm_results, {f: texts[f] for f in files})
            res.extra['coq_seconds'] = {f: round(r[2], 1) for f, r in thm_results.items()}
            res.extra['theorems'] = sorted(thm_meta)
            # theory obligations (built once by setup; counted here for the record)
            n_theory = sum(len(core.obligations_in(open(p).read())) for p in theory_files)
            res.obligations += n_theory
            res.discharged += n_theory
            res.extra['theory_lemmas'] = n_theory

        # 3. correspondence + oracle on the real code
        if replay:
            cases = [replay['case']]
        else:
            cases = gen_cases(rng, tier)
        results = core.run_impl('impl_ratfun.py', [{k: v for k, v in c.items() if k not in ('factors', 'tags', 'delay')} for c in cases], timeout=3000)
        # a worker killed by the OS (memory pressure on a shared machine) loses its whole chunk: retry those cases once
        lost = [i for i, r in enumerate(results) if 'error' in r and r['error'].startswith('worker crashed')]
        if lost:
            res.count('worker_crash_retried_cases', len(lost))
            again = core.run_impl('impl_ratfun.py', [{k: v for k, v in cases[i].items() if k not in ('factors', 'tags', 'delay')} for i in lost],
                                  nproc=max(1, core.NCPU // 2), timeout=3000)
            for i, r in zip(lost, again):
                results[i] = r
        res.programs = len(ALL_METHODS)
        avail = set(re.findall(r'Definition (\w+)', texts.get('RatfunAttach.v', '')))
        counter = {}
        oracle_bad = set()
        idmap = []
        shards = []
        cur_defs, cur_entries = [], []
        for ci, (c, r) in enumerate(zip(cases, results)):
            if 'error' in r:
                res.count('case_error')
                res.count('case_error:' + r['error'].split(':')[0][:30])
                continue
            t = c['tags']
            res.count('dom_' + t['dom'])
            res.count('delay_' + str(t.get('delay')))
            if t.get('undef'):
                res.count('undef')
            if t.get('symbolic'):
                res.count('symbolic')
            for k_ in ('poles', 'zeros'):
                if 'minpolys' in r['m'].get(k_, {}):
                    res.count('roots_certified_by_minimal_polynomial:' + k_)
            if t.get('surd'):
                res.count('irrational_poles')
            if r.get('surd_evals'):
                res.count('values_by_exact_radical_fallback', r['surd_evals'])
            if t.get('repeated_conjugate_poles'):
                res.count('repeated_conjugate_poles')
            if not r['m'].get('ND', {}).get('D_is_poly', True):
                res.count('note:D_not_polynomial(no polynomial denominator; sympy as_numer_denom fallback)')
            for key, _, _ in c['methods']:
                m = r['m'].get(key, {'error': 'missing'})
                if 'error' in m:
                    res.count('method_error:' + key)
                    res.count('err:' + m['error'].split(':')[0][:24])
                else:
                    res.count('method_ok:' + key)
            res.add_case(json.dumps([c['expr'], c['env']], sort_keys=True), True,
                         {'expr': c['expr'], 'env': c['env'], 'points': c['points'],
                          'canonical': r['m'].get('canonical', {}).get('str'), 'partfrac': r['m'].get('partfrac', {}).get('str')} if ci % 23 == 0 else None)
            # oracle
            for key, k, what in oracle_case(c, r):
                oracle_bad.add((ci, key))
                fp = fingerprint(c, r, key, k)
                ce = {'case': c, 'method': key, 'point': k, 'what': what, 'lcapy': r['m'].get(key), 'orig': r['orig'], 'fingerprint': fp}
                counter.setdefault(fp, ce)
                res.counterexamples.append({'expr': c['expr'], 'method': key, 'fingerprint': fp})
                res.count('oracle_fail')
            # Coq cases
            if attach_ok:
                try:
                    defs, checks = case_defs(c, r, 'c%d_' % ci, avail)
                except Exception as e:
                    res.count('casegen_error')
                    continue
                cur_defs += defs
                for key, k, term in checks:
                    cur_entries.append((len(idmap), term))
                    idmap.append((ci, key, k))
                if len(cur_entries) >= 350:
                    shards.append((cur_defs, cur_entries))
                    cur_defs, cur_entries = [], []
        if cur_entries:
            shards.append((cur_defs, cur_entries))
        corr_fail = []
        if attach_ok and shards:
            fns = []
            for si, (dfs, ents) in enumerate(shards):
                fn_ = 'cases_%d.v' % si
                w.write(fn_, cases_file(tr.sha, dfs, ents))
                fns.append(fn_)
            cr = core.coqc_many(w.dir, fns, timeout=900)
            for fn_, (ok, out, secs) in cr.items():
                fl = core.parse_eval_list(out) if ok else None
                if fl is None:
                    res.failed_obl.append(('correspondence_eval', fn_, out[-600:]))
                    res.obligations += 1
                else:
                    corr_fail += fl
            res.extra['correspondence_checks'] = len(idmap)
            res.extra['correspondence_files'] = len(fns)
        for i in corr_fail:
            ci, key, k = idmap[i]
            res.disagreements.append({'expr': cases[ci]['expr'], 'method': key, 'point': k, 'case_index': ci})
        res.rule = ('cases: a fixed corpus (every delay-attaching method with numeric and symbolic delays in s, j omega, j 2 pi f; repeated complex-conjugate '
                    'poles) + random rational functions built from real / Gaussian-conjugate / complex / symbolic roots with multiplicities, optional gain symbol, '
                    'delay exp(-T var + c), undefined-function factor, factored or expanded presentation, in s, z, omega (j omega), f (j 2 pi f); every method '
                    'and option of %d method variants on each; non-trivial = Lcapy accepted the expression as a Ratfun; distinct = distinct (expression text, '
                    'instantiation)') % len(ALL_METHODS)

        if replay:
            # print the three results for the stored input: implementation, model (Coq), oracle
            c, r = cases[0], results[0]
            print('REPLAY input  : %s   env=%s  points=%s' % (c['expr'], c['env'], c['points']))
            if 'error' in r:
                print('REPLAY lcapy  : error %s' % r['error'])
            else:
                print('REPLAY value  : %s' % r['orig'])
                focus = replay.get('method')
                for key, _, _ in c['methods']:
                    m = r['m'].get(key, {})
                    if focus and key != focus and public(key) != public(focus):
                        continue
                    print('REPLAY lcapy  : %-18s %s' % (key, json.dumps(m)[:300]))
                print('REPLAY oracle : %s' % ([(k_, pt, w_) for k_, pt, w_ in oracle_case(c, r)] or 'value preserved by every method that returned'))
                print('REPLAY model  : Coq correspondence checks failing: %s' % ([(idmap[i][1], idmap[i][2]) for i in corr_fail] or 'none'))
        # 4. decide
        fps = set(counter)
        for fp, ce in counter.items():
            violations.append({'key': fp, 'what': 'Lcapy %s changes the value of %s' % (public(ce['method']), ce['case']['expr']),
                               'case': ce['case'], 'method': ce['method'], 'lcapy': ce['lcapy'], 'orig': ce['orig'], 'found_input': True,
                               'how': './check C11 --replay <this file>'})
        for name, f, msg in res.failed_obl:
            want = FILE_FP.get(f)
            if want is not None:
                if any(x in fps for x in want):
                    continue        # the broken theorem is explained by a concrete failing input of exactly that kind
            else:
                meths = FILE_METHOD.get(f, [])
                if meths and any(fp.startswith(m + ' ') for fp in fps for m in meths):
                    continue
            violations.append({'key': 'obligation:' + (name if name != '?' else f), 'what': 'Coq obligation %s in %s no longer checks' % (name, f),
                               'theorem': name, 'file': f, 'message': msg, 'found_input': False})
        seen = set()
        for dct in res.disagreements:
            consumers = {'pairing': ('ZPK_cc', 'factored_pairs', 'poles_pairs', 'zeros_pairs', 'N_roots_pairs', 'D_roots_pairs'),
                         'as_ZPK_cert': ('ZPK', 'factored', 'ZPK_cc', 'factored_pairs', 'poles', 'zeros')}.get(dct['method'], ())
            if any((dct['case_index'], m_) in oracle_bad for m_ in consumers):
                continue            # internal certificate of a method whose value change is reported with its input
            if (dct['case_index'], dct['method']) in oracle_bad or dct['method'] in seen:
                continue            # the real code changes the value on this very input: reported above with the input
            seen.add(dct['method'])
            violations.append({'key': 'correspondence:' + dct['method'], 'what': 'hand model and real %s differ on %s' % (public(dct['method']), dct['expr']),
                               'case': cases[dct['case_index']], 'method': dct['method'], 'point': dct['point'], 'found_input': False,
                               'correspondence': 'LT.RatfunFmt model of %s vs lcapy' % public(dct['method'])})
        uniq, seenk = [], set()
        for v in violations:
            if v['key'] not in seenk:
                seenk.add(v['key'])
                uniq.append(v)
        return core.finish(res, uniq)
    finally:
        if not os.environ.get('VERIF_KEEP'):
            w.cleanup()


if __name__ == '__main__':
    sys.exit(run(sys.argv[1] if len(sys.argv) > 1 else 'quick'))
