"""C19 — network synthesis realises the requested immittance.

  theory     coq/theory/SynthNet.v    one-port trees Leaf(R|G|L|C)/Ser/Par, impedance Zev at a point, Zwf, series/parallel
                                       with None, impedance as a rational function Zrat (Zrat_eval)
             coq/theory/SynthCF.v     model (H) of continued_fraction_inverse_coeffs (icf_run), shape facts, cf_eval_coeffs
             coq/theory/SynthPat.v    Laurent test (one exact polynomial division), interpreter of the pattern tables,
                                       pattern_sound, table tactics
             coq/theory/SynthLadder.v model (H) of cauerI/II, fosterI/II, network(form), Network.transform over spec
                                       records; ladder_sound, cauer_sound, foster_sound, network_sound, transform_preserves_Z
             (reuses PolyQ.v / RatfunCF.v: polynomials, Euclidean division, cf_coeffs = model of continued_fraction_coeffs)
  translate  lcapy/synthesis.py -> Gen/SynthGen.v (tools/tr_synth.py, fail-closed ast): one table per pattern realiser
             (which coefficient -> which element, how composed), ladder/foster specs, form table, default form; pinned
             AST of the glue (network, transform, series, parallel, continued_fraction_*coeffs)
  prove      Gen/C19_gen.v (generated statements: pattern_<p>_realises / _rejects_* / _form, cauerI/II_realises,
             fosterI/II_realises, network_realises, transform_preserves_Z_all, non-vacuity examples), props/C19.v
  correspond Z.network(form) / Y.network(form) / synthesis.network / net.transform(form) on generated driving-point
             functions x all forms: the returned network, parsed structurally (tools/impl_synth.py), must EQUAL the
             model's network (error vs no error included) and its Coq-evaluated impedance must equal the request at
             three rational points -- evaluated inside Coq (vm_compute over Qc)
  search     independent exact oracle (sympy): together(net.Z(s) - Z) has numerator 0; for transform net2.Z == net.Z
  chains     second round (gen_chain_cases): every distinct network the first round returned is transformed again into another
             form (network -> immittance -> network -> immittance -> network); theorems C19_transform_chain_preserves_Z (props),
             transform_twice_preserves_Z / network_then_transform_realises (generated, over the translated tables)
"""
import json
import os
import random
import re
import sys
from fractions import Fraction

sys.path.insert(0, os.path.dirname(os.path.dirname(os.path.abspath(__file__))))
from vlib import core
sys.path.insert(0, os.path.join(core.VERIF, 'tools'))
import tr_synth as T

PID = 'C19'
MANIFEST = {
    'text': 'Coq theorems over an abstract characteristic-0 field, for all inputs: the Euclid-style coefficient loops of '
            'continued_fraction_coeffs / continued_fraction_inverse_coeffs produce quotients whose continued fraction is N/D '
            '(cf_chain induction), both loops terminate: above an explicit measure (degree sum / valuations) their result does not depend on the '
            'fuel, the inverse loop always returns a list, and the fuel used by the Cauer models exceeds the measure, so no refusal of the '
            'model is an artefact of fuel (SynthTerm.v); the ladder fold of cauerI/cauerII (parity of the index '
            'selects series/parallel and the realiser) builds a network whose impedance is that continued fraction, hence Z; every '
            'pattern realiser (seriesRL ... parallelRLC, RLC), read as a table regenerated from lcapy/synthesis.py on each run, returns '
            'a network only when the expression is cm/s + c0 + c1 s with the coefficients of its form and the translated test before the return is '
            'the exhaustiveness test (guard_<p>_exhaustive: nothing left in the dictionary), and that network has exactly this '
            'immittance (otherwise the model raises); fosterI/fosterII realise Z given the partial-fraction terms, which the model '
            're-checks by an exact polynomial identity (root finding is an oracle); network(form) dispatch and Network.transform '
            'preserve the impedance; the default values of the form parameter of Network.transform / ImmittanceMixin.network / '
            'synthesis.network are translated and exercised by calls that omit the argument; chains network -> immittance -> network -> ... of any '
            'length through any forms preserve the impedance (C19_transform_chain_preserves_Z by induction over the chain; transform_twice_preserves_Z and '
            'network_then_transform_realises over the translated tables), exercised by a second round that transforms the networks RETURNED by the first '
            'round (ladders, Foster sections, G elements, negative values, deep nesting) into another form, and by nested same-kind one-ports sent through '
            'every pattern form of transform(). The hand models (Euclid loops, folds, dispatch, series/parallel with None) are evaluated inside Coq '
            '(vm_compute over Qc) against the real code on generated driving-point functions x all forms: same network structure and '
            'element values, same error/no-error, Coq-evaluated impedance equal to the request at rational points.',
    'note': 'Trusted: Coq kernel/vm_compute; tools/tr_synth.py + statement templates in checks/c19.py; tree parser in tools/impl_synth.py; '
            'sympy partfrac/collect/Poly arithmetic inside Lcapy are modelled (one exact division decides the Laurent form; the '
            'partial-fraction terms of the Foster forms are recorded from the run and certified exactly), validated by the '
            'correspondence. Side conditions of the theorems: s <> 0, D(s) <> 0 and no division by zero inside the returned network '
            '(Zwf). Positive-realness is not checked by the code and not required by the property: negative element values are returned and '
            'compared like any other value. _partial: completeness of the Laurent test (a realisable expression is never rejected) is checked by the '
            'correspondence only; functions whose Foster terms have irrational coefficients are covered by the exact oracle only.',
    'technique': 'Coq proof (induction over Euclid chains and ladder folds, field algebra) over hand models + fail-closed ast translator for the '
                 'realiser tables + in-Coq correspondence evaluation + exact sympy round-trip oracle',
}

F = Fraction
FORMS = ['cauerI', 'cauerII', 'fosterI', 'fosterII', 'seriesRL', 'seriesRC', 'seriesGC', 'seriesLC', 'seriesRLC',
         'parallelRL', 'parallelRC', 'parallelGC', 'parallelLC', 'parallelRLC', 'RLC']


# ---- exact polynomial helpers (lists of Fractions, low power first) ---------------
def ptrim(p):
    p = list(p)
    while p and p[-1] == 0:
        p.pop()
    return p


def padd(p, q):
    n = max(len(p), len(q))
    return ptrim([(p[i] if i < len(p) else 0) + (q[i] if i < len(q) else 0) for i in range(n)])


def pmul(p, q):
    if not p or not q:
        return []
    r = [F(0)] * (len(p) + len(q) - 1)
    for i, a in enumerate(p):
        for j, b in enumerate(q):
            r[i + j] += a * b
    return ptrim(r)


def peval(p, x):
    r = F(0)
    for c in reversed(p):
        r = r * x + c
    return r


def pdivmod(a, b):
    a = ptrim(a)
    b = ptrim(b)
    q = [F(0)] * max(0, len(a) - len(b) + 1)
    a = list(a)
    while len(a) >= len(b) and a:
        c = a[-1] / b[-1]
        k = len(a) - len(b)
        q[k] = c
        for i, bc in enumerate(b):
            a[i + k] -= c * bc
        a = ptrim(a)
    return ptrim(q), a


def pgcd(a, b):
    a, b = ptrim(a), ptrim(b)
    while b:
        _, r = pdivmod(a, b)
        a, b = b, r
    return a


def lowest_terms(N, D):
    """integer coefficient lists of N/D in lowest terms (content removed, sign of the leading D coefficient +)"""
    N = ptrim([F(c) for c in N])
    D = ptrim([F(c) for c in D])
    if not N:
        return [0], [1]
    g = pgcd(N, D)
    if len(g) > 1:
        N, _ = pdivmod(N, g)
        D, _ = pdivmod(D, g)
    den = 1
    for c in N + D:
        den = den * c.denominator // gcd(den, c.denominator)
    N = [c * den for c in N]
    D = [c * den for c in D]
    g = 0
    for c in N + D:
        g = gcd(g, abs(int(c)))
    sgn = -1 if D[-1] < 0 else 1
    return [int(c) // g * sgn for c in N], [int(c) // g * sgn for c in D]


def gcd(a, b):
    while b:
        a, b = b, a % b
    return abs(a)


def rz(rng, lo=1, hi=6, dmax=4, neg=False):
    while True:
        x = F(rng.randint(-hi if neg else lo, hi), rng.randint(1, dmax))
        if x != 0:
            return x


# ---- random one-port trees and their exact impedance -------------------------------
def rand_tree(rng, depth, neg=False):
    if depth == 0 or rng.random() < 0.3:
        k = rng.choice(['R', 'L', 'C', 'G', 'R', 'L', 'C'])
        return [k, fs(rz(rng, neg=neg))]
    op = rng.choice(['Ser', 'Par'])
    n = rng.choice([2, 2, 3])
    subs = []
    for _ in range(n):
        t = rand_tree(rng, depth - 1, neg)
        subs.append(t)
    return [op] + subs


def tree_Z(t):
    """(N, D) as Fraction coefficient lists"""
    if t[0] in ('Ser', 'Par'):
        zs = [tree_Z(x) for x in t[1:]]
        if t[0] == 'Par':
            zs = [(d, n) for n, d in zs]
        n, d = [], [F(1)]
        for a, b in zs:
            n, d = padd(pmul(n, b), pmul(a, d)), pmul(d, b)
        return (d, n) if t[0] == 'Par' else (n, d)
    v = F(t[1])
    return {'R': ([v], [F(1)]), 'G': ([F(1)], [v]), 'L': ([F(0), v], [F(1)]), 'C': ([F(1)], [F(0), v])}[t[0]]


def tree_depth(t):
    return 0 if t[0] not in ('Ser', 'Par') else 1 + max(tree_depth(x) for x in t[1:])


def fs(x):
    x = F(x)
    return '%d/%d' % (x.numerator, x.denominator)


# ---- generation of driving-point functions -----------------------------------------
def gen_functions(rng, n_each):
    """list of (tag, N, D) with integer coefficient lists in lowest terms"""
    out = []

    def add(tag, N, D):
        if not ptrim([F(c) for c in D]):
            return
        n, d = lowest_terms(N, D)
        out.append((tag, n, d))
    # fixed specials (always present)
    for tag, N, D in [('const', [3], [1]), ('s', [0, 1], [1]), ('1/s', [1], [0, 1]), ('zero', [0], [1]),
                      ('RL', [3, 2], [1]), ('s2', [0, 0, 1], [1]), ('1/s2', [1], [0, 0, 1]),
                      ('RLC', [5, 3, 2], [0, 1]), ('LC-par', [0, 1], [1, 0, 1]), ('test-foster', [3, 4, 1], [0, 2, 1]),
                      ('lc4', [36, 0, 40, 0, 4], [0, 4, 0, 1]), ('allpass', [-1, 1], [1, 1]),
                      ('2nd-order-lp', [1], [1, 1, 1]), ('rep-pole', [1, 2, 1], [0, 4, 4, 1])]:
        add(tag, N, D)
    for _ in range(n_each):
        # positive-real: impedance of a random R/L/C/G tree
        t = rand_tree(rng, rng.choice([1, 2, 2, 3]))
        n, d = tree_Z(t)
        if n and d and len(n) <= 6 and len(d) <= 6:
            add('pr-net', n, d)
    for _ in range(n_each):
        # exactly of a pattern's form: cm/s + c0 + c1 s and reciprocals
        cm, c0, c1 = [rz(rng, neg=True) if rng.random() < 0.6 else F(0) for _ in range(3)]
        N, D = [cm, c0, c1], [F(0), F(1)]
        if not ptrim(N):
            continue
        if rng.random() < 0.5:
            add('laurent', N, D)
        else:
            add('laurent-recip', D, N)
    for _ in range(n_each):
        # random integer coefficients, not positive-real in general
        dn, dd = rng.randint(0, 3), rng.randint(0, 3)
        N = [rng.randint(-4, 5) for _ in range(dn + 1)]
        D = [rng.randint(-3, 5) for _ in range(dd + 1)]
        if ptrim(N) and ptrim(D):
            add('random', N, D)
    for _ in range(n_each):
        # rational poles incl. origin, repeated; optional pole at infinity
        D = [F(1)]
        for _ in range(rng.randint(1, 3)):
            D = pmul(D, [rz(rng, 0, 4, 2) if rng.random() < 0.75 else F(0), F(1)])
        if rng.random() < 0.3:
            D = pmul(D, D[:2] if len(D) >= 2 else [F(1)])
        degn = len(D) - 1 + rng.choice([-1, 0, 0, 1])
        N = [F(rng.randint(0, 5)) for _ in range(max(0, degn) + 1)]
        if ptrim(N):
            add('poles', N, D)
    for _ in range(max(1, n_each // 2)):
        # complex-conjugate pole pairs (irreducible quadratics), possibly repeated, plus a real pole
        c, d0 = F(rng.randint(0, 3)), F(rng.randint(1, 6))
        if c * c >= 4 * d0:
            d0 = c * c / 4 + F(rng.randint(1, 4))
        D = [d0, c, F(1)]
        r = rng.random()
        if r < 0.25:
            D = pmul(D, D)
        elif r < 0.6:
            D = pmul(D, [F(rng.randint(0, 3)), F(1)])
        degn = len(D) - 1 + rng.choice([-1, 0, 1])
        N = [F(rng.randint(0, 4)) for _ in range(max(0, degn) + 1)]
        if ptrim(N):
            add('conj', N, D)
    for _ in range(max(1, n_each // 2)):
        # LC (reactance) functions: s * prod(s^2 + z) / prod(s^2 + p), interlaced
        ws = sorted(rng.sample(range(1, 12), rng.choice([2, 3, 4])))
        num, den = [F(1)], [F(1)]
        for i, w in enumerate(ws):
            if i % 2 == 0:
                num = pmul(num, [F(w), F(0), F(1)])
            else:
                den = pmul(den, [F(w), F(0), F(1)])
        if rng.random() < 0.5:
            den = pmul(den, [F(0), F(1)])
        else:
            num = pmul(num, [F(0), F(1)])
        k = rz(rng, 1, 4, 1)
        add('lc', [k * c for c in num], den)
    return out


SYMBOLIC = [
    ('R1 + s*L1', ['R1', 'L1']),
    ('R1 + s*L1 + 1/(s*C1)', ['R1', 'L1', 'C1']),
    ('R1 + 1/(s*C1)', ['R1', 'C1']),
    ('1/(1/R1 + s*C1)', ['R1', 'C1']),
    ('1/(1/R1 + s*C1 + 1/(s*L1))', ['R1', 'L1', 'C1']),
    ('s*L1 + 1/(s*C1)', ['L1', 'C1']),
    ('R1 + 1/(1/R2 + s*C1)', ['R1', 'R2', 'C1']),
    ('s*L1 + 1/(s*C1 + 1/(s*L2))', ['L1', 'C1', 'L2']),
    ('(R1 + s*L1)*R2/(R1 + R2 + s*L1)', ['R1', 'L1', 'R2']),
]


def gen_cases(rng, tier, only_forms=None):
    n_each = 6 if tier == 'quick' else 60
    funcs = gen_functions(rng, n_each)
    cases = []
    modes = ['impedance', 'impedance', 'admittance', 'function']
    for fi, (tag, N, D) in enumerate(funcs):
        for form in FORMS:
            if only_forms and form not in only_forms:
                continue
            mode = modes[(fi + len(form)) % 4]
            if N == [0] and mode == 'admittance':
                mode = 'impedance'
            cases.append({'kind': 'network', 'tag': tag, 'N': N, 'D': D, 'form': form, 'mode': mode})
        if fi % 7 == 0 and not only_forms:
            cases.append({'kind': 'network', 'tag': tag, 'N': N, 'D': D, 'form': 'default', 'mode': 'impedance'})
        if fi % 11 == 0 and not only_forms:
            cases.append({'kind': 'network', 'tag': tag, 'N': N, 'D': D, 'form': 'martinI', 'mode': 'impedance'})
    # every subset of {1/s, 1, s} for every pattern realiser of the matching kind (series: Z, parallel: Y)
    for bits in range(1, 8):
        co = [rz(rng, neg=True) if bits >> k & 1 else F(0) for k in range(3)]
        Ns, Ds = lowest_terms(co, [0, 1])
        for form in FORMS:
            if only_forms and form not in only_forms:
                continue
            if form.startswith('series') or form == 'RLC':
                cases.append({'kind': 'network', 'tag': 'grid', 'N': Ns, 'D': Ds, 'form': form, 'mode': 'impedance'})
            if form.startswith('parallel') or form == 'RLC':
                cases.append({'kind': 'network', 'tag': 'grid', 'N': Ds, 'D': Ns, 'form': form, 'mode': 'impedance'})
    # refusal inputs for every direct form: terms the form CAN realise plus one it cannot
    # (another power of s, a constant / s / 1/s term where the form has none, a finite pole);
    # the only acceptable outcomes are an error or a network with exactly this immittance
    nref = 1 if tier == 'quick' else 4
    for form in FORMS:
        spec = allowed_powers(form) or ((True, {'Pm1', 'P0', 'P1'}) if form == 'RLC' else None)
        if spec is None or (only_forms and form not in only_forms):
            continue
        ser, pw = spec
        expo = {'Pm1': -1, 'P0': 0, 'P1': 1}
        allowed = sorted(expo[p] for p in pw)
        extras = [('pow', 2), ('pow', -2), ('pow', 3), ('pow', -3), ('pole', None)] + [('pow', k) for k in (-1, 0, 1) if k not in allowed]
        for kind, k in extras:
            for rep in range(nref):
                keep = [e for e in allowed if rng.random() < 0.7] if rep else list(allowed)
                # E = sum c_e s^e + bad term, as N/D with D = s^3 (and the pole factor)
                N = [F(0)] * 7
                for e in keep:
                    N[e + 3] += rz(rng, neg=True)
                D = [F(0), F(0), F(0), F(1)]
                if kind == 'pow':
                    N[k + 3] += rz(rng, neg=True)
                else:
                    pole = [rz(rng, 1, 5, 2), F(1)]
                    N = padd(pmul(ptrim(N), pole), [c * rz(rng, neg=True) for c in D])
                    D = pmul(D, pole)
                N = ptrim(N)
                if not N:
                    continue
                En, Ed = lowest_terms(N, D)
                for direct in ([True, False] if form == 'RLC' else [ser]):
                    Zn, Zd = (En, Ed) if direct else (Ed, En)
                    cases.append({'kind': 'network', 'tag': 'refusal', 'N': Zn, 'D': Zd, 'form': form,
                                  'mode': 'impedance', 'bad': '%s%s' % (kind, '' if k is None else k)})
    # entry points called WITHOUT a form argument (their own default value applies)
    for fi, (tag, N, D) in enumerate(funcs):
        if fi % 5 == 2 and not only_forms:
            cases.append({'kind': 'network', 'tag': tag, 'N': N, 'D': D, 'form': 'omitted', 'omit': True,
                          'mode': 'impedance' if N == [0] else modes[fi % 4]})
    # transform of random networks (positive and negative element values)
    nt = 14 if tier == 'quick' else 150
    tforms = ['cauerI', 'cauerII', 'fosterI', 'fosterII']
    for i in range(nt):
        t = rand_tree(rng, rng.choice([1, 2, 2, 3]), neg=(i % 4 == 3))
        n, d = tree_Z(t)
        if not n or not d or len(n) > 6 or len(d) > 6 or t[0] not in ('Ser', 'Par'):
            continue
        for form in (tforms if i % 3 == 0 else [tforms[i % 4]]) + (['RLC'] if i % 5 == 0 else []):
            if only_forms and form not in only_forms:
                continue
            cases.append({'kind': 'transform', 'tag': 'transform', 'net': t, 'form': form})
        if i % 4 == 1 and not only_forms:
            cases.append({'kind': 'transform', 'tag': 'transform', 'net': t, 'form': 'omitted', 'omit': True})
    # a few symbolic driving-point functions, instantiated at a rational point for the comparison
    sforms = ['cauerI', 'cauerII', 'fosterI', 'fosterII', 'RLC', 'seriesRLC', 'parallelRLC', 'seriesRL', 'parallelGC']
    for i, (e, names) in enumerate(SYMBOLIC if tier != 'quick' else SYMBOLIC[:6]):
        pt = {nm: fs(rz(rng, 1, 9, 5)) for nm in names}
        for form in (sforms if tier != 'quick' else [sforms[(i + j) % len(sforms)] for j in range(4)]):
            if only_forms and form not in only_forms:
                continue
            cases.append({'kind': 'network', 'tag': 'symbolic', 'sym': {'expr': e, 'point': pt}, 'form': form, 'mode': 'impedance'})
    for c in cases:
        c['xs'] = [fs(rz(rng, 1, 9, 7, neg=True)) for _ in range(3)]
    # transform() of NESTED one-ports through the pattern forms (own generator: the stream above is unchanged):
    # Ser[.., Ser[..]] of R/G/L/C leaves has Z = cm/s + c0 + c1 s (repeated kinds add up), Par[.., Par[..]] the same for Y
    rng2 = random.Random(core.seed() * 7919 + 1919)
    for i in range(6 if tier == 'quick' else 48):
        ser = i % 2 == 0
        op = 'Ser' if ser else 'Par'
        leaf = lambda: [rng2.choice('RGLC'), fs(rz(rng2, neg=(i % 3 == 2)))]
        t = [op] + [leaf() for _ in range(rng2.choice([1, 2]))] + [[op] + [leaf() for _ in range(rng2.choice([2, 3]))]]
        if i % 4 == 3:
            t = [op, t[1], ['Par' if ser else 'Ser', leaf(), leaf()]]      # mixed: usually NOT of the form (error expected)
        n, d = tree_Z(t)
        if not n or not d:
            continue
        mine = [f for f in FORMS if f.startswith('series' if ser else 'parallel')]
        for form in [mine[-1], 'RLC', rng2.choice(mine[:-1])] + ([rng2.choice(FORMS)] if i % 2 else []):
            if only_forms and form not in only_forms:
                continue
            cases.append({'kind': 'transform', 'tag': 'transform-pat', 'net': t, 'form': form,
                          'xs': [fs(rz(rng2, 1, 9, 7, neg=True)) for _ in range(3)]})
    return cases


def laurent_like(n, d):
    """n/d = cm/s + c0 + c1 s  (d = c s^k, k <= 1, deg n <= k + 1)"""
    n, d = ptrim(n), ptrim(d)
    if not n or not d or any(c != 0 for c in d[:-1]):
        return False
    k = len(d) - 1
    return k <= 1 and len(n) - 1 <= k + 1


def gen_chain_cases(rng2, tier, cases, results):
    """second round: networks RETURNED by the first round (ladders, Foster sections, G elements, negative values,
    nesting deeper than the random trees) are transformed again into another form:
    network -> immittance -> network -> immittance -> network"""
    pool, seen = [], set()
    for c, r in zip(cases, results):
        if r.get('status') != 'net' or r.get('tree') is None or r.get('sdep') or r.get('oracle') == 'bad' or c.get('sym'):
            continue
        if independent_check(c, r) is False:
            continue
        t = r['tree']
        key = json.dumps(t)
        if key in seen:
            continue
        try:
            n, d = tree_Z(t)
        except ZeroDivisionError:
            continue
        if not ptrim(n) or not ptrim(d) or len(n) > 6 or len(d) > 6:
            continue
        seen.add(key)
        pool.append((c, t, n, d))
    rng2.shuffle(pool)
    pool.sort(key=lambda e: -tree_depth(e[1]))            # deepest first (stable: ties keep the shuffled order)
    nmax = 20 if tier == 'quick' else 220
    deep, rest = pool[:nmax // 2], pool[nmax // 2:]
    rng2.shuffle(rest)
    out = []
    tforms = ['cauerI', 'cauerII', 'fosterI', 'fosterII']
    ser = [f for f in FORMS if f.startswith('series')]
    par = [f for f in FORMS if f.startswith('parallel')]
    for k, (c, t, n, d) in enumerate(deep + rest[:nmax - len(deep)]):
        g = pgcd(n, d)
        if len(g) > 1:
            n, d = pdivmod(n, g)[0], pdivmod(d, g)[0]
        # Foster forms only where the poles are roots of a quadratic at most (cubic root finding in sympy takes > 20 s)
        ok = [f for f in tforms if f != c['form'] and not (f == 'fosterI' and len(d) > 3) and not (f == 'fosterII' and len(n) > 3)]
        forms = [rng2.choice(ok)]
        if laurent_like(n, d):
            forms.append(rng2.choice(ser + ['RLC']))
        elif laurent_like(d, n):
            forms.append(rng2.choice(par + ['RLC']))
        elif k % 3 == 0:
            forms.append(rng2.choice(ser + par + ['RLC']))
        if k % 9 == 4:
            forms.append('default')
        for form in forms:
            out.append({'kind': 'transform', 'tag': 'chain', 'net': t, 'form': form, 'from': c['form'],
                        'xs': [fs(rz(rng2, 1, 9, 7, neg=True)) for _ in range(3)]})
    return out


# ---- Coq text --------------------------------------------------------------------------
HEADER = '''(* GENERATED by checks/c19.py from %s (sha256 %s). Do not edit. *)
Require Import LT.FieldSec LT.PolyQ LT.RatfunCF LT.SynthNet LT.SynthCF LT.SynthPat LT.SynthLadder.
From Coq Require Import String.
Require Import Gen.SynthGen.
'''


def allowed_powers(name):
    """independent specification of a form from its NAME (docstrings of synthesis.py):
    series forms describe Z = L s + R|1/G + 1/(C s), parallel forms Y = C s + G|1/R + 1/(L s)"""
    m = re.match(r'(series|parallel)([RGLC]+)$', name)
    if not m:
        return None
    ser = m.group(1) == 'series'
    pw = set()
    for ch in m.group(2):
        if ch in 'RG':
            pw.add('P0')
        elif ch == 'L':
            pw.add('P1' if ser else 'Pm1')
        elif ch == 'C':
            pw.add('Pm1' if ser else 'P1')
    return ser, pw


CNAME = {'Pm1': 'cm', 'P0': 'c0', 'P1': 'c1'}


def gen_theorems(tr):
    out = [HEADER % (tr.path, tr.sha), 'Local Open Scope F_scope.', 'Section Obl.', 'Variable K : fld.', 'Add Field KFobl : (fth K).', '']
    names = []
    for nm in tr.order:
        if nm not in tr.patterns:
            continue
        spec = allowed_powers(nm)
        if spec is None:
            raise T.Untranslatable('lcapy/synthesis.py: no specification for pattern realiser %s (name not of the form series|parallel + RGLC)' % nm)
        ser, pw = spec
        lau = 'laurent3 n d' if ser else 'laurent3 d n'
        # the realised immittance equals the input only if NOTHING is left in the dictionary:
        # the test before the return must be the exhaustiveness test
        out.append('Theorem guard_%s_exhaustive : p_exhaust pat_%s = true.\nProof. reflexivity. Qed.' % (nm, nm))
        names.append('guard_%s_exhaustive' % nm)
        out.append('Lemma coeff_%s : coeff_sound (K:=K) pat_%s.\nProof. coeff_sound_tac K pat_%s. Qed.' % (nm, nm, nm))
        out.append('Theorem pattern_%s_realises : forall (n d : list K) nt x,\n'
                   '  pattern_run pat_%s (n, d) = Ok (Some nt) -> x <> 0 -> peval d x <> 0 -> Zwf nt x ->\n'
                   '  Zev nt x = peval n x / peval d x.\n'
                   'Proof. intros n d nt x H Hx Hd Hw. pose proof (pattern_sound K pat_%s coeff_%s n d (Some nt) x H Hx) as R.\n'
                   '  cbn [realises] in R. rewrite <- (R Hw). field. exact Hd. Qed.' % (nm, nm, nm, nm))
        names += ['coeff_%s' % nm, 'pattern_%s_realises' % nm]
        dis = [p for p in ('Pm1', 'P0', 'P1') if p not in pw]
        for p in dis:
            out.append('Theorem pattern_%s_rejects_%s : forall cm c0 c1 : K, %s <> 0 -> pat_coeffs pat_%s (cm, c0, c1) = Err.\n'
                       'Proof. coeff_rejects_tac K pat_%s. Qed.' % (nm, CNAME[p], CNAME[p], nm, nm))
            names.append('pattern_%s_rejects_%s' % (nm, CNAME[p]))
        out.append('Theorem pattern_%s_rejects_expr : forall n d : list K, pzerob n = false -> %s = None ->\n'
                   '  pattern_run pat_%s (n, d) = Err.\n'
                   'Proof. intros n d Hn H. apply pattern_rejects_nonlaurent; [exact H | exact Hn]. Qed.' % (nm, lau, nm))
        names.append('pattern_%s_rejects_expr' % nm)
        # "never a different network": a returned network means the expression has the form, with the coefficients of the name
        concl = ' /\\ '.join(['%s = Some (cm, c0, c1)' % lau] + ['%s = 0' % CNAME[p] for p in dis])
        prf = ['intros n d nt. unfold pattern_run. destruct (pzerob d); [discriminate|].',
               '  destruct (pzerob n); [destruct (p_zero_none pat_%s); discriminate|].' % nm,
               '  change (p_par pat_%s) with %s. cbv iota.' % (nm, 'false' if ser else 'true'),
               '  destruct (%s) as [[[cm c0] c1]|]; [|discriminate]. intros H. exists cm, c0, c1.' % lau,
               '  repeat split.']
        for p in dis:
            prf.append('  - destruct (fdec K %s 0) as [E|E]; [exact E|]. rewrite (pattern_%s_rejects_%s cm c0 c1 E) in H. discriminate.' % (CNAME[p], nm, CNAME[p]))
        out.append('Theorem pattern_%s_form : forall (n d : list K) nt, pattern_run pat_%s (n, d) = Ok (Some nt) ->\n'
                   '  exists cm c0 c1, %s.\nProof. %s\nQed.' % (nm, nm, concl, '\n'.join(prf)))
        names.append('pattern_%s_form' % nm)
    for nm in tr.order:
        if nm in tr.cauers:
            c = tr.cauers[nm]
            out.append('Theorem %s_realises : forall (N D : list K) nt x,\n'
                       '  synth_cauer lad_%s N D = Ok (Some nt) -> x <> 0 -> peval D x <> 0 -> Zwf nt x ->\n'
                       '  Zev nt x = peval N x / peval D x.\n'
                       'Proof. exact (cauer_sound K lad_%s eq_refl coeff_%s coeff_%s). Qed.' % (nm, nm, nm, c['even'][1], c['odd'][1]))
            names.append('%s_realises' % nm)
        if nm in tr.fosters:
            f = tr.fosters[nm]
            out.append('Theorem %s_realises : forall (N D : list K) ts nt x,\n'
                       '  synth_foster fos_%s N D ts = Ok (Some nt) -> x <> 0 -> peval D x <> 0 ->\n'
                       '  Forall (fun f => peval (snd f) x <> 0) ts -> Zwf nt x -> Zev nt x = peval N x / peval D x.\n'
                       'Proof. exact (foster_sound K fos_%s eq_refl coeff_%s). Qed.' % (nm, nm, nm, f['pat']))
            names.append('%s_realises' % nm)
    # the whole form table
    bul = []
    for nm in tr.order:
        if nm in tr.patterns:
            bul.append('  - exact coeff_%s.' % nm)
        elif nm in tr.tries:
            bul.append('  - split; [exact coeff_%s | exact coeff_%s].' % tr.tries[nm])
        elif nm in tr.cauers:
            c = tr.cauers[nm]
            bul.append('  - split; [reflexivity | split; [exact coeff_%s | exact coeff_%s]].' % (c['even'][1], c['odd'][1]))
        elif nm in tr.fosters:
            bul.append('  - split; [reflexivity | exact coeff_%s].' % tr.fosters[nm]['pat'])
    out.append('Lemma forms_wf : Forall (fun e => method_wf (K:=K) (snd e)) synth_forms.\n'
               'Proof. unfold synth_forms. repeat apply Forall_cons; try apply Forall_nil; cbn [snd method_wf].\n%s\nQed.' % '\n'.join(bul))
    out.append('Theorem network_realises : forall form (N D : list K) ts nt x,\n'
               '  network_model synth_default synth_forms form N D ts = Ok (Some nt) -> x <> 0 -> peval D x <> 0 ->\n'
               '  Forall (fun f => peval (snd f) x <> 0) ts -> Zwf nt x -> Zev nt x = peval N x / peval D x.\n'
               'Proof. exact (network_sound K synth_default synth_forms forms_wf). Qed.')
    out.append('Theorem transform_preserves_Z_all : forall (n0 : net K) form ts nt x,\n'
               '  transform_model synth_default synth_forms n0 form ts = Ok (Some nt) -> x <> 0 -> Zwf n0 x ->\n'
               '  Forall (fun f => peval (snd f) x <> 0) ts -> Zwf nt x -> Zev nt x = Zev n0 x.\n'
               'Proof. exact (transform_preserves_Z K synth_default synth_forms forms_wf). Qed.')
    # chains through the translated tables: transform of a transformed network, transform of a synthesised network
    FA = 'Forall (fun f => peval (snd f) x <> 0)'
    out.append('Theorem transform_twice_preserves_Z : forall (n0 : net K) f1 ts1 n1 f2 ts2 n2 x,\n'
               '  transform_model synth_default synth_forms n0 f1 ts1 = Ok (Some n1) ->\n'
               '  transform_model synth_default synth_forms n1 f2 ts2 = Ok (Some n2) ->\n'
               '  x <> 0 -> Zwf n0 x -> Zwf n1 x -> Zwf n2 x -> %s ts1 -> %s ts2 -> Zev n2 x = Zev n0 x.\n'
               'Proof. intros n0 f1 ts1 n1 f2 ts2 n2 x H1 H2 Hx W0 W1 W2 T1 T2.\n'
               '  rewrite (transform_preserves_Z_all n1 f2 ts2 n2 x H2 Hx W1 T2 W2).\n'
               '  exact (transform_preserves_Z_all n0 f1 ts1 n1 x H1 Hx W0 T1 W1). Qed.' % (FA, FA))
    out.append('Theorem network_then_transform_realises : forall f1 (N D : list K) ts1 n1 f2 ts2 n2 x,\n'
               '  network_model synth_default synth_forms f1 N D ts1 = Ok (Some n1) ->\n'
               '  transform_model synth_default synth_forms n1 f2 ts2 = Ok (Some n2) ->\n'
               '  x <> 0 -> peval D x <> 0 -> Zwf n1 x -> Zwf n2 x -> %s ts1 -> %s ts2 -> Zev n2 x = peval N x / peval D x.\n'
               'Proof. intros f1 N D ts1 n1 f2 ts2 n2 x H1 H2 Hx Hd W1 W2 T1 T2.\n'
               '  rewrite (transform_preserves_Z_all n1 f2 ts2 n2 x H2 Hx W1 T2 W2).\n'
               '  exact (network_realises f1 N D ts1 n1 x H1 Hx Hd T1 W1). Qed.' % (FA, FA))
    names += ['forms_wf', 'network_realises', 'transform_preserves_Z_all', 'transform_twice_preserves_Z', 'network_then_transform_realises']
    out.append('End Obl.\n')
    # non-vacuity: the premises are satisfiable (a network is returned and is non-degenerate at a point)
    nv = [('cauerI', '[qc 3 1; qc 4 1; qc 1 1]', '[qc 0 1; qc 2 1; qc 1 1]', '[]'),
          ('cauerII', '[qc 3 1; qc 4 1; qc 1 1]', '[qc 0 1; qc 2 1; qc 1 1]', '[]'),
          ('seriesRLC', '[qc 5 1; qc 3 1; qc 2 1]', '[qc 0 1; qc 1 1]', '[]'),
          ('parallelRLC', '[qc 0 1; qc 1 1]', '[qc 5 1; qc 3 1; qc 2 1]', '[]'),
          ('fosterI', '[qc 3 1; qc 4 1; qc 1 1]', '[qc 0 1; qc 2 1; qc 1 1]',
           '[([qc 1 1], [qc 1 1]); ([qc 1 1], [qc 4 1; qc 2 1]); ([qc 3 1], [qc 0 1; qc 2 1])]')]
    for form, N, D, ts in nv:
        if form not in tr.order:
            continue
        out.append('Example nv_%s : match network_model (K:=QcF) synth_default synth_forms "%s"%%string %s %s %s with\n'
                   '  | Ok (Some nt) => Zwfb nt (qc 2 3) | _ => false end = true.\nProof. vm_compute. reflexivity. Qed.' % (form, form, N, D, ts))
    if 'cauerI' in tr.order and 'cauerII' in tr.order and 'seriesRLC' in tr.order:
        N, D = '[qc 3 1; qc 4 1; qc 1 1]', '[qc 0 1; qc 2 1; qc 1 1]'
        out.append('Example nv_chain : match network_model (K:=QcF) synth_default synth_forms "cauerI"%%string %s %s [] with\n'
                   '  | Ok (Some n1) => match transform_model (K:=QcF) synth_default synth_forms n1 "cauerII"%%string [] with\n'
                   '      | Ok (Some n2) => andb (andb (Zwfb n1 (qc 2 3)) (Zwfb n2 (qc 2 3))) (negb (net_eqb n1 n2)) | _ => false end\n'
                   '  | _ => false end = true.\nProof. vm_compute. reflexivity. Qed.' % (N, D))
        out.append('Example nv_chain_pat : match transform_model (K:=QcF) synth_default synth_forms\n'
                   '    (@Ser QcF [@Leaf QcF kR (qc 2 1); @Ser QcF [@Leaf QcF kL (qc 3 1); @Leaf QcF kG (qc 4 1); @Leaf QcF kC (qc 5 1)]]) "seriesRLC"%string [] with\n'
                   '  | Ok (Some n1) => andb (Zwfb n1 (qc 2 3)) (feqb (Zev n1 (qc 2 3)) (qc 91 20 : QcF)) | _ => false end = true.\n'
                   'Proof. vm_compute. reflexivity. Qed.')
    out.append('\n'.join('Print Assumptions %s.' % n for n in names if not n.startswith('coeff_') and n != 'forms_wf'))
    return '\n\n'.join(out) + '\n'


def qc(x):
    x = F(x)
    return '(qc (%d) %d)' % (x.numerator, x.denominator)


def qpoly(cs):
    if not cs:
        return '(@nil Qc : list QcF)'
    return '([%s] : list QcF)' % '; '.join(qc(c) for c in cs)


def qtree(t):
    if t[0] in ('Ser', 'Par'):
        return '(%sQ [%s])' % (t[0], '; '.join(qtree(x) for x in t[1:]))
    return '(Lf k%s %s)' % (t[0], qc(t[1]))


CASES_PRELUDE = '''
Local Open Scope bool_scope.
Definition Lf (k : kind) (v : Qc) : net QcF := @Leaf QcF k v.
Definition SerQ (l : list (net QcF)) : net QcF := @Ser QcF l.
Definition ParQ (l : list (net QcF)) : net QcF := @Par QcF l.
Inductive obs := ONet (n : net QcF) | ONone | OErr | OAny | OSome.
Definition agree (r : res (option (net QcF))) (o : obs) : bool :=
  match r, o with
  | _, OAny => true
  | Ok (Some _), OSome => true
  | Ok (Some a), ONet b => net_eqb a b
  | Ok None, ONone => true
  | Err, OErr => true
  | _, _ => false
  end.
(* Coq-evaluated impedance of the OBSERVED network equals N/D at every non-degenerate test point *)
Definition zcheck (o : obs) (N D : list QcF) (xs : list QcF) : bool :=
  match o with
  | ONet n => forallb (fun x => implb (Zwfb n x && negb (feqb x (f0 : QcF)) && negb (feqb (peval D x) (f0 : QcF)))
                                       (feqb (Zev n x) (fdiv (peval N x) (peval D x)))) xs
  | _ => true
  end.
Definition code (a z : bool) : nat := ((if a then 0 else 1) + (if z then 0 else 2))%nat.
Definition NM := network_model (K:=QcF) synth_default synth_forms.
Definition TM := transform_model (K:=QcF) synth_default synth_forms.
'''


def eff_form(c, tr):
    """(Coq expression of the form string the entry point receives, name of the method finally run)"""
    if c.get('omit'):
        if c['kind'] == 'transform':
            coq, nm = 'transform_default', tr.transform_default
        elif c.get('mode') == 'function':
            coq, nm = 'function_default', tr.function_default
        else:
            coq, nm = 'mixin_default', tr.mixin_default
    else:
        coq, nm = '"%s"%%string' % c['form'], c['form']
    return coq, (tr.default if nm == 'default' else nm)


def rat_terms(c, r, tr):
    """foster certificate for the model from the recorded realiser arguments; None if unavailable"""
    fname = eff_form(c, tr)[1]
    if fname not in tr.fosters:
        return []
    ts = r.get('terms')
    if ts is None or any(t is None for t in ts):
        return None
    inv = tr.fosters[fname]['inv']
    return [(t[1], t[0]) if inv else (t[0], t[1]) for t in ts]


def case_item(i, c, r, tr):
    """Coq expression  (i, code)  or None when the case gives no comparison"""
    st = r.get('status')
    if st not in ('net', 'none', 'error'):
        return None, 'harness'
    obs = {'net': lambda: ('ONet %s' % qtree(r['tree'])) if r.get('tree') is not None else 'OSome',
           'none': lambda: 'ONone', 'error': lambda: 'OErr'}[st]()
    xs = '([%s] : list QcF)' % '; '.join(qc(x) for x in c['xs'])
    form, fname = eff_form(c, tr)
    ts = rat_terms(c, r, tr)
    note = 'compared'
    if c['kind'] == 'transform':
        z = 'Zrat_c %s' % qtree(c['net'])
        if ts is None:
            model = None
        elif fname in tr.fosters and st == 'error':
            model = '(foster_fold (K:=QcF) fos_%s %s None)' % (fname, tsl(ts)) if ts else None
        else:
            model = '(TM %s %s %s)' % (qtree(c['net']), form, tsl(ts))
        N, D = '(fst (%s))' % z, '(snd (%s))' % z
    else:
        if c.get('sym'):
            if r.get('zreq') is None:
                return None, 'symbolic-no-zreq'
            Nl, Dl = lowest_terms(r['zreq'][0], r['zreq'][1])
        else:
            Nl, Dl = c['N'], c['D']
        N, D = qpoly(Nl), qpoly(Dl)
        if ts is None:
            model = None
        elif fname in tr.fosters and st == 'error':
            model = '(foster_fold (K:=QcF) fos_%s %s None)' % (fname, tsl(ts)) if ts else None
        else:
            model = '(NM %s %s %s %s)' % (form, N, D, tsl(ts))
    if model is None:
        note = 'foster-no-certificate' if st == 'error' else 'irrational-terms'
        a = 'true'
    elif c.get('sym'):
        # a symbolic run is generic; the instantiated model may take another branch at the sampled point:
        # only the impedance of the observed network is a verdict
        note = 'symbolic'
        a = 'true'
    else:
        a = 'agree %s (%s)' % (model, obs)
    return '(%d%%nat, code (%s) (zcheck (%s) %s %s %s))' % (i, a, obs, N, D, xs), note


def tsl(ts):
    if not ts:
        return '(@nil (rat QcF))'
    return '([%s] : list (rat QcF))' % '; '.join('(%s, %s)' % (qpoly(n), qpoly(d)) for n, d in ts)


def cases_v(tr, items):
    lines = [HEADER % (tr.path, tr.sha), CASES_PRELUDE, 'Definition cases : list (nat * nat) := [']
    lines.append(';\n'.join(items))
    lines.append('].\nDefinition failing : list nat := map (fun p => (fst p * 4 + snd p)%nat) (filter (fun p => negb (Nat.eqb (snd p) 0)) cases).')
    lines.append('Eval vm_compute in failing.')
    return '\n'.join(lines) + '\n'


# ---- fingerprints --------------------------------------------------------------------------
def independent_check(c, r):
    """exact recomputation, from the STRUCTURE of the returned network alone (tree_Z: Fractions,
    no lcapy, no sympy), of its impedance n/d and comparison with the request N/D by
    cross-multiplication.  True / False / None (not applicable)"""
    if r.get('status') != 'net' or r.get('tree') is None:
        return None
    try:
        n, d = tree_Z(r['tree'])
        if c['kind'] == 'transform':
            N, D = tree_Z(c['net'])
        elif c.get('sym'):
            if r.get('zreq') is None:
                return None
            N, D = [F(x) for x in r['zreq'][0]], [F(x) for x in r['zreq'][1]]
        else:
            N, D = [F(x) for x in c['N']], [F(x) for x in c['D']]
    except ZeroDivisionError:
        return None
    if not ptrim(d) or not ptrim(D):
        return None
    return pmul(ptrim(n), ptrim(D)) == pmul(ptrim(N), ptrim(d))


def classify(c):
    """structural class of the requested function, used in violation keys"""
    if c['kind'] == 'transform':
        return 'transform'
    return c.get('tag', '?')


def obligation_form(name):
    """the synthesis form a generated statement is about"""
    m = re.match(r'(?:pattern|coeff|guard)_([A-Za-z]+?)(?:_realises|_rejects_\w+|_form|_exhaustive)?$', name)
    if m and name.startswith(('pattern_', 'coeff_', 'guard_')):
        return m.group(1)
    m = re.match(r'([A-Za-z]+)_realises$', name)
    if m:
        return m.group(1)
    return None


def main_key(c, what):
    return '%s:%s:%s' % (what, 'transform' if c['kind'] == 'transform' else 'network', c['form'])


# ---- main --------------------------------------------------------------------------------------
def run(tier='quick', replay=None):
    res = core.Result(PID, tier)
    rng = random.Random(core.seed() * 104729 + 19)
    core.ensure_theory(['FieldSec', 'PolyQ', 'RatfunCF', 'SynthNet', 'SynthCF', 'SynthPat', 'SynthLadder', 'SynthTerm'])
    w = core.Work(PID)
    violations = []
    try:
        res.trusted = [
            'Coq 8.16.1 kernel + vm_compute (no native_compute)',
            'translator tools/tr_synth.py (sha256 %s) + statement templates in checks/c19.py' % core.sha256_file(os.path.join(core.VERIF, 'tools', 'tr_synth.py'))[:16],
            'specification: impedance semantics Zev/Zwf of coq/theory/SynthNet.v (R=v, G=1/v, L=s v, C=1/(s v), series sum, parallel reciprocal sum); '
            'allowed powers of a realiser derived from its NAME (series|parallel + RGLC)',
            'structural tree parser and exact sympy round-trip oracle in tools/impl_synth.py (wraps Synthesis.series*/parallel* at run time to record the Foster terms)',
            'modelled, not verified: sympy partfrac / collect / Poly arithmetic / cancel inside Lcapy (one exact polynomial division decides the Laurent form; '
            'Foster terms are taken from the run and certified by an exact polynomial identity); the harness hands the model N/D in lowest terms',
        ]
        res.assumptions = ['field of characteristic 0 with decidable equality (record fld)',
                           'theorems are pointwise: s <> 0, D(s) <> 0, and every division inside the returned network is by a non-zero value (Zwf)']
        # 1. translate
        tr = None
        texts = {}
        try:
            tr = T.translate(core.REPO)
            texts['SynthGen.v'] = T.gen_coq(tr)
        except T.Untranslatable as e:
            res.failed_obl.append(('translate', 'lcapy/synthesis.py', str(e)))
            res.obligations += 1
        gen_ok = False
        if tr is not None:
            w.write('SynthGen.v', texts['SynthGen.v'])
            ok, out, secs = core.coqc(w.dir, 'SynthGen.v')
            if not ok:
                res.failed_obl.append(('SynthGen', 'SynthGen.v', out[-800:]))
                res.obligations += 1
            else:
                gen_ok = True
        # 2. prove
        files = []
        if gen_ok:
            try:
                texts['C19_gen.v'] = gen_theorems(tr)
                w.write('C19_gen.v', texts['C19_gen.v'])
                files.append('C19_gen.v')
            except T.Untranslatable as e:
                res.failed_obl.append(('generate', 'C19_gen.v', str(e)))
                res.obligations += 1
        texts['C19.v'] = open(os.path.join(core.VERIF, 'coq', 'props', 'C19.v')).read()
        w.write('C19.v', texts['C19.v'])
        files.append('C19.v')
        bad = core.gate_text('generated', '\n'.join(texts.values()))
        theory_files = [os.path.join(core.COQ_THEORY, f + '.v') for f in ('SynthNet', 'SynthCF', 'SynthPat', 'SynthLadder', 'SynthTerm', 'PolyQ', 'RatfunCF')]
        bad += core.gate_files(theory_files)
        if bad:
            res.failed_obl.append(('gate', 'generated', '; '.join(bad)))
            res.obligations += 1
        # count the theory's own statements as obligations discharged by the (up-to-date) theory build
        for tf in theory_files[:5]:
            n = len(core.obligations_in(open(tf).read()))
            res.obligations += n
            res.discharged += n
        import threading
        proof_res = {}

        def prove():
            proof_res.update(core.coqc_many(w.dir, files, timeout=900))
        th = threading.Thread(target=prove)
        th.start()

        # 3. run the real code
        if replay:
            cases = [replay['case']]
        else:
            cases = gen_cases(rng, tier)
        results = core.run_impl('impl_synth.py', cases)
        if not replay:
            chain = gen_chain_cases(random.Random(core.seed() * 15485863 + 1919), tier, cases, results)
            if chain:
                cases = cases + chain
                results = results + core.run_impl('impl_synth.py', chain)
            res.extra['chain_cases'] = len(chain)
        th.join()
        res.coq_results(w.dir, proof_res, {f: texts[f] for f in files})
        res.extra['coq_seconds'] = {f: round(r[2], 1) for f, r in proof_res.items()}
        res.programs = len(set(c['form'] for c in cases))

        items, idx_note = [], {}
        for i, (c, r) in enumerate(zip(cases, results)):
            st = r.get('status')
            if st in ('setup-error', 'harness-error') or 'error' in r and st is None:
                res.count('harness_' + str(st))
                res.notes.append('harness problem on case %d: %s' % (i, str(r)[:200]))
                continue
            res.count('status_' + st)
            res.count('form_' + c['form'])
            res.count('tag_' + c.get('tag', '?'))
            res.count('oracle_' + r.get('oracle', 'na'))
            res.add_case(json.dumps({k: v for k, v in c.items() if k != 'xs'}, sort_keys=True), st == 'net',
                         {'case': {k: v for k, v in c.items() if k != 'xs'}, 'lcapy': r.get('text', r.get('errtype', st)), 'oracle': r.get('oracle')}
                         if (i % 97 == 3 and st == 'net') else None)
            ind = independent_check(c, r)
            res.count('independent_' + {True: 'ok', False: 'bad', None: 'na'}[ind])
            if r.get('oracle') == 'bad':
                res.counterexamples.append({'case': c, 'lcapy': r, 'via': 'oracle'})
            elif ind is False:
                res.counterexamples.append({'case': c, 'lcapy': r, 'via': 'independent-recomputation'})
            if r.get('sdep'):
                res.counterexamples.append({'case': c, 'lcapy': r, 'via': 's-dependent-element'})
            if gen_ok:
                it, note = case_item(i, c, r, tr)
                res.count('corr_' + note)
                idx_note[i] = note
                if it is not None:
                    items.append(it)
        n_valid = sum(1 for r in results if r.get('status') in ('net', 'none', 'error'))
        if not replay and n_valid < 0.8 * len(cases):
            res.failed_obl.append(('harness', 'tools/impl_synth.py', 'only %d of %d cases ran (worker crashes / time-outs): %s' % (
                n_valid, len(cases), '; '.join(res.notes[:3]))))
            res.obligations += 1
        corr_fail = {}
        if gen_ok and items:
            shards = [items[k:k + 150] for k in range(0, len(items), 150)]
            fn = []
            for si, sh in enumerate(shards):
                w.write('cases_%d.v' % si, cases_v(tr, sh))
                fn.append('cases_%d.v' % si)
            cr = core.coqc_many(w.dir, fn, timeout=900)
            for f, (ok, out, secs) in cr.items():
                fl = core.parse_eval_list(out) if ok else None
                if fl is None:
                    res.failed_obl.append(('correspondence_eval', f, out[-600:]))
                    res.obligations += 1
                else:
                    for v in fl:
                        corr_fail[v // 4] = v % 4
            res.extra['traces_validated_against_impl'] = len(items)
            res.extra['corr_seconds'] = {f: round(r[2], 1) for f, r in cr.items()}
        for i, code in sorted(corr_fail.items()):
            c, r = cases[i], results[i]
            if code & 2:
                res.counterexamples.append({'case': c, 'lcapy': r, 'via': 'coq-impedance'})
            if code & 1:
                res.disagreements.append({'case': c, 'lcapy': r})
        res.rule = ('cases: generated driving-point functions (fixed specials; impedances of random R/L/C/G trees; exact pattern forms and '
                    'reciprocals; random integer N/D; rational poles incl. origin/infinity/repeated; complex-conjugate pairs; LC reactance '
                    'functions; a few symbolic ones instantiated at a rational point) x all 15 forms (+ default, + an unknown form), through '
                    'impedance(...).network, admittance(...).network and synthesis.network; random one-port trees x transform(form); nested '
                    'same-kind one-ports x the pattern forms of transform(); second round: networks returned by the first round x transform(another form). '
                    'non-trivial = Lcapy returned a network; distinct = distinct (function, form, mode)')

        if replay:
            print('case      :', json.dumps({k: v for k, v in cases[0].items()}))
            print('lcapy     :', json.dumps(results[0])[:600])
            print('model     :', 'agrees' if 0 not in corr_fail or not (corr_fail[0] & 1) else 'DIFFERS (structure / error behaviour)',
                  '(%s)' % idx_note.get(0, 'not compared'))
            print('impedance :', 'equal at the test points (Coq Zev)' if 0 not in corr_fail or not (corr_fail[0] & 2) else 'DIFFERS (Coq Zev)')
            print('oracle    :', results[0].get('oracle'), results[0].get('zdiff', ''))
            print('recomputed:', {True: 'equal', False: 'DIFFERS', None: 'n/a'}[independent_check(cases[0], results[0])],
                  '(impedance from the returned structure alone, exact fractions)')

        # 4. decide
        seen = {}
        res.counterexamples.sort(key=lambda ce: len(json.dumps(ce['case'])))
        for ce in res.counterexamples:
            c = ce['case']
            k = main_key(c, 'wrong-immittance')
            if k in seen:
                continue
            seen[k] = ce
            r = ce['lcapy']
            if ce['via'] == 's-dependent-element':
                k = main_key(c, 'unrealisable-element')
                violations.append({'key': k, 'what': 'form %s returned a "network" with an element value that depends on s instead of an error' % c['form'],
                                   'case': c, 'lcapy': r, 'via': ce['via'], 'found_input': True,
                                   'replay': {'case': c}, 'how': './check C19 --replay <this file>'})
                continue
            violations.append({'key': k, 'what': 'network returned by form %s does not have the requested immittance' % c['form'],
                               'case': c, 'lcapy': r, 'via': ce['via'], 'found_input': True,
                               'replay': {'case': c}, 'how': './check C19 --replay <this file>'})
        bad_forms = set(ce['case']['form'] for ce in res.counterexamples)
        for d in res.disagreements:
            c = d['case']
            if c['form'] in bad_forms:
                continue
            k = 'correspondence:%s:%s' % (c['form'], d['lcapy'].get('status'))
            if k in seen:
                continue
            seen[k] = d
            violations.append({'key': k, 'what': 'hand model and real code differ for form %s (structure, element values or error behaviour)' % c['form'],
                               'case': c, 'lcapy': d['lcapy'], 'found_input': False,
                               'correspondence': 'LT.SynthLadder.network_model / transform_model vs lcapy.synthesis'})
        for name, f, msg in res.failed_obl:
            fm = obligation_form(name)
            if fm is not None and fm in bad_forms:
                continue
            if name in ('forms_wf', 'network_realises', 'transform_preserves_Z_all') and bad_forms:
                continue
            violations.append({'key': 'obligation:' + name, 'what': 'Coq obligation %s in %s no longer checks' % (name, f),
                               'theorem': name, 'file': f, 'message': msg, 'found_input': False})
        return core.finish(res, violations)
    finally:
        if not os.environ.get('VERIF_KEEP'):
            w.cleanup()


if __name__ == '__main__':
    sys.exit(run(sys.argv[1] if len(sys.argv) > 1 else 'quick'))
