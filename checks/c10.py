"""C10 — inverse Laplace transform inverts the forward transform and respects causality.

  translate  lcapy/inverse_laplace.py (+ transformer.py, ratfun.py, assumptions.py)
             -> Gen/ILTGen.v                                   (tools/tr_ilt.py)
             closed forms of InverseLaplaceTransformer.ratfun (simple / repeated /
             conjugate pair / Dirac terms), the partner-search guard, do_damped_sin,
             the cache key, the selection test of Ratfun._find_residues_sub;
             statement skeleton of ratfun / term / make / doit / Assumptions.set
  prove      Gen/C10_branches.v  branch_simple / branch_repeated / branch_conj /
                                 branch_poly : L(closed form) = partial-fraction term,
                                 branches_gen_ok, cache_key_complete, residue_sub_*
             Gen/C10_guard.v     pair_guard_sound (partner must have the same order),
                                 ILT_LT_gen : L(ILT F) = F for every F in normal form
             Gen/C10_ds.v        damped_sin_k
             Gen/C10_delay.v     delay_factor_sign, term_shift_c/u, term_step_at_delay,
                                 term_fallback_keeps_delay, term_fallback_LT_gen
             Gen/C10_residue.v   res_sel_spec, res_div_spec (k! divisor), residues_sub_gen_is_model
             props/C10.v         signal algebra (ExpPoly), loop / term / make model
                                 (ILT), causal flags, ivt/fvt, cache, round-trip checker
  correspond generated rational functions (pole patterns x delays x options), the
             real X(t, **opts) parsed to the exp-poly normal form, compared inside
             Coq (Eval vm_compute over Q(i)) with the model fed Lcapy's own
             (Q, R, P, O) certificates (checked by the verified pf_check), plus the
             verified round trip L(Lcapy's output) = input for every case;
             poles outside Q(i) (alpha +- beta sqrt d, alpha +- i beta sqrt d) the same way over the
             fields Q(i)(sqrt d) of LT.ILTQext with the generic glue LT.ILTCorrX (casesx_*.v,
             Gen/C10_qext.v: ILT_LT_cert_qext, model_eval_qext, case_rt_sound_qext)
  search     exact oracle independent of Coq and of Lcapy's forward transform: the
             algebraic L of the parsed output equals the input at random Gaussian
             rational points, per delay; cache transparency; limits for initial and
             final values; nan / unparsable outputs
"""
import json
import os
import random
import re
import sys
from fractions import Fraction

sys.path.insert(0, os.path.dirname(os.path.dirname(os.path.abspath(__file__))))
from vlib import core
sys.path.insert(0, os.path.join(core.VERIF, 'tools'))
import tr_ilt as T
from ilt_exact import G, fstr, padd, pmul, pscale, peval, pnorm, from_roots, laplace_normal_form, qc, qi, qilist, gsqrt_rational
import ilt_qext as XQ

PID = 'C10'
MANIFEST = {
    'text': 'Coq theorems state that the model of Lcapy\'s inverse Laplace transformer inverts the Laplace transform L of an '
            'exponential-polynomial-plus-impulses signal algebra: ILT_LT_gen - for EVERY image in partial-fraction normal form (any number '
            'of terms, delays, poles, multiplicities, polynomial part) L(ILT F) = F at every non-pole s, with the per-branch closed forms '
            '(simple pole, repeated pole, conjugate pair via Euler, Dirac terms), the partner-search guard and do_damped_sin regenerated '
            'from the CURRENT source on every run (branch_simple/repeated/conj/poly, pair_guard_sound, damped_sin_k); the delay bookkeeping '
            'of delay_factor()/term() is translated too (delay_factor_sign, term_shift_c/u, term_step_at_delay, term_fallback_keeps_delay) and '
            'term_fallback_LT_gen proves the expand-and-recurse fall-back for every list of pieces; causal_flag / noncausal_flag / delayed_flag '
            'for the t >= 0 bookkeeping; ivt_fvt; cache_sound for any history. Residues of the substitution method: residue_k_general proves, '
            'for EVERY multiplicity n, that the Taylor-jet coefficients c_k = (B/C)^(k)(p)/k! are the residues at p; the selection test and '
            'the k! divisor of Ratfun._find_residues_sub are translated (res_sel_spec, res_div_spec, residues_sub_gen_is_model). Root finding '
            'and division are oracles: Lcapy\'s (Q,R,P,O) are accepted only through the verified checker pf_check. The hand model is validated '
            'on each run inside Coq (vm_compute over Q(i)) against the real X(t, **opts) - with the delays computed by the translated '
            'definitions and Lcapy\'s residues compared with both the formula model and the jet residues - and L(Lcapy\'s own output) = input '
            'is certified per case by the verified round-trip checker. Poles, residues and exponents that are NOT Gaussian rationals '
            '(alpha +- beta sqrt d real, alpha +- i beta sqrt d, simple and double, mixed with rational/Gaussian poles, delays, improper) are '
            'inside the same comparison: the quadratic extensions Q(i)(sqrt d), d prime, are proved to be fields (ILTQext.prime_nonsq: a '
            'prime is not a square in Q(i), by descent; QxF : fld, executable), the main theorems are instantiated over them '
            '(ILT_LT_cert_qext, model_eval_qext, case_rt_sound_qext) and the generic glue ILTCorrX evaluates model = Lcapy, pf_check of '
            'Lcapy\'s (Q,R,P,O), the jet residues and the verified round trip over Q(i)(sqrt 2) and Q(i)(sqrt 3) on every run.',
    'note': 'Trusted: Coq kernel/vm_compute; tools/tr_ilt.py + statement templates in checks/c10.py; the sympy-based parser of the time '
            'function in tools/impl_ilt.py; specification coq/theory/ExpPoly.v (L as the linear map t^n/n! e^{pt} -> 1/(s-p)^{n+1}, '
            'delta^(k) -> s^k, cos/sin by Euler; analytic meaning of the table entry for real s > p in ExpPolyAnalysis.v). Partial: '
            'sympy.roots and polynomial division are oracles checked per case; that the iterated symbolic derivative expr.diff(var)^k / k! '
            'of the rational function equals the k-th jet coefficient is proved for k <= 1 (residue_sub_simple/double) and compared per '
            'case inside Coq for k >= 2 (the higher-order quotient rule is not proved); convolution results of product_undef1 are '
            'classified, not evaluated. Irrational poles: square roots of the primes 2 and 3 only (one extension per case; nested radicals, cubic '
            'irrationalities and do_damped_sin with irrational omega are compared by the exact/numeric search oracle only).',
    'technique': 'Coq proof over abstract fields (signal algebra + polynomial theory) with source-translated closed forms, residue '
                 'divisor and delay bookkeeping + in-Coq correspondence evaluation over Gaussian rationals + verified per-case '
                 'certificate checking + exact search oracle',
}

THEORY = ['FieldSec', 'PolyQ', 'QcI', 'ExpPoly', 'ILT', 'ILTResidue', 'ILTCorr', 'ExpPolyAnalysis', 'ILTQext', 'ILTCorrX']
HEADER = '(* GENERATED by checks/c10.py from the translation of %s. Do not edit. *)\n'

# known classes of failing inputs (keys are matched against known_findings.json)
KEY_F10 = 'ratfun.conjugate-pairing:repeated-complex-pole'
KEY_DS0 = 'do_damped_sin:critically-damped'
KEY_NEST = 'term:delay-dropped-on-expansion'
KEY_FALLBACK = 'term:delay-dropped:sympy-fallback'
KEY_DSDELAY = 'ratfun:damped_sin-ignores-delay'


DS_BODY = r'''Section Obl.
Variable K : fld.
Add Field KFo : (fth K).
Variable j : K.
Hypothesis j2 : j * j = fopp 1.

Lemma j_nz : j <> 0.
Proof. intros E. apply (one_nz K). transitivity (fopp (j * j)); [rewrite j2; ring | rewrite E; ring]. Qed.
Lemma two_nz : (2 : K) <> 0.
Proof. exact (fchar0 K 2%positive). Qed.

Ltac pole_nz Hden d0 :=
  let Z := fresh "Z" in let Hx := fresh "Hx" in let Hy := fresh "Hy" in
  intro Z;
  match type of Hden with ?D <> _ =>
    assert (Hx : (2 * 2 * d0) * D = 0) by nsatz;
    destruct (mul_eq0 K _ _ Hx) as [Hy|Hy]; [revert Hy; nz | exact (Hden Hy)] end.
Ltac ds_prep E1 E2 r1 r2 :=
  unfold r1 in E1; unfold r2 in E2; cbv zeta in E1, E2; cbn [fpow] in E2.

Theorem damped_sin_1 : forall n0 d0 d1 d2 w1 w2 s,
  d0 <> 0 -> n0 <> 0 -> w1 <> 0 -> w2 <> 0 ->
  w1 * w1 = ds1_rad1 j n0 d0 d1 d2 w1 w2 -> w2 * w2 = ds1_rad2 j n0 d0 d1 d2 w1 w2 ->
  d0 * s * s + d1 * s + d2 <> 0 ->
  exists u, den K j (ds1_u j n0 d0 d1 d2 w1 w2) = Some u /\ Lval s u = n0 / (d0 * s * s + d1 * s + d2).
Proof. intros n0 d0 d1 d2 w1 w2 s Hd0 Hn0 Hw1 Hw2 E1 E2 Hden. pose proof j_nz as Hj. pose proof two_nz as H2.
  ds_prep E1 E2 @ds1_rad1 @ds1_rad2.
  assert (P1 : d2 = w1 * w1 * d0) by (rewrite E1; field; assumption).
  assert (P2 : d1 * d1 = (2 * w1 * d0) * (2 * w1 * d0) * (1 - w2 * w2)) by (rewrite E2; field; nz).
  clear E1 E2. subst d2.
  unfold ds1_u. cbv zeta.
  eexists. split; [cbv [den osadd sscale sadd smul sing reg pscale padd rscale map rmul_all rmul_row rmul1 app]; reflexivity|].
  cbv [Lval sing reg rval peval at0 fpow].
  field_simplify_eq; [nsatz | repeat split; try assumption; pole_nz Hden d0].
Qed.

Theorem damped_sin_2 : forall n0 n1 d0 d1 d2 w1 w2 s,
  d0 <> 0 -> n0 <> 0 -> w1 <> 0 -> w2 <> 0 ->
  w1 * w1 = ds2_rad1 j n0 n1 d0 d1 d2 w1 w2 -> w2 * w2 = ds2_rad2 j n0 n1 d0 d1 d2 w1 w2 ->
  d0 * s * s + d1 * s + d2 <> 0 ->
  exists u, den K j (ds2_u j n0 n1 d0 d1 d2 w1 w2) = Some u /\ Lval s u = (n0 * s + n1) / (d0 * s * s + d1 * s + d2).
Proof. intros n0 n1 d0 d1 d2 w1 w2 s Hd0 Hn0 Hw1 Hw2 E1 E2 Hden. pose proof j_nz as Hj. pose proof two_nz as H2.
  ds_prep E1 E2 @ds2_rad1 @ds2_rad2.
  assert (P1 : d2 = w1 * w1 * d0) by (rewrite E1; field; assumption).
  assert (P2 : d1 * d1 = (2 * w1 * d0) * (2 * w1 * d0) * (1 - w2 * w2)) by (rewrite E2; field; nz).
  clear E1 E2. subst d2.
  unfold ds2_u. cbv zeta.
  eexists. split; [cbv [den osadd sscale sadd smul sing reg pscale padd rscale map rmul_all rmul_row rmul1 app]; reflexivity|].
  cbv [Lval sing reg rval peval at0 fpow].
  field_simplify_eq; [nsatz | repeat split; try assumption; pole_nz Hden d0].
Qed.

Theorem damped_sin_3 : forall n0 n1 n2 d0 d1 d2 w1 w2 s,
  d0 <> 0 -> n0 <> 0 -> w1 <> 0 -> w2 <> 0 ->
  w1 * w1 = ds3_rad1 j n0 n1 n2 d0 d1 d2 w1 w2 -> w2 * w2 = ds3_rad2 j n0 n1 n2 d0 d1 d2 w1 w2 ->
  d0 * s * s + d1 * s + d2 <> 0 ->
  exists c u, den K j (ds3_c j n0 n1 n2 d0 d1 d2 w1 w2) = Some c /\ den K j (ds3_u j n0 n1 n2 d0 d1 d2 w1 w2) = Some u /\
     Lval s c + Lval s u = (n0 * s * s + n1 * s + n2) / (d0 * s * s + d1 * s + d2).
Proof. intros n0 n1 n2 d0 d1 d2 w1 w2 s Hd0 Hn0 Hw1 Hw2 E1 E2 Hden. pose proof j_nz as Hj. pose proof two_nz as H2.
  ds_prep E1 E2 @ds3_rad1 @ds3_rad2.
  assert (P1 : d2 = w1 * w1 * d0) by (rewrite E1; field; assumption).
  assert (P2 : d1 * d1 = (2 * w1 * d0) * (2 * w1 * d0) * (1 - w2 * w2)) by (rewrite E2; field; nz).
  clear E1 E2. subst d2.
  unfold ds3_u, ds3_c. cbv zeta.
  eexists. eexists. split; [cbv [den osadd sscale sadd smul sing reg pscale padd rscale map rmul_all rmul_row rmul1 app pmonom pshift]; reflexivity|].
  split; [cbv [den osadd sscale sadd smul sing reg pscale padd rscale map rmul_all rmul_row rmul1 app]; reflexivity|].
  cbv [Lval sing reg rval peval at0 fpow map].
  field_simplify_eq; [nsatz | repeat split; try assumption; pole_nz Hden d0].
Qed.
End Obl.
'''


RES_BODY = r'''(* Ratfun._find_residues_sub: a factor (x - p_j) enters the cover-up denominator of entry i
   iff it belongs to another pole, or to the same pole with a higher order *)
Theorem res_sel_spec : forall same oi oj, (same = true -> oi <> oj) ->
  res_sel_gen same oi oj = (negb same || Nat.ltb oi oj)%bool.
Proof. intros same oi oj Hd. unfold res_sel_gen.
  destruct same; [specialize (Hd eq_refl)|];
  destruct (Nat.ltb_spec0 oi oj); destruct (Nat.leb_spec0 oi oj); destruct (Nat.eqb_spec oi oj);
  destruct (Nat.ltb_spec0 oj oi); destruct (Nat.leb_spec0 oj oi);
  cbn; try reflexivity; exfalso; lia. Qed.

(* Ratfun._find_residues_sub: the k-th derivative is divided by k! (k = M - O), as in the
   Taylor coefficient (B/C)^(k)(p)/k! of ILTResidue.residue_k_general *)
Theorem res_div_spec : forall (K : fld) (M O : nat), res_div_gen (K:=K) M O = fact_div (K:=K) M O.
Proof. intros K M O. unfold res_div_gen, fact_div. reflexivity. Qed.
Lemma residues_go_gen_is_model : forall (K : fld) sel Bn all es i e,
  residues_go_d (K:=K) sel res_div_gen Bn all i es e = residues_go_d sel fact_div Bn all i es e.
Proof. intros K sel Bn all es. induction es as [|[[[k p] o] M] es IH]; intros i e; cbn [residues_go_d]; [reflexivity|].
  rewrite res_div_spec, IH. reflexivity. Qed.
Theorem residues_sub_gen_is_model : forall (K : fld) sel poles Bn,
  residues_sub_d (K:=K) sel res_div_gen poles Bn = residues_sub sel poles Bn.
Proof. intros. unfold residues_sub, residues_sub_d. apply residues_go_gen_is_model. Qed.

'''


# ---------------------------------------------------------------- theorem files
def branches_v(tr):
    return (HEADER % 'lcapy/inverse_laplace.py') + r'''
Require Import LT.FieldSec LT.PolyQ LT.ExpPoly LT.ILT LT.ILTResidue Gen.ILTGen.
From Coq Require Import String.
Local Open Scope F_scope.
Section Obl.
Variable K : fld.
Add Field KFo : (fth K).
Variable j : K.
Hypothesis j2 : j * j = fopp 1.

Lemma j_nz : j <> 0.
Proof. intros E. apply (one_nz K). transitivity (fopp (j * j)); [rewrite j2; ring | rewrite E; ring]. Qed.
Lemma two_nz : (2 : K) <> 0.
Proof. exact (fchar0 K 2%positive). Qed.

(* L(r e^{pt}) = r/(s-p) *)
Theorem branch_simple : forall r p s, s - p <> 0 ->
  exists x, den K j (simple_gen j r p) = Some x /\ sing x = [] /\ Lval s x = r / (s - p) /\ at0 (reg x) = r.
Proof. intros r p s Hs. eexists. split; [cbv [simple_gen den sscale]; reflexivity|]. split; [reflexivity|].
  cbv [Lval sing reg rscale map pscale rval peval fpow at0]. split; [field; exact Hs | ring]. Qed.

(* L(r t^{o-1}/(o-1)! e^{pt}) = r/(s-p)^o, every o > 1 *)
Theorem branch_repeated : forall r p o s, (1 < o)%nat -> s - p <> 0 ->
  exists x, den K j (repeated_gen j r p o) = Some x /\ sing x = [] /\ Lval s x = r / fpow (s - p) o /\ at0 (reg x) = 0.
Proof. intros r p o s Ho Hs. destruct o as [|[|o]]; try lia.
  eexists. split; [cbv [repeated_gen den sscale smul sing reg pscale rscale map rmul_all rmul_row rmul1 Nat.sub app]; reflexivity|].
  split; [reflexivity|].
  cbv [Lval sing reg rval peval at0].
  pose proof (fpow_nz K _ (S (S o)) Hs) as Hq. split; [|ring].
  match goal with |- context [fpow (fsub s ?e) _] => replace (fsub s e) with (s - p) by ring end. field. exact Hq. Qed.

(* L((Ac cos wt + As sin wt) e^{-alpha t}) = r/(s-p) + rc/(s-pc), cos and sin by Euler's formulas *)
Theorem branch_conj : forall r rc p pc s, p <> pc -> s - p <> 0 -> s - pc <> 0 ->
  exists x, den K j (conj_gen j r rc p pc) = Some x /\ sing x = [] /\ Lval s x = r / (s - p) + rc / (s - pc) /\ at0 (reg x) = r + rc.
Proof. intros r rc p pc s Hne Hp Hpc. pose proof j_nz as Hj. pose proof two_nz as H2.
  assert (Hd : p - pc <> 0) by (intro Z; apply Hne; transitivity (p - pc + pc); [ring | rewrite Z; ring]).
  unfold conj_gen. cbv zeta.
  match goal with |- context [feqb ?e 0] => destruct (feqb e 0) eqn:Eb end.
  - apply feqb_eq in Eb.
    eexists. split; [cbv [den osadd sscale sadd smul sing reg pscale padd rscale map rmul_all rmul_row rmul1 app]; reflexivity|].
    split; [reflexivity|].
    cbv [Lval sing reg rval peval at0 fpow].
    assert (Erc : rc = - r) by (match type of Eb with ?e = _ => transitivity (e - r); [ring | rewrite Eb; ring] end). subst rc.
    split; fsolve.
  - eexists. split; [cbv [den osadd sscale sadd smul sing reg pscale padd rscale map rmul_all rmul_row rmul1 app]; reflexivity|].
    split; [reflexivity|].
    cbv [Lval sing reg rval peval at0 fpow].
    split; fsolve.
Qed.

(* L(c delta^{(len C - n - 1)}) = c s^{len C - n - 1} *)
Theorem branch_poly : forall c lenC n s, (n < lenC)%nat ->
  exists x, den K j (poly_term_gen j c lenC n) = Some x /\ reg x = [] /\ Lval s x = c * fpow s (lenC - n - 1).
Proof. intros c lenC n s Hn. eexists. split; [cbv [poly_term_gen den]; reflexivity|]. split; [reflexivity|].
  unfold Lval. cbn [sscale sing reg rscale map rval]. rewrite peval_pscale, peval_pmonom.
  match goal with |- context [fpow s ?e] => replace e with (lenC - n - 1)%nat by lia end. ring. Qed.

Theorem branches_gen_ok : branches_ok K (B_gen K j).
Proof. constructor; unfold B_gen; cbn [b_simple b_repeated b_conj b_poly].
  - exact branch_simple. - exact branch_repeated. - exact branch_conj. - exact branch_poly. Qed.
End Obl.

(* the cache key contains every option the computation of (cresult, uresult) reads;
   make() only reads options that are in the key *)
Open Scope string_scope.
Definition in_key (f : string) : bool := existsb (fun kv => String.eqb (fst kv) f) key_fields_gen.
Theorem cache_key_complete : forallb in_key opt_reads_gen = true /\ forallb in_key make_reads_gen = true /\ in_key "expr" = true.
Proof. vm_compute. repeat split. Qed.
Close Scope string_scope.

Print Assumptions branch_simple. Print Assumptions branch_repeated. Print Assumptions branch_conj. Print Assumptions branch_poly.
Print Assumptions branches_gen_ok. Print Assumptions cache_key_complete.
'''


def guard_v(tr):
    return (HEADER % 'lcapy/inverse_laplace.py') + r'''
Require Import LT.FieldSec LT.PolyQ LT.ExpPoly LT.ILT Gen.ILTGen Gen.C10_branches.
Local Open Scope F_scope.

(* the partner search of InverseLaplaceTransformer.ratfun (source: `%s`) may only
   accept a conjugate pole entry of the SAME order as the order-1 residue it is
   combined with *)
Theorem pair_guard_sound : guard_sound guard_gen.
Proof. intros c on. unfold guard_gen. destruct c; destruct on as [|[|on]]; cbn; intros Hgd; try discriminate; split; reflexivity. Qed.

Section Main.
Variable K : fld.
Variable j : K.
Hypothesis j2 : j * j = fopp 1.
Variable cj : K -> K.
Variable E : Qc -> K.
Hypothesis E0 : E 0%%Qc = 1.

(* MAIN THEOREM for the translated transformer *)
Theorem ILT_LT_gen : forall (causal : bool) (const s : K) (F : list (iterm K)),
  (forall tm, In tm F -> wf_term K s tm) ->
  exists m, doit_model K cj (B_gen K j) guard_gen causal const F = Some m /\
            dLval E s (m_c m) + Lval s (m_u m) = const * image_sum K E s F.
Proof. exact (ILT_LT K cj (B_gen K j) guard_gen pair_guard_sound (branches_gen_ok K j j2) E E0). Qed.
Theorem ILT_LT_cert_gen : forall (causal : bool) (const s : K) (F : list (cterm K)),
  (forall ct, In ct F -> cert_ok ct = true /\ peval (ct_A ct) s <> 0) ->
  exists m, doit_model K cj (B_gen K j) guard_gen causal const (map ct_term F) = Some m /\
            dLval E s (m_c m) + Lval s (m_u m) = const * input_sum K E s F.
Proof. exact (ILT_LT_cert K cj (B_gen K j) guard_gen pair_guard_sound (branches_gen_ok K j j2) E E0). Qed.
Theorem ivt_fvt_gen : forall (s : K) (ts : list (pfterm K)), wf_tsb ts = true -> ipole_free s ts ->
  (exists c u, ratfun_model K cj (B_gen K j) guard_gen [] ts = Some (c, u) /\ sig_t0 (reg u) = pf_iv ts /\ sXu 0 (reg u) = pf_iv ts) /\
  (fv_ok (reg (Linv (Img [] ts))) = true -> sX 0 (reg (Linv (Img [] ts))) = fv (reg (Linv (Img [] ts)))).
Proof. exact (ivt_fvt K cj (B_gen K j) guard_gen pair_guard_sound (branches_gen_ok K j j2)). Qed.
End Main.
Print Assumptions pair_guard_sound. Print Assumptions ILT_LT_gen. Print Assumptions ILT_LT_cert_gen. Print Assumptions ivt_fvt_gen.
''' % tr.guard_src.replace('*)', '* )')


# ------------------------------------------------------------------ case generation
REALS = [Fraction(-1), Fraction(-2), Fraction(-3), Fraction(-1, 2), Fraction(-5), Fraction(-3, 2), Fraction(-4), Fraction(-1, 3), Fraction(1), Fraction(2)]
CRE = [Fraction(-1), Fraction(-2), Fraction(-3), Fraction(-1, 2), Fraction(0), Fraction(1)]
CIM = [Fraction(1), Fraction(2), Fraction(3), Fraction(1, 2), Fraction(3, 2)]
DELAYS = [Fraction(1), Fraction(2), Fraction(1, 2), Fraction(3, 2), Fraction(3), Fraction(5, 2)]
PATTERNS = ['real_simple', 'real_repeated', 'origin', 'cpx_pair', 'cpx_repeated', 'cpx_single', 'imag_pair', 'poly_only', 'mixed', 'high_mult']


def gen_poles(rng, pat):
    """list of (G, mult); closed under conjugation unless cpx_single"""
    def reals(k, exclude=()):
        pool = [r for r in REALS if r not in exclude]
        return rng.sample(pool, k)
    if pat == 'real_simple':
        return [(G(r), 1) for r in reals(rng.randint(1, 4))]
    if pat == 'real_repeated':
        rs = reals(rng.randint(1, 3))
        return [(G(rs[0]), rng.randint(2, 4))] + [(G(r), 1) for r in rs[1:]]
    if pat == 'high_mult':
        rs = reals(rng.randint(1, 2))
        return [(G(rs[0]), 5)] + [(G(r), rng.randint(1, 2)) for r in rs[1:]]
    if pat == 'origin':
        rs = reals(rng.randint(0, 2))
        return [(G(0), rng.randint(1, 3))] + [(G(r), rng.randint(1, 2)) for r in rs]
    if pat == 'cpx_pair':
        out = []
        used = set()
        for _ in range(rng.randint(1, 2)):
            a, b = rng.choice(CRE), rng.choice(CIM)
            if (a, b) in used:
                continue
            used.add((a, b))
            out += [(G(a, b), 1), (G(a, -b), 1)]
        if rng.random() < 0.5:
            out.append((G(rng.choice(REALS)), rng.randint(1, 2)))
        return out
    if pat == 'cpx_repeated':
        a, b = rng.choice(CRE), rng.choice(CIM)
        m = rng.randint(2, 3)
        out = [(G(a, b), m), (G(a, -b), m)]
        if rng.random() < 0.4:
            out.append((G(rng.choice(REALS)), 1))
        return out
    if pat == 'cpx_single':
        a, b = rng.choice(CRE), rng.choice(CIM)
        out = [(G(a, b), rng.randint(1, 2))]
        if rng.random() < 0.5:
            out.append((G(rng.choice(REALS)), 1))
        return out
    if pat == 'imag_pair':
        b = rng.choice(CIM)
        out = [(G(0, b), 1), (G(0, -b), 1)]
        if rng.random() < 0.5:
            out.append((G(rng.choice(REALS)), 1))
        if rng.random() < 0.3:
            out.append((G(0), 1))
        return out
    if pat == 'poly_only':
        return []
    # mixed
    out = [(G(0), 1)] if rng.random() < 0.4 else []
    rs = reals(rng.randint(1, 2))
    out += [(G(r), rng.randint(1, 3)) for r in rs]
    a, b = rng.choice(CRE), rng.choice(CIM)
    out += [(G(a, b), 1), (G(a, -b), 1)]
    return out


def rnd_rat(rng, nz=False):
    while True:
        x = Fraction(rng.randint(-6, 6), rng.choice([1, 1, 1, 2, 3]))
        if x != 0 or not nz:
            return x


def gen_term(rng, pat, improper=None):
    poles = gen_poles(rng, pat)
    degA = sum(m for _, m in poles)
    lead = Fraction(rng.choice([1, 1, 2, 3, -1]), rng.choice([1, 1, 2]))
    A = from_roots(poles, lead)
    cplx = pat == 'cpx_single'
    if improper is None:
        improper = rng.random() < 0.3
    if pat == 'poly_only':
        degB = rng.randint(0, 3)
    elif improper:
        degB = degA + rng.randint(0, 2)
    else:
        degB = rng.randint(0, max(0, degA - 1))
    for _ in range(50):
        B = [G(rnd_rat(rng), rnd_rat(rng) if (cplx and rng.random() < 0.3) else 0) for _ in range(degB + 1)]
        if B[-1].is_zero():
            B[-1] = G(1)
        if all(not peval(B, p).is_zero() for p, _ in poles):
            break
    return {'B': B, 'A': A, 'roots': poles, 'lead': lead, 'pat': pat, 'improper': degB >= degA}


OPT_FLAGS = ['causal', 'ac', 'dc']


def gen_opts(rng, k):
    """ordered kwargs; k indexes a systematic sweep so that all combinations of the
    exclusive flags and of damped_sin/damping/zero_initial_conditions occur"""
    opts = []
    sel = k % 8
    flags = []
    if sel & 1:
        flags.append(['causal', True])
    if sel & 2:
        flags.append(['ac', True])
    if sel & 4:
        flags.append(['dc', True])
    if rng.random() < 0.2:
        absent = [f for f in OPT_FLAGS if f not in [x[0] for x in flags]]     # a keyword can occur only once in a call
        if absent:
            flags.append([rng.choice(absent), False])
    rng.shuffle(flags)
    opts += flags
    ds = [None, True, False][(k // 8) % 3]
    if ds is not None:
        opts.append(['damped_sin', ds])
    zic = [None, True, False][(k // 24) % 3]
    if zic is not None:
        opts.append(['zero_initial_conditions', zic])
    damping = [None, None, 'under', 'over', 'critical'][(k // 3) % 5]
    return opts, damping


def case_json(c):
    """the part of a case that goes to the worker / replay file"""
    terms = []
    for tm in c['terms']:
        terms.append({'c': fstr(tm['c']), 'T': fstr(tm['T']), 'B': [g.js() for g in tm['B']], 'A': [g.js() for g in tm['A']],
                      'roots': [[p.js(), m] for p, m in tm['roots']], 'lead': [fstr(tm['lead']), '0/1'], 'form': tm.get('form', 'ratio'),
                      'pat': tm['pat']})
    out = {'terms': terms, 'const': fstr(c['const']), 'opts': c['opts'], 'damping': c['damping'], 'ivfv': c['ivfv'],
           'nested': c.get('nested', False), 'expect_error': c.get('expect_error', False)}
    if c.get('sqrtd'):
        out['sqrtd'] = int(c['sqrtd'])       # the case lives in Q(i)(sqrt d): poles / residues outside the Gaussian rationals
    return out


def case_from_json(j):
    terms = []
    for tm in j['terms']:
        terms.append({'c': Fraction(tm['c']), 'T': Fraction(tm['T']), 'B': [G.of(g) for g in tm['B']], 'A': [G.of(g) for g in tm['A']],
                      'roots': [(G.of(p), m) for p, m in tm.get('roots', [])], 'lead': Fraction(tm.get('lead', ['1/1'])[0]),
                      'form': tm.get('form', 'ratio'), 'pat': tm.get('pat', '?')})
    out = {'terms': terms, 'const': Fraction(j['const']), 'opts': j['opts'], 'damping': j.get('damping'), 'ivfv': j.get('ivfv', False),
           'nested': j.get('nested', False), 'expect_error': j.get('expect_error', False)}
    if j.get('sqrtd'):
        out['sqrtd'] = int(j['sqrtd'])
    return out


def mk_case(terms, const=1, opts=(), damping=None, ivfv=None, **kw):
    c = {'terms': terms, 'const': Fraction(const), 'opts': [list(o) for o in opts], 'damping': damping}
    c['ivfv'] = (len(terms) == 1 and terms[0]['T'] == 0) if ivfv is None else ivfv
    c.update(kw)
    return c


def poly_term(B, A, roots=None, lead=1, pat='corpus', c=1, T=0, form='ratio'):
    Bp = [G.of(x) for x in B]
    Ap = [G.of(x) for x in A]
    return {'B': Bp, 'A': Ap, 'roots': roots or [], 'lead': Fraction(lead), 'pat': pat, 'c': Fraction(c), 'T': Fraction(T), 'form': form}


def corpus_cases():
    """minimised past failures and the documented defects; always run first"""
    cs = []
    # F10: (s+3)/(s^2+2s+5)^2, causal
    A = from_roots([(G(-1, 2), 2), (G(-1, -2), 2)])
    cs.append(mk_case([poly_term([3, 1], A, roots=[(G(-1, 2), 2), (G(-1, -2), 2)], pat='cpx_repeated')], opts=[('causal', True)], tag='F10'))
    cs.append(mk_case([poly_term([3, 1], A, roots=[(G(-1, 2), 2), (G(-1, -2), 2)], pat='cpx_repeated')], tag='F10'))
    # critically damped second-order section with damped_sin=True
    cs.append(mk_case([poly_term([1], [1, 2, 1], roots=[(G(-1), 2)], pat='real_repeated')], opts=[('damped_sin', True)], tag='ds-critical'))
    # delay in front of a sum that contains another delay
    t1 = poly_term([1], [1, 1], roots=[(G(-1), 1)], pat='real_simple', T=2)
    t2 = poly_term([1], [2, 1], roots=[(G(-2), 1)], pat='real_simple', T=3)
    cs.append(mk_case([t1, t2], nested=True, ivfv=False, tag='nested-delay'))
    # exp(-2*s)*(1 - exp(-s))/s : a pure delay in front of a non-rational parenthesised sum
    u1 = poly_term([1], [0, 1], roots=[(G(0), 1)], pat='origin', T=2)
    u2 = poly_term([1], [0, 1], roots=[(G(0), 1)], pat='origin', T=3, c=-1)
    cs.append(mk_case([u1, u2], nested=True, ivfv=False, tag='nested-delay-nonrational'))
    cs.append(mk_case([u1, u2], nested=True, ivfv=False, opts=[('causal', True)], tag='nested-delay-nonrational'))
    # (1/(s+1) + exp(-s)/(s**2+4))*exp(-s) with damped_sin: ratfun's damped-sin dispatch ignores the delay
    v1 = poly_term([1], [1, 1], roots=[(G(-1), 1)], pat='real_simple', T=1)
    v2 = poly_term([1], [4, 0, 1], roots=[(G(0, 2), 1), (G(0, -2), 1)], pat='imag_pair', T=2)
    cs.append(mk_case([v1, v2], nested=True, ivfv=False, opts=[('causal', True), ('damped_sin', True)], tag='nested-ds-delay'))
    # plain sanity cases
    cs.append(mk_case([poly_term([1, 0, 1], [3, 1], roots=[(G(-3), 1)], pat='real_simple')], tag='improper'))
    cs.append(mk_case([poly_term([3, 1], [5, 2, 1], roots=[(G(-1, 2), 1), (G(-1, -2), 1)], pat='cpx_pair')], opts=[('damped_sin', True)], tag='ds'))
    cs.append(mk_case([poly_term([3, 1], [25, 6, 1], roots=[(G(-3, 4), 1), (G(-3, -4), 1)], pat='cpx_pair')], opts=[('damped_sin', True), ('causal', True)], tag='ds-witness'))
    cs.append(mk_case([poly_term([1, 2, 3], [4, 5, 1], roots=[(G(-1), 1), (G(-4), 1)], pat='real_simple')], opts=[('damped_sin', True)], tag='ds-over'))
    cs.append(mk_case([poly_term([1], [1, 1], roots=[(G(-1), 1)], pat='real_simple', T=-2)], expect_error=True, ivfv=False, tag='advance'))
    return cs


UNDEF = [('s*V(s)', 'UPowS 1'), ('s**2*V(s)', 'UPowS 2'), ('s**3*V(s)', 'UPowS 3'), ('V(s)/s', 'UPowS (-1)'), ('V(s)/s**2', 'UPowS (-2)'),
         ('V(s)/(s+1)', 'UOther'), ('3*V(s)', 'UPowS 0'), ('V(s)*(2*s+1)/(s**2+3*s+2)', 'UOther')]


def undef_cases(rng, tier):
    out = []
    for e, f in UNDEF:
        for causal in (True, False):
            for zic in (True, False):
                if tier == 'quick' and rng.random() < 0.5:
                    continue
                opts = [['zero_initial_conditions', zic]]
                if causal:
                    opts.insert(rng.randint(0, 1), ['causal', True])
                out.append({'undef': e, 'ufac': f, 'opts': opts, 'zic': zic})
    return out


def undef_coq(i, c, r):
    kw = '[' + '; '.join('(Acausal, %s)' % ('true' if o[1] else 'false') for o in c['opts'] if o[0] == 'causal') + ']'
    k = r.get('ukind')
    if k == 'deriv':
        ob = 'UDeriv %d%%nat %s' % (r['n'], 'true' if r['ics'] else 'false')
    elif k == 'int':
        ob = 'UInt'
    elif k == 'conv':
        ob = 'UConv %s' % ('true' if r['causal_limits'] else 'false')
    elif k == 'func':
        ob = 'UFunc'
    else:
        return None
    return '(%d%%nat, bit (undef_chk %s %s (%s) (%s)) 2)' % (i, kw, 'true' if c['zic'] else 'false', c['ufac'], ob)


def gen_cases(rng, tier):
    cases = corpus_cases()
    n = 130 if tier == 'quick' else 1300
    k0 = rng.randint(0, 1000)
    for i in range(n):
        pat = PATTERNS[i % len(PATTERNS)]
        nterms = 1 if (i % 4 and i % 11 != 5) else rng.randint(2, 3)
        delays = [Fraction(0)] + rng.sample(DELAYS, 3)
        if i % 3 == 1:
            delays = rng.sample(DELAYS, 3)
        terms = []
        for t in range(nterms):
            tm = gen_term(rng, pat if t == 0 else rng.choice(PATTERNS))
            tm['c'] = rnd_rat(rng, nz=True) if rng.random() < 0.5 else Fraction(1)
            tm['T'] = delays[t]
            tm['form'] = rng.choice(['ratio', 'ratio', 'factored', 'sum'])
            terms.append(tm)
        opts, damping = gen_opts(rng, k0 + i)
        # second-order sections for the damped-sin path
        if any(o[0] == 'damped_sin' and o[1] for o in opts) and i % 2 == 0:
            u = rng.random()
            if u < 0.45:      # sqrt(d2/d0) and sqrt(1 - zeta^2) rational: Pythagorean pole pairs
                a, w = rng.choice([(3, 4), (4, 3), (Fraction(3, 2), 2), (2, Fraction(3, 2)), (5, 12), (6, 8), (Fraction(5, 2), 6), (0, 2), (0, Fraction(1, 2))])
                roots = [(G(-Fraction(a), Fraction(w)), 1), (G(-Fraction(a), -Fraction(w)), 1)]
            elif u < 0.7:     # overdamped with rational omega0 and imaginary rational sqrt(1 - zeta^2)
                a, b = rng.choice([(1, 4), (2, 8), (1, 9), (Fraction(1, 2), 2), (4, 9), (3, 12)])
                roots = [(G(-Fraction(a)), 1), (G(-Fraction(b)), 1)]
            elif u < 0.85:
                a, w = rng.choice([Fraction(-1), Fraction(-3), Fraction(-2), Fraction(-1, 2)]), rng.choice([Fraction(4), Fraction(2), Fraction(3, 2), Fraction(1)])
                roots = [(G(a, w), 1), (G(a, -w), 1)]
            else:
                a, w = rng.choice([Fraction(-1), Fraction(-3), Fraction(-2)]), rng.choice([Fraction(4), Fraction(2), Fraction(1)])
                roots = [(G(a), 1), (G(a - w), 1)]
            lead = rng.choice([Fraction(1), Fraction(2), Fraction(1, 2)])
            B = [G(rnd_rat(rng)) for _ in range(rng.randint(1, 3))]
            if B[-1].is_zero():
                B[-1] = G(1)
            terms[0].update({'B': B, 'A': from_roots(roots, lead), 'roots': roots, 'lead': lead, 'pat': 'second_order'})
        const = rng.choice([Fraction(1), Fraction(1), Fraction(2), Fraction(-3), Fraction(1, 2)])
        nested = False
        if i % 11 == 5 and len(terms) >= 2:
            # exp(-s*T0) * (R_0 + exp(-s*T_1') R_1 + ...): exercises the expand-and-recurse fall-back of term()
            T0 = rng.choice(DELAYS)
            inner = [Fraction(0)] + rng.sample(DELAYS, 2)
            for k in range(len(terms)):
                # small sections only: Lcapy's fall-back simplifies the whole nested sum (minutes for degree >= 5)
                for _ in range(20):
                    tm = gen_term(rng, rng.choice(['real_simple', 'cpx_pair', 'origin', 'real_repeated', 'imag_pair']), improper=False)
                    if len(tm['A']) - 1 <= 3:
                        break
                tm['c'] = rnd_rat(rng, nz=True)
                tm['T'] = T0 + inner[k]
                tm['form'] = 'ratio'
                terms[k] = tm
            nested = True
        cases.append(mk_case(terms, const=const, opts=opts, damping=damping, nested=nested, **({'ivfv': False} if nested else {})))
    for c in cases:
        dx = ds_ext_degree(c)
        if dx:
            c['sqrtd'] = dx      # do_damped_sin with omega0 = q sqrt(d): evaluated over Q(i)(sqrt d)
    return cases


# ------------------------------------------------------------------ poles outside Q(i): cases over Q(i)(sqrt d)
XDS = [2, 3]
XPATTERNS = ['irr_real', 'irr_cpx', 'irr_mixed', 'irr_real_rep', 'irr_cpx_rep']


def xpeval(p, x, d):
    r = XQ.QX(0, 0, d)
    for a in reversed(p):
        r = r * x + XQ.QX.of(a, d)
    return r


def gen_xterm(rng, d, pat, improper=None):
    """a rational function with RATIONAL coefficients whose poles are alpha +- beta sqrt(d) (real, irrational) and/or
    alpha +- i beta sqrt(d), simple or double, possibly together with rational / Gaussian poles"""
    al = lambda: rng.choice([Fraction(-1), Fraction(-2), Fraction(0), Fraction(-1, 2), Fraction(1), Fraction(-3)])
    be = lambda: rng.choice([Fraction(1), Fraction(1, 2), Fraction(2), Fraction(3, 2)])

    def rpair(m):
        a, b = al(), be()
        return [(XQ.QX(G(a), G(b), d), m), (XQ.QX(G(a), G(-b), d), m)]

    def cpair(m):
        a, b = al(), be()
        return [(XQ.QX(G(a), G(0, b), d), m), (XQ.QX(G(a), G(0, -b), d), m)]
    if pat == 'irr_real':
        roots = rpair(1)
    elif pat == 'irr_cpx':
        roots = cpair(1)
    elif pat == 'irr_real_rep':
        roots = rpair(2)
    elif pat == 'irr_cpx_rep':
        roots = cpair(2)
    else:
        roots = rpair(1) + cpair(1)
    u = rng.random()
    if u < 0.3:
        roots.append((XQ.QX(G(rng.choice(REALS)), G(0), d), rng.randint(1, 2)))
    elif u < 0.45:
        roots.append((XQ.QX(G(0), G(0), d), 1))
    elif u < 0.6 and pat != 'irr_mixed':
        a, b = rng.choice(CRE), rng.choice(CIM)
        roots += [(XQ.QX(G(a, b), G(0), d), 1), (XQ.QX(G(a, -b), G(0), d), 1)]
    lead = Fraction(rng.choice([1, 1, 2, 3, -1]), rng.choice([1, 1, 2]))
    A = XQ.rational_poly(XQ.xfrom_roots(roots, d, lead))
    degA = len(A) - 1
    if improper is None:
        improper = rng.random() < 0.3
    degB = degA + rng.randint(0, 2) if improper else rng.randint(0, degA - 1)
    for _ in range(50):
        B = [G(rnd_rat(rng)) for _ in range(degB + 1)]
        if B[-1].is_zero():
            B[-1] = G(1)
        if all(not xpeval(B, p, d).is_zero() for p, _ in roots):
            break
    return {'B': B, 'A': A, 'roots': [], 'xroots': roots, 'lead': lead, 'pat': pat, 'improper': degB >= degA}


def gen_xcases(rng, tier):
    """sums of 1-2 delayed rational functions with irrational poles; the options as in gen_cases except damped_sin=True
    (do_damped_sin is covered over Q(i) only)"""
    out = []
    n = 14 if tier == 'quick' else 150
    k0 = rng.randint(0, 1000)
    for i in range(n):
        d = XDS[i % len(XDS)]
        pat = XPATTERNS[i % len(XPATTERNS)]
        nterms = 2 if i % 4 == 3 else 1
        delays = ([Fraction(0)] if i % 3 else []) + rng.sample(DELAYS, 2)
        terms = []
        for k in range(nterms):
            if k == 0:
                tm = gen_xterm(rng, d, pat)
            else:
                tm = gen_term(rng, rng.choice(['real_simple', 'cpx_pair', 'origin', 'real_repeated', 'poly_only']))
            tm['c'] = rnd_rat(rng, nz=True) if rng.random() < 0.5 else Fraction(1)
            tm['T'] = delays[k]
            tm['form'] = rng.choice(['ratio', 'ratio', 'sum'])
            terms.append(tm)
        opts, damping = gen_opts(rng, k0 + i)
        opts = [[o[0], False] if o[0] == 'damped_sin' else o for o in opts]
        const = rng.choice([Fraction(1), Fraction(1), Fraction(2), Fraction(-3), Fraction(1, 2)])
        out.append(mk_case(terms, const=const, opts=opts, damping=damping, ivfv=False, sqrtd=d))
    return out


DS_EXT = True          # second-order sections whose sqrt witnesses lie in Q(i)(sqrt d), d in XPRIMES: model evaluated over that field
XPRIMES = (2, 3, 5, 7, 13, 17)


def ds_on(opts):
    val = None
    for o in opts:
        if o[0] == 'damped_sin':
            val = o[1]
    return bool(val)


def ds_ext_degree(c):
    """d if the case has damped_sin=True and a real second-order section whose omega0 = sqrt(d2/d0) is q*sqrt(d) with d in XPRIMES
    (and no section needing another radical); None otherwise"""
    if not DS_EXT or not ds_on(c['opts']) or c.get('expect_error') or c.get('sqrtd'):
        return None
    ds = set()
    for tm in c['terms']:
        B, A = pnorm(tm['B']), pnorm(tm['A'])
        if max(len(B), len(A)) - 1 != 2 or len(A) != 3 or not all(x.is_real() for x in A + B):
            continue
        rad1 = A[0].re / A[2].re
        if rad1 == 0 or gsqrt_rational(rad1) is not None:
            rad2 = 1 - (A[1].re / A[2].re) ** 2 / (4 * rad1) if rad1 != 0 else 0
            if rad1 == 0 or rad2 == 0 or gsqrt_rational(rad2) is not None:
                continue
            ds.add(XQ.squarefree_class(rad2))
        else:
            ds.add(XQ.squarefree_class(rad1))
    if len(ds) == 1 and list(ds)[0] in XPRIMES:
        return list(ds)[0]
    return None


def ds_source_x(tm, opts, d, ds_guard=False, deg_guard=False, real_guard=False):
    """ds_source over Q(i)(sqrt d): (kind, coq)"""
    if not ds_on(opts):
        return 'cert', None
    B, A = pnorm(tm['B']), pnorm(tm['A'])
    deg = max(len(B), len(A)) - 1
    if deg != 2:
        return 'cert', None
    if len(A) != 3:
        return ('cert', None) if deg_guard else ('skip', None)
    if not all(x.is_real() for x in A + B):
        nonreal = any(not (x / B[-1]).is_real() for x in B) or any(not (x / A[-1]).is_real() for x in A)
        return ('cert', None) if (real_guard and nonreal) else ('skip', None)
    dd = high_first(A)
    n = high_first(B)
    d0, d1, d2 = dd[0].re, dd[1].re, dd[2].re
    w1 = XQ.xsqrt_rational(d2 / d0, d)
    if w1 is not None and w1.is_zero() and deg_guard:
        return 'cert', None
    if w1 is None or w1.is_zero():
        return 'skip', None
    zeta = XQ.QX.of(G(d1 / d0), d) / (XQ.QX.of(G(2), d) * w1)
    rad2 = XQ.QX.of(G(1), d) - zeta * zeta
    if not (rad2.b.is_zero() and rad2.a.is_real()):
        return 'skip', None
    w2 = XQ.xsqrt_rational(rad2.a.re, d)
    if w2 is None:
        return 'skip', None
    if w2.is_zero() and not ds_guard:
        return 'skip', None
    if (w1 * w2).is_zero() and ds_guard:
        return 'cert', None
    k = len(n)
    X = lambda v: XQ.xq(v, d)
    args = ' '.join(X(x) for x in n + dd) + ' ' + X(w1) + ' ' + X(w2)
    chk = '(feqb (K:=KX) (@fmul KX %s %s) (ds%d_rad1 jX %s) && feqb (K:=KX) (@fmul KX %s %s) (ds%d_rad2 jX %s))' % (X(w1), X(w1), k, args, X(w2), X(w2), k, args)
    u = 'den KX jX (ds%d_u jX %s)' % (k, args)
    cc = 'den KX jX (ds%d_c jX %s)' % (k, args) if k == 3 else 'Some (zero_sig (K:=KX))'
    pair = '(FromPair (K:=KX) (if %s then match %s, %s with Some c_, Some u_ => Some (c_, u_) | _, _ => None end else None))' % (chk, cc, u)
    return 'pair', pair


def coq_case_x(i, c, r, ds_guard=False, deg_guard=False, real_guard=False):
    """Coq text of one case evaluated over Q(i)(sqrt d) with the generic glue LT.ILTCorrX (same verdict bits)"""
    d = c['sqrtd']
    X = lambda v: XQ.xq(v, d)
    XL = lambda l: XQ.xqlist(l, d)
    if 'certs' not in r or 'obs' not in r or 'unparsed' in r['obs']:
        return None, {}
    kw = []
    for o in c['opts']:
        if o[0] in ('causal', 'ac', 'dc'):
            kw.append('(%s, %s)' % ({'causal': 'Acausal', 'ac': 'Aac', 'dc': 'Adc'}[o[0]], 'true' if o[1] else 'false'))
    kw = '[' + '; '.join(kw) + ']'
    F, dchk, rchk, srcs = [], [], [], []
    use_model = True
    nds = 0
    T0n = min(tm['T'] for tm in c['terms']) if c.get('nested') else None
    for tm, ce in zip(c['terms'], r['certs']):
        ts = '[' + '; '.join('(%s, %s, %d%%nat)' % (X(a), X(p), o) for a, p, o in zip(ce['R'], ce['P'], ce['O'])) + ']'
        F.append('mkterm %s %s %s %s %s %s' % (X(G(tm['c'])), delay_lit(tm['T'], T0n), XL(ce['Q']), ts, XL(tm['B']), XL(tm['A'])))
        kind, stxt = ds_source_x(tm, c['opts'], d, ds_guard, deg_guard, real_guard)
        if kind == 'skip':
            use_model = False
        if kind == 'pair':
            srcs.append(stxt)
            nds += 1
        else:
            srcs.append('FromCert (K:=KX)')
        if tm['T'] != 0:
            dchk.append('qc_eqb (shift_u_gen %s) (shift_c_gen %s) && qc_eqb (step_gen %s) (shift_c_gen %s)' % ((qc(tm['T']),) * 4))
        sub = ce.get('sub') or {}
        if 'R' in sub:
            poles = '[' + '; '.join('(%s, %d%%nat)' % (X(p), n) for p, n in sub['poles']) + ']'
            rchk.append('residues_chk_d (K:=KX) res_sel_gen res_div_gen %s %s %s %s [%s]' % (
                poles, XL(sub['B']), XL(sub['R']), XL(sub['P']), '; '.join('%d%%nat' % o for o in sub['O'])))
    o = r['obs']
    reg = '[' + '; '.join('(%s, %d%%nat, %s, %s, %s)' % (qc(e[0]), e[1], X(e[2]), X(e[3]), 'true' if e[4] else 'false') for e in o['reg']) + ']'
    sing = '[' + '; '.join('(%s, %d%%nat, %s)' % (qc(e[0]), e[1], X(e[2])) for e in o['sing']) + ']'
    obs = '(Obs (K:=KX) %s %s %s)' % ('true' if o['cond'] else 'false', reg, sing)
    def optq(v, ok):
        return '(someq (K:=KX) %s)' % X(v) if (ok and isinstance(v, list)) else 'None'
    iv_ok, fv_ok = ivfv_applicable(c)
    txt = '(%d%%nat, Nat.add (Nat.add (case_code (K:=KX) qxconj (B_gen KX jX) guard_gen %s %s [%s] [%s] %s %s %s %s) (bit (%s) 32)) (bit (%s) 64))' % (
        i, kw, X(G(c['const'])), ';\n     '.join(F), '; '.join(srcs), 'true' if use_model else 'false', obs, optq(r.get('iv'), iv_ok), optq(r.get('fv'), fv_ok),
        ' && '.join('(%s)' % x for x in rchk) if rchk else 'true', ' && '.join('(%s)' % x for x in dchk) if dchk else 'true')
    return txt, {'ds': nds, 'use_model': use_model, 'res_sub': len(rchk)}


def casesx_v(items, d):
    lines = [HEADER % ('(cases over Q(i)(sqrt %d))' % d),
             'Require Import LT.FieldSec LT.PolyQ LT.QcI LT.ExpPoly LT.ILT LT.ILTQext LT.ILTCorrX Gen.ILTGen.\n',
             'Notation KX := Qx%dF.\nDefinition X (a b : qci) : KX := QX a b.\nDefinition jX : KX := qxj.\n' % d,
             'Definition cases : list (nat * nat) := [']
    lines.append(';\n'.join(items))
    lines.append('].\nEval vm_compute in (failing cases).\n')
    return '\n'.join(lines)


# ------------------------------------------------------------------ model inputs
def high_first(p):
    return list(reversed(pnorm(p)))


def ds_source(tm, opts, ds_guard=False, deg_guard=False, real_guard=False):
    """(kind, coq) for a term: 'cert' | ('pair', coq text) | 'skip' (model not evaluated)"""
    if not any(o[0] == 'damped_sin' and o[1] for o in opts if True):
        return 'cert', None
    # the LAST damped_sin keyword wins (dict semantics)
    val = None
    for o in opts:
        if o[0] == 'damped_sin':
            val = o[1]
    if not val:
        return 'cert', None
    B, A = pnorm(tm['B']), pnorm(tm['A'])
    deg = max(len(B), len(A)) - 1
    if deg != 2:
        return 'cert', None
    if len(A) != 3:
        return ('cert', None) if deg_guard else ('skip', None)     # `if len(dcoeffs) < 3: return self.ratfun(...)`
    if not all(x.is_real() for x in A + B):
        nonreal = any(not (x / B[-1]).is_real() for x in B) or any(not (x / A[-1]).is_real() for x in A)
        return ('cert', None) if (real_guard and nonreal) else ('skip', None)    # `any(c.is_real is False ...)`: general path
    d = high_first(A)
    n = high_first(B)
    d0, d1, d2 = d[0].re, d[1].re, d[2].re
    w1 = gsqrt_rational(d2 / d0)
    if w1 is not None and w1.is_zero() and deg_guard:
        return 'cert', None            # `dcoeffs[2] == 0`: general path (only translated together with the degree guard)
    if w1 is None or w1.is_zero():
        return 'skip', None
    zeta = G(d1 / d0) / (G(2) * w1)
    rad2 = G(1) - zeta * zeta
    if not rad2.is_real():
        return 'skip', None
    w2 = gsqrt_rational(rad2.re)
    if w2 is None:
        return 'skip', None
    if w2.is_zero() and not ds_guard:
        return 'skip', None            # division by omega1 = 0 in the source (reported by the oracle as nan)
    if (w1 * w2).is_zero() and ds_guard:
        return 'cert', None            # `if omega1 == 0: return self.ratfun(...)`
    k = len(n)
    args = ' '.join(qi(x) for x in n + d) + ' ' + qi(w1) + ' ' + qi(w2)
    chk = '(qci_eqb (cimul %s %s) (ds%d_rad1 jI %s) && qci_eqb (cimul %s %s) (ds%d_rad2 jI %s))' % (qi(w1), qi(w1), k, args, qi(w2), qi(w2), k, args)
    u = 'den KI jI (ds%d_u jI %s)' % (k, args)
    c = 'den KI jI (ds%d_c jI %s)' % (k, args) if k == 3 else 'Some zero_sig'
    pair = '(FromPair (if %s then match %s, %s with Some c_, Some u_ => Some (c_, u_) | _, _ => None end else None))' % (chk, c, u)
    return 'pair', pair


def delay_lit(T, T0=None):
    """the delay the model uses for a term exp(-s*T)*R(s), computed by the TRANSLATED definitions:
    delay_factor turns the exponent coefficient -T into a delay, term() shifts by it; for a nested
    input exp(-s*T0)*(... exp(-s*(T-T0)) R ...) the fall-back first re-attaches fallback_gen T0"""
    T = Fraction(T)
    if T0 is None:
        e = qc(-T)
    else:
        T0 = Fraction(T0)
        e = '(- (fallback_gen (delay_upd_gen (qc 0 1) %s) + %s))%%Qc' % (qc(-T0), qc(T - T0))
    return '(shift_c_gen (delay_upd_gen (qc 0 1) %s))' % e


def coq_case(i, c, r, ds_guard=False, deg_guard=False, real_guard=False):
    """Coq text of one evaluated case, or None"""
    kw = []
    for o in c['opts']:
        if o[0] in ('causal', 'ac', 'dc'):
            kw.append('(%s, %s)' % ({'causal': 'Acausal', 'ac': 'Aac', 'dc': 'Adc'}[o[0]], 'true' if o[1] else 'false'))
    kw = '[' + '; '.join(kw) + ']'
    const = qi(G(c['const']))
    if c.get('expect_error'):
        F = []
        for tm in c['terms']:
            F.append('mkterm %s %s [] [] %s %s' % (qi(G(tm['c'])), delay_lit(tm['T']), qilist(tm['B']), qilist(tm['A'])))
        return '(%d%%nat, bit (predicts_error (B_gen KI jI) guard_gen %s %s [%s]) 2)' % (i, kw, const, '; '.join(F)), {}
    if 'certs' not in r or 'obs' not in r or 'unparsed' in r['obs']:
        return None, {}
    F = []
    srcs = []
    dchk = []
    T0n = min(tm['T'] for tm in c['terms']) if c.get('nested') else None
    use_model = True
    meta = {'ds': 0}
    for tm, ce in zip(c['terms'], r['certs']):
        ts = '[' + '; '.join('(%s, %s, %d%%nat)' % (qi(G.of(a)), qi(G.of(p)), o) for a, p, o in zip(ce['R'], ce['P'], ce['O'])) + ']'
        C = qilist([G.of(x) for x in ce['Q']])
        F.append('mkterm %s %s %s %s %s %s' % (qi(G(tm['c'])), delay_lit(tm['T'], T0n), C, ts, qilist(tm['B']), qilist(tm['A'])))
        if tm['T'] != 0:
            dchk.append('qc_eqb (shift_u_gen %s) (shift_c_gen %s) && qc_eqb (step_gen %s) (shift_c_gen %s)' % ((qc(tm['T']),) * 4))
        kind, txt = ds_source(tm, c['opts'], ds_guard, deg_guard, real_guard)
        if kind == 'skip':
            use_model = False
            srcs.append('FromCert')
        elif kind == 'pair':
            srcs.append(txt)
            meta['ds'] += 1
        else:
            srcs.append('FromCert')
    o = r['obs']
    reg = '[' + '; '.join('(%s, %d%%nat, %s, %s, %s)' % (qc(e[0]), e[1], qi(G.of(e[2])), qi(G.of(e[3])), 'true' if e[4] else 'false') for e in o['reg']) + ']'
    sing = '[' + '; '.join('(%s, %d%%nat, %s)' % (qc(e[0]), e[1], qi(G.of(e[2]))) for e in o['sing']) + ']'
    obs = '(Obs %s %s %s)' % ('true' if o['cond'] else 'false', reg, sing)

    def optq(v, ok):
        return '(someq %s)' % qi(G.of(v)) if (ok and isinstance(v, list)) else 'None'
    iv_ok, fv_ok = ivfv_applicable(c)
    iv = optq(r.get('iv'), iv_ok)
    fv = optq(r.get('fv'), fv_ok)
    meta['use_model'] = use_model
    rchk = []
    for ce in r['certs']:
        sub = ce.get('sub') or {}
        if 'R' in sub:
            poles = '[' + '; '.join('(%s, %d%%nat)' % (qi(G.of(p)), n) for p, n in sub['poles']) + ']'
            rchk.append('residues_chk_d res_sel_gen res_div_gen %s %s %s %s [%s]' % (poles, qilist([G.of(x) for x in sub['B']]), qilist([G.of(x) for x in sub['R']]),
                                                                    qilist([G.of(x) for x in sub['P']]), '; '.join('%d%%nat' % o for o in sub['O'])))
    meta['res_sub'] = len(rchk)
    txt = '(%d%%nat, Nat.add (Nat.add (case_code (B_gen KI jI) guard_gen %s %s [%s] [%s] %s %s %s %s) (bit (%s) 32)) (bit (%s) 64))' % (
        i, kw, const, ';\n     '.join(F), '; '.join(srcs), 'true' if use_model else 'false', obs, iv, fv,
        ' && '.join('(%s)' % x for x in rchk) if rchk else 'true', ' && '.join('(%s)' % x for x in dchk) if dchk else 'true')
    return txt, meta


def ivfv_applicable(c):
    """(initial value formula applies, final value formula applies) for a single delay-free term"""
    if len(c['terms']) != 1 or c['terms'][0]['T'] != 0 or not c['ivfv']:
        return False, False
    tm = c['terms'][0]
    proper = len(pnorm(tm['B'])) < len(pnorm(tm['A']))
    fv_ok = proper
    for p, m in tm['roots']:
        if p.is_zero():
            if m > 1:
                fv_ok = False
        elif p.re >= 0:
            fv_ok = False
    return proper, fv_ok


def parse_pairs(out):
    """result of `Eval vm_compute in (failing cases)` : list (nat * nat)"""
    m = re.search(r'=\s*\[(.*?)\]\s*:\s*list \(nat \* nat\)', out, re.S)
    if not m:
        return None
    body = m.group(1).strip()
    if not body:
        return []
    prs = re.findall(r'\(\s*(\d+)(?:%nat)?\s*,\s*(\d+)(?:%nat)?\s*\)', body)
    if len(prs) != body.count('('):
        return None
    return [(int(a), int(b)) for a, b in prs]


def cases_v(items):
    lines = [HEADER % '(cases)', 'Require Import LT.FieldSec LT.PolyQ LT.QcI LT.ExpPoly LT.ILT LT.ILTCorr Gen.ILTGen.\n',
             'Definition cases : list (nat * nat) := [']
    lines.append(';\n'.join(items))
    lines.append('].\nEval vm_compute in (failing cases).\n')
    return '\n'.join(lines)


# ------------------------------------------------------------------ exact oracle
def rnd_point(rng):
    return G(Fraction(rng.randint(1, 9), rng.randint(1, 4)) + 7, Fraction(rng.randint(-5, 5), rng.randint(1, 3)))


def oracle_obs(c, o, rng, caus_true, other_true, tag=''):
    """round trip and causality of one parsed output"""
    bad = []
    if 'unparsed' in o:
        txt = o.get('text', '')
        if 'nan' in txt or 'zoo' in txt:
            bad.append(('nan', tag + txt[:120]))
        elif o.get('numeric_err') is not None and o['numeric_err'] > 1e-6:
            bad.append(('numeric', tag + 'output is not in exp-poly normal form (%s) and numerically int h(t) e^{-8t} dt differs from X(8): relative error %.3g :: %s' % (
                o['unparsed'], o['numeric_err'], txt[:160])))
        elif o.get('numeric_err') is not None and o['numeric_err'] < 1e-9:
            bad.append(('unparsed-consistent', tag + 'not in exp-poly normal form (%s); numerically the round trip holds (rel. error %.2g)' % (o['unparsed'], o['numeric_err'])))
        else:
            bad.append(('unparsed', tag + o['unparsed'] + ' :: ' + txt[:160]))
        return bad
    # algebraic L of the output against the input, per delay
    delays = sorted(set([tm['T'] for tm in c['terms']] + [Fraction(e[0]) for e in o['reg']] + [Fraction(e[0]) for e in o['sing']]))
    for T in delays:
        for _ in range(3):
            s0 = rnd_point(rng)
            try:
                want = G(0)
                for tm in c['terms']:
                    if tm['T'] == T:
                        want = want + G(c['const'] * tm['c']) * peval(tm['B'], s0) / peval(tm['A'], s0)
                if c.get('sqrtd'):
                    got = XQ.xlaplace_normal_form(o, T, s0, c['sqrtd'])
                    want = XQ.QX.of(want, c['sqrtd'])
                else:
                    got = laplace_normal_form(o, T, s0)
            except ZeroDivisionError:
                continue
            if got != want:
                bad.append(('roundtrip', tag + 'delay %s: L(output)(s0) != X(s0) at s0 = %s' % (T, s0)))
                break
    # causality
    if caus_true and not other_true:
        if o['cond'] or any(not e[4] for e in o['reg']):
            bad.append(('causal', tag + 'causal=True but the result is not zero for t < 0'))
    if not caus_true:
        if any((not e[4]) and Fraction(e[0]) == 0 for e in o['reg']) and not o['cond']:
            bad.append(('causal', tag + 'result without step is not restricted to t >= 0'))
    return bad


def oracle(c, r, rng):
    """independent verdicts on one case; returns list of (kind, detail)"""
    if 'obs' not in r:
        return []
    o = r['obs']
    caus_true = any(o_[0] == 'causal' and o_[1] for o_ in c['opts'])
    other_true = any(o_[0] in ('ac', 'dc') and o_[1] for o_ in c['opts'])
    bad = oracle_obs(c, o, rng, caus_true, other_true)
    if 'unparsed' in o:
        return bad
    if not r.get('same', True) or not r.get('again', True):
        bad.append(('cache', 'second call / call after other options returned a different expression'))
    # the call with the causal option flipped (made between the second and the third call)
    ot = r.get('other')
    if isinstance(ot, dict) and 'error' not in ot and not bad:
        for k, d in oracle_obs(c, ot, rng, bool(r.get('other_causal')), False, tag='[call with causal=%s in between] ' % r.get('other_causal')):
            bad.append(('cache' if k in ('causal', 'roundtrip') else k, d))
    # initial / final value
    iv_ok, fv_ok = ivfv_applicable(c)
    if iv_ok and isinstance(r.get('iv'), list) and isinstance(r.get('tiv'), list) and r['iv'] != r['tiv']:
        bad.append(('ivt', 'post_initial_value %s vs limit of the time function %s' % (r['iv'], r['tiv'])))
    if fv_ok and isinstance(r.get('fv'), list) and isinstance(r.get('tfv'), list) and r['fv'] != r['tfv']:
        bad.append(('fvt', 'final_value %s vs limit of the time function %s' % (r['fv'], r['tfv'])))
    return bad


def _matches(c, o, pieces, dropped, rng):
    """exact test: is the parsed output o the transform of the input in which the pieces in `dropped`
    (index sets) have lost their delay?  pieces: list of (delay, function s0 -> value)"""
    delays = sorted(set([T for T, _ in pieces] + [Fraction(0)] + [Fraction(e[0]) for e in o['reg']] + [Fraction(e[0]) for e in o['sing']]))
    for T in delays:
        for _ in range(3):
            s0 = rnd_point(rng)
            try:
                want = G(0)
                for k, (Tp, f) in enumerate(pieces):
                    Teff = Fraction(0) if k in dropped else Tp
                    if Teff == T:
                        want = want + f(s0)
                got = laplace_normal_form(o, T, s0)
            except ZeroDivisionError:
                continue          # the sample point hit a pole
            if got != want:
                return False
    return True


def dropped_delay_pieces(c, r, rng):
    """search for a set of additive pieces  const*c_k*B_k[m]*s^m/A_k * exp(-s T_k)  of the input whose
    delay is missing in Lcapy's output (exact check at random points).  Returns the list of dropped
    pieces as (term index, power m) or None.  Nested inputs: the common delay T0."""
    import itertools
    o = r.get('obs')
    if not o or 'unparsed' in o:
        return None
    if c.get('nested'):
        T0 = min(tm['T'] for tm in c['terms'])
        if T0 == 0:
            return None
        pieces = [(tm['T'] - T0, (lambda s0, tm=tm: G(c['const'] * tm['c']) * peval(tm['B'], s0) / peval(tm['A'], s0))) for tm in c['terms']]
        return [('nested', 0)] if _matches(c, o, pieces, set(), rng) else None
    pieces = []
    names = []
    for k, tm in enumerate(c['terms']):
        for m, b in enumerate(tm['B']):
            if b.is_zero():
                continue
            pieces.append((tm['T'], (lambda s0, tm=tm, m=m, b=b: G(c['const'] * tm['c']) * b * (s0 ** m) / peval(tm['A'], s0))))
            names.append((k, m))
    cand = [i for i, (T, _) in enumerate(pieces) if T != 0]
    tried = 0
    for n in range(1, len(cand) + 1):
        for sub in itertools.combinations(cand, n):
            tried += 1
            if tried > 600:
                return None
            if _matches(c, o, pieces, set(sub), rng):
                return [names[i] for i in sub]
    return None


def classify(c, r, kinds, code, rng):
    """structural fingerprint of a failing case -> key"""
    if c.get('sqrtd'):
        return ('xcase:' if any(tm['pat'].startswith('irr_') for tm in c['terms']) else 'xcase-ds:') + (','.join(sorted(set(kinds))) or 'coq-code-%d' % code)
    ds_on = None
    for o in c['opts']:
        if o[0] == 'damped_sin':
            ds_on = o[1]
    if c.get('nested') and ds_on and set(kinds) & {'roundtrip', 'causal', 'numeric', 'unparsed'} \
            and any(max(len(pnorm(tm['B'])), len(pnorm(tm['A']))) - 1 == 2 and tm['T'] != min(x['T'] for x in c['terms']) for tm in c['terms']):
        # ratfun() dispatches to do_damped_sin before it looks at the delay of its argument: inside the
        # convolution attempt of term() (product_undef on the expanded sum) a delayed second-order piece is
        # transformed as if it had no delay, the attempt succeeds and term() returns it without any delay
        o = r.get('obs') or {}
        if 'unparsed' in o:
            # an unevaluated convolution (Integral) without any delayed step: the convolution attempt succeeded
            if 'Integral' in o.get('text', '') and 'Heaviside(t -' not in o.get('text', ''):
                return KEY_DSDELAY
            return 'case:' + ','.join(sorted(set(kinds)))
        pieces = [(tm['T'], (lambda s0, tm=tm: G(c['const'] * tm['c']) * peval(tm['B'], s0) / peval(tm['A'], s0))) for tm in c['terms']]
        if _matches(c, o, pieces, set(range(len(pieces))), rng):
            return KEY_DSDELAY
    if 'roundtrip' in kinds:
        dropped = dropped_delay_pieces(c, r, rng)
        if dropped is not None:
            if dropped == [('nested', 0)]:
                return KEY_NEST
            # with damped_sin=True, do_damped_sin raises for a piece of degree 2 whose denominator has
            # degree < 2 (IndexError) or a non-real zeta (complex coefficients, d2/d0 <= 0: TypeError in `zeta > 1`); term() then ends in
            # `return Zero, self.sympy(expr, s, t)` BEFORE its delay is applied
            def triggers(k, m):
                tm = c['terms'][k]
                A = pnorm(tm['A'])
                cplx = not all(x.is_real() for x in A + pnorm(tm['B']))
                # real section with d2/d0 <= 0: omega0 = sqrt(d2/d0) is imaginary or 0, zeta is not real
                nonreal_zeta = len(A) == 3 and not cplx and (A[0] / A[2]).re <= 0
                return max(m, len(A) - 1) == 2 and (len(A) < 3 or cplx or nonreal_zeta)
            if ds_on and all(triggers(k, m) for k, m in dropped):
                return KEY_FALLBACK
            whole = all(all((k, m) in dropped for m, b in enumerate(c['terms'][k]['B']) if not b.is_zero()) for k in set(k for k, _ in dropped))
            if whole:
                return KEY_NEST
            return 'case:roundtrip:delay-dropped'
    if ds_on and ('nan' in kinds):
        # a (sub-)expression of degree 2 with a repeated pole reaches do_damped_sin (omega1 = 0)
        for tm in c['terms']:
            if any(m >= 2 for p, m in tm['roots']):
                return KEY_DS0
    rep_cpx = False
    for tm in c['terms']:
        ps = {(p.re, p.im): m for p, m in tm['roots']}
        for (a, b), m in ps.items():
            if b != 0 and m >= 2 and (a, -b) in ps:
                A = pnorm(tm['A'])
                use_ds = ds_on and max(len(pnorm(tm['B'])), len(A)) - 1 == 2
                if not use_ds:
                    rep_cpx = True
    if rep_cpx and 'nan' not in kinds and 'unparsed' not in kinds:
        return KEY_F10
    # unclassified: one key per kind of failure (the replay holds the first such case)
    return 'case:' + (','.join(sorted(set(kinds))) or 'coq-code-%d' % code)


# ------------------------------------------------------------------ main
def run(tier='quick', replay=None):
    res = core.Result(PID, tier)
    rng = random.Random(core.seed() * 7919 + 10)
    core.ensure_theory(THEORY)
    w = core.Work(PID)
    violations = []
    try:
        trp = os.path.join(core.VERIF, 'tools', 'tr_ilt.py')
        res.trusted = [
            'Coq 8.16.1 kernel + vm_compute (no native_compute)',
            'translator tools/tr_ilt.py (sha256 %s) + statement/proof templates in checks/c10.py' % core.sha256_file(trp)[:16],
            'specification coq/theory/ExpPoly.v: signals Sigma c t^n/n! e^{pt} + Sigma d_k delta^(k), delays as symbolic exponents; L defined termwise '
            '(table entry = Laplace integral for real s > p: ExpPolyAnalysis.v, Coquelicot); cos/sin by Euler with j*j = -1 (ILT.den)',
            'hand model coq/theory/ILT.v of ratfun loop / term / make / doit / Assumptions.set / cache; executable comparison ILTCorr.v (ILTCorrX.v over any executable field); polynomial theory PolyQ.v (pf_check_sound), Gaussian rationals QcI.v, quadratic extensions ILTQext.v',
            'parser of Lcapy\'s time function into the normal form (tools/impl_ilt.py, sympy rewrite(exp)/expand) and exact harness arithmetic tools/ilt_exact.py',
            'oracles, not verified: sympy.roots, polynomial division, residue computation, .simplify() - accepted only through pf_check / compared as normal forms',
        ]
        res.assumptions = ['field of characteristic 0 with decidable equality (record fld); theorems about cos/sin assume an element j with j*j = -1',
                           'e^{-sT} interpreted by any function E : Qc -> K with E 0 = 1 (statements hold for every such E)',
                           'identities hold at every s that is not a pole of the image (peval A s <> 0)',
                           'ILT_LT_cert_gen is conditional on the certificate check cert_ok evaluated per case inside Coq']
        # 1. translate
        tr = None
        texts = {}
        try:
            tr = T.ILTTranslation(core.REPO)
        except T.Untranslatable as e:
            res.failed_obl.append(('translate', 'lcapy/inverse_laplace.py', str(e)))
            res.obligations += 1
        except (OSError, SyntaxError) as e:
            res.failed_obl.append(('translate', 'lcapy/inverse_laplace.py', 'cannot read/parse source: %s' % e))
            res.obligations += 1
        gen_ok = False
        if tr is not None:
            try:
                texts['ILTGen.v'] = tr.coq_defs()
            except T.Untranslatable as e:
                res.failed_obl.append(('translate', 'lcapy/inverse_laplace.py', str(e)))
                res.obligations += 1
                tr = None
        if tr is not None:
            w.write('ILTGen.v', texts['ILTGen.v'])
            ok, out, secs = core.coqc(w.dir, 'ILTGen.v')
            if not ok:
                res.failed_obl.append(('ILTGen', 'ILTGen.v', out[-800:]))
                res.obligations += 1
            else:
                gen_ok = True
            res.extra['translated'] = {'guard': tr.guard_src, 'guard_coq': tr.guard, 'simple': tr.simple, 'repeated': tr.repeated,
                                       'poly_term': tr.poly_term, 'key_fields': tr.key_fields, 'res_sel': tr.res_sel_src,
                                       'sources': tr.files}
        # 2. prove
        guard_broken = False
        if gen_ok:
            files1 = {'C10_branches.v': branches_v(tr)}
            files2 = {'C10_guard.v': guard_v(tr), 'C10.v': open(os.path.join(core.VERIF, 'coq', 'props', 'C10.v')).read(),
                      'C10_analysis.v': open(os.path.join(core.VERIF, 'coq', 'props', 'C10_analysis.v')).read()}
            try:
                files2.update(extra_theorem_files(tr))
            except T.Untranslatable as e:
                res.failed_obl.append(('damped_sin_k', 'C10_ds.v', str(e)))
                res.obligations += 1
            for fn_, txt in list(files1.items()) + list(files2.items()):
                texts[fn_] = txt
                w.write(fn_, txt)
            bad = core.gate_text('generated', '\n'.join(texts.values()))
            bad += core.gate_files([os.path.join(core.COQ_THEORY, f + '.v') for f in THEORY[2:]
                                    if os.path.exists(os.path.join(core.COQ_THEORY, f + '.v'))])
            if bad:
                res.failed_obl.append(('gate', 'generated', '; '.join(bad)))
                res.obligations += 1
            r1 = core.coqc_many(w.dir, list(files1), timeout=600)
            res.coq_results(w.dir, r1, {f: texts[f] for f in files1})
            r2 = core.coqc_many(w.dir, list(files2), timeout=900)
            res.coq_results(w.dir, r2, {f: texts[f] for f in files2})
            # instances over Q(i)(sqrt d) (needs C10_guard.vo)
            files3 = {'C10_qext.v': qext_v(tr)}
            for fn_, txt in files3.items():
                texts[fn_] = txt
                w.write(fn_, txt)
            bad3 = core.gate_text('generated', texts['C10_qext.v'])
            if bad3:
                res.failed_obl.append(('gate', 'C10_qext.v', '; '.join(bad3)))
                res.obligations += 1
            r3 = core.coqc_many(w.dir, list(files3), timeout=600)
            res.coq_results(w.dir, r3, {f: texts[f] for f in files3})
            res.extra['coq_seconds'] = {f: round(r[2], 1) for f, r in list(r1.items()) + list(r2.items()) + list(r3.items())}
            guard_broken = any(n in ('pair_guard_sound', 'ILT_LT_gen', 'ILT_LT_cert_gen', 'ivt_fvt_gen') for n, _, _ in res.failed_obl)

        # 3. correspondence + oracle on the real code
        if replay:
            rc = replay.get('case') or replay.get('replay', {}).get('case')
            cases = [rc if 'undef' in rc else case_from_json(rc)]
            if guard_broken:
                # the guard obligation is broken: search its failing input (repeated conjugate pole pairs) as in a full run
                cases += corpus_cases()[:2]
        else:
            cases = gen_cases(rng, tier) + gen_xcases(rng, tier) + undef_cases(rng, tier)
        jcases = [c if 'undef' in c else case_json(c) for c in cases]
        results = core.run_impl('impl_ilt.py', jcases, timeout=1500 if tier == 'quick' else 6000)
        res.programs = len(set((tuple(sorted(tm['pat'] for tm in c['terms'])), json.dumps(c['opts']), c['damping']) for c in cases if 'undef' not in c))
        items = []
        xitems = {}
        metas = {}
        orc = {}
        for i, (c, r) in enumerate(zip(cases, results)):
            if r is None:
                r = results[i] = {'error': 'no result'}
            if 'undef' in c:
                if 'ukind' not in r:
                    res.count('impl_error')
                    continue
                res.count('undef_cases')
                res.add_case(json.dumps(c, sort_keys=True), True, None)
                txt = undef_coq(i, c, r)
                orc[i] = [] if r.get('same', True) else [('cache', 'second call differs')]
                if txt is None:
                    orc[i].append(('unparsed', 'unclassified result for %s: %s' % (c['undef'], r.get('text'))))
                else:
                    items.append((i, txt))
                continue
            if c.get('expect_error'):
                res.count('expected_error_cases')
                if 'obs' in r:
                    orc[i] = [('advance', 'a time advance was accepted: %s' % json.dumps(r['obs'])[:100])]
            elif 'error' in r and 'obs' not in r:
                res.count('impl_error')
                res.count('impl_error:' + r['error'].split(':')[0][:40])
                continue
            else:
                orc[i] = oracle(c, r, rng)
            if c.get('sqrtd'):
                txt, meta = coq_case_x(i, c, r, bool(tr is not None and tr.ds_guard_omega1), bool(tr is not None and tr.ds_guard_degree), bool(tr is not None and tr.ds_guard_real))
                res.count('irrational_pole_cases' if any(tm['pat'].startswith('irr_') for tm in c['terms']) else 'damped_sin_irrational_omega_cases')
                if txt is not None:
                    xitems.setdefault(c['sqrtd'], []).append((i, txt))
                    metas[i] = meta
                    res.count('irrational_pole_cases_compared_in_coq' if any(tm['pat'].startswith('irr_') for tm in c['terms']) else 'damped_sin_irrational_omega_compared_in_coq')
            else:
                txt, meta = coq_case(i, c, r, bool(tr is not None and tr.ds_guard_omega1), bool(tr is not None and tr.ds_guard_degree), bool(tr is not None and tr.ds_guard_real))
                if txt is not None:
                    items.append((i, txt))
                    metas[i] = meta
            for tm in c['terms']:
                res.count('pattern_' + tm['pat'])
            res.count('terms_%d' % len(c['terms']))
            res.count('delayed' if any(tm['T'] != 0 for tm in c['terms']) else 'delay_free')
            if meta.get('ds'):
                res.count('damped_sin_model_terms', meta['ds'])
            if meta.get('res_sub'):
                res.count('residues_sub_model_terms', meta['res_sub'])
            if meta.get('use_model') is False:
                res.count('model_skipped_roundtrip_only')
            nontrivial = 'obs' in r and 'unparsed' not in r.get('obs', {})
            res.add_case(json.dumps(jcases[i], sort_keys=True), nontrivial,
                         {'case': r.get('expr'), 'opts': c['opts'], 'lcapy': r.get('obs')} if i in (0, 4, 11, 23, 40) else None)
        codes = {}
        if gen_ok and (items or xitems):
            shards = [items[k:k + 40] for k in range(0, len(items), 40)]
            fns = []
            for si, sh in enumerate(shards):
                w.write('cases_%d.v' % si, cases_v([t for _, t in sh]))
                fns.append('cases_%d.v' % si)
            for d_, its in sorted(xitems.items()):
                for k in range(0, len(its), 25):
                    fn_ = 'casesx_%d_%d.v' % (d_, k // 25)
                    w.write(fn_, casesx_v([t for _, t in its[k:k + 25]], d_))
                    fns.append(fn_)
            cr = core.coqc_many(w.dir, fns, timeout=900)
            for f, (ok, out, secs) in cr.items():
                fl = parse_pairs(out) if ok else None
                if fl is None:
                    res.failed_obl.append(('correspondence_eval', f, out[-600:]))
                    res.obligations += 1
                else:
                    for idx, code in fl:
                        codes[idx] = code
            res.extra['traces_validated_against_impl'] = len(items) + sum(len(v) for v in xitems.values())
            res.extra['case_eval_seconds'] = round(max([r[2] for r in cr.values()] + [0]), 1)
        res.rule = ('cases: corpus (F10, critically damped do_damped_sin, nested delay, time advance, second-order sections) + %d generated sums of 1-3 '
                    'delayed rational functions from 10 pole patterns (real simple/repeated/multiplicity 5, origin, conjugate pairs, repeated conjugate '
                    'pairs, single complex, imaginary pairs, polynomial only, mixed) x proper/improper x ratio/factored/partial-fraction input form '
                    'x a systematic sweep of causal/ac/dc (ordered), damped_sin, damping, zero_initial_conditions; every case transformed three times '
                    '(cache hit, other options in between); %d of them with irrational poles (real and complex, sqrt 2 / sqrt 3, simple and double) '
                    'compared over Q(i)(sqrt d); non-trivial = Lcapy returned a time function that parses to the normal form'
                    % (len(cases) - len(corpus_cases()), sum(1 for c_ in cases if c_.get('sqrtd'))))

        # 4. decide
        by_key = {}
        for i, c in enumerate(cases):
            kinds = [k for k, _ in orc.get(i, [])]
            code = codes.get(i, 0)
            if 'unparsed-consistent' in kinds:
                # the parser cannot bring the output to the normal form, the numerical search finds nothing: no verdict
                res.count('unparsed_numerically_consistent')
                kinds = [k for k in kinds if k != 'unparsed-consistent']
            if not kinds and not code:
                continue
            if 'undef' in c:
                key = 'correspondence:product_undef1:' + c['ufac'].replace(' ', '')
                by_key.setdefault(key, {'key': key, 'what': 'product_undef1 model and lcapy differ for %s %s: %s' % (c['undef'], c['opts'], results[i]),
                                        'case': c, 'lcapy': results[i], 'coq_code': code, 'found_input': False, 'replay': {'case': c},
                                        'correspondence': 'LT.ILT.undef_model vs InverseLaplaceTransformer.product_undef1'})
                res.disagreements.append({'case': c, 'lcapy': results[i]})
                continue
            real = [k for k in kinds if k in ('roundtrip', 'nan', 'numeric', 'cache', 'causal', 'ivt', 'fvt', 'advance')]
            rec = {'case': jcases[i], 'expr': results[i].get('expr'), 'lcapy': results[i].get('obs'), 'oracle': orc.get(i, []), 'coq_code': code,
                   'certs': results[i].get('certs'), 'how': './check C10 --replay <this file>'}
            key0 = classify(c, results[i], kinds, code, rng) if kinds else None
            if real or (code & 4) or key0 == KEY_DSDELAY:
                key = classify(c, results[i], kinds, code, rng)
                res.counterexamples.append(rec)
                by_key.setdefault(key, dict(rec, key=key, what='inverse Laplace transform of %s with %s does not transform back to the input (%s)' % (
                    results[i].get('expr'), c['opts'], ', '.join(kinds) or 'coq code %d' % code), found_input=True, replay={'case': jcases[i]}))
            else:
                res.disagreements.append(rec)
                key = 'correspondence:' + classify(c, results[i], kinds, code, rng)
                by_key.setdefault(key, dict(rec, key=key, what='model and real inverse_laplace differ / output not evaluable (%s, coq code %d)' % (', '.join(kinds), code),
                                            found_input=False, correspondence='LT.ILT model vs lcapy.inverse_laplace', replay={'case': jcases[i]}))
        violations += list(by_key.values())
        have_f10 = KEY_F10 in by_key
        known_keys = set(k['key'] for k in core.load_known() if k.get('property') == PID and k.get('status') == 'open')
        fresh = [v for k, v in by_key.items() if v.get('found_input') and k not in known_keys]
        for name, f, msg in res.failed_obl:
            if (name in ('pair_guard_sound', 'ILT_LT_gen', 'ILT_LT_cert_gen', 'ivt_fvt_gen') or f == 'C10_guard.v') and have_f10:
                continue      # the failing input for the broken guard was found (keyed above)
            v = {'key': 'obligation:' + name, 'what': 'Coq obligation %s in %s no longer checks' % (name, f),
                 'theorem': name, 'file': f, 'message': msg, 'found_input': False}
            if fresh:
                # the sweep over the real code found concrete failing inputs in the same run
                v.update({'found_input': True, 'replay': fresh[0].get('replay'), 'case': fresh[0].get('case'), 'expr': fresh[0].get('expr'),
                          'lcapy': fresh[0].get('lcapy'), 'oracle': fresh[0].get('oracle'),
                          'what': v['what'] + '; failing input against the real code: %s %s' % (fresh[0].get('expr'), fresh[0].get('case', {}).get('opts'))})
            violations.append(v)
        return core.finish(res, violations)
    finally:
        if not os.environ.get('VERIF_KEEP'):
            w.cleanup()


def residue_v(tr):
    return (HEADER % 'lcapy/ratfun.py (_find_residues_sub)') + r'''
Require Import LT.FieldSec LT.PolyQ LT.ExpPoly LT.ILT LT.ILTResidue Gen.ILTGen.
Local Open Scope F_scope.
''' + RES_BODY + r'''
Print Assumptions res_sel_spec. Print Assumptions res_div_spec. Print Assumptions residues_sub_gen_is_model.
'''


def delay_v(tr):
    return (HEADER % 'lcapy/inverse_laplace.py (delay_factor, term)') + r'''
(* the delay bookkeeping of delay_factor() and term(), translated from the source:
   exp(c0*s) carries the delay -c0; cresult and uresult are shifted by the delay, the step sits
   at the delay, and the expansion fall-back re-attaches the whole stripped delay to every term *)
Require Import LT.FieldSec LT.PolyQ LT.ExpPoly LT.ILT Gen.ILTGen Gen.C10_branches.
From Coq Require Import QArith Qcanon.
Local Open Scope F_scope.

Theorem delay_factor_sign : forall d c0 : Qc, delay_upd_gen d c0 = (d - c0)%Qc.
Proof. intros. unfold delay_upd_gen. ring. Qed.
Theorem term_shift_c : forall T : Qc, shift_c_gen T = T.
Proof. intros. unfold shift_c_gen, qc. ring. Qed.
Theorem term_shift_u : forall T : Qc, shift_u_gen T = T.
Proof. intros. unfold shift_u_gen, qc. ring. Qed.
Theorem term_step_at_delay : forall T : Qc, step_gen T = T.
Proof. intros. unfold step_gen, qc. ring. Qed.
Theorem term_fallback_keeps_delay : forall T : Qc, fallback_gen T = T.
Proof. intros. unfold fallback_gen, qc. ring. Qed.

Section FB.
Variable K : fld.
Variable j : K.
Hypothesis j2 : j * j = fopp 1.
Variable cj : K -> K.
Variable guard : bool -> nat -> nat -> bool.
Hypothesis Hg : guard_sound guard.
Variable E : Qc -> K.
Hypothesis E0 : E 0%Qc = 1.
(* the fall-back of term() with the TRANSLATED re-attached delay: the sum of the transformed
   pieces transforms back to exp(-sT) * (sum of the pieces), for every list of pieces *)
Theorem term_fallback_LT_gen : forall causal s (pieces : list (iterm K)) (T : Qc), qc_ltb T 0 = false ->
  (forall tm, In tm pieces -> wf_term K s tm /\ it_delay tm = 0%Qc) ->
  exists r, sum_terms (map (fun tm => term_model K cj (B_gen K j) guard causal (set_delay (fallback_gen T) tm)) pieces) = Some r /\
            tval K E s r = E T * image_sum K E s pieces.
Proof. intros causal s pieces T HT Hw.
  destruct (fallback_LT K cj (B_gen K j) guard Hg (branches_gen_ok K j j2) E E0 causal s pieces T HT Hw) as [r [Hr Hv]].
  exists r. split; [|exact Hv]. rewrite <- Hr. apply f_equal. apply map_ext. intros tm. rewrite term_fallback_keeps_delay. reflexivity. Qed.
End FB.
Print Assumptions delay_factor_sign. Print Assumptions term_shift_c. Print Assumptions term_shift_u. Print Assumptions term_step_at_delay.
Print Assumptions term_fallback_keeps_delay. Print Assumptions term_fallback_LT_gen.
'''


def ds_v(tr):
    for k in (1, 2, 3):
        if tr.ds[k].get('nwit') != 2:
            raise T.Untranslatable('lcapy/inverse_laplace.py:%d: do_damped_sin: expected two sym.sqrt witnesses, found %s' % (tr.ds_line, tr.ds[k].get('nwit')))
    if tr.ds[1]['c'] is not None or tr.ds[2]['c'] is not None or tr.ds[3]['c'] is None:
        raise T.Untranslatable('lcapy/inverse_laplace.py:%d: do_damped_sin: impulse part expected exactly for len(ncoeffs) = 3' % tr.ds_line)
    return (HEADER % 'lcapy/inverse_laplace.py (do_damped_sin)') + r'''
(* L(do_damped_sin closed forms) = B(s)/A(s) for the three numerator lengths.  sym.sqrt(X)
   is a witness w with w*w = X (any square root, in any field with j*j = -1); w2 <> 0 excludes
   the critically damped case omega1 = 0, where the source divides by omega1. *)
Require Import LT.FieldSec LT.PolyQ LT.ExpPoly LT.ILT Gen.ILTGen.
Local Open Scope F_scope.
''' + DS_BODY + '''
Print Assumptions damped_sin_1. Print Assumptions damped_sin_2. Print Assumptions damped_sin_3.
'''


def qext_v(tr):
    return (HEADER % 'lcapy/inverse_laplace.py (instances over Q(i)(sqrt d))') + r"""
(* poles, residues and exponents outside the Gaussian rationals: the quadratic extensions Q(i)(sqrt d), d prime,
   are fields (LT.ILTQext, prime_nonsq: a prime is not a square in Q(i)); the main theorems of the TRANSLATED
   transformer hold over them, and the executable glue LT.ILTCorrX evaluated in casesx_*.v is tied to them *)
Require Import LT.FieldSec LT.PolyQ LT.QcI LT.ExpPoly LT.ILT LT.ILTQext LT.ILTCorrX Gen.ILTGen Gen.C10_branches Gen.C10_guard.
From Coq Require Import ZArith Znumtheory.
Local Open Scope F_scope.

Theorem qext_nonsquare : forall d : positive, prime (Zpos d) -> forall x : qci, cimul x x <> ciofq (dq d).
Proof. exact prime_nonsq. Qed.
Theorem qext_j_sq : forall d Hd, @fmul (QxF d Hd) qxj qxj = @fopp (QxF d Hd) (@f1 (QxF d Hd)).
Proof. exact qxj_sq. Qed.
Theorem qext_sqrt_sq : forall d Hd, @fmul (QxF d Hd) qxsqrt qxsqrt = qxofci (ciofq (dq d)).
Proof. exact qxsqrt_sq. Qed.

Section Q.
Variable d : positive.
Variable Hd : nonsq d.
Notation KX := (QxF d Hd).
Variable E : Qc -> KX.
Hypothesis E0 : E 0%Qc = 1.
(* the model fed with certificate-checked (Q, R, P, O) over Q(i)(sqrt d) inverts the transform *)
Theorem ILT_LT_cert_qext : forall (causal : bool) (const s : KX) (F : list (cterm KX)),
  (forall ct, In ct F -> cert_ok ct = true /\ peval (ct_A ct) s <> 0) ->
  exists m, doit_model KX qxconj (B_gen KX qxj) guard_gen causal const (map ct_term F) = Some m /\
            dLval E s (m_c m) + Lval s (m_u m) = const * input_sum KX E s F.
Proof. exact (ILT_LT_cert_gen KX qxj (qxj_sq d Hd) qxconj E E0). Qed.
(* what casesx_*.v evaluates without damped-sin sources IS that model *)
Theorem model_eval_qext : forall causal const (F : list (cterm KX)),
  model_eval (K:=KX) qxconj (B_gen KX qxj) guard_gen causal const F [] = doit_model KX qxconj (B_gen KX qxj) guard_gen causal const (map ct_term F).
Proof. intros. apply model_eval_cert. Qed.
(* bit 4 of the case code clear: L(Lcapy's own output) = the input, over Q(i)(sqrt d) *)
Theorem case_rt_sound_qext : forall const (F : list (cterm KX)) o, rt_check const F o = true ->
  forall (s : KX), (forall ct, In ct F -> peval (ct_A ct) s <> (0 : KX)) ->
  dLval E s (obs_dsig (map (fun i => fst (fst i)) (ins_of const F)) o) = const * input_sum KX E s F.
Proof. intros const F o H s HA. exact (case_rt_sound KX const F o H E s HA). Qed.
End Q.
Print Assumptions qext_nonsquare. Print Assumptions qext_j_sq. Print Assumptions qext_sqrt_sq.
Print Assumptions ILT_LT_cert_qext. Print Assumptions model_eval_qext. Print Assumptions case_rt_sound_qext.
"""


def extra_theorem_files(tr):
    return {'C10_ds.v': ds_v(tr), 'C10_delay.v': delay_v(tr), 'C10_residue.v': residue_v(tr)}


if __name__ == '__main__':
    sys.exit(run(sys.argv[1] if len(sys.argv) > 1 else 'quick'))
