"""C02 - time-domain responses satisfy the circuit ODEs, the initial state and causality.

  translate  lcapy/mnacpts.py `_stamp` methods -> Gen/StampsGen.v (tools/tr_stamps.py, shared with C01)
             lcapy/mnacpts.py SW._replace_switch, lcapy/netlist.py convert_IVP -> Gen/SwitchGen.v
  prove      theory/TimeDom.v         signal algebra as finite maps; laws Sigma (a + b d/dt) x_j = w;
                                      lcomb_transfer (d/dt -> s), time_law_C, time_law_L (mutual terms),
                                      continuity_C/L, decidable checkers
             theory/TimeDomInj.v      L_injective for every characteristic-0 field (uniqueness of partial fractions)
             theory/TimeDomCircuit.v  physical time-domain semantics per component class and its transfer to the
                                      s-domain semantics of Circuit.v (what C01 proves of the stamps)
             props/C02.v              ode_from_sdomain, continuity, causal_zero, switch_handover (spec)
             props/C02net.v           netlist level on top of the regenerated C01 files: the inverse transforms of
                                      any ivp/s-domain MNA solution satisfy KCL, every ODE and instantaneous law
             Gen/C02_switch.v         the switch comparisons / loop of the CURRENT source agree with the specification
  correspond circuits with CHOSEN natural frequencies (real / repeated / complex Gaussian-rational; element values
             derived from the pole pattern) x sources (step, dc, exp, t*exp, cos, delayed, impulse, ac) x initial
             conditions: Lcapy's cpt.v / cpt.i / node voltages parsed to the exp-poly normal form and compared inside
             Coq (vm_compute over Q(i)) with the termwise inverse of the certified s-domain solution; the physical
             laws are checked on the model signals by the verified checker; flag (u(t) / t >= 0) model
  search     exact sympy oracle on Lcapy's raw expressions: i - C v' , v - L i' - M i_k', Ohm, sources, controlled
             sources, transformer, KCL at every node at rational t > 0; limits at 0+/0-; values at t < 0;
             switched circuits: convert_IVP initial conditions vs the interval-by-interval reference
"""
import json
import os
import random
import re
import sys
from fractions import Fraction

sys.path.insert(0, os.path.dirname(os.path.dirname(os.path.abspath(__file__))))
from vlib import core
sys.path.insert(0, os.path.join(core.VERIF, 'tools'))

PID = 'C02'
MANIFEST = {
    'text': 'Coq theorems over an exponential-polynomial-plus-impulses signal algebra (any characteristic-0 field): d/dt of a causal '
            'signal has image s X(s) (L_D), so every law Sigma (a_j + b_j d/dt) x_j = w holds in the time domain iff its image holds in the '
            's-domain (lcomb_transfer, law_from_sdomain with uniqueness of partial fractions L_injective); time_law_C: I = C(sV - v0) '
            'gives i = C dv/dt for t > 0 and v(0+) = v0 + impulse/C; time_law_L with mutual terms; continuity_C/L; per-class transfer of '
            'the physical time-domain semantics to the s-domain semantics that C01 proves of the regenerated stamps, and at netlist level '
            '(ode_from_sdomain): the inverse transforms of any ivp/s MNA solution satisfy KCL, every ODE and instantaneous law; '
            'causal_zero; switch_handover for the specification of convert_IVP and agreement of the source-extracted switch logic with it. '
            'Each run ties this to the code: Lcapy\'s time-domain results are parsed to the normal form and compared inside Coq with the '
            'inverse of its own certified s-domain solution, and the laws are checked on those signals by the verified checker.',
    'note': 'Trusted: Coq kernel/vm_compute; specification coq/theory/ExpPoly.v (signals, D, L) and TimeDomCircuit.v (textbook laws); the '
            'sympy-based parsers in tools/impl_timedom.py; translators tools/tr_stamps.py, tools/tr_switch.py. Partial: poles are found by '
            'sympy (oracle, accepted only through the verified certificate check pf_check), so only Gaussian-rational natural frequencies '
            'are compared inside Coq; symbolic element values are covered by the theorems only.',
    'technique': 'Coq proof over an abstract signal algebra + per-class transfer to the C01 stamp semantics + in-Coq correspondence '
                 'evaluation with verified per-case law checking + exact sympy search oracle',
}

THEORY = ['FieldSec', 'PolyQ', 'QcI', 'ExpPoly', 'ILT', 'ILTResidue', 'ILTCorr', 'Circuit', 'MNA', 'CircuitLinear',
          'TimeDom', 'TimeDomCircuit', 'TimeDomCorr']

KEY_KIC = 'K:coupled-inductors-with-initial-current:mutual-ic-term-missing'
KEY_F10 = 'ilt:repeated-complex-natural-frequency'


# ------------------------------------------------------------------ exact helpers
def F(x, d=1):
    return Fraction(x) / Fraction(d)


def fs(x):
    x = Fraction(x)
    return '%d/%d' % (x.numerator, x.denominator)


def val(x):
    """netlist spelling of a rational"""
    x = Fraction(x)
    if x.denominator == 1:
        return str(x.numerator)
    return '{%d/%d}' % (x.numerator, x.denominator)


def ex(x):
    """expression spelling (inside braces)"""
    x = Fraction(x)
    if x.denominator == 1:
        return '(%d)' % x.numerator if x < 0 else str(x.numerator)
    return '(%d/%d)' % (x.numerator, x.denominator)


def g(re, im=0):
    return [fs(re), fs(im)]


def qc(x):
    x = Fraction(x)
    return '(qc (%d) %d)' % (x.numerator, x.denominator)


def qi(gp):
    a, b = Fraction(gp[0]), Fraction(gp[1])
    return '(qi (%d) %d (%d) %d)' % (a.numerator, a.denominator, b.numerator, b.denominator)


def qilist(l):
    return '[' + '; '.join(qi(x) for x in l) + ']'


def bl(x):
    return 'true' if x else 'false'


# ------------------------------------------------------------------ sources
def mk_source(rng, kind, poles_hint=None):
    """returns dict(text=netlist value, nf=normal form, causal=bool, tag=kind)"""
    A = F(rng.choice([1, 2, 3, 5, 10, -4, F(1, 2), F(3, 2)]))
    a = F(rng.choice([1, 2, 3, F(1, 2), F(3, 2), 4]))
    if poles_hint is not None:
        a = -F(poles_hint)
    w = F(rng.choice([1, 2, 3, F(1, 2)]))
    T = F(rng.choice([1, 2, F(1, 2), F(3, 2)]))
    if kind == 'step':
        return {'text': 'step %s' % val(A), 'nf': {'reg': [[fs(0), 0, g(0), g(A), True]], 'sing': []}, 'causal': True, 'tag': kind}
    if kind == 'dc':
        return {'text': 'dc %s' % val(A), 'nf': {'reg': [[fs(0), 0, g(0), g(A), False]], 'sing': []}, 'causal': False, 'tag': kind}
    if kind == 'exp':
        return {'text': '{%s*exp(-%s*t)*u(t)}' % (ex(A), ex(a)), 'nf': {'reg': [[fs(0), 0, g(-a), g(A), True]], 'sing': []}, 'causal': True, 'tag': kind}
    if kind == 'texp':
        return {'text': '{%s*t*exp(-%s*t)*u(t)}' % (ex(A), ex(a)), 'nf': {'reg': [[fs(0), 1, g(-a), g(A), True]], 'sing': []}, 'causal': True, 'tag': kind}
    if kind == 'ramp':
        return {'text': '{%s*t*u(t)}' % ex(A), 'nf': {'reg': [[fs(0), 1, g(0), g(A), True]], 'sing': []}, 'causal': True, 'tag': kind}
    if kind == 'dstep':
        return {'text': '{%s*u(t-%s)}' % (ex(A), ex(T)), 'nf': {'reg': [[fs(T), 0, g(0), g(A), True]], 'sing': []}, 'causal': True, 'tag': kind}
    if kind == 'dexp':
        return {'text': '{%s*exp(-%s*(t-%s))*u(t-%s)}' % (ex(A), ex(a), ex(T), ex(T)), 'nf': {'reg': [[fs(T), 0, g(-a), g(A), True]], 'sing': []}, 'causal': True, 'tag': kind}
    if kind == 'pulse':
        return {'text': '{%s*u(t)-%s*u(t-%s)}' % (ex(A), ex(A), ex(T)),
                'nf': {'reg': [[fs(0), 0, g(0), g(A), True], [fs(T), 0, g(0), g(-A), True]], 'sing': []}, 'causal': True, 'tag': kind}
    if kind == 'impulse':
        return {'text': '{%s*delta(t)}' % ex(A), 'nf': {'reg': [], 'sing': [[fs(0), 0, g(A)]]}, 'causal': True, 'tag': kind}
    if kind == 'cos':
        return {'text': '{%s*cos(%s*t)*u(t)}' % (ex(A), ex(w)),
                'nf': {'reg': [[fs(0), 0, g(0, w), g(A / 2), True], [fs(0), 0, g(0, -w), g(A / 2), True]], 'sing': []}, 'causal': True, 'tag': kind}
    if kind == 'sin':
        return {'text': '{%s*sin(%s*t)*u(t)}' % (ex(A), ex(w)),
                'nf': {'reg': [[fs(0), 0, g(0, w), g(0, -A / 2), True], [fs(0), 0, g(0, -w), g(0, A / 2), True]], 'sing': []}, 'causal': True, 'tag': kind}
    if kind == 'dcos':     # damped cosine
        return {'text': '{%s*exp(-%s*t)*cos(%s*t)*u(t)}' % (ex(A), ex(a), ex(w)),
                'nf': {'reg': [[fs(0), 0, g(-a, w), g(A / 2), True], [fs(0), 0, g(-a, -w), g(A / 2), True]], 'sing': []}, 'causal': True, 'tag': kind}
    if kind == 'ac':
        return {'text': 'ac %s 0 %s' % (val(A), val(w)),
                'nf': {'reg': [[fs(0), 0, g(0, w), g(A / 2), False], [fs(0), 0, g(0, -w), g(A / 2), False]], 'sing': []}, 'causal': False, 'tag': kind}
    raise ValueError(kind)


SRC_CAUSAL = ['step', 'exp', 'texp', 'ramp', 'dstep', 'dexp', 'pulse', 'impulse', 'cos', 'sin', 'dcos']
SRC_ALL = SRC_CAUSAL + ['dc', 'ac']


def neg_nf(nf):
    def ng(c):
        return [fs(-Fraction(c[0])), fs(-Fraction(c[1]))]
    return {'reg': [[T, n, p, ng(c), st] for T, n, p, c, st in nf['reg']], 'sing': [[T, k, ng(c)] for T, k, c in nf['sing']]}


# ------------------------------------------------------------------ circuits
class Ckt:
    """a circuit under construction: netlist lines + the generator's own knowledge of every element"""

    def __init__(self, tags):
        self.lines = []
        self.elts = []      # dicts: type, name, nodes, params
        self.tags = list(tags)

    def add(self, typ, name, nodes, **kw):
        e = dict(kw, type=typ, name=name, nodes=[str(n) for n in nodes])
        self.elts.append(e)
        n = ' '.join(e['nodes'])
        if typ == 'R':
            self.lines.append('%s %s %s' % (name, n, val(kw['R'])))
        elif typ == 'C':
            self.lines.append('%s %s %s' % (name, n, val(kw['C'])) + ('' if kw.get('v0') is None else ' %s' % val(kw['v0'])))
        elif typ == 'L':
            self.lines.append('%s %s %s' % (name, n, val(kw['L'])) + ('' if kw.get('i0') is None else ' %s' % val(kw['i0'])))
        elif typ in ('V', 'I'):
            self.lines.append('%s %s %s' % (name, n, kw['src']['text']))
        elif typ in ('E', 'G'):
            self.lines.append('%s %s %s' % (name, n, val(kw['gain'])))
        elif typ in ('H', 'F'):
            self.lines.append('%s %s %s %s' % (name, n, kw['ctrl'], val(kw['gain'])))
        elif typ == 'TF':
            self.lines.append('%s %s %s' % (name, n, val(kw['gain'])))
        elif typ == 'K':
            self.lines.append('%s %s %s %s' % (name, kw['L1'], kw['L2'], val(kw['k'])))
        else:
            raise ValueError(typ)
        return self

    def get(self, name):
        for e in self.elts:
            if e['name'] == name:
                return e
        raise KeyError(name)


def isqrt_frac(x):
    from math import isqrt
    x = Fraction(x)
    a, b = isqrt(x.numerator), isqrt(x.denominator)
    assert a * a == x.numerator and b * b == x.denominator
    return Fraction(a, b)


POLE_PATTERNS = ['real2', 'rep2', 'cpx', 'cpx_slow', 'imag']


def pick_poles(rng, pat):
    """(sigma = p1 + p2, pi = p1 p2, list of poles as Gaussian pairs) of a second-order section"""
    if pat == 'real2':
        a, b = rng.sample([F(1), F(2), F(3), F(4), F(1, 2), F(3, 2), F(5)], 2)
        return -(a + b), a * b, [g(-a), g(-b)]
    if pat == 'rep2':
        a = rng.choice([F(1), F(2), F(3), F(1, 2), F(3, 2)])
        return -2 * a, a * a, [g(-a), g(-a)]
    if pat in ('cpx', 'cpx_slow'):
        a = rng.choice([F(1), F(2), F(3), F(1, 2)]) if pat == 'cpx' else rng.choice([F(1, 2), F(1, 3)])
        w = rng.choice([F(1), F(2), F(3), F(3, 2), F(4)])
        return -2 * a, a * a + w * w, [g(-a, w), g(-a, -w)]
    if pat == 'imag':
        w = rng.choice([F(1), F(2), F(3), F(1, 2)])
        return F(0), w * w, [g(0, w), g(0, -w)]
    raise ValueError(pat)


def rnd(rng, pool=(1, 2, 3, 4, 5, F(1, 2), F(3, 2), F(1, 3), F(2, 3))):
    return F(rng.choice(pool))


def maybe_ic(rng, p):
    return rnd(rng, (1, 2, 3, -1, -2, F(1, 2), 4)) if rng.random() < p else None


def fam_series_rlc(rng, pat, src, icp):
    sg, pi, poles = pick_poles(rng, pat)
    Lv = rnd(rng)
    c = Ckt(['series_rlc', pat])
    c.add('V', 'V1', (1, 0), src=src)
    if sg != 0:
        c.add('R', 'R1', (1, 2), R=-sg * Lv)
        c.add('L', 'L1', (2, 3), L=Lv, i0=maybe_ic(rng, icp))
    else:
        c.add('L', 'L1', (1, 3), L=Lv, i0=maybe_ic(rng, icp))
    c.add('C', 'C1', (3, 0), C=1 / (Lv * pi), v0=maybe_ic(rng, icp))
    c.poles = poles
    return c


def fam_parallel_rlc(rng, pat, src, icp):
    sg, pi, poles = pick_poles(rng, pat)
    Cv = rnd(rng)
    c = Ckt(['parallel_rlc', pat])
    c.add('I', 'I1', (1, 0), src=src)
    if sg != 0:
        c.add('R', 'R1', (1, 0), R=-1 / (sg * Cv))
    c.add('L', 'L1', (1, 0), L=1 / (Cv * pi), i0=maybe_ic(rng, icp))
    c.add('C', 'C1', (1, 0), C=Cv, v0=maybe_ic(rng, icp))
    c.poles = poles
    return c


def fam_rc(rng, pat, src, icp):
    c = Ckt(['rc'])
    c.add('V', 'V1', (1, 0), src=src)
    c.add('R', 'R1', (1, 2), R=rnd(rng))
    c.add('C', 'C1', (2, 0), C=rnd(rng), v0=maybe_ic(rng, icp))
    if rng.random() < 0.5:
        c.add('R', 'R2', (2, 0), R=rnd(rng))
    return c


def fam_rl(rng, pat, src, icp):
    c = Ckt(['rl'])
    if rng.random() < 0.5:
        c.add('V', 'V1', (1, 0), src=src)
        c.add('R', 'R1', (1, 2), R=rnd(rng))
        c.add('L', 'L1', (2, 0), L=rnd(rng), i0=maybe_ic(rng, icp))
    else:
        c.add('I', 'I1', (1, 0), src=src)
        c.add('R', 'R1', (1, 0), R=rnd(rng))
        c.add('R', 'R2', (1, 2), R=rnd(rng))
        c.add('L', 'L1', (2, 0), L=rnd(rng), i0=maybe_ic(rng, icp))
    return c


def fam_cascade(rng, pat, src, icp):
    """two sections isolated by a VCVS buffer: the natural frequencies are the union (with
    multiplicity) of the sections' - repeated real and repeated complex pairs on demand"""
    c = Ckt(['cascade', pat])
    c.add('V', 'V1', (1, 0), src=src)
    same = rng.random() < 0.6
    if pat in ('real2', 'rep2'):
        R1, C1 = rnd(rng), rnd(rng)
        c.add('R', 'R1', (1, 2), R=R1)
        c.add('C', 'C1', (2, 0), C=C1, v0=maybe_ic(rng, icp))
        c.add('E', 'E1', (3, 0, 2, 0), gain=rnd(rng, (1, 2, 3, -1, F(1, 2))))
        if same or pat == 'rep2':
            R2 = rnd(rng)
            c.add('R', 'R2', (3, 4), R=R2)
            c.add('C', 'C2', (4, 0), C=R1 * C1 / R2, v0=maybe_ic(rng, icp))
            c.tags.append('repeated_real')
        else:
            c.add('R', 'R2', (3, 4), R=rnd(rng))
            c.add('L', 'L2', (4, 0), L=rnd(rng), i0=maybe_ic(rng, icp))
    else:
        sg, pi, poles = pick_poles(rng, pat if pat != 'imag' else 'cpx')
        Lv = rnd(rng)
        c.add('R', 'R1', (1, 2), R=-sg * Lv)
        c.add('L', 'L1', (2, 3), L=Lv, i0=maybe_ic(rng, icp))
        c.add('C', 'C1', (3, 0), C=1 / (Lv * pi), v0=maybe_ic(rng, icp))
        c.add('E', 'E1', (4, 0, 3, 0), gain=rnd(rng, (1, 2, -1, F(1, 2))))
        if same:
            L2 = rnd(rng)
            c.add('R', 'R2', (4, 5), R=-sg * L2)
            c.add('L', 'L2', (5, 6), L=L2, i0=maybe_ic(rng, icp))
            c.add('C', 'C2', (6, 0), C=1 / (L2 * pi), v0=maybe_ic(rng, icp))
            c.tags.append('repeated_complex')
        else:
            c.add('R', 'R2', (4, 5), R=rnd(rng))
            c.add('C', 'C2', (5, 0), C=rnd(rng), v0=maybe_ic(rng, icp))
    return c


def fam_tf(rng, pat, src, icp):
    c = Ckt(['transformer'])
    c.add('V', 'V1', (1, 0), src=src)
    c.add('R', 'R1', (1, 2), R=rnd(rng))
    c.add('TF', 'TF1', (3, 0, 2, 0), gain=rnd(rng, (2, 3, F(1, 2), -2, F(3, 2))))
    if rng.random() < 0.5:
        c.add('C', 'C1', (3, 0), C=rnd(rng), v0=maybe_ic(rng, icp))
        c.add('R', 'R2', (3, 0), R=rnd(rng))
    else:
        c.add('R', 'R2', (3, 4), R=rnd(rng))
        c.add('L', 'L1', (4, 0), L=rnd(rng), i0=maybe_ic(rng, icp))
    return c


def fam_vccs(rng, pat, src, icp):
    c = Ckt(['vccs'])
    c.add('V', 'V1', (1, 0), src=src)
    c.add('R', 'R1', (1, 0), R=rnd(rng))
    c.add('G', 'G1', (2, 0, 1, 0), gain=rnd(rng, (1, 2, F(1, 2), -1, 3)))
    c.add('R', 'R2', (2, 0), R=rnd(rng))
    c.add('C', 'C1', (2, 0), C=rnd(rng), v0=maybe_ic(rng, icp))
    return c


def fam_ccvs(rng, pat, src, icp):
    c = Ckt(['ccvs'])
    c.add('V', 'V1', (1, 0), src=src)
    c.add('R', 'R1', (1, 0), R=rnd(rng))
    c.add('H', 'H1', (2, 0), ctrl='V1', gain=rnd(rng, (1, 2, F(1, 2), -1, 3)))
    c.add('R', 'R2', (2, 3), R=rnd(rng))
    if rng.random() < 0.5:
        c.add('C', 'C1', (3, 0), C=rnd(rng), v0=maybe_ic(rng, icp))
    else:
        c.add('L', 'L1', (3, 0), L=rnd(rng), i0=maybe_ic(rng, icp))
    return c


def fam_cccs(rng, pat, src, icp):
    c = Ckt(['cccs'])
    c.add('V', 'V1', (1, 0), src=src)
    c.add('R', 'R1', (1, 0), R=rnd(rng))
    c.add('F', 'F1', (2, 0), ctrl='V1', gain=rnd(rng, (1, 2, F(1, 2), -1, 3)))
    c.add('R', 'R2', (2, 0), R=rnd(rng))
    c.add('C', 'C1', (2, 0), C=rnd(rng), v0=maybe_ic(rng, icp))
    return c


def fam_coupled(rng, pat, src, icp):
    """symmetric coupled pair: natural frequencies -R/(L(1 +- k)), rational for every rational k"""
    c = Ckt(['coupled'])
    Lv = rnd(rng, (1, 2, 3, F(1, 2), 4))
    Rv = rnd(rng)
    k = rnd(rng, (F(1, 2), F(1, 3), F(1, 4), F(3, 4), F(2, 3)))
    c.add('V', 'V1', (1, 0), src=src)
    c.add('R', 'R1', (1, 2), R=Rv)
    c.add('L', 'L1', (2, 0), L=Lv, i0=maybe_ic(rng, icp))
    c.add('L', 'L2', (3, 0), L=Lv, i0=maybe_ic(rng, icp))
    c.add('R', 'R2', (3, 0), R=Rv)
    c.add('K', 'K1', (), L1='L1', L2='L2', k=k)
    return c


def fam_two_sources(rng, pat, src, icp):
    """steady state (dc or ac) + causal transient: continuity across t = 0"""
    c = Ckt(['two_sources'])
    s1 = mk_source(rng, rng.choice(['dc', 'dc', 'ac']))
    c.add('V', 'V1', (1, 0), src=s1)
    c.add('R', 'R1', (1, 2), R=rnd(rng))
    if rng.random() < 0.5:
        c.add('C', 'C1', (2, 0), C=rnd(rng))
        c.add('R', 'R2', (2, 3), R=rnd(rng))
        c.add('V', 'V2', (3, 0), src=src)
    else:
        c.add('L', 'L1', (2, 3), L=rnd(rng))
        c.add('R', 'R2', (3, 0), R=rnd(rng))
        c.add('I', 'I1', (3, 0), src=src)
    return c


FAMILIES = [fam_series_rlc, fam_parallel_rlc, fam_rc, fam_rl, fam_cascade, fam_tf, fam_vccs, fam_ccvs, fam_cccs, fam_coupled, fam_two_sources]


# ------------------------------------------------------------------ quantities and textbook laws
def build_case(c, rng):
    """quantities to observe and the laws over them, written from circuit theory and the documented
    sign conventions (passive: cpt.i flows from the first to the second node through the component;
    I and VCCS inject their current into the first node; CCCS draws it there)"""
    quants = []
    qidx = {}

    def q(kind, name):
        k = (kind, name)
        if k not in qidx:
            qidx[k] = len(quants)
            quants.append({'kind': kind, 'name': name})
        return qidx[k]

    nodes = []
    for e in c.elts:
        for n in e['nodes']:
            if n not in nodes:
                nodes.append(n)
    laws = []
    one, mone = g(1), g(-1)

    def nodeterms(coef, n):
        return [] if n == '0' else [[g(coef), q('node', n)]]
    kcl = {n: [] for n in nodes}
    couplings = [e for e in c.elts if e['type'] == 'K']
    for e in c.elts:
        t, nm, nn = e['type'], e['name'], e['nodes']
        if t == 'K':
            continue
        has_i = t not in ('G', 'F')
        jv = q('v', nm)
        ji = q('i', nm) if has_i else None
        # element voltage = difference of node voltages
        laws.append({'k': 'lin', 'name': 'v(%s) = v(%s) - v(%s)' % (nm, nn[0], nn[1]), 'ts': [[one, jv]] + nodeterms(-1, nn[0]) + nodeterms(1, nn[1]), 'w': {'reg': [], 'sing': []}})
        if has_i:
            kcl[nn[0]].append([one, ji])
            kcl[nn[1]].append([mone, ji])
        if t == 'R':
            laws.append({'k': 'lin', 'name': 'Ohm %s' % nm, 'ts': [[one, jv], [g(-e['R']), ji]], 'w': {'reg': [], 'sing': []}})
        elif t == 'C':
            laws.append({'k': 'C', 'name': nm, 'C': fs(e['C']), 'v0': None if e.get('v0') is None else fs(e['v0']), 'jv': jv, 'ji': ji})
        elif t == 'L':
            ms = []
            for k in couplings:
                if nm in (k['L1'], k['L2']):
                    other = c.get(k['L2'] if k['L1'] == nm else k['L1'])
                    M = k['k'] * isqrt_frac(e['L'] * other['L'])
                    ms.append([fs(M), fs(other.get('i0') or 0), q('i', other['name'])])
            laws.append({'k': 'L', 'name': nm, 'L': fs(e['L']), 'i0': None if e.get('i0') is None else fs(e['i0']), 'jv': jv, 'ji': ji, 'ms': ms})
        elif t == 'V':
            laws.append({'k': 'lin', 'name': 'source %s' % nm, 'ts': [[one, jv]], 'w': e['src']['nf']})
        elif t == 'I':
            laws.append({'k': 'lin', 'name': 'source %s' % nm, 'ts': [[one, ji]], 'w': neg_nf(e['src']['nf'])})
        elif t == 'E':
            laws.append({'k': 'lin', 'name': 'VCVS %s' % nm, 'ts': [[one, jv]] + nodeterms(-e['gain'], nn[2]) + nodeterms(e['gain'], nn[3]), 'w': {'reg': [], 'sing': []}})
        elif t == 'G':
            # current from node 1 to node 2 through G is -g (vc+ - vc-)
            for sgn, n in ((1, nn[0]), (-1, nn[1])):
                kcl[n] += nodeterms(-sgn * e['gain'], nn[2]) + nodeterms(sgn * e['gain'], nn[3])
        elif t == 'H':
            laws.append({'k': 'lin', 'name': 'CCVS %s' % nm, 'ts': [[one, jv], [g(-e['gain']), q('i', e['ctrl'])]], 'w': {'reg': [], 'sing': []}})
        elif t == 'F':
            for sgn, n in ((1, nn[0]), (-1, nn[1])):
                kcl[n].append([g(sgn * e['gain']), q('i', e['ctrl'])])
        elif t == 'TF':
            a = e['gain']
            laws.append({'k': 'lin', 'name': 'transformer %s' % nm, 'ts': nodeterms(1, nn[0]) + nodeterms(-1, nn[1]) + nodeterms(-a, nn[2]) + nodeterms(a, nn[3]), 'w': {'reg': [], 'sing': []}})
            kcl[nn[2]].append([g(-a), ji])
            kcl[nn[3]].append([g(a), ji])
    for n in nodes:
        if kcl[n]:
            laws.append({'k': 'lin', 'name': 'KCL at node %s' % n, 'ts': kcl[n], 'w': {'reg': [], 'sing': []}})
    for n in nodes:
        if n != '0':
            q('node', n)
    has_ic = any(e.get('v0') is not None or e.get('i0') is not None for e in c.elts)
    nonzero_ic = any((e.get('v0') or 0) != 0 or (e.get('i0') or 0) != 0 for e in c.elts)
    srcs = [e for e in c.elts if e['type'] in ('V', 'I')]
    all_causal = all(e['src']['causal'] for e in srcs)
    delays = set()
    for e in srcs:
        for r in e['src']['nf']['reg']:
            delays.add(Fraction(r[0]))
    pts = []
    while len(pts) < 3:
        p = Fraction(rng.randint(1, 40), rng.choice([3, 5, 7, 9]))
        if p not in delays and p not in pts:
            pts.append(p)
    return {'netlist': c.lines, 'quants': quants, 'laws': laws, 'points': [fs(p) for p in pts],
            'causal_expected': all_causal and not nonzero_ic, 'tags': c.tags,
            'gen': {'has_ic': has_ic, 'nonzero_ic': nonzero_ic, 'all_causal': all_causal,
                    'src_causal': {e['name']: e['src']['causal'] for e in srcs},
                    'src_tags': [e['src']['tag'] for e in srcs],
                    'zeroic': {e['name']: ((e.get('v0') or e.get('i0') or 0) == 0) for e in c.elts if e['type'] in ('C', 'L')},
                    'k_ic': bool(couplings) and any((c.get(k[x]).get('i0') or 0) != 0 for k in couplings for x in ('L1', 'L2'))},
            'timeout': 150}


def expected_mode(case):
    """flag model input: which bookkeeping the analysis must use (hand model of Analysis / _analysis_groups / MNA._solve)"""
    gen = case['gen']
    if gen['has_ic']:
        return 'FCausal' if (gen['all_causal'] and not gen['nonzero_ic']) else 'FCond'
    if gen['all_causal']:
        return 'FCausal'
    return 'FMixed'


def gen_cases(rng, tier):
    n = int(os.environ.get('VERIF_NCASES', 66 if tier == 'quick' else 600))
    cases = []
    for i in range(n):
        fam = FAMILIES[i % len(FAMILIES)]
        pat = POLE_PATTERNS[(i // len(FAMILIES)) % len(POLE_PATTERNS)] if fam in (fam_series_rlc, fam_parallel_rlc, fam_cascade) else 'na'
        u = rng.random()
        skind = rng.choice(SRC_CAUSAL) if u < 0.8 else rng.choice(['dc', 'ac'])
        icp = [0.0, 0.6, 0.0, 0.4][i % 4]
        hint = None
        c0 = None
        if skind in ('exp', 'texp', 'dexp') and rng.random() < 0.3 and fam in (fam_rc, fam_rl):
            # source pole = natural frequency (first order: -1/RC is chosen after the circuit: retry below)
            pass
        src = mk_source(rng, skind, hint)
        c = fam(rng, pat if pat != 'na' else 'real2', src, icp)
        # resonance: drive a second-order section at one of its own real poles
        if skind in ('exp', 'texp') and getattr(c, 'poles', None) and rng.random() < 0.5:
            real = [Fraction(p[0]) for p in c.poles if Fraction(p[1]) == 0]
            if real:
                src2 = mk_source(rng, skind, real[0])
                for e in c.elts:
                    if e['type'] in ('V', 'I'):
                        e['src'] = src2
                c.lines = [l if not l.startswith(('V1 ', 'I1 ')) else ' '.join(l.split()[:3]) + ' ' + src2['text'] for l in c.lines]
                c.tags.append('resonant_source')
        cases.append(build_case(c, rng))
    return cases


def corpus_cases(rng):
    """fixed circuits that are always run: textbook cases, past failures, the documented defects"""
    out = []
    # series RLC with s^2 + 2 s + 5, zero state and with initial conditions
    for ics in ((None, None), (3, 2)):
        c = Ckt(['corpus', 'series_rlc', 'cpx'])
        c.add('V', 'V1', (1, 0), src=mk_source(random.Random(1), 'step'))
        c.add('R', 'R1', (1, 2), R=2)
        c.add('L', 'L1', (2, 3), L=1, i0=ics[0])
        c.add('C', 'C1', (3, 0), C=F(1, 5), v0=ics[1])
        out.append(build_case(c, rng))
    # impulse into a parallel RC: the capacitor voltage jumps by 1/C
    c = Ckt(['corpus', 'impulse'])
    c.add('I', 'I1', (1, 0), src={'text': '{delta(t)}', 'nf': {'reg': [], 'sing': [[fs(0), 0, g(1)]]}, 'causal': True, 'tag': 'impulse'})
    c.add('R', 'R1', (1, 0), R=2)
    c.add('C', 'C1', (1, 0), C=1)
    out.append(build_case(c, rng))
    # coupled inductors with initial currents (K stamp has no mutual initial-condition term)
    c = Ckt(['corpus', 'coupled', 'k_ic'])
    c.add('L', 'L1', (1, 0), L=2, i0=3)
    c.add('R', 'R1', (1, 0), R=1)
    c.add('L', 'L2', (2, 0), L=2, i0=1)
    c.add('R', 'R2', (2, 0), R=1)
    c.add('K', 'K1', (), L1='L1', L2='L2', k=F(1, 2))
    out.append(build_case(c, rng))
    # dc steady state + step: continuity of the capacitor voltage
    c = Ckt(['corpus', 'two_sources'])
    c.add('V', 'V1', (1, 0), src={'text': 'dc 6', 'nf': {'reg': [[fs(0), 0, g(0), g(6), False]], 'sing': []}, 'causal': False, 'tag': 'dc'})
    c.add('R', 'R1', (1, 2), R=2)
    c.add('C', 'C1', (2, 0), C=1)
    c.add('R', 'R2', (2, 3), R=4)
    c.add('V', 'V2', (3, 0), src={'text': 'step 3', 'nf': {'reg': [[fs(0), 0, g(0), g(3), True]], 'sing': []}, 'causal': True, 'tag': 'step'})
    out.append(build_case(c, rng))
    return out


# ------------------------------------------------------------------ Coq case text
def obs_coq(o):
    reg = '[' + '; '.join('(%s, %d%%nat, %s, %s, %s)' % (qc(e[0]), e[1], qi(e[2]), qi(e[3]), bl(e[4])) for e in o['reg']) + ']'
    sing = '[' + '; '.join('(%s, %d%%nat, %s)' % (qc(e[0]), e[1], qi(e[2])) for e in o['sing']) + ']'
    return '(Obs %s %s %s)' % (bl(o['cond']), reg, sing)


def certs_coq(sd):
    items = []
    for ce in sd:
        ts = '[' + '; '.join('(%s, %s, %d%%nat)' % (qi(r), qi(p), o) for r, p, o in ce['ts']) + ']'
        items.append('mkcert %s %s %s %s %s' % (qc(ce['T']), qilist(ce['B']), qilist(ce['A']), qilist(ce['Q']), ts))
    return '[' + ';\n      '.join(items) + ']'


def nf_dsig_coq(nf):
    """generator normal form -> dsig literal: one (T, Sig sing reg) entry per delay"""
    by = {}
    for T, n, p, c, st in nf.get('reg', []):
        by.setdefault(Fraction(T), {'reg': [], 'sing': {}})['reg'].append('(%s, %d%%nat, %s)' % (qi(c), n, qi(p)))
    for T, k, c in nf.get('sing', []):
        by.setdefault(Fraction(T), {'reg': [], 'sing': {}})['sing'][k] = c
    items = []
    for T in sorted(by):
        sg = by[T]['sing']
        dense = [sg.get(k, g(0)) for k in range(max(sg) + 1)] if sg else []
        items.append('mkd %s %s [%s]' % (qc(T), qilist(dense), '; '.join(by[T]['reg'])))
    return '[' + '; '.join(items) + ']'


def usable(r):
    return 'error' not in r and isinstance(r.get('time'), dict) and 'unparsed' not in r['time'] and isinstance(r.get('sdom'), list)


def coq_case(i, case, wr):
    """(text, meta) of one circuit for cases_k.v, or (None, meta)"""
    meta = {'q_used': [], 'laws_used': []}
    if 'q' not in wr:
        return None, meta
    mode = expected_mode(case)
    remap = {}
    qtxt = []
    for qi_, r in enumerate(wr['q']):
        if usable(r):
            remap[qi_] = len(qtxt)
            meta['q_used'].append(qi_)
            qtxt.append('(Quant %s\n      %s, %s)' % (certs_coq(r['sdom']), obs_coq(r['time']), mode))
    if not qtxt:
        return None, meta
    ltxt = []
    for li, law in enumerate(case['laws']):
        k = law['k']
        if k == 'C':
            if law['jv'] not in remap or law['ji'] not in remap:
                continue
            v0 = law['v0']
            if v0 is None:
                v0 = pre0(wr['q'][law['jv']]['time'])
                if v0 is None:
                    continue
            else:
                v0 = g(v0)
            ltxt.append('LawC %s %s %d%%nat %d%%nat' % (qi(g(law['C'])), qi(v0), remap[law['jv']], remap[law['ji']]))
        elif k == 'L':
            need = [law['jv'], law['ji']] + [m[2] for m in law['ms']]
            if any(j not in remap for j in need):
                continue
            i0 = law['i0']
            ms = []
            ok = True
            if i0 is None:
                i0 = pre0(wr['q'][law['ji']]['time'])
                for M, i0k, jk in law['ms']:
                    pk = pre0(wr['q'][jk]['time'])
                    if pk is None:
                        ok = False
                    ms.append('(%s, %s, %d%%nat)' % (qi(g(M)), qi(pk or g(0)), remap[jk]))
                if i0 is None or not ok:
                    continue
            else:
                i0 = g(i0)
                for M, i0k, jk in law['ms']:
                    ms.append('(%s, %s, %d%%nat)' % (qi(g(M)), qi(g(i0k)), remap[jk]))
            ltxt.append('LawL %s %s %d%%nat %d%%nat [%s]' % (qi(g(law['L'])), qi(i0), remap[law['jv']], remap[law['ji']], '; '.join(ms)))
        else:
            if any(j not in remap for _, j in law['ts']):
                continue
            ts = '[' + '; '.join('(%s, %d%%nat)' % (qi(a), remap[j]) for a, j in law['ts']) + ']'
            ltxt.append('LawLin %s %s' % (ts, nf_dsig_coq(law.get('w', {}))))
        meta['laws_used'].append(li)
    fl = wr.get('flags', {})
    srcc = '[' + '; '.join(bl(v) for _, v in sorted(case['gen']['src_causal'].items())) + ']'
    zic = '[' + '; '.join(bl(v) for _, v in sorted(case['gen']['zeroic'].items())) + ']'
    txt = '(%d%%nat, case_items\n   [%s]\n   [%s]\n   %s %s %s)' % (i, ';\n    '.join(qtxt), ';\n    '.join(ltxt), srcc, zic, bl(fl.get('is_causal', False)))
    return txt, meta


def pre0(o):
    """value just before t = 0 claimed by Lcapy's expression (terms without step), None when not claimed"""
    if o.get('cond'):
        return None
    re, im = Fraction(0), Fraction(0)
    for T, n, p, c, st in o['reg']:
        if not st and n == 0 and Fraction(T) == 0:
            re += Fraction(c[0])
            im += Fraction(c[1])
        elif not st and Fraction(T) != 0:
            return None
    return g(re, im)


def cases_v(items):
    lines = ['(* GENERATED by checks/c02.py (cases). Do not edit. *)',
             'Require Import LT.FieldSec LT.PolyQ LT.QcI LT.ExpPoly LT.ILT LT.ILTCorr LT.TimeDom LT.TimeDomCorr.\n',
             'Definition cases : list (nat * list nat) := [']
    lines.append(';\n'.join(items))
    lines.append('].\nEval vm_compute in (fail_cases cases).\n')
    return '\n'.join(lines)


def parse_fail_cases(out):
    m = re.search(r'=\s*(\[.*?\])\s*:\s*list \(nat \* list nat\)', out, re.S)
    if not m:
        return None
    body = m.group(1)
    res = {}
    for mm in re.finditer(r'\((\d+),\s*\[([^\]]*)\]\)', body.replace('%nat', '')):
        res[int(mm.group(1))] = [int(x) for x in mm.group(2).replace('\n', ' ').split(';') if x.strip()]
    return res
