"""C02 - time-domain responses satisfy the circuit ODEs, the initial state and causality.

  translate  lcapy/mnacpts.py `_stamp` methods -> Gen/StampsGen.v (tools/tr_stamps.py, shared with C01)
             lcapy/mnacpts.py SW._replace_switch, lcapy/netlist.py convert_IVP -> Gen/SwitchGen.v
  prove      theory/TimeDom.v         signal algebra as finite maps; laws Sigma (a + b d/dt) x_j = w;
                                      lcomb_transfer (d/dt -> s), time_law_C, time_law_L (mutual terms),
                                      continuity_C/L, decidable checkers
             theory/TimeDomInj.v      L_injective for every characteristic-0 field (uniqueness of partial fractions)
             theory/TimeDomCircuit.v  physical time-domain semantics per component class and its transfer to the
                                      s-domain semantics of Circuit.v (what C01 proves of the stamps)
             props/C02.v              ode_from_sdomain, continuity, causal_zero, switch_handover (spec)
             props/C02net.v           netlist level on top of the regenerated C01 files: the inverse transforms of
                                      any ivp/s-domain MNA solution satisfy KCL, every ODE and instantaneous law
             Gen/C02_switch.v         the switch comparisons / loop of the CURRENT source agree with the specification
             props/C02init.v + Gen/C02_init.v   initialize(before, T) of the CURRENT source (tools/tr_initialize.py) hands every reactive
                                      component the state variable of `before` at T
  correspond circuits with CHOSEN natural frequencies (real / repeated / complex Gaussian-rational; element values
             derived from the pole pattern) x sources (step, dc, exp, t*exp, cos, delayed, impulse, ac) x initial
             conditions: Lcapy's cpt.v / cpt.i / node voltages parsed to the exp-poly normal form and compared inside
             Coq (vm_compute over Q(i)) with the termwise inverse of the certified s-domain solution; the physical
             laws are checked on the model signals by the verified checker; flag (u(t) / t >= 0) model
  search     exact sympy oracle on Lcapy's raw expressions: i - C v' , v - L i' - M i_k', Ohm, sources, controlled
             sources, transformer, KCL at every node at rational t > 0; limits at 0+/0-; values at t < 0;
             switched circuits: convert_IVP initial conditions vs the interval-by-interval reference
  symbolic   circuits solved with symbolic R, L, C, v0, i0: Lcapy's closed forms (time and s-domain) specialised at a rational
             point with chosen natural frequencies, then the same correspondence / law check / oracle; props/C02.v
             case_items_sound, case_models_are_inverses, case_capacitor_ode state what an empty verdict means
"""
import json
import os
import random
import re
import sys
from fractions import Fraction

sys.path.insert(0, os.path.dirname(os.path.dirname(os.path.abspath(__file__))))
from vlib import core
sys.path.insert(0, os.path.join(core.VERIF, 'tools'))

PID = 'C02'
MANIFEST = {
    'text': 'Coq theorems over an exponential-polynomial-plus-impulses signal algebra (any characteristic-0 field): d/dt of a causal '
            'signal has image s X(s) (L_D), so every law Sigma (a_j + b_j d/dt) x_j = w holds in the time domain iff its image holds in the '
            's-domain off a finite set of s (lcomb_transfer, ode_from_sdomain; uniqueness of partial fractions is PROVED: L_injective_char0); time_law_C: I = C(sV - v0) '
            'gives i = C dv/dt for t > 0 and v(0+) = v0 + impulse/C; time_law_L with mutual terms; continuity_C/L; per-class transfer of '
            'the physical time-domain semantics to the s-domain semantics that C01 proves of the regenerated stamps, and at netlist level '
            '(ode_from_sdomain): the inverse transforms of any ivp/s MNA solution satisfy KCL, every ODE and instantaneous law; '
            'ode_from_mna_wf discharges the coupled-inductor condition from the kind invariant; causal_zero_gen with the causality flags translated from '
            'Analysis.__init__ and MNA._solve; switch_handover for the specification of convert_IVP; the switch comparisons AND the loop of convert_IVP '
            'are translated from the source on every run and proved to perform exactly the specification\'s hand-overs (convert_loop_ok); the hand-over itself '
            '(Netlist.initialize, _initialize_from_circuit, Cpt/C/L._initialize) is translated into a record and proved to give every reactive component the state variable '
            '(capacitor voltage, inductor current) of the same-named component of the previous circuit at T, value and name unchanged (init_gen_ok, initialize_gen_hands_over_state). '
            'Each run ties this to the code: Lcapy\'s time-domain results are parsed to the normal form and compared inside Coq with the '
            'inverse of its own certified s-domain solution, and the laws are checked on those signals by the verified checker '
            '(case_items_sound: an empty verdict means exactly that; case_models_are_inverses; case_capacitor_ode: the ODE and the initial state of every capacitor of an accepted case). '
            'Circuits are also solved with SYMBOLIC element values and initial conditions; the closed forms Lcapy returns are specialised at the rational point the '
            'generator derived from the chosen natural frequencies and go through the same in-Coq comparison, in-Coq law check and exact oracle; a closed form that '
            'is undefined at a point where the poles keep their generic multiplicities is a violation.',
    'note': 'Trusted: Coq kernel/vm_compute; specification coq/theory/ExpPoly.v (signals, D, L) and TimeDomCircuit.v (textbook laws); the '
            'sympy-based parsers in tools/impl_timedom.py; translators tools/tr_stamps.py, tools/tr_switch.py, tools/tr_analysis.py, tools/tr_initialize.py. Partial: poles are found by '
            'sympy (oracle, accepted only through the verified certificate check pf_check), so only Gaussian-rational natural frequencies '
            'are compared inside Coq (symbolic element values: at rational points with Gaussian-rational natural frequencies, distinct from each other and '
            'from the poles of the source - the generic closed form is not defined where they meet, such points are counted as symbolic_degenerate_point_skipped). '
            'ode_from_mna excludes dc analyses and non-constant '
            'gains; coupled inductors with initial currents are covered for the ivp kind (k_ic_ok_wf). The dictionary form of initialize() and the '
            'SWspdt arm stay hand-tied by the instrumented run and the reference initial conditions; UnilateralInverseTransformer.make is C10\'s hand model.',
    'technique': 'Coq proof over an abstract signal algebra + per-class transfer to the C01 stamp semantics + in-Coq correspondence '
                 'evaluation with verified per-case law checking + exact sympy search oracle',
}

THEORY = ['FieldSec', 'PolyQ', 'QcI', 'ExpPoly', 'ILT', 'ILTResidue', 'ILTCorr', 'Circuit', 'MNA', 'CircuitLinear',
          'TimeDom', 'TimeDomCircuit', 'TimeDomCorr']

KEY_F10 = 'ilt:repeated-complex-natural-frequency'
KEY_DELAY_IVP = 'ilt:unexpanded-delayed-terms:initial-value-problem-with-delayed-source'


# ------------------------------------------------------------------ exact helpers
def F(x, d=1):
    return Fraction(x) / Fraction(d)


def fs(x):
    x = Fraction(x)
    return '%d/%d' % (x.numerator, x.denominator)


def val(x):
    """netlist spelling of a rational"""
    x = Fraction(x)
    if x.denominator == 1:
        return str(x.numerator)
    return '{%d/%d}' % (x.numerator, x.denominator)


def ex(x):
    """expression spelling (inside braces)"""
    x = Fraction(x)
    if x.denominator == 1:
        return '(%d)' % x.numerator if x < 0 else str(x.numerator)
    return '(%d/%d)' % (x.numerator, x.denominator)


def g(re, im=0):
    return [fs(re), fs(im)]


def qc(x):
    x = Fraction(x)
    return '(qc (%d) %d)' % (x.numerator, x.denominator)


def qi(gp):
    a, b = Fraction(gp[0]), Fraction(gp[1])
    return '(qi (%d) %d (%d) %d)' % (a.numerator, a.denominator, b.numerator, b.denominator)


def qilist(l):
    return '[' + '; '.join(qi(x) for x in l) + ']'


def bl(x):
    return 'true' if x else 'false'


# ------------------------------------------------------------------ sources
def mk_source(rng, kind, poles_hint=None):
    """returns dict(text=netlist value, nf=normal form, causal=bool, tag=kind)"""
    A = F(rng.choice([1, 2, 3, 5, 10, -4, F(1, 2), F(3, 2)]))
    a = F(rng.choice([1, 2, 3, F(1, 2), F(3, 2), 4]))
    if poles_hint is not None:
        a = -F(poles_hint)
    w = F(rng.choice([1, 2, 3, F(1, 2)]))
    T = F(rng.choice([1, 2, F(1, 2), F(3, 2)]))
    if kind == 'step':
        return {'text': 'step %s' % val(A), 'nf': {'reg': [[fs(0), 0, g(0), g(A), True]], 'sing': []}, 'causal': True, 'tag': kind}
    if kind == 'dc':
        return {'text': 'dc %s' % val(A), 'nf': {'reg': [[fs(0), 0, g(0), g(A), False]], 'sing': []}, 'causal': False, 'tag': kind}
    if kind == 'exp':
        return {'text': '{%s*exp(-%s*t)*u(t)}' % (ex(A), ex(a)), 'nf': {'reg': [[fs(0), 0, g(-a), g(A), True]], 'sing': []}, 'causal': True, 'tag': kind}
    if kind == 'texp':
        return {'text': '{%s*t*exp(-%s*t)*u(t)}' % (ex(A), ex(a)), 'nf': {'reg': [[fs(0), 1, g(-a), g(A), True]], 'sing': []}, 'causal': True, 'tag': kind}
    if kind == 'tpow':      # polynomial in t: a pole of order k + 1 at the origin
        k = rng.choice([2, 3, 3, 4])
        fact = 1
        for j in range(2, k + 1):
            fact *= j
        return {'text': '{%s*t**%d*u(t)}' % (ex(A), k), 'nf': {'reg': [[fs(0), k, g(0), g(A * fact), True]], 'sing': []}, 'causal': True, 'tag': kind}
    if kind == 'tpowexp':   # t^k e^{-a t}: a pole of order k + 1 at -a
        k = rng.choice([2, 3])
        fact = 2 if k == 2 else 6
        return {'text': '{%s*t**%d*exp(-%s*t)*u(t)}' % (ex(A), k, ex(a)), 'nf': {'reg': [[fs(0), k, g(-a), g(A * fact), True]], 'sing': []}, 'causal': True, 'tag': kind}
    if kind == 'ramp':
        return {'text': '{%s*t*u(t)}' % ex(A), 'nf': {'reg': [[fs(0), 1, g(0), g(A), True]], 'sing': []}, 'causal': True, 'tag': kind}
    if kind == 'dstep':
        return {'text': '{%s*u(t-%s)}' % (ex(A), ex(T)), 'nf': {'reg': [[fs(T), 0, g(0), g(A), True]], 'sing': []}, 'causal': True, 'tag': kind}
    if kind == 'dexp':
        return {'text': '{%s*exp(-%s*(t-%s))*u(t-%s)}' % (ex(A), ex(a), ex(T), ex(T)), 'nf': {'reg': [[fs(T), 0, g(-a), g(A), True]], 'sing': []}, 'causal': True, 'tag': kind}
    if kind == 'pulse':
        return {'text': '{%s*u(t)-%s*u(t-%s)}' % (ex(A), ex(A), ex(T)),
                'nf': {'reg': [[fs(0), 0, g(0), g(A), True], [fs(T), 0, g(0), g(-A), True]], 'sing': []}, 'causal': True, 'tag': kind}
    if kind == 'impulse':
        return {'text': '{%s*delta(t)}' % ex(A), 'nf': {'reg': [], 'sing': [[fs(0), 0, g(A)]]}, 'causal': True, 'tag': kind}
    if kind == 'cos':
        return {'text': '{%s*cos(%s*t)*u(t)}' % (ex(A), ex(w)),
                'nf': {'reg': [[fs(0), 0, g(0, w), g(A / 2), True], [fs(0), 0, g(0, -w), g(A / 2), True]], 'sing': []}, 'causal': True, 'tag': kind}
    if kind == 'sin':
        return {'text': '{%s*sin(%s*t)*u(t)}' % (ex(A), ex(w)),
                'nf': {'reg': [[fs(0), 0, g(0, w), g(0, -A / 2), True], [fs(0), 0, g(0, -w), g(0, A / 2), True]], 'sing': []}, 'causal': True, 'tag': kind}
    if kind == 'dcos':     # damped cosine
        return {'text': '{%s*exp(-%s*t)*cos(%s*t)*u(t)}' % (ex(A), ex(a), ex(w)),
                'nf': {'reg': [[fs(0), 0, g(-a, w), g(A / 2), True], [fs(0), 0, g(-a, -w), g(A / 2), True]], 'sing': []}, 'causal': True, 'tag': kind}
    if kind == 'ac':
        return {'text': 'ac %s 0 %s' % (val(A), val(w)),
                'nf': {'reg': [[fs(0), 0, g(0, w), g(A / 2), False], [fs(0), 0, g(0, -w), g(A / 2), False]], 'sing': []}, 'causal': False, 'tag': kind}
    raise ValueError(kind)


SRC_CAUSAL = ['step', 'exp', 'texp', 'ramp', 'dstep', 'dexp', 'pulse', 'impulse', 'cos', 'sin', 'dcos', 'tpow', 'tpowexp']
SRC_ALL = SRC_CAUSAL + ['dc', 'ac']


def neg_nf(nf):
    def ng(c):
        return [fs(-Fraction(c[0])), fs(-Fraction(c[1]))]
    return {'reg': [[T, n, p, ng(c), st] for T, n, p, c, st in nf['reg']], 'sing': [[T, k, ng(c)] for T, k, c in nf['sing']]}


# ------------------------------------------------------------------ circuits
class Ckt:
    """a circuit under construction: netlist lines + the generator's own knowledge of every element"""

    def __init__(self, tags):
        self.lines = []
        self.elts = []      # dicts: type, name, nodes, params
        self.tags = list(tags)

    def add(self, typ, name, nodes, **kw):
        e = dict(kw, type=typ, name=name, nodes=[str(n) for n in nodes])
        self.elts.append(e)
        n = ' '.join(e['nodes'])
        if typ == 'R':
            self.lines.append('%s %s %s' % (name, n, val(kw['R'])))
        elif typ == 'C':
            self.lines.append('%s %s %s' % (name, n, val(kw['C'])) + ('' if kw.get('v0') is None else ' %s' % val(kw['v0'])))
        elif typ == 'L':
            self.lines.append('%s %s %s' % (name, n, val(kw['L'])) + ('' if kw.get('i0') is None else ' %s' % val(kw['i0'])))
        elif typ in ('V', 'I'):
            self.lines.append('%s %s %s' % (name, n, kw['src']['text']))
        elif typ in ('E', 'G'):
            self.lines.append('%s %s %s' % (name, n, val(kw['gain'])))
        elif typ in ('H', 'F'):
            self.lines.append('%s %s %s %s' % (name, n, kw['ctrl'], val(kw['gain'])))
        elif typ == 'TF':
            self.lines.append('%s %s %s' % (name, n, val(kw['gain'])))
        elif typ == 'K':
            self.lines.append('%s %s %s %s' % (name, kw['L1'], kw['L2'], val(kw['k'])))
        else:
            raise ValueError(typ)
        return self

    def get(self, name):
        for e in self.elts:
            if e['name'] == name:
                return e
        raise KeyError(name)


def isqrt_frac(x):
    from math import isqrt
    x = Fraction(x)
    a, b = isqrt(x.numerator), isqrt(x.denominator)
    assert a * a == x.numerator and b * b == x.denominator
    return Fraction(a, b)


POLE_PATTERNS = ['real2', 'rep2', 'cpx', 'cpx_slow', 'imag']


def pick_poles(rng, pat):
    """(sigma = p1 + p2, pi = p1 p2, list of poles as Gaussian pairs) of a second-order section"""
    if pat == 'real2':
        a, b = rng.sample([F(1), F(2), F(3), F(4), F(1, 2), F(3, 2), F(5)], 2)
        return -(a + b), a * b, [g(-a), g(-b)]
    if pat == 'rep2':
        a = rng.choice([F(1), F(2), F(3), F(1, 2), F(3, 2)])
        return -2 * a, a * a, [g(-a), g(-a)]
    if pat in ('cpx', 'cpx_slow'):
        a = rng.choice([F(1), F(2), F(3), F(1, 2)]) if pat == 'cpx' else rng.choice([F(1, 2), F(1, 3)])
        w = rng.choice([F(1), F(2), F(3), F(3, 2), F(4)])
        return -2 * a, a * a + w * w, [g(-a, w), g(-a, -w)]
    if pat == 'imag':
        w = rng.choice([F(1), F(2), F(3), F(1, 2)])
        return F(0), w * w, [g(0, w), g(0, -w)]
    raise ValueError(pat)


def rnd(rng, pool=(1, 2, 3, 4, 5, F(1, 2), F(3, 2), F(1, 3), F(2, 3))):
    return F(rng.choice(pool))


def maybe_ic(rng, p):
    return rnd(rng, (1, 2, 3, -1, -2, F(1, 2), 4)) if rng.random() < p else None


def fam_series_rlc(rng, pat, src, icp):
    sg, pi, poles = pick_poles(rng, pat)
    Lv = rnd(rng)
    c = Ckt(['series_rlc', pat])
    c.add('V', 'V1', (1, 0), src=src)
    if sg != 0:
        c.add('R', 'R1', (1, 2), R=-sg * Lv)
        c.add('L', 'L1', (2, 3), L=Lv, i0=maybe_ic(rng, icp))
    else:
        c.add('L', 'L1', (1, 3), L=Lv, i0=maybe_ic(rng, icp))
    c.add('C', 'C1', (3, 0), C=1 / (Lv * pi), v0=maybe_ic(rng, icp))
    c.poles = poles
    return c


def fam_parallel_rlc(rng, pat, src, icp):
    sg, pi, poles = pick_poles(rng, pat)
    Cv = rnd(rng)
    c = Ckt(['parallel_rlc', pat])
    c.add('I', 'I1', (1, 0), src=src)
    if sg != 0:
        c.add('R', 'R1', (1, 0), R=-1 / (sg * Cv))
    c.add('L', 'L1', (1, 0), L=1 / (Cv * pi), i0=maybe_ic(rng, icp))
    c.add('C', 'C1', (1, 0), C=Cv, v0=maybe_ic(rng, icp))
    c.poles = poles
    return c


def fam_rc(rng, pat, src, icp):
    c = Ckt(['rc'])
    c.add('V', 'V1', (1, 0), src=src)
    c.add('R', 'R1', (1, 2), R=rnd(rng))
    c.add('C', 'C1', (2, 0), C=rnd(rng), v0=maybe_ic(rng, icp))
    if rng.random() < 0.5:
        c.add('R', 'R2', (2, 0), R=rnd(rng))
    return c


def fam_rl(rng, pat, src, icp):
    c = Ckt(['rl'])
    if rng.random() < 0.5:
        c.add('V', 'V1', (1, 0), src=src)
        c.add('R', 'R1', (1, 2), R=rnd(rng))
        c.add('L', 'L1', (2, 0), L=rnd(rng), i0=maybe_ic(rng, icp))
    else:
        c.add('I', 'I1', (1, 0), src=src)
        c.add('R', 'R1', (1, 0), R=rnd(rng))
        c.add('R', 'R2', (1, 2), R=rnd(rng))
        c.add('L', 'L1', (2, 0), L=rnd(rng), i0=maybe_ic(rng, icp))
    return c


def fam_cascade(rng, pat, src, icp):
    """two sections isolated by a VCVS buffer: the natural frequencies are the union (with
    multiplicity) of the sections' - repeated real and repeated complex pairs on demand"""
    c = Ckt(['cascade', pat])
    c.add('V', 'V1', (1, 0), src=src)
    same = rng.random() < 0.6
    if pat in ('real2', 'rep2'):
        R1, C1 = rnd(rng), rnd(rng)
        c.add('R', 'R1', (1, 2), R=R1)
        c.add('C', 'C1', (2, 0), C=C1, v0=maybe_ic(rng, icp))
        c.add('E', 'E1', (3, 0, 2, 0), gain=rnd(rng, (1, 2, 3, -1, F(1, 2))))
        if same or pat == 'rep2':
            R2 = rnd(rng)
            c.add('R', 'R2', (3, 4), R=R2)
            c.add('C', 'C2', (4, 0), C=R1 * C1 / R2, v0=maybe_ic(rng, icp))
            c.tags.append('repeated_real')
        else:
            c.add('R', 'R2', (3, 4), R=rnd(rng))
            c.add('L', 'L2', (4, 0), L=rnd(rng), i0=maybe_ic(rng, icp))
    else:
        sg, pi, poles = pick_poles(rng, pat if pat != 'imag' else 'cpx')
        Lv = rnd(rng)
        c.add('R', 'R1', (1, 2), R=-sg * Lv)
        c.add('L', 'L1', (2, 3), L=Lv, i0=maybe_ic(rng, icp))
        c.add('C', 'C1', (3, 0), C=1 / (Lv * pi), v0=maybe_ic(rng, icp))
        c.add('E', 'E1', (4, 0, 3, 0), gain=rnd(rng, (1, 2, -1, F(1, 2))))
        if same:
            L2 = rnd(rng)
            c.add('R', 'R2', (4, 5), R=-sg * L2)
            c.add('L', 'L2', (5, 6), L=L2, i0=maybe_ic(rng, icp))
            c.add('C', 'C2', (6, 0), C=1 / (L2 * pi), v0=maybe_ic(rng, icp))
            c.tags.append('repeated_complex')
        else:
            c.add('R', 'R2', (4, 5), R=rnd(rng))
            c.add('C', 'C2', (5, 0), C=rnd(rng), v0=maybe_ic(rng, icp))
    return c


def fam_chain(rng, pat, src, icp, nst=None):
    """3 or 4 IDENTICAL first-order sections isolated by VCVS buffers: one natural frequency of
    multiplicity 3 or 4 (plus the poles of the source)"""
    nst = nst or rng.choice([3, 4])
    c = Ckt(['chain', 'mult%d' % nst])
    c.add('V', 'V1', (1, 0), src=src)
    tau = rnd(rng, (1, 2, F(1, 2), F(3, 2)))
    node = 1
    nxt = 2
    for k in range(1, nst + 1):
        Rk = rnd(rng, (1, 2, F(1, 2), 3))
        c.add('R', 'R%d' % k, (node, nxt), R=Rk)
        c.add('C', 'C%d' % k, (nxt, 0), C=tau / Rk, v0=maybe_ic(rng, icp / 2))
        if k < nst:
            c.add('E', 'E%d' % k, (nxt + 1, 0, nxt, 0), gain=rnd(rng, (1, 1, 2, -1)))
            node = nxt + 1
            nxt = nxt + 2
    return c


def fam_tf(rng, pat, src, icp):
    c = Ckt(['transformer'])
    c.add('V', 'V1', (1, 0), src=src)
    c.add('R', 'R1', (1, 2), R=rnd(rng))
    c.add('TF', 'TF1', (3, 0, 2, 0), gain=rnd(rng, (2, 3, F(1, 2), -2, F(3, 2))))
    if rng.random() < 0.5:
        c.add('C', 'C1', (3, 0), C=rnd(rng), v0=maybe_ic(rng, icp))
        c.add('R', 'R2', (3, 0), R=rnd(rng))
    else:
        c.add('R', 'R2', (3, 4), R=rnd(rng))
        c.add('L', 'L1', (4, 0), L=rnd(rng), i0=maybe_ic(rng, icp))
    return c


def fam_vccs(rng, pat, src, icp):
    c = Ckt(['vccs'])
    c.add('V', 'V1', (1, 0), src=src)
    c.add('R', 'R1', (1, 0), R=rnd(rng))
    c.add('G', 'G1', (2, 0, 1, 0), gain=rnd(rng, (1, 2, F(1, 2), -1, 3)))
    c.add('R', 'R2', (2, 0), R=rnd(rng))
    c.add('C', 'C1', (2, 0), C=rnd(rng), v0=maybe_ic(rng, icp))
    return c


def fam_ccvs(rng, pat, src, icp):
    c = Ckt(['ccvs'])
    c.add('V', 'V1', (1, 0), src=src)
    c.add('R', 'R1', (1, 0), R=rnd(rng))
    c.add('H', 'H1', (2, 0), ctrl='V1', gain=rnd(rng, (1, 2, F(1, 2), -1, 3)))
    c.add('R', 'R2', (2, 3), R=rnd(rng))
    if rng.random() < 0.5:
        c.add('C', 'C1', (3, 0), C=rnd(rng), v0=maybe_ic(rng, icp))
    else:
        c.add('L', 'L1', (3, 0), L=rnd(rng), i0=maybe_ic(rng, icp))
    return c


def fam_cccs(rng, pat, src, icp):
    c = Ckt(['cccs'])
    c.add('V', 'V1', (1, 0), src=src)
    c.add('R', 'R1', (1, 0), R=rnd(rng))
    c.add('F', 'F1', (2, 0), ctrl='V1', gain=rnd(rng, (1, 2, F(1, 2), -1, 3)))
    c.add('R', 'R2', (2, 0), R=rnd(rng))
    c.add('C', 'C1', (2, 0), C=rnd(rng), v0=maybe_ic(rng, icp))
    return c


def fam_coupled(rng, pat, src, icp):
    """symmetric coupled pair: natural frequencies -R/(L(1 +- k)), rational for every rational k"""
    c = Ckt(['coupled'])
    Lv = rnd(rng, (1, 2, 3, F(1, 2), 4))
    Rv = rnd(rng)
    k = rnd(rng, (F(1, 2), F(1, 3), F(1, 4), F(3, 4), F(2, 3)))
    c.add('V', 'V1', (1, 0), src=src)
    c.add('R', 'R1', (1, 2), R=Rv)
    c.add('L', 'L1', (2, 0), L=Lv, i0=maybe_ic(rng, icp))
    c.add('L', 'L2', (3, 0), L=Lv, i0=maybe_ic(rng, icp))
    c.add('R', 'R2', (3, 0), R=Rv)
    c.add('K', 'K1', (), L1='L1', L2='L2', k=k)
    return c


def fam_two_sources(rng, pat, src, icp):
    """steady state (dc or ac) + causal transient: continuity across t = 0"""
    c = Ckt(['two_sources'])
    s1 = mk_source(rng, rng.choice(['dc', 'dc', 'ac']))
    c.add('V', 'V1', (1, 0), src=s1)
    c.add('R', 'R1', (1, 2), R=rnd(rng))
    if rng.random() < 0.5:
        c.add('C', 'C1', (2, 0), C=rnd(rng))
        c.add('R', 'R2', (2, 3), R=rnd(rng))
        c.add('V', 'V2', (3, 0), src=src)
    else:
        c.add('L', 'L1', (2, 3), L=rnd(rng))
        c.add('R', 'R2', (3, 0), R=rnd(rng))
        c.add('I', 'I1', (3, 0), src=src)
    return c


FAMILIES = [fam_series_rlc, fam_parallel_rlc, fam_rc, fam_rl, fam_cascade, fam_tf, fam_vccs, fam_ccvs, fam_cccs, fam_coupled, fam_two_sources, fam_chain]


# ------------------------------------------------------------------ quantities and textbook laws
def build_case(c, rng):
    """quantities to observe and the laws over them, written from circuit theory and the documented
    sign conventions (passive: cpt.i flows from the first to the second node through the component;
    I and VCCS inject their current into the first node; CCCS draws it there)"""
    quants = []
    qidx = {}

    def q(kind, name):
        k = (kind, name)
        if k not in qidx:
            qidx[k] = len(quants)
            quants.append({'kind': kind, 'name': name})
        return qidx[k]

    nodes = []
    for e in c.elts:
        for n in e['nodes']:
            if n not in nodes:
                nodes.append(n)
    laws = []
    one, mone = g(1), g(-1)

    def nodeterms(coef, n):
        return [] if n == '0' else [[g(coef), q('node', n)]]
    kcl = {n: [] for n in nodes}
    couplings = [e for e in c.elts if e['type'] == 'K']
    for e in c.elts:
        t, nm, nn = e['type'], e['name'], e['nodes']
        if t == 'K':
            continue
        has_i = t not in ('G', 'F')
        jv = q('v', nm)
        ji = q('i', nm) if has_i else None
        # element voltage = difference of node voltages
        laws.append({'k': 'lin', 'name': 'v(%s) = v(%s) - v(%s)' % (nm, nn[0], nn[1]), 'ts': [[one, jv]] + nodeterms(-1, nn[0]) + nodeterms(1, nn[1]), 'w': {'reg': [], 'sing': []}})
        if has_i:
            kcl[nn[0]].append([one, ji])
            kcl[nn[1]].append([mone, ji])
        if t == 'R':
            laws.append({'k': 'lin', 'name': 'Ohm %s' % nm, 'ts': [[one, jv], [g(-e['R']), ji]], 'w': {'reg': [], 'sing': []}})
        elif t == 'C':
            laws.append({'k': 'C', 'name': nm, 'C': fs(e['C']), 'v0': None if e.get('v0') is None else fs(e['v0']), 'jv': jv, 'ji': ji})
        elif t == 'L':
            ms = []
            for k in couplings:
                if nm in (k['L1'], k['L2']):
                    other = c.get(k['L2'] if k['L1'] == nm else k['L1'])
                    M = k['k'] * isqrt_frac(e['L'] * other['L'])
                    ms.append([fs(M), fs(other.get('i0') or 0), q('i', other['name'])])
            laws.append({'k': 'L', 'name': nm, 'L': fs(e['L']), 'i0': None if e.get('i0') is None else fs(e['i0']), 'jv': jv, 'ji': ji, 'ms': ms})
        elif t == 'V':
            laws.append({'k': 'lin', 'name': 'source %s' % nm, 'ts': [[one, jv]], 'w': e['src']['nf']})
        elif t == 'I':
            laws.append({'k': 'lin', 'name': 'source %s' % nm, 'ts': [[one, ji]], 'w': neg_nf(e['src']['nf'])})
        elif t == 'E':
            laws.append({'k': 'lin', 'name': 'VCVS %s' % nm, 'ts': [[one, jv]] + nodeterms(-e['gain'], nn[2]) + nodeterms(e['gain'], nn[3]), 'w': {'reg': [], 'sing': []}})
        elif t == 'G':
            # current from node 1 to node 2 through G is -g (vc+ - vc-)
            for sgn, n in ((1, nn[0]), (-1, nn[1])):
                kcl[n] += nodeterms(-sgn * e['gain'], nn[2]) + nodeterms(sgn * e['gain'], nn[3])
        elif t == 'H':
            laws.append({'k': 'lin', 'name': 'CCVS %s' % nm, 'ts': [[one, jv], [g(-e['gain']), q('i', e['ctrl'])]], 'w': {'reg': [], 'sing': []}})
        elif t == 'F':
            for sgn, n in ((1, nn[0]), (-1, nn[1])):
                kcl[n].append([g(sgn * e['gain']), q('i', e['ctrl'])])
        elif t == 'TF':
            a = e['gain']
            laws.append({'k': 'lin', 'name': 'transformer %s' % nm, 'ts': nodeterms(1, nn[0]) + nodeterms(-1, nn[1]) + nodeterms(-a, nn[2]) + nodeterms(a, nn[3]), 'w': {'reg': [], 'sing': []}})
            kcl[nn[2]].append([g(-a), ji])
            kcl[nn[3]].append([g(a), ji])
    for n in nodes:
        if kcl[n]:
            laws.append({'k': 'lin', 'name': 'KCL at node %s' % n, 'ts': kcl[n], 'w': {'reg': [], 'sing': []}})
    for n in nodes:
        if n != '0':
            q('node', n)
    has_ic = any(e.get('v0') is not None or e.get('i0') is not None for e in c.elts)
    nonzero_ic = any((e.get('v0') or 0) != 0 or (e.get('i0') or 0) != 0 for e in c.elts)
    srcs = [e for e in c.elts if e['type'] in ('V', 'I')]
    all_causal = all(e['src']['causal'] for e in srcs)
    delays = set()
    for e in srcs:
        for r in e['src']['nf']['reg']:
            delays.add(Fraction(r[0]))
    pts = []
    while len(pts) < 3:
        p = Fraction(rng.randint(1, 40), rng.choice([3, 5, 7, 9]))
        if p not in delays and p not in pts:
            pts.append(p)
    return {'netlist': c.lines, 'quants': quants, 'laws': laws, 'points': [fs(p) for p in pts],
            'causal_expected': all_causal and not nonzero_ic, 'tags': c.tags,
            'gen': {'has_ic': has_ic, 'nonzero_ic': nonzero_ic, 'all_causal': all_causal,
                    'src_causal': {e['name']: e['src']['causal'] for e in srcs},
                    'src_tags': [e['src']['tag'] for e in srcs],
                    'zeroic': {e['name']: ((e.get('v0') or e.get('i0') or 0) == 0) for e in c.elts if e['type'] in ('C', 'L')},
                    'k_ic': bool(couplings) and any((c.get(k[x]).get('i0') or 0) != 0 for k in couplings for x in ('L1', 'L2'))},
            'timeout': 150}


# ------------------------------------------------------------------ symbolic element values
SYM_FAMILIES = [fam_series_rlc, fam_parallel_rlc, fam_rc, fam_rl, fam_tf, fam_vccs, fam_ccvs, fam_cccs, fam_two_sources]
SYM_PATTERNS = ['real2', 'cpx', 'cpx_slow', 'imag']      # distinct natural frequencies: the generic closed form is defined at the point


def symbolize(c, rng):
    """symbolic twin of a generated circuit: the values of R, L, C (always) and the positive initial conditions
    (sometimes) become symbols; returns (netlist lines, {symbol name: value at the generator's point}).
    Lcapy's symbols are positive, so only positive values are substituted (the closed form may use sqrt(x**2) = x)."""
    lines, subs = [], {}
    for e, ln in zip(c.elts, c.lines):
        t, nm = e['type'], e['name']
        n = ' '.join(e['nodes'])
        if t == 'R':
            subs[nm] = fs(e['R'])
            lines.append('%s %s %s' % (nm, n, nm))
        elif t in ('C', 'L'):
            subs[nm] = fs(e[t])
            ic = e.get('v0' if t == 'C' else 'i0')
            if ic is None:
                lines.append('%s %s %s' % (nm, n, nm))
            elif ic > 0 and rng.random() < 0.7:
                sn = ('v0' if t == 'C' else 'i0') + nm
                subs[sn] = fs(ic)
                lines.append('%s %s %s %s' % (nm, n, nm, sn))
            else:
                lines.append('%s %s %s %s' % (nm, n, nm, val(ic)))
        else:
            lines.append(ln)
    return lines, subs


def gen_symbolic_cases(rng, tier):
    """circuits solved by Lcapy with SYMBOLIC element values; the returned closed forms (time and s-domain) are specialised
    at the rational point the generator derived from the chosen natural frequencies and then go through the same in-Coq
    comparison, in-Coq law check and exact oracle as the numeric circuits (laws written with the values of the point)"""
    n = int(os.environ.get('VERIF_NSYM', 10 if tier == 'quick' else 96))
    out = []
    kinds = [k for k in SRC_ALL if k not in ('tpow', 'tpowexp')]
    for i in range(n):
        fam = SYM_FAMILIES[i % len(SYM_FAMILIES)]
        pat = SYM_PATTERNS[(i + i // len(SYM_FAMILIES)) % len(SYM_PATTERNS)]
        skind = rng.choice(kinds) if rng.random() < 0.85 else rng.choice(['dc', 'ac'])
        icp = [0.0, 0.7, 0.4][i % 3]
        c = fam(rng, pat, mk_source(rng, skind), icp)
        case = build_case(c, rng)
        case['netlist'], case['subs'] = symbolize(c, rng)
        case['numeric_netlist'] = c.lines
        case['tags'] = list(case['tags']) + ['symbolic']
        out.append(case)
    return out


def expected_mode(case):
    """flag model input: which bookkeeping the analysis must use (hand model of Analysis / _analysis_groups / MNA._solve)"""
    gen = case['gen']
    if gen['has_ic']:
        return 'FCausal' if (gen['all_causal'] and not gen['nonzero_ic']) else 'FCond'
    if gen['all_causal']:
        return 'FCausal'
    return 'FMixed'


def gen_cases(rng, tier):
    n = int(os.environ.get('VERIF_NCASES', 44 if tier == 'quick' else 600))
    cases = []
    for i in range(n):
        fam = FAMILIES[i % len(FAMILIES)]
        pat = POLE_PATTERNS[(i // len(FAMILIES)) % len(POLE_PATTERNS)] if fam in (fam_series_rlc, fam_parallel_rlc, fam_cascade) else 'na'
        u = rng.random()
        skind = rng.choice(SRC_CAUSAL) if u < 0.8 else rng.choice(['dc', 'ac'])
        icp = [0.0, 0.6, 0.0, 0.4][i % 4]
        hint = None
        c0 = None
        if skind in ('exp', 'texp', 'dexp') and rng.random() < 0.3 and fam in (fam_rc, fam_rl):
            # source pole = natural frequency (first order: -1/RC is chosen after the circuit: retry below)
            pass
        src = mk_source(rng, skind, hint)
        c = fam(rng, pat if pat != 'na' else 'real2', src, icp)
        # resonance: drive a second-order section at one of its own real poles
        if skind in ('exp', 'texp') and getattr(c, 'poles', None) and rng.random() < 0.5:
            real = [Fraction(p[0]) for p in c.poles if Fraction(p[1]) == 0]
            if real:
                src2 = mk_source(rng, skind, real[0])
                for e in c.elts:
                    if e['type'] in ('V', 'I'):
                        e['src'] = src2
                c.lines = [l if not l.startswith(('V1 ', 'I1 ')) else ' '.join(l.split()[:3]) + ' ' + src2['text'] for l in c.lines]
                c.tags.append('resonant_source')
        cases.append(build_case(c, rng))
    return cases


def corpus_cases(rng):
    """fixed circuits that are always run: textbook cases, past failures, the documented defects"""
    out = []
    # series RLC with s^2 + 2 s + 5, zero state and with initial conditions
    for ics in ((None, None), (3, 2)):
        c = Ckt(['corpus', 'series_rlc', 'cpx'])
        c.add('V', 'V1', (1, 0), src=mk_source(random.Random(1), 'step'))
        c.add('R', 'R1', (1, 2), R=2)
        c.add('L', 'L1', (2, 3), L=1, i0=ics[0])
        c.add('C', 'C1', (3, 0), C=F(1, 5), v0=ics[1])
        out.append(build_case(c, rng))
    # impulse into a parallel RC: the capacitor voltage jumps by 1/C
    c = Ckt(['corpus', 'impulse'])
    c.add('I', 'I1', (1, 0), src={'text': '{delta(t)}', 'nf': {'reg': [], 'sing': [[fs(0), 0, g(1)]]}, 'causal': True, 'tag': 'impulse'})
    c.add('R', 'R1', (1, 0), R=2)
    c.add('C', 'C1', (1, 0), C=1)
    out.append(build_case(c, rng))
    # coupled inductors with initial currents: i_L1(0+) = 3, i_L2(0+) = 1 (the K stamp carries the mutual flux M i0k)
    c = Ckt(['corpus', 'coupled', 'k_ic'])
    c.add('L', 'L1', (1, 0), L=2, i0=3)
    c.add('R', 'R1', (1, 0), R=1)
    c.add('L', 'L2', (2, 0), L=2, i0=1)
    c.add('R', 'R2', (2, 0), R=1)
    c.add('K', 'K1', (), L1='L1', L2='L2', k=F(1, 2))
    out.append(build_case(c, rng))
    # dc steady state + step: continuity of the capacitor voltage
    c = Ckt(['corpus', 'two_sources'])
    c.add('V', 'V1', (1, 0), src={'text': 'dc 6', 'nf': {'reg': [[fs(0), 0, g(0), g(6), False]], 'sing': []}, 'causal': False, 'tag': 'dc'})
    c.add('R', 'R1', (1, 2), R=2)
    c.add('C', 'C1', (2, 0), C=1)
    c.add('R', 'R2', (2, 3), R=4)
    c.add('V', 'V2', (3, 0), src={'text': 'step 3', 'nf': {'reg': [[fs(0), 0, g(0), g(3), True]], 'sing': []}, 'causal': True, 'tag': 'step'})
    out.append(build_case(c, rng))
    # two identical buffered RLC sections: a repeated complex pair of natural frequencies (F10 end to end)
    c = Ckt(['corpus', 'cascade', 'cpx', 'repeated_complex'])
    c.add('V', 'V1', (1, 0), src={'text': 'step 2', 'nf': {'reg': [[fs(0), 0, g(0), g(2), True]], 'sing': []}, 'causal': True, 'tag': 'step'})
    c.add('R', 'R1', (1, 2), R=2)
    c.add('L', 'L1', (2, 3), L=1)
    c.add('C', 'C1', (3, 0), C=F(1, 5))
    c.add('E', 'E1', (4, 0, 3, 0), gain=1)
    c.add('R', 'R2', (4, 5), R=2)
    c.add('L', 'L2', (5, 6), L=1)
    c.add('C', 'C2', (6, 0), C=F(1, 5))
    out.append(build_case(c, rng))
    # natural frequencies of multiplicity 4: cubic ramp into an RC section (order-4 pole at 0), unit step into four
    # identical buffered RC sections (order-4 pole at -1): the residues of order < 4 need the higher derivatives / k!
    c = Ckt(['corpus', 'rc', 'mult4_origin'])
    c.add('V', 'V1', (1, 0), src={'text': '{t**3*u(t)}', 'nf': {'reg': [[fs(0), 3, g(0), g(6), True]], 'sing': []}, 'causal': True, 'tag': 'tpow'})
    c.add('R', 'R1', (1, 2), R=1)
    c.add('C', 'C1', (2, 0), C=1)
    out.append(build_case(c, rng))
    c = Ckt(['corpus', 'chain', 'mult4'])
    c.add('V', 'V1', (1, 0), src={'text': 'step 1', 'nf': {'reg': [[fs(0), 0, g(0), g(1), True]], 'sing': []}, 'causal': True, 'tag': 'step'})
    for k in range(1, 5):
        c.add('R', 'R%d' % k, (2 * k - 1, 2 * k), R=1)
        c.add('C', 'C%d' % k, (2 * k, 0), C=1)
        if k < 4:
            c.add('E', 'E%d' % k, (2 * k + 1, 0, 2 * k, 0), gain=1)
    out.append(build_case(c, rng))
    # initial value problem with a delayed source
    c = Ckt(['corpus', 'rc', 'delayed_ivp'])
    c.add('V', 'V1', (1, 0), src={'text': '{5*exp(-(3/2)*(t-2))*u(t-2)}', 'nf': {'reg': [[fs(2), 0, g(F(-3, 2)), g(5), True]], 'sing': []}, 'causal': True, 'tag': 'dexp'})
    c.add('R', 'R1', (1, 2), R=F(1, 3))
    c.add('C', 'C1', (2, 0), C=F(1, 3), v0=-2)
    c.add('R', 'R2', (2, 0), R=5)
    out.append(build_case(c, rng))
    return out


# ------------------------------------------------------------------ Coq case text
def obs_coq(o):
    reg = '[' + '; '.join('(%s, %d%%nat, %s, %s, %s)' % (qc(e[0]), e[1], qi(e[2]), qi(e[3]), bl(e[4])) for e in o['reg']) + ']'
    sing = '[' + '; '.join('(%s, %d%%nat, %s)' % (qc(e[0]), e[1], qi(e[2])) for e in o['sing']) + ']'
    return '(Obs %s %s %s)' % (bl(o['cond']), reg, sing)


def certs_coq(sd):
    items = []
    for ce in sd:
        ts = '[' + '; '.join('(%s, %s, %d%%nat)' % (qi(r), qi(p), o) for r, p, o in ce['ts']) + ']'
        items.append('mkcert %s %s %s %s %s' % (qc(ce['T']), qilist(ce['B']), qilist(ce['A']), qilist(ce['Q']), ts))
    return '[' + ';\n      '.join(items) + ']'


def nf_dsig_coq(nf):
    """generator normal form -> dsig literal: one (T, Sig sing reg) entry per delay"""
    by = {}
    for T, n, p, c, st in nf.get('reg', []):
        by.setdefault(Fraction(T), {'reg': [], 'sing': {}})['reg'].append('(%s, %d%%nat, %s)' % (qi(c), n, qi(p)))
    for T, k, c in nf.get('sing', []):
        by.setdefault(Fraction(T), {'reg': [], 'sing': {}})['sing'][k] = c
    items = []
    for T in sorted(by):
        sg = by[T]['sing']
        dense = [sg.get(k, g(0)) for k in range(max(sg) + 1)] if sg else []
        items.append('mkd %s %s [%s]' % (qc(T), qilist(dense), '; '.join(by[T]['reg'])))
    return '[' + '; '.join(items) + ']'


def usable(r):
    return 'error' not in r and isinstance(r.get('time'), dict) and 'unparsed' not in r['time'] and isinstance(r.get('sdom'), list)


def coq_case(i, case, wr):
    """(text, meta) of one circuit for cases_k.v, or (None, meta)"""
    meta = {'q_used': [], 'laws_used': []}
    if 'q' not in wr:
        return None, meta
    mode = expected_mode(case)
    remap = {}
    qtxt = []
    for qi_, r in enumerate(wr['q']):
        if usable(r):
            remap[qi_] = len(qtxt)
            meta['q_used'].append(qi_)
            qtxt.append('(Quant %s\n      %s, %s)' % (certs_coq(r['sdom']), obs_coq(r['time']), mode))
    if not qtxt:
        return None, meta
    ltxt = []
    for li, law in enumerate(case['laws']):
        k = law['k']
        if k == 'C':
            if law['jv'] not in remap or law['ji'] not in remap:
                continue
            v0 = law['v0']
            if v0 is None:
                v0 = pre0(wr['q'][law['jv']]['time'])
                if v0 is None:
                    continue
            else:
                v0 = g(v0)
            ltxt.append('LawC %s %s %d%%nat %d%%nat' % (qi(g(law['C'])), qi(v0), remap[law['jv']], remap[law['ji']]))
        elif k == 'L':
            need = [law['jv'], law['ji']] + [m[2] for m in law['ms']]
            if any(j not in remap for j in need):
                continue
            i0 = law['i0']
            ms = []
            ok = True
            if i0 is None:
                i0 = pre0(wr['q'][law['ji']]['time'])
                for M, i0k, jk in law['ms']:
                    pk = pre0(wr['q'][jk]['time'])
                    if pk is None:
                        ok = False
                    ms.append('(%s, %s, %d%%nat)' % (qi(g(M)), qi(pk or g(0)), remap[jk]))
                if i0 is None or not ok:
                    continue
            else:
                i0 = g(i0)
                for M, i0k, jk in law['ms']:
                    ms.append('(%s, %s, %d%%nat)' % (qi(g(M)), qi(g(i0k)), remap[jk]))
            ltxt.append('LawL %s %s %d%%nat %d%%nat [%s]' % (qi(g(law['L'])), qi(i0), remap[law['jv']], remap[law['ji']], '; '.join(ms)))
        else:
            if any(j not in remap for _, j in law['ts']):
                continue
            ts = '[' + '; '.join('(%s, %d%%nat)' % (qi(a), remap[j]) for a, j in law['ts']) + ']'
            ltxt.append('LawLin %s %s' % (ts, nf_dsig_coq(law.get('w', {}))))
        meta['laws_used'].append(li)
    fl = wr.get('flags', {})
    srcc = '[' + '; '.join(bl(v) for _, v in sorted(case['gen']['src_causal'].items())) + ']'
    zic = '[' + '; '.join(bl(v) for _, v in sorted(case['gen']['zeroic'].items())) + ']'
    txt = '(%d%%nat, case_items\n   [%s]\n   [%s]\n   %s %s %s)' % (i, ';\n    '.join(qtxt), ';\n    '.join(ltxt), srcc, zic, bl(fl.get('is_causal', False)))
    return txt, meta


def pre0(o):
    """value just before t = 0 claimed by Lcapy's expression (terms without step), None when not claimed"""
    if o.get('cond'):
        return None
    re, im = Fraction(0), Fraction(0)
    for T, n, p, c, st in o['reg']:
        if not st and n == 0 and Fraction(T) == 0:
            re += Fraction(c[0])
            im += Fraction(c[1])
        elif not st and Fraction(T) != 0:
            return None
    return g(re, im)


def cases_v(items):
    lines = ['(* GENERATED by checks/c02.py (cases). Do not edit. *)',
             'Require Import LT.FieldSec LT.PolyQ LT.QcI LT.ExpPoly LT.ILT LT.ILTCorr LT.TimeDom LT.TimeDomCorr.\n',
             'Definition cases : list (nat * list nat) := [']
    lines.append(';\n'.join(items))
    lines.append('].\nEval vm_compute in (fail_cases cases).\n')
    return '\n'.join(lines)


def parse_fail_cases(out):
    m = re.search(r'=\s*(\[.*?\])\s*:\s*list \(nat \* list nat\)', out, re.S)
    if not m:
        return None
    body = m.group(1)
    res = {}
    for mm in re.finditer(r'\((\d+),\s*\[([^\]]*)\]\)', body.replace('%nat', '')):
        res[int(mm.group(1))] = [int(x) for x in mm.group(2).replace('\n', ' ').split(';') if x.strip()]
    return res


# ------------------------------------------------------------------ switched circuits
KEY_BEFORE = 'SW._replace_switch:before:comparison-inverted'
KEY_IVP_CFG = 'convert_IVP:two-or-more-instants-passed:switch-configuration'
KEY_IVP_TRACE = 'convert_IVP:two-or-more-instants-passed:handover'
KEY_IVP_IC = 'convert_IVP:two-or-more-instants-passed:initial-condition'


def tstr(x):
    """decimal spelling of a dyadic rational (switching_times() goes through float())"""
    x = Fraction(x)
    if x.denominator == 1:
        return str(x.numerator)
    return repr(float(x))


def sw_spec_closed(kind, active):
    return active if kind == 'no' else (not active)


def sw_cfg(sws, t, before):
    return [sw_spec_closed(k, (a < t) if before else (a <= t)) for k, a in sws]


def sw_lines(template, sws, cfg):
    """netlist with every switch replaced by a wire / open circuit; reactive elements without IC"""
    out = []
    si = 0
    for ln in template:
        if ln[0] == 'SW':
            out.append('%s %s %s' % ('W' if cfg[si] else 'O', ln[1], ln[2]))
            si += 1
        else:
            out.append(' '.join(ln))
    return out


SW_TIMES = [Fraction(0), Fraction(1, 2), Fraction(1), Fraction(3, 2), Fraction(2), Fraction(1, 4), Fraction(3)]


def gen_switch_case(rng, nsw, shape, tq=None, fixed=None, before_op=None, srck=None):
    srck = srck or rng.choice(['dc', 'step'])
    A, R1, R2, R3 = rnd(rng, (6, 10, 4, 12)), rnd(rng, (1, 2, 4)), rnd(rng, (1, 2, 4)), rnd(rng, (1, 2))
    kinds = [rng.choice(['no', 'no', 'nc']) for _ in range(nsw)]
    times = [rng.choice(SW_TIMES) for _ in range(nsw)]
    if nsw >= 2 and rng.random() < 0.8:
        while len(set(times)) < 2:
            times[-1] = rng.choice(SW_TIMES)
    if fixed:
        kinds, times = [k for k, _ in fixed], [Fraction(a) for _, a in fixed]
    if shape == 'rc':
        Cv = rnd(rng, (1, 2, F(1, 2)))
        tpl = [['V1', '1', '0', srck, val(A)], ['SW', '1', '2'], ['R1', '2', '3', val(R1)], ['C1', '3', '0', val(Cv)]]
        if nsw >= 2:
            tpl += [['SW', '3', '4'], ['R2', '4', '0', val(R2)]]
        else:
            tpl += [['R2', '3', '0', val(R2)]]
        if nsw >= 3:
            tpl += [['SW', '3', '5'], ['R3', '5', '0', val(R3)]]
        reactive = ['C1']
    else:
        Lv = rnd(rng, (1, 2, F(1, 2)))
        tpl = [['V1', '1', '0', srck, val(A)], ['R3', '1', '5', val(R3)], ['R1', '5', '2', val(R1)], ['L1', '2', '3', val(Lv)], ['R2', '3', '0', val(R2)], ['SW', '3', '0']]
        if nsw >= 2:
            tpl += [['SW', '5', '2']]
        if nsw >= 3:
            tpl += [['R4', '2', '6', val(R3)], ['SW', '6', '0']]
        reactive = ['L1']
    sws = list(zip(kinds, times))[:sum(1 for l in tpl if l[0] == 'SW')]
    lines = []
    si = 0
    for ln in tpl:
        if ln[0] == 'SW':
            k, a = sws[si]
            lines.append('SW%d %s %s %s %s' % (si + 1, ln[1], ln[2], k, tstr(a)))
            si += 1
        else:
            lines.append(' '.join(ln))
    inst = sorted(set(a for _, a in sws))
    if tq is None:
        cands = list(inst) + [inst[0] - Fraction(1, 2), inst[-1] + Fraction(1, 2)] + [(x + y) / 2 for x, y in zip(inst, inst[1:])]
        tq = rng.choice(cands)
    passed = [a for a in inst if a <= tq]
    intervals = []
    if passed:
        intervals.append({'netlist': sw_lines(tpl, sws, sw_cfg(sws, passed[0], True)), 'T': fs(passed[0])})
        for a, b in zip(passed, passed[1:]):
            intervals.append({'netlist': sw_lines(tpl, sws, sw_cfg(sws, a, False)), 'T': fs(b - a)})
    # what the loop of the CURRENT convert_IVP would hand over if its only defects were the recorded ones:
    # `before` built with the source's comparison, every switch frozen at the first instant, absolute T
    intervals_code = []
    if len(passed) >= 2 and before_op is not None:
        cfg0 = [sw_spec_closed(k, cmp_py(before_op, passed[0], a)) for k, a in sws]
        intervals_code.append({'netlist': sw_lines(tpl, sws, cfg0), 'T': fs(passed[0])})
        for b in passed[1:]:
            intervals_code.append({'netlist': sw_lines(tpl, sws, sw_cfg(sws, passed[0], False)), 'T': fs(b)})
    return {'netlist': lines, 'tags': ['switch', shape, 'sw%d' % len(sws), 'passed%d' % len(passed), 'src_' + srck],
            'switch': {'t': fs(tq), 'reactive': reactive, 'intervals': intervals, 'intervals_code': intervals_code,
                       'sws': [[k, fs(a)] for k, a in sws], 'sw_lines': [i for i, l in enumerate(tpl) if l[0] == 'SW']},
            'timeout': 150}


def gen_switch_cases(rng, tier, before_op=None):
    n = int(os.environ.get('VERIF_NSWITCH', 8 if tier == 'quick' else 120))
    out = []
    if True:
        # corpus: two switches, query after both instants; a normally-closed switch queried before its instant
        r0 = random.Random(11)
        out.append(gen_switch_case(r0, 2, 'rc', tq=Fraction(2), fixed=[('no', 0), ('no', 1)], before_op=before_op, srck='dc'))
        out.append(gen_switch_case(r0, 2, 'rl', tq=Fraction(3, 2), fixed=[('no', F(1, 2)), ('nc', 1)], before_op=before_op, srck='step'))
        out.append(gen_switch_case(r0, 1, 'rc', tq=Fraction(0), fixed=[('nc', F(1, 2))], before_op=before_op, srck='dc'))
        out.append(gen_switch_case(r0, 1, 'rc', tq=Fraction(1), fixed=[('nc', 1)], before_op=before_op, srck='step'))
        out.append(gen_switch_case(r0, 1, 'rl', tq=Fraction(2), fixed=[('no', F(3, 2))], before_op=before_op, srck='step'))
    for i in range(n):
        out.append(gen_switch_case(rng, [1, 2, 2, 3][i % 4], ['rc', 'rl'][(i // 4) % 2], before_op=before_op))
    return out


def cfg_of(lines, idxs):
    cfg = []
    for i in idxs:
        if i >= len(lines):
            return None
        w = lines[i].split()[0]
        if w == 'W':
            cfg.append(True)
        elif w == 'O':
            cfg.append(False)
        else:
            return None
    return cfg


def cmp_py(c, t, a):
    op, x, y = c
    l, r = (t, a) if x == 't' else (a, t)
    return {'lt': l < r, 'le': l <= r, 'gt': l > r, 'ge': l >= r}[op]


def switch_obs(case, wr):
    """observations of one convert_IVP experiment, or None"""
    sw = case['switch']
    idxs = sw['sw_lines']
    if 'netlist' not in wr:
        return None
    o = {'final': cfg_of(wr['netlist'], idxs), 'after': cfg_of(wr.get('after', []), idxs), 'before': cfg_of(wr.get('before', []), idxs),
         'times': [Fraction(x).limit_denominator(1 << 20) if '.' not in x else Fraction(x) for x in wr.get('times', [])], 'trace': [], 'prov': []}
    for call in wr.get('calls', []):
        if call['call'] == 'initialize' and len(call['args']) >= 2 and isinstance(call['args'][0], list):
            cfg = cfg_of(call['args'][0], idxs)
            try:
                T = Fraction(call['args'][1])
            except (ValueError, ZeroDivisionError):
                T = None
            o['trace'].append((cfg, T))
            # does `before` carry initial conditions (is it the previous initial value problem)?
            o['prov'].append(any(len(l.split()) >= 5 for l in call['args'][0] if l.split()[0] in sw['reactive']))
    return o


def switch_coq(i, case, o, have_gen, have_loop=False):
    sw = case['switch']
    sws = '[' + '; '.join('Sw %s %s' % ('SWno' if k == 'no' else 'SWnc', qc(a)) for k, a in sw['sws']) + ']'

    def bools(c):
        return '[' + '; '.join(bl(x) for x in c) + ']'
    if o is None or o['final'] is None or o['after'] is None or o['before'] is None or any(c is None or T is None for c, T in o['trace']):
        return None
    tr = '[' + '; '.join('(%s, %s)' % (bools(c), qc(T)) for c, T in o['trace']) + ']'
    gens = 'before_cmp_gen after_cmp_gen closed_gen' if have_gen else 'before_spec after_spec closed'
    txt = 'sw_items %s %s %s [%s] %s %s %s %s' % (
        gens, sws, qc(sw['t']), '; '.join(qc(x) for x in o['times']), bools(o['final']), tr, bools(o['after']), bools(o['before']))
    if have_loop:
        tr3 = '[' + '; '.join('(%s, %s, %s)' % (bools(c), qc(T), bl(f)) for (c, T), f in zip(o['trace'], o['prov'])) + ']'
        txt = '(%s) ++ sw_loop_items loop_gen %s %s %s %s' % (txt, sws, qc(sw['t']), bools(o['final']), tr3)
    return '(%d%%nat, %s)' % (i, txt)


def switch_oracle(case, wr, o, tr_sw):
    """independent verdicts on one convert_IVP experiment: list of (key, what)"""
    bad = []
    sw = case['switch']
    sws = [(k, Fraction(a)) for k, a in sw['sws']]
    t = Fraction(sw['t'])
    inst = sorted(set(a for _, a in sws))
    passed = [a for a in inst if a <= t]
    if o is None:
        return bad
    exp_after = sw_cfg(sws, t, False)
    exp_before = sw_cfg(sws, t, True)
    if o['after'] is not None and o['after'] != exp_after:
        bad.append(('SW._replace_switch:after', 'replace_switches(%s) gives %s, expected %s' % (t, o['after'], exp_after)))
    if o['before'] is not None and o['before'] != exp_before:
        bad.append((KEY_BEFORE, 'replace_switches_before(%s) gives %s (True = wire), expected %s: a switch activated before t must already be active, one activated later not yet' % (t, o['before'], exp_before)))
    exp_final = sw_cfg(sws, passed[-1], False) if passed else exp_after
    if o['final'] is not None and o['final'] != exp_final:
        # recorded defect: every switch is frozen in its state at the first instant
        key = KEY_IVP_CFG if (len(passed) >= 2 and o['final'] == sw_cfg(sws, passed[0], False)) else 'convert_IVP:switch-configuration:passed%d' % len(passed)
        bad.append((key, 'convert_IVP(%s): switches end up as %s, expected %s (the switches activated at later instants never toggle)' % (t, o['final'], exp_final)))
    # hand-over trace
    exp_trace = []
    if passed:
        exp_trace.append((sw_cfg(sws, passed[0], True), passed[0]))
        for a, b in zip(passed, passed[1:]):
            exp_trace.append((sw_cfg(sws, a, False), b - a))
    if o['trace'] != exp_trace and all(c is not None for c, _ in o['trace']):
        code_trace = None
        if len(passed) >= 2 and tr_sw is not None:
            code_trace = [([sw_spec_closed(k, cmp_py(tr_sw.before, passed[0], a)) for k, a in sws], passed[0])] + \
                         [(sw_cfg(sws, passed[0], False), b) for b in passed[1:]]
        if len(passed) >= 2 and o['trace'] == code_trace:
            key = KEY_IVP_TRACE      # recorded defect: frozen switches, absolute T
        elif len(passed) >= 2:
            key = 'convert_IVP:handover:passed%d:unexplained' % len(passed)
        else:
            # one instant: explained by the source-extracted comparison of the `before` branch?
            key = 'convert_IVP:handover:passed%d' % len(passed)
            if tr_sw is not None and len(o['trace']) == 1 and passed:
                model = [sw_spec_closed(k, cmp_py(tr_sw.before, passed[0], a)) for k, a in sws]
                if o['trace'][0] == (model, passed[0]) and model != exp_trace[0][0]:
                    key = KEY_BEFORE
        bad.append((key, 'convert_IVP(%s): initialize() was called with (configuration of `before`, T) = %s, expected %s' % (t, o['trace'], exp_trace)))
    # initial conditions against the interval-by-interval reference
    if 'ref_ics' in wr and passed:
        for name in sw['reactive']:
            got, want = wr.get('ics', {}).get(name), wr['ref_ics'].get(name)
            if isinstance(got, dict) or got is None or want is None:
                continue
            if sorted(map(json.dumps, got)) != sorted(map(json.dumps, want)):
                code = wr.get('code_ics', {}).get(name)
                if len(passed) >= 2 and code is not None and sorted(map(json.dumps, got)) == sorted(map(json.dumps, code)):
                    key = KEY_IVP_IC     # exactly what frozen switches + absolute T produce
                elif len(passed) >= 2:
                    key = 'convert_IVP:initial-condition:passed%d:unexplained' % len(passed)
                elif o['trace'] and tr_sw is not None and o['trace'][0][0] != exp_trace[0][0]:
                    key = KEY_BEFORE
                else:
                    key = 'convert_IVP:initial-condition:passed%d' % len(passed)
                bad.append((key, 'convert_IVP(%s): initial condition of %s is %s, the previous interval\'s waveform at the switching instant is %s (exponent/coefficient pairs)' % (t, name, got, want)))
    return bad


def switch_v(tr_sw, loop_ok=False):
    return ('(* GENERATED by checks/c02.py from the translation of SW._replace_switch (lcapy/mnacpts.py). Do not edit. *)\n'
            'Require Import LT.FieldSec LT.TimeDomSwitch Gen.SwitchGen.\n'
            '(* the comparisons and the wire/open choice of the CURRENT source are the specification\'s *)\n'
            'Theorem closed_ok : forall k b, closed_gen k b = closed k b.\n'
            'Proof. intros [] []; reflexivity. Qed.\n'
            'Theorem after_cmp_ok : forall t a, after_cmp_gen t a = after_spec t a.\n'
            'Proof. intros t a. unfold after_cmp_gen. cmp_cases t a. Qed.\n'
            'Theorem replace_after_ok : forall t sws, map (fun s => closed_gen (sw_kind s) (after_cmp_gen t (sw_time s))) sws = cfg_after sws t.\n'
            'Proof. intros t sws. unfold cfg_after, repl. apply map_ext. intros s. rewrite closed_ok, after_cmp_ok. reflexivity. Qed.\n'
            'Theorem before_own_instant : forall t, before_cmp_gen t t = false.\n'
            'Proof. intros t. unfold before_cmp_gen, qle, qlt. rewrite (proj1 (Qceq_alt t t) eq_refl). reflexivity. Qed.\n'
            '(* source: before: active = %s *)\n'
            'Theorem before_cmp_ok : forall t a, before_cmp_gen t a = before_spec t a.\n'
            'Proof. intros t a. unfold before_cmp_gen. cmp_cases t a. Qed.\n'
            'Theorem replace_before_ok : forall t sws, map (fun s => closed_gen (sw_kind s) (before_cmp_gen t (sw_time s))) sws = cfg_before sws t.\n'
            'Proof. intros t sws. unfold cfg_before, repl. apply map_ext. intros s. rewrite closed_ok, before_cmp_ok. reflexivity. Qed.\n'
            '%s'
            'Print Assumptions closed_ok. Print Assumptions after_cmp_ok. Print Assumptions replace_after_ok. Print Assumptions before_cmp_ok. Print Assumptions replace_before_ok.\n'
            % (tr_sw.src_before.replace('*)', '* )'),
               ('(* the loop of convert_IVP as translated from the CURRENT lcapy/netlist.py performs exactly the specification\'s hand-overs:\n'
                '   configuration of `before`, evaluation time, provenance of the initial conditions, final configuration - for every\n'
                '   list of switches, every list of instants and every query time *)\n'
                'Theorem convert_loop_ok : forall sws times t, times <> [] ->\n'
                '  fst (run_loop loop_gen sws times t) = trace_spec3 sws times t /\\ ccfg (snd (run_loop loop_gen sws times t)) = final_cfg sws times t.\n'
                'Proof. exact run_loop_spec. Qed.\n'
                'Print Assumptions convert_loop_ok.\n') if loop_ok else ''))


def analysis_v():
    return ('(* GENERATED by checks/c02.py from the translation of Analysis.__init__ (lcapy/analysis.py) and MNA._solve (lcapy/mna.py). Do not edit. *)\n'
            'Require Import LT.FieldSec LT.PolyQ LT.QcI LT.ExpPoly LT.ILT LT.ILTCorr LT.TimeDom LT.TimeDomSwitch LT.TimeDomCorr Gen.AnalysisGen.\n'
            '(* the circuit is treated as causal exactly when every independent source is causal and every initial condition is zero *)\n'
            'Theorem analysis_causal_ok : forall src zic, analysis_causal_gen src zic = analysis_causal src zic.\n'
            'Proof. intros src zic. unfold analysis_causal_gen, analysis_causal. cbv zeta. destruct (forallb (fun b => b) src); destruct (forallb (fun b => b) zic); reflexivity. Qed.\n'
            '(* the assumptions handed to the inverse transform: a causal circuit is transformed as causal whatever the ac/dc flags,\n'
            '   a circuit that is neither ac, dc nor causal is not *)\n'
            'Theorem mna_causal_wins : forall ac dc, eff_causal None (mna_kw_gen ac dc true) = true.\n'
            'Proof. intros [] []; reflexivity. Qed.\n'
            'Theorem mna_unknown_not_causal : eff_causal None (mna_kw_gen false false false) = false.\n'
            'Proof. reflexivity. Qed.\n'
            '(* zero initial state and causal sources: with the flags of the CURRENT source the model of the time-domain conversion\n'
            '   puts every term under a step - the response is 0 for t < 0; otherwise the delay-free regular part is only claimed for t >= 0 *)\n'
            'Theorem causal_zero_gen : forall (K : fld) cj B guard (src zic : list bool) (ac dc : bool) const F m,\n'
            '  (forall b, In b src -> b = true) -> (forall b, In b zic -> b = true) ->\n'
            '  doit_model K cj B guard (eff_causal None (mna_kw_gen ac dc (analysis_causal_gen src zic))) const F = Some m ->\n'
            '  m_cond m = false /\\ m_u m = szero.\n'
            'Proof. intros K cj B guard src zic ac dc const F m Hs Hz. rewrite analysis_causal_ok.\n'
            '  assert (Hc : analysis_causal src zic = true) by (unfold analysis_causal; rewrite andb_true_iff, !forallb_forall; split; assumption).\n'
            '  rewrite Hc, mna_causal_wins. apply causal_flag. Qed.\n'
            'Theorem noncausal_cond_gen : forall (K : fld) cj B guard (src zic : list bool) const F m,\n'
            '  analysis_causal_gen src zic = false ->\n'
            '  doit_model K cj B guard (eff_causal None (mna_kw_gen false false (analysis_causal_gen src zic))) const F = Some m ->\n'
            '  (m_cond m = true <-> reg (m_u m) <> []).\n'
            'Proof. intros K cj B guard src zic const F m Hc. rewrite Hc, mna_unknown_not_causal. apply noncausal_flag. Qed.\n'
            'Print Assumptions analysis_causal_ok. Print Assumptions mna_causal_wins. Print Assumptions causal_zero_gen. Print Assumptions noncausal_cond_gen.\n')


# ------------------------------------------------------------------ classification of circuit failures
def rep_cpx(sd):
    """does a certified s-domain value have a REPEATED complex-conjugate pole pair (the F10 condition)?"""
    if not isinstance(sd, list):
        return False
    for ce in sd:
        hi = {}
        for r, p, o in ce['ts']:
            k = (Fraction(p[0]), Fraction(p[1]))
            hi[k] = max(hi.get(k, 0), o)
        for (a, b), o in hi.items():
            if b != 0 and o >= 2 and hi.get((a, -b), 0) >= 2:
                return True
    return False


def classify_circuit(case, wr, codes, oracle_bad, meta):
    """structural fingerprint(s) of one failing circuit: list of (key, what, found_input)"""
    out = []
    gen = case['gen']
    tags = case.get('tags', [])
    laws = case['laws']
    # the time functions that differ from the inverse of Lcapy's own s-domain value: are they all explained by
    # "the inverse transform of the expanded expression is right" in an initial value problem with a delayed source?
    mism = [q_ for q_ in wr.get('q', []) if 'alt_equal' in q_]
    delayed_ivp = bool(mism) and all(q_['alt_equal'] for q_ in mism) and gen['has_ic'] and not case['causal_expected'] \
        and any(t_ in ('dstep', 'dexp', 'pulse') for t_ in gen['src_tags'])
    # ... or by F10: every such time function belongs to an s-domain value with a repeated complex-conjugate pole pair
    f10 = bool(mism) and all(rep_cpx(q_.get('sdom')) for q_ in mism)

    def law_name(li):
        l = laws[li]
        return ('%s law of %s' % ({'C': 'capacitor', 'L': 'inductor'}[l['k']], l['name'])) if l['k'] in ('C', 'L') else l['name']
    # oracle findings (concrete, on Lcapy's own expressions)
    for b in oracle_bad:
        if b.get('undecided'):
            continue        # a constant outside the exactly decidable class is not evidence of a violation (counted in the histogram)
        li = b.get('law', -1)
        if b.get('key'):
            out.append((b['key'] + ':' + '+'.join(t for t in tags if t != 'corpus'), b['what'], True))
        elif delayed_ivp:
            out.append((KEY_DELAY_IVP, b['what'], True))
        elif f10:
            out.append((KEY_F10, b['what'], True))
        elif li >= 0:
            out.append(('law:%s:%s:%s' % (laws[li]['k'], re.sub(r'[^A-Za-z]+', '_', re.sub(r'\d+', '', law_name(li)))[:30], '+'.join(t for t in tags if t != 'corpus')), b['what'], True))
        else:
            out.append(('causality:' + '+'.join(t for t in tags if t != 'corpus'), b['what'], True))
    have_real = any(f for _, _, f in out)
    for cd in codes:
        k, j = cd // 1000, cd % 1000
        if k == 4:
            li = meta['laws_used'][j]
            l = laws[li]
            if delayed_ivp:
                out.append((KEY_DELAY_IVP, 'law %s fails on the model inverse' % law_name(li), have_real))
            elif f10:
                out.append((KEY_F10, 'law %s fails on the model inverse' % law_name(li), have_real))
            else:
                out.append(('model-law:%s:%s' % (l['k'], '+'.join(t for t in tags if t != 'corpus')), 'law %s does not hold for the inverse transform of Lcapy\'s s-domain solution' % law_name(li), have_real))
        elif k in (1, 2, 3):
            qn = case['quants'][meta['q_used'][j]]
            what = {1: 'partial-fraction certificate of %s rejected by the verified checker',
                    2: 'time-domain %s differs from the inverse transform of Lcapy\'s own s-domain solution',
                    3: 'step / t >= 0 bookkeeping of %s differs from the flag model'}[k] % ('%s(%s)' % (qn['kind'], qn['name']))
            if f10 and k == 2:
                out.append((KEY_F10, what, have_real))
            elif delayed_ivp and k in (2, 3):
                out.append((KEY_DELAY_IVP, what, have_real))
            else:
                out.append(('correspondence:%d:%s' % (k * 1000, '+'.join(t for t in tags if t != 'corpus')), what, False))
        elif k == 5:
            out.append(('correspondence:5000:analysis_causal', 'Analysis.causal differs from the model (all sources causal and zero initial conditions)', False))
    return out


# ------------------------------------------------------------------ main
def log(msg):
    if os.environ.get('VERIF_VERBOSE'):
        import time as _t
        sys.stderr.write('[%s] %s\n' % (_t.strftime('%H:%M:%S'), msg))
        sys.stderr.flush()


def run(tier='quick', replay=None):
    import tr_stamps as TS
    import tr_switch as TW
    res = core.Result(PID, tier)
    rng = random.Random(core.seed() * 7919 + 2)
    core.ensure_theory(THEORY + ['TimeDomInj', 'TimeDomSwitch'])
    w = core.Work(PID)
    violations = []
    try:
        res.trusted = [
            'Coq 8.16.1 kernel + vm_compute (no native_compute)',
            'specification coq/theory/ExpPoly.v (signals Sigma c t^n/n! e^{pt} + impulses, ordinary/distributional derivative Dord/D, L termwise) and '
            'coq/theory/TimeDomCircuit.v (textbook time-domain law of every component class), coq/theory/TimeDomSwitch.v (switch specification)',
            'translators tools/tr_stamps.py (sha256 %s), tools/tr_switch.py (sha256 %s)' % (
                core.sha256_file(os.path.join(core.VERIF, 'tools', 'tr_stamps.py'))[:16], core.sha256_file(os.path.join(core.VERIF, 'tools', 'tr_switch.py'))[:16])
            + ', tools/tr_analysis.py (sha256 %s)' % core.sha256_file(os.path.join(core.VERIF, 'tools', 'tr_analysis.py'))[:16]
            + ', tools/tr_initialize.py (sha256 %s)' % core.sha256_file(os.path.join(core.VERIF, 'tools', 'tr_initialize.py'))[:16],
            'parsers in tools/impl_timedom.py (sympy rewrite(exp)/expand of Lcapy\'s time expressions; decomposition of the s-domain value into delayed rational functions); '
            'the law list built by checks/c02.py from the generator\'s own element values',
            'oracles, not verified: sympy.roots / div / residues (accepted only through the verified pf_check), sympy linear solve inside Lcapy',
            'hand models validated by correspondence: flag model (TimeDomCorr.flags_ok), Analysis.causal (analysis_causal), switching_times',
        ]
        res.assumptions = ['field of characteristic 0 with decidable equality (record fld); complex exponentials through Q(i)',
                           'a time-domain law is the equality of coefficient maps (normal forms); L_injective_char0 proves that this is the same as equality of the images off a finite set',
                           'switch specification assumes time-invariant sources between switching instants (as convert_IVP documents)']
        texts = {}
        pst = {}

        def prove():
            # 1. translate
            log('translate')
            stamps_ok = False
            try:
                tr = TS.StampTranslator(os.path.join(core.REPO, 'lcapy', 'mnacpts.py'))
                tr.translate_all()
                texts['StampsGen.v'] = TS.emit(tr)
                w.write('StampsGen.v', texts['StampsGen.v'])
                ok, out, secs = core.coqc(w.dir, 'StampsGen.v')
                if ok:
                    stamps_ok = True
                else:
                    res.failed_obl.append(('StampsGen', 'StampsGen.v', out[-600:]))
                    res.obligations += 1
            except (TS.Untranslatable, OSError, SyntaxError) as e:
                res.failed_obl.append(('translate', 'lcapy/mnacpts.py', str(e)))
                res.obligations += 1
            tr_sw = None
            sw_gen_ok = False
            try:
                tr_sw = TW.SwitchTranslation(core.REPO)
                texts['SwitchGen.v'] = tr_sw.coq_defs()
                try:
                    tr_cv = TW.ConvertTranslation(core.REPO)
                    texts['SwitchGen.v'] += tr_cv.coq_defs()
                    pst['loop_ok'] = True
                    res.extra['translated_convert_IVP'] = {'loop': tr_cv.loop_src, 'first': tr_cv.first, 'next': tr_cv.next, 'after': tr_cv.after, 'strict_break': tr_cv.strict}
                except (TW.Untranslatable, OSError, SyntaxError) as e:
                    res.failed_obl.append(('translate_convert_IVP', 'lcapy/netlist.py', str(e)))
                    res.obligations += 1
                w.write('SwitchGen.v', texts['SwitchGen.v'])
                ok, out, secs = core.coqc(w.dir, 'SwitchGen.v')
                if ok:
                    sw_gen_ok = True
                else:
                    res.failed_obl.append(('SwitchGen', 'SwitchGen.v', out[-600:]))
                    res.obligations += 1
                res.extra['translated_switch'] = {'before': tr_sw.src_before, 'after': tr_sw.src_after, 'arms': tr_sw.arms, 'skipped': tr_sw.skipped}
            except (TW.Untranslatable, OSError, SyntaxError) as e:
                res.failed_obl.append(('translate_switch', 'lcapy/mnacpts.py', str(e)))
                res.obligations += 1
                tr_sw = None
            an_ok = False
            try:
                import tr_analysis as TA
                ta, tsv = TA.AnalysisTranslation(core.REPO), TA.SolveTranslation(core.REPO)
                texts['AnalysisGen.v'] = 'Require Import LT.FieldSec LT.PolyQ LT.ExpPoly LT.ILT.\n' + ta.coq_defs() + tsv.coq_defs()
                w.write('AnalysisGen.v', texts['AnalysisGen.v'])
                ok, out, secs = core.coqc(w.dir, 'AnalysisGen.v')
                if ok:
                    an_ok = True
                else:
                    res.failed_obl.append(('AnalysisGen', 'AnalysisGen.v', out[-600:]))
                    res.obligations += 1
                res.extra['translated_analysis'] = {'causal': ta.final_src, 'causal_coq': ta.expr, 'assumption_order': tsv.order}
            except Exception as e:
                if type(e).__name__ not in ('Untranslatable', 'OSError', 'SyntaxError', 'FileNotFoundError'):
                    raise
                res.failed_obl.append(('translate_analysis', 'lcapy/analysis.py, lcapy/mna.py', str(e)))
                res.obligations += 1
            # 2. prove
            log('prove')
            first = {}
            if an_ok:
                texts['C02_analysis.v'] = analysis_v()
                w.write('C02_analysis.v', texts['C02_analysis.v'])
                first['C02_analysis.v'] = None
            if stamps_ok:
                for f in ('C01model.v', 'C01.v'):
                    texts[f] = open(os.path.join(core.VERIF, 'coq', 'props', f)).read()
                    w.write(f, texts[f])
                    first[f] = None
            # the hand-over of the reactive state: Netlist.initialize / _initialize_from_circuit / Cpt, C, L._initialize translated into a
            # record; model + specification coq/props/C02init.v is pasted in front of the generated definition and theorems
            try:
                import tr_initialize as TI
                ti = TI.InitTranslation(core.REPO)
                texts['C02_init.v'] = open(os.path.join(core.VERIF, 'coq', 'props', 'C02init.v')).read() + '\n' + ti.coq_defs() + TI.theorems()
                w.write('C02_init.v', texts['C02_init.v'])
                first['C02_init.v'] = None
                res.extra['translated_initialize'] = {'record': ti.record(), 'source': ti.src}
            except Exception as e:
                if type(e).__name__ not in ('Untranslatable', 'OSError', 'SyntaxError', 'FileNotFoundError'):
                    raise
                res.failed_obl.append(('translate_initialize', 'lcapy/netlist.py, lcapy/netlistmixin.py, lcapy/mnacpts.py', str(e)))
                res.obligations += 1
            texts['C02.v'] = open(os.path.join(core.VERIF, 'coq', 'props', 'C02.v')).read()
            w.write('C02.v', texts['C02.v'])
            first['C02.v'] = None
            if sw_gen_ok:
                texts['C02_switch.v'] = switch_v(tr_sw, pst.get('loop_ok', False))
                w.write('C02_switch.v', texts['C02_switch.v'])
                first['C02_switch.v'] = None
            bad = core.gate_text('generated+props', '\n'.join(texts.values()) + open(os.path.join(core.VERIF, 'coq', 'props', 'C02net.v')).read())
            bad += core.gate_files([os.path.join(core.COQ_THEORY, f + '.v') for f in ('TimeDom', 'TimeDomInj', 'TimeDomCircuit', 'TimeDomCorr', 'TimeDomSwitch')])
            if bad:
                res.failed_obl.append(('gate', 'generated', '; '.join(bad)))
                res.obligations += 1
            r1 = core.coqc_many(w.dir, list(first), timeout=900)
            own = {f: r for f, r in r1.items() if f.startswith('C02')}
            res.coq_results(w.dir, own, {f: texts[f] for f in own})
            for f in ('C01model.v', 'C01.v'):
                if f in r1 and not r1[f][0]:
                    res.failed_obl.append(('C01 prerequisite', f, r1[f][1][-500:]))
                    res.obligations += 1
            net_ok = False
            if stamps_ok and all(r1[f][0] for f in ('C01model.v', 'C01.v')):
                for f in ('C01net.v', 'C02net.v'):
                    texts[f] = open(os.path.join(core.VERIF, 'coq', 'props', f)).read()
                    w.write(f, texts[f])
                ok, out, secs = core.coqc(w.dir, 'C01net.v', timeout=600)
                if ok:
                    r2 = core.coqc_many(w.dir, ['C02net.v'], timeout=600)
                    res.coq_results(w.dir, r2, {'C02net.v': texts['C02net.v']})
                    net_ok = r2['C02net.v'][0]
                    r1.update(r2)
                else:
                    res.failed_obl.append(('C01 prerequisite', 'C01net.v', out[-500:]))
                    res.obligations += 1
            else:
                res.failed_obl.append(('ode_from_mna', 'C02net.v', 'not checked: the regenerated C01 files do not compile'))
                res.obligations += 1
            res.extra['coq_seconds'] = {f: round(r[2], 1) for f, r in r1.items()}
            # theory obligations are checked by the (self-healing) theory build of this run
            for f in ('TimeDom.v', 'TimeDomInj.v', 'TimeDomCircuit.v', 'TimeDomCorr.v', 'TimeDomSwitch.v'):
                names = core.obligations_in(open(os.path.join(core.COQ_THEORY, f)).read())
                res.obligations += len(names)
                res.discharged += len(names)
            pst.update(tr_sw=tr_sw, sw_gen_ok=sw_gen_ok)


        from concurrent.futures import ThreadPoolExecutor
        pool = ThreadPoolExecutor(max_workers=1)
        fut = pool.submit(prove)

        # 3. correspondence + oracle
        if replay:
            rc = replay.get('case') or replay.get('replay', {}).get('case')
            cases = [rc]
        else:
            cases = corpus_cases(rng) + gen_cases(rng, tier)
            cases += gen_symbolic_cases(random.Random(core.seed() * 104729 + 5), tier)
            try:
                before_op = TW.SwitchTranslation(core.REPO).before
            except Exception:
                before_op = None
            sw_cases = gen_switch_cases(rng, tier, before_op)
            # targeted at the `before` comparison and the loop of convert_IVP: two instants, query time away from / after them
            for i in range(4 if tier == 'quick' else 30):
                sw_cases.append(gen_switch_case(rng, 2, ['rc', 'rl'][i % 2], before_op=before_op))
            cases += sw_cases
        log('run impl on %d cases' % len(cases))
        results = core.run_impl('impl_timedom.py', cases, timeout=1500 if tier == 'quick' else 9000)
        log('impl done')
        fut.result()
        pool.shutdown()
        tr_sw, sw_gen_ok = pst.get('tr_sw'), pst.get('sw_gen_ok', False)
        log('proofs done')
        items = []
        metas = {}
        kind_bad = []
        orc = {}
        swobs = {}
        nq = 0
        for i, (c, r) in enumerate(zip(cases, results)):
            if r is None:
                r = results[i] = {'error': 'no result'}
            for t_ in c.get('tags', []):
                res.count('tag_' + t_)
            if 'error' in r:
                res.count('impl_error')
                res.count('impl_error:' + r['error'].split(':')[0][:40])
                continue
            if 'switch' in c:
                o = switch_obs(c, r)
                swobs[i] = o
                txt = switch_coq(i, c, o, sw_gen_ok, sw_gen_ok and pst.get('loop_ok', False))
                if txt:
                    items.append((i, txt))
                orc[i] = switch_oracle(c, r, o, tr_sw)
                res.add_case(json.dumps(c['netlist']) + c['switch']['t'], o is not None,
                             {'netlist': c['netlist'], 't': c['switch']['t'], 'converted': r.get('netlist'), 'ics': r.get('ics')} if len(res.samples) < 5 and i % 3 == 0 else None)
                res.count('switch_experiments')
                if 'ref_error' in r:
                    res.count('switch_reference_error')
                continue
            txt, meta = coq_case(i, c, r)
            metas[i] = meta
            if txt:
                items.append((i, txt))
            orc[i] = list(r.get('oracle', []))
            # kind invariant behind ode_from_mna_wf (Netlist._analysis_groups): one initial value problem iff some element has an initial condition
            if 'flags' in r and bool(r['flags'].get('is_ivp')) != bool(c['gen']['has_ic']):
                kind_bad.append(i)
            if 'oracle_error' in r:
                res.count('oracle_error')
            res.count('oracle_undecided', sum(1 for b_ in orc[i] if b_.get('undecided')))
            usable_q = len(meta['q_used'])
            nq += usable_q
            res.count('quantities_compared', usable_q)
            res.count('laws_checked_in_coq', len(meta['laws_used']))
            for q_ in r.get('q', []):
                if 'error' in q_:
                    res.count('quantity_error:' + q_['error'].split(':')[0][:30])
                elif not usable(q_):
                    res.count('quantity_unparsed')
            if 'subs' in c:
                for qi_, q_ in enumerate(r.get('q', [])):
                    if q_.get('undefined_at_point'):
                        if q_.get('regular_point') is True:
                            # the natural frequencies keep their generic multiplicities at this point: the closed form must be defined
                            orc[i].append({'law': -1, 'q': qi_, 'key': 'symbolic:undefined-at-regular-point',
                                           'what': 'the closed form Lcapy returns for symbolic element values, %s(%s) = %s, is undefined (nan/zoo) at %s although no two poles of its s-domain value coincide there'
                                                   % (c['quants'][qi_]['kind'], c['quants'][qi_]['name'], (q_.get('symbolic_time_text') or '')[:160], c['subs'])})
                        elif q_.get('regular_point') is False:
                            res.count('symbolic_degenerate_point_skipped')
                        else:
                            res.count('symbolic_point_regularity_unknown')
                res.count('symbolic_circuits')
                res.count('symbolic_quantities_compared', usable_q)
                res.count('symbolic_laws_checked_in_coq', len(meta['laws_used']))
                res.count('symbolic_quantities_not_comparable_at_point', sum(1 for q_ in r.get('q', []) if 'error' not in q_ and not usable(q_)))
                if usable_q and len([x for x in res.samples if 'symbolic_netlist' in x]) < 2:
                    qq = r['q'][meta['q_used'][-1]]
                    res.samples.append({'symbolic_netlist': c['netlist'], 'point': c['subs'], 'quantity': c['quants'][meta['q_used'][-1]],
                                        'lcapy_symbolic_time': qq.get('symbolic_time_text'), 'at_point': qq.get('time_text')})
            for st in c['gen']['src_tags']:
                res.count('source_' + st)
            res.count('mode_' + expected_mode(c))
            res.add_case(json.dumps(c['netlist']), usable_q > 0,
                         {'netlist': c['netlist'], 'quantity': c['quants'][-1], 'lcapy_time': r['q'][-1].get('time_text') if r.get('q') else None,
                          'lcapy_sdomain': r['q'][-1].get('sdom_text') if r.get('q') else None} if len(res.samples) < 4 and i % 7 == 0 else None)
        res.programs = sum(1 for c in cases if 'switch' not in c)
        codes = {}
        if items:
            shards = [items[k:k + 12] for k in range(0, len(items), 12)]
            fns = []
            for si, sh in enumerate(shards):
                head = 'Require Import Gen.SwitchGen.\n' if sw_gen_ok else ''
                w.write('cases_%d.v' % si, cases_v([t for _, t in sh]).replace('Definition cases :', head + 'Definition cases :', 1)
                        .replace('LT.TimeDomCorr.', 'LT.TimeDomSwitch LT.TimeDomCorr.'))
                fns.append('cases_%d.v' % si)
            log('coqc %d case files' % len(fns))
            cr = core.coqc_many(w.dir, fns, timeout=900)
            log('cases done')
            for f, (ok, out, secs) in cr.items():
                fc = parse_fail_cases(out) if ok else None
                if fc is None:
                    res.failed_obl.append(('correspondence_eval', f, out[-600:]))
                    res.obligations += 1
                else:
                    codes.update(fc)
            res.extra['traces_validated_against_impl'] = len(items)
            res.extra['case_eval_seconds'] = round(max([r_[2] for r_ in cr.values()] + [0]), 1)
        res.rule = ('cases: corpus (series RLC s^2+2s+5 with/without initial conditions, impulse into RC, coupled inductors with initial currents, dc + step) + '
                    'generated circuits from 12 families (series/parallel RLC with chosen natural frequencies real/repeated/complex/imaginary, RC, RL, chains of 3-4 identical buffered sections (multiplicity 3-4), VCVS-buffered '
                    'cascades incl. repeated real and repeated complex pairs, transformer, VCCS, CCVS, CCCS, coupled inductors, steady state + transient) x 15 source '
                    'kinds (step, dc, exp, t exp, t^k, t^k exp, ramp, delayed step/exp, pulse, impulse, cos, sin, damped cos, ac; resonant with a natural frequency on demand) x '
                    'initial conditions; every element voltage/current and node voltage observed; + convert_IVP experiments (1-3 switches, RC/RL, query time '
                    'before/at/between/after the instants); + circuits with SYMBOLIC R, L, C and initial conditions (9 families, distinct real / complex / imaginary natural frequencies, '
                    '13 source kinds) whose closed forms are specialised at the generator\'s rational point; non-trivial = at least one quantity parsed to the normal form')

        # 4. decide
        by_key = {}
        for i, c in enumerate(cases):
            cds = codes.get(i, [])
            ob = orc.get(i, [])
            if not cds and not ob:
                continue
            if 'switch' in c:
                found = []
                for key, what in ob:
                    found.append((key, what, True))
                sw = c['switch']
                passed = len([a for a in sorted(set(Fraction(a) for _, a in sw['sws'])) if a <= Fraction(sw['t'])])
                keys_have = set(k for k, _, _ in found)
                for cd in cds:
                    if cd == 6000:      # the oracle evaluates the same comparison and names the key
                        key = next((k_ for k_ in keys_have if k_.startswith('convert_IVP') and 'switch-configuration' in k_), 'correspondence:6000:switch')
                    elif cd == 6001:
                        key = next((k_ for k_ in keys_have if (k_.startswith('convert_IVP') and 'handover' in k_) or k_ == KEY_BEFORE), 'correspondence:6001:switch')
                    else:
                        key = 'correspondence:%d:switch' % cd
                    if key not in keys_have:
                        found.append((key, 'Coq evaluation of the switch specification / source-translated model: code %d' % cd, cd in (6000, 6001)))
                        keys_have.add(key)
                rec = {'case': c, 'lcapy': {k: results[i].get(k) for k in ('netlist', 'ics', 'ref_ics', 'times', 'after', 'before')}, 'coq_codes': cds,
                       'how': './check C02 --replay <this file>'}
            else:
                found = classify_circuit(c, results[i], cds, ob, metas.get(i, {'q_used': [], 'laws_used': []}))
                rec = {'case': c, 'coq_codes': cds, 'oracle': ob, 'lcapy': [{k: q_.get(k) for k in ('time_text', 'sdom_text', 'error')} for q_ in results[i].get('q', [])],
                       'how': './check C02 --replay <this file>'}
            for key, what, found_input in found:
                if found_input:
                    res.counterexamples.append({'key': key, 'what': what, 'netlist': c['netlist']})
                else:
                    res.disagreements.append({'key': key, 'what': what, 'netlist': c['netlist']})
                if key not in by_key:
                    by_key[key] = dict(rec, key=key, what=what, found_input=found_input, replay={'case': c})
                elif found_input and not by_key[key]['found_input']:
                    by_key[key] = dict(rec, key=key, what=what, found_input=True, replay={'case': c})
        for i in kind_bad:
            by_key.setdefault('correspondence:5001:is_IVP', {'key': 'correspondence:5001:is_IVP', 'found_input': False, 'case': cases[i], 'replay': {'case': cases[i]},
                                                             'what': 'Netlist.is_IVP differs from "some element has an initial condition" (the kind invariant of ode_from_mna_wf)',
                                                             'lcapy': results[i].get('flags')})
        violations += list(by_key.values())
        have_before = KEY_BEFORE in by_key and by_key[KEY_BEFORE]['found_input']
        for name, f, msg in res.failed_obl:
            if name in ('before_cmp_ok', 'replace_before_ok') and have_before:
                continue      # the failing input for the broken comparison was found (keyed above)
            violations.append({'key': 'obligation:' + name, 'what': 'Coq obligation %s in %s no longer checks' % (name, f),
                               'theorem': name, 'file': f, 'message': msg, 'found_input': False})
        return core.finish(res, violations)
    finally:
        if not os.environ.get('VERIF_KEEP'):
            w.cleanup()


if __name__ == '__main__':
    sys.exit(run(sys.argv[1] if len(sys.argv) > 1 else 'quick'))
