"""C03 - responses are linear in the sources: superposition over sources and signal kinds.

  translate  lcapy/mnacpts.py `_stamp` methods -> Gen/StampsGen.v (tools/tr_stamps.py, shared with C01)
             lcapy/superposition.py kinds/select/transient/time/laplace/netval, lcapy/netlist.py _analysis_groups,
             _subcircuits_make, select, get_I, _get_Vd, lcapy/netlistmixin.py independent_source_groups,
             lcapy/subnetlist.py SubNetlist.__new__, lcapy/mnacpts.py V._select / I._select
             -> Gen/SuperposGen.v (tools/tr_superpos.py, fail-closed statement templates)
  prove      props/C03a-d.v   per stamp-defining class (src_affine_<Class>): the matrix part does not depend on the
                              independent-source / initial-condition parameters (par pIsc, par pVoc), the right-hand
                              side is  a * rhs(1,0) + b * rhs(0,1)  in them, success of the stamp does not depend on them
             props/C03.v      src_affine_linear, stamp_src_linear, stamp_matrix_indep_sources, stamp_res_superpose,
                              stamp_res_scale (additivity / homogeneity of the node and branch residuals)
             props/C03net.v   induction over the netlist: asm_src_add/_scale, mna_superposition, mna_scaling,
                              mna_response_additive/_homogeneous, mna_kill_sum (responses with all but one
                              source group zeroed sum to the whole, any grouping)
             props/C03sup.v   the regenerated signal-kind tables equal the hand model: gen_kinds_sound, gen_view_sound,
                              gen_transient_sound, gen_agroup_sound, agroups_spec_gen, analysis_groups_cover_gen
             props/C03grp.v   netlist level of the grouping (NetlistMixin.independent_source_groups, Netlist._subcircuits_make,
                              SubNetlist.__new__, Netlist.select, V/I._select, get_I/_get_Vd regenerated): regroup_cover (every term
                              lands in exactly one group of any duplicate-free covering key list), isg_keys_nodup/_cover,
                              isg_member_spec, net_groups_partition, subcircuits_partition (for every source the values it carries
                              in the sub-netlists add up to its value, every mode), gen_grouping_sound, gen_akeys_sound
             theory/LinearSys.v       generic linear-system facts (uniqueness => linear response)
             theory/SuperposModel.v   hand model of lcapy.Superposition (add, decompose, dc/ac/transient parts,
                              kinds, select, time()/laplace()) and of the noise rules: decompose_reassemble,
                              regroup, groups_cover, noise_add_same_id, noise_add_distinct_ids
  correspond tools/impl_superpos.py runs the real code; evaluated inside Coq (vm_compute over Gaussian
             rationals): Lcapy's per-kind solution solves the model system; the certificate response of every
             source group solves the model system with the other sources zeroed, these sum to the full
             response, and equal what cct.kill_except(group) reports at every node / unknown branch;
             per-kind source selection and every Superposition (stored parts, decomposition, dc/ac/transient/
             noise parts, laplace(), time(), kinds) equal the container model
  search     independent exact oracle on public results: sum of kill_except responses == full response, scaling,
             dc+ac+transient / laplace() / time() reassembly, noise amplitude/power rules
"""
import json
import os
import random
import re
import sys
import threading
from fractions import Fraction

sys.path.insert(0, os.path.dirname(os.path.dirname(os.path.abspath(__file__))))
from vlib import core, netgen
sys.path.insert(0, os.path.join(core.VERIF, 'tools'))
import tr_stamps as TS
import tr_superpos as TSP

PID = 'C03'
MANIFEST = {
    'text': 'Coq theorems over the stamps regenerated from lcapy/mnacpts.py on every run: for every stamp-defining class the '
            'matrix part of the stamp is independent of the independent-source and initial-condition parameters and the '
            'right-hand side is additive and homogeneous in them; by induction over the netlist the assembled MNA system has '
            'the same property, so solutions add and scale, and - when the system is well-posed - the solved response is linear '
            'in the sources and the responses with all but one source group zeroed sum to the full response for any grouping. '
            'A hand model of the Superposition container proves that decompose() keeps the time and Laplace images, that the '
            'dc/ac/transient parts and any other grouping reassemble to the whole, that the analysis kinds cover every source '
            'term, and the noise rules (same identifier: amplitudes add; distinct identifiers: powers add; order independent). '
            'The tables that decide which analysis a part of a source goes to (kinds(transform), select, transient, netval keywords, '
            'Netlist._analysis_groups) are regenerated from lcapy/superposition.py and lcapy/netlist.py by a fail-closed translator and '
            'proved equal to the model (gen_kinds_sound, gen_view_sound, gen_transient_sound, gen_agroup_sound), so the ivp / time-domain '
            'shortcuts provably use the same total as the per-kind analyses (analysis_groups_cover_gen). '
            'The grouping of the sources of a NETLIST into sub-netlists (independent_source_groups, _subcircuits_make, SubNetlist.__new__, '
            'Netlist.select, V._select/I._select, get_I/_get_Vd) is regenerated too and modelled as an insertion-ordered dictionary kind -> names: '
            'it has one entry per kind, lists a source under exactly the kinds it has a part of (isg_keys_nodup, isg_keys_cover, isg_member_spec), '
            'every term lands in exactly one group of any duplicate-free covering key list (regroup_cover), and for every source the values it carries '
            'in the sub-netlists (one per key, every source selected for that key, 0 when it has no such part) add up to its value in every mode '
            '(net_groups_partition, subcircuits_partition with the regenerated key function; gen_grouping_sound, gen_akeys_sound). '
            'Both models are tied to the real code on every run by evaluation inside Coq on generated circuits (all analysis kinds incl. '
            'phasor and noise kinds over Gaussian rationals, mutual inductance with initial currents, dc kinds with capacitors at eps = 0), containers, '
            'and per circuit the dictionary of independent_source_groups(True) and the keys of Netlist.sub (check_isg, check_subkeys).',
    'note': 'Trusted: Coq kernel/vm_compute; tools/tr_stamps.py, tools/tr_superpos.py; hand models coq/props/C01model.v (assembly), C03defs.v/C03model.v, '
            'coq/theory/MNA.v (unknown ordering, reporting), SuperposModel.v (container) validated by correspondence; sympy linear '
            'solve, inverse Laplace, term classification (coeff(t,0)/is_ac) and node merging of killed sources are oracles whose '
            'results are checked per case, not verified; the structural replacement V -> wire / I -> open is checked by comparing '
            'kill_except responses with the zero-valued-source model; well-posedness (injectivity) is a hypothesis of the '
            'linear-response theorems. Time-domain expressions are compared through an exact canonical monomial form.',
    'technique': 'Coq proof over stamps and signal-kind tables translated from source + induction over netlists + hand model of the container with '
                 'in-Coq correspondence evaluation (Gaussian rationals) + exact metamorphic search oracle',
}

CNAMES = ['RC', 'L', 'V', 'AM', 'I', 'VCVS', 'VCCS', 'CCCS', 'CCVS', 'K', 'TF', 'GY', 'TL', 'TPA', 'TPB', 'TPG', 'TPH',
          'TPY', 'TPZ', 'TR', 'SPpp', 'SPpm', 'SPppp', 'SPpmm', 'SPppm', 'RV', 'Dummy']
PNAMES = ['pY', 'pZ', 'pIsc', 'pVoc', 'pArg0', 'pArg1', 'pAlpha', 'pEps', 'pA11', 'pA12', 'pA21', 'pA22',
          'pY11', 'pY12', 'pY21', 'pY22', 'pZM0', 'pZM1', 'pZL1', 'pZL2', 'pK', 'pZM2', 'pI01', 'pI02']
ALLOW = ['E', 'G', 'H', 'F', 'TF', 'GY', 'W', 'AM', 'dup', 'TR', 'K']


def log(msg):
    if os.environ.get('VERIF_VERBOSE'):
        import time as _t
        sys.stderr.write('[%s] %s\n' % (_t.strftime('%H:%M:%S'), msg))
        sys.stderr.flush()


# ---- exact numbers: complex rationals as pairs of Fractions ----------------------------------
def P(v):
    """'p/q' | ['p/q','p/q'] | None -> (Fraction, Fraction) | None"""
    if v is None:
        return None
    if isinstance(v, str):
        return (Fraction(v), Fraction(0))
    return (Fraction(v[0]), Fraction(v[1]))


Z0 = (Fraction(0), Fraction(0))


def cadd(a, b):
    return (a[0] + b[0], a[1] + b[1])


def csub(a, b):
    return (a[0] - b[0], a[1] - b[1])


def cmul(a, b):
    return (a[0] * b[0] - a[1] * b[1], a[0] * b[1] + a[1] * b[0])


def cinv(a):
    n = a[0] * a[0] + a[1] * a[1]
    return (a[0] / n, -a[1] / n)


def cnorm(a):
    return a[0] * a[0] + a[1] * a[1]


def csum(l):
    r = Z0
    for x in l:
        r = cadd(r, x)
    return r


def solve(A, b):
    """exact Gauss-Jordan over complex rationals; returns x or None when singular"""
    n = len(A)
    M = [list(A[i]) + [b[i]] for i in range(n)]
    for c in range(n):
        p = None
        for r in range(c, n):
            if M[r][c] != Z0:
                p = r
                break
        if p is None:
            return None
        M[c], M[p] = M[p], M[c]
        inv = cinv(M[c][c])
        M[c] = [cmul(inv, x) for x in M[c]]
        for r in range(n):
            if r != c and M[r][c] != Z0:
                f = M[r][c]
                M[r] = [csub(x, cmul(f, y)) for x, y in zip(M[r], M[c])]
    return [M[i][n] for i in range(n)]


def qi(v):
    """Coq literal (qci) of a complex rational pair"""
    return '(qi (%d) %d (%d) %d)' % (v[0].numerator, v[0].denominator, v[1].numerator, v[1].denominator)


def qil(l):
    return '[%s]' % '; '.join(qi(x) for x in l)


def b(x):
    return 'true' if x else 'false'


# ---- case generation ------------------------------------------------------------------------------
def fs(x):
    x = Fraction(x)
    return str(x.numerator) if x.denominator == 1 else '(%d/%d)' % (x.numerator, x.denominator)


def render_terms(terms, scale=1):
    """time-domain expression text of a list of term specs"""
    out = []
    for t_ in terms:
        c = Fraction(t_['c']) * scale
        k = t_['k']
        cs = fs(c)
        if t_.get('amp'):
            # amplitude written as an unexpanded sum of netlist symbols (values in case['subs'])
            cs = t_['amp'] if Fraction(scale) == 1 else '%s*%s' % (fs(Fraction(scale)), t_['amp'])
        if k == 'const':
            out.append(cs)
        elif k == 'cos':
            out.append('%s*cos(%s*t)' % (cs, fs(t_['w'])))
        elif k == 'sin':
            out.append('%s*sin(%s*t)' % (cs, fs(t_['w'])))
        elif k == 'step':
            out.append('%s*u(t)' % cs)
        elif k == 'exp':
            out.append('%s*exp(-%s*t)*u(t)' % (cs, fs(t_['a'])))
    return '+'.join(out).replace('+-', '-')


def source_line(name, a, b_, spec, scale=1):
    """netlist line of an independent source from its spec"""
    kind = spec['kind']
    k = Fraction(scale)
    if kind == 'dc':
        return '%s %s %s dc {%s}' % (name, a, b_, fs(Fraction(spec['c']) * k))
    if kind == 'step':
        return '%s %s %s step {%s}' % (name, a, b_, fs(Fraction(spec['c']) * k))
    if kind == 'ac':
        return '%s %s %s ac {%s} 0 %s' % (name, a, b_, fs(Fraction(spec['c']) * k), fs(spec['w']).strip('()'))
    if kind == 'noise':
        return '%s %s %s noise {%s}%s' % (name, a, b_, fs(Fraction(spec['c']) * k), (' ' + spec['nid']) if spec.get('nid') else '')
    if kind == 'sdom':
        return '%s %s %s {%s/(s+%s)}' % (name, a, b_, fs(Fraction(spec['c']) * k), fs(spec['a']))
    if kind == 'texpr':
        return '%s %s %s {%s}' % (name, a, b_, render_terms(spec['terms'], k))
    raise ValueError(kind)


def rand_c(rng, lo=1, hi=6):
    c = Fraction(rng.randint(lo, hi), rng.choice((1, 1, 1, 2, 3)))
    return str(c if rng.random() < 0.75 else -c)


def rand_source_spec(rng, profile, nids):
    """profile decides the mix of signal kinds"""
    def tterm(kinds):
        k = rng.choice(kinds)
        d = {'k': k, 'c': rand_c(rng)}
        if k in ('cos', 'sin'):
            d['w'] = str(rng.choice((1, 2, 2, 3)))
        if k == 'exp':
            d['a'] = str(rng.randint(1, 3))
        return d
    if profile == 'mixed':
        return {'kind': rng.choice(['dc', 'step']), 'c': rand_c(rng)}
    if profile == 'dcstep':
        r = rng.random()
        if r < 0.4:
            return {'kind': 'dc', 'c': rand_c(rng)}
        if r < 0.8:
            return {'kind': 'step', 'c': rand_c(rng)}
        return {'kind': 'texpr', 'terms': [{'k': 'const', 'c': rand_c(rng)}, {'k': 'step', 'c': rand_c(rng)}]}
    if profile == 'ivp':
        r = rng.random()
        if r < 0.5:
            return {'kind': 'step', 'c': rand_c(rng)}
        if r < 0.75:
            return {'kind': 'texpr', 'terms': [{'k': 'exp', 'c': rand_c(rng), 'a': str(rng.randint(1, 3))}]}
        return {'kind': 'sdom', 'c': rand_c(rng), 'a': str(rng.randint(1, 4))}
    if profile == 'sdom':
        r = rng.random()
        if r < 0.45:
            return {'kind': 'sdom', 'c': rand_c(rng), 'a': str(rng.randint(1, 4))}
        if r < 0.8:
            return {'kind': 'step', 'c': rand_c(rng)}
        return {'kind': 'dc', 'c': rand_c(rng)}
    if profile == 'ac':
        r = rng.random()
        if r < 0.6:
            return {'kind': 'ac', 'c': rand_c(rng), 'w': str(rng.choice((1, 2, 2, 3)))}
        if r < 0.8:
            return {'kind': 'dc', 'c': rand_c(rng)}
        return {'kind': 'step', 'c': rand_c(rng)}
    if profile == 'noise':
        r = rng.random()
        if r < 0.6:
            nid = rng.choice(nids + [None])
            return {'kind': 'noise', 'c': str(abs(Fraction(rand_c(rng)))), 'nid': nid}
        if r < 0.8:
            return {'kind': 'dc', 'c': rand_c(rng)}
        return {'kind': 'step', 'c': rand_c(rng)}
    if profile in ('multi', 'res'):
        r = rng.random()
        if r < 0.55:
            n = rng.randint(1, 3)
            terms = []
            used = set()
            for _ in range(n):
                t_ = tterm(['const', 'cos', 'sin', 'step', 'exp'] if profile == 'multi' else ['const', 'cos', 'sin', 'step', 'exp', 'cos', 'sin'])
                key = (t_['k'], t_.get('w'), t_.get('a'))
                if key in used:
                    continue
                used.add(key)
                terms.append(t_)
            return {'kind': 'texpr', 'terms': terms}
        if r < 0.7:
            return {'kind': 'ac', 'c': rand_c(rng), 'w': str(rng.choice((1, 2, 3)))}
        if r < 0.8 and profile == 'res':
            return {'kind': 'noise', 'c': str(abs(Fraction(rand_c(rng)))), 'nid': rng.choice(nids + [None])}
        if r < 0.9:
            return {'kind': 'step', 'c': rand_c(rng)}
        return {'kind': 'dc', 'c': rand_c(rng)}
    raise ValueError(profile)


SRC_RE = re.compile(r'^([VI]\d+)\s+(\S+)\s+(\S+)\s')


def gen_circuit(rng, profile, tier='quick'):
    base = {'ivp': 'ivp'}.get(profile, 'mixed')
    nl = netgen.gen_netlist(rng, base, size=rng.randint(2, 4), extras=rng.random() < 0.7, allow=ALLOW)
    lines = list(nl['lines'])
    # limit reactive elements (keeps the exact arithmetic and the inverse transforms tame)
    max_react = {'res': 0, 'ivp': 2}.get(profile, rng.choice((1, 1, 2, 3)))
    nreact = 0
    for i, l in enumerate(lines):
        if l[0] in 'CL' and l[1].isdigit():
            nreact += 1
            keep = nreact <= max_react
            if profile == 'ivp' and nreact == 1 and len(l.split()) < 5:
                lines[i] = l + ' ' + str(rng.randint(1, 4))      # make sure it is an initial value problem
            if not keep:
                p = l.split()
                lines[i] = 'R%d %s %s %s' % (90 + i, p[1], p[2], p[3])
    # mutual inductance: drop couplings whose inductors were converted, and add one in about a quarter of the
    # circuits (both inductors get the same value so that M = k sqrt(L1 L2) is rational)
    lnames = [l.split()[0] for l in lines if l[0] == 'L' and l[1].isdigit()]
    lines = [l for l in lines if not (l[0] == 'K' and l[1].isdigit()) or all(x in lnames for x in l.split()[1:3])]
    if profile != 'res' and not any(l[0] == 'K' and l[1].isdigit() for l in lines) and rng.random() < 0.28:
        cand = [i for i, l in enumerate(lines) if (l[0] in 'LR' and l[1].isdigit())]
        li = [i for i in cand if lines[i][0] == 'L'][:2]
        ri = [i for i in cand if lines[i][0] == 'R']
        rng.shuffle(ri)
        while len(li) < 2 and ri:
            li.append(ri.pop())
        if len(li) == 2:
            v = netgen.fs(netgen.val(rng))
            nms = []
            for j, i in enumerate(li):
                p = lines[i].split()
                nm = p[0] if p[0][0] == 'L' else 'L%d' % (60 + j)
                ic = ''
                if profile == 'ivp' and rng.random() < 0.7:
                    ic = ' ' + netgen.fs(netgen.val(rng, -4, 4))
                elif p[0][0] == 'L' and len(p) > 4:
                    ic = ' ' + p[4]
                lines[i] = '%s %s %s %s%s' % (nm, p[1], p[2], v, ic)
                nms.append(nm)
            lines.append('K1 %s %s %s' % (nms[0], nms[1], netgen.fs(Fraction(rng.randint(1, 3), 4))))
    nodes = []
    for l in lines:
        p = l.split()
        if p[0][0] == 'K':
            continue
        for n in p[1:3]:
            if n not in nodes:
                nodes.append(n)
    srcs = [i for i, l in enumerate(lines) if SRC_RE.match(l)]
    # 2-4 independent sources
    tries = 0
    target = rng.choice((2, 2, 3, 3, 4))
    while len(srcs) < target and tries < 12:
        tries += 1
        a, b_ = rng.sample(nodes, 2) if len(nodes) >= 2 else (nodes[0], '0')
        if a == b_:
            continue
        if rng.random() < 0.6:
            nm = 'I%d' % (50 + len(srcs))
            lines.append('%s %s %s 1 ' % (nm, a, b_))
            srcs.append(len(lines) - 1)
        else:
            # voltage source with a series resistor
            nm = 'V%d' % (50 + len(srcs))
            mid = 'k%d' % (50 + len(srcs))
            lines.append('%s %s %s 1 ' % (nm, a, mid))
            srcs.append(len(lines) - 1)
            lines.append('R%d %s %s %s' % (70 + len(srcs), mid, b_, rng.randint(1, 5)))
    for i in srcs[4:]:
        p = lines[i].split()
        lines[i] = 'R%d %s %s 2' % (80 + i, p[1], p[2])
    srcs = srcs[:4]
    nids = ['nx%d' % rng.randint(1, 3), 'ny%d' % rng.randint(1, 3)]
    specs = {}
    ctrl = set()
    for l in lines:
        p = l.split()
        if p[0][0] in 'HF' and len(p) >= 5:
            ctrl.add(p[3])
    for i in srcs:
        m = SRC_RE.match(lines[i])
        name, a, b_ = m.group(1), m.group(2), m.group(3)
        spec = rand_source_spec(rng, profile, nids)
        specs[name] = dict(spec, np=a, nm=b_)
        lines[i] = source_line(name, a, b_, spec)
    subs = {}
    equiv = None
    if profile in ('multi', 'ac', 'noise', 'mixed', 'dcstep') and rng.random() < 0.45:
        # one source becomes a sinusoid whose amplitude is an unexpanded sum of two symbols (ACChecker._is_sum_ac path)
        sname = rng.choice(sorted(specs))
        am, bm = Fraction(rng.randint(1, 5), rng.choice((1, 2, 3))), Fraction(rng.randint(1, 5), rng.choice((1, 2)))
        if rng.random() < 0.3:
            bm = -bm - 1
        if am + bm == 0:
            bm += 1
        subs = {'am': str(am), 'bm': str(bm)}
        terms = [{'k': rng.choice(['sin', 'sin', 'cos']), 'c': str(am + bm), 'w': str(rng.choice((1, 2, 3))), 'amp': '(am+bm)'}]
        if rng.random() < 0.4:
            terms.append({'k': rng.choice(['const', 'step']), 'c': rand_c(rng)})
        spec = {'kind': 'texpr', 'terms': terms, 'np': specs[sname]['np'], 'nm': specs[sname]['nm']}
        specs[sname] = spec
        for i in srcs:
            if lines[i].split()[0] == sname:
                lines[i] = source_line(sname, spec['np'], spec['nm'], spec)
        plain = dict(spec, terms=[{k_: v_ for k_, v_ in t_.items() if k_ != 'amp'} for t_ in terms])
        equiv = {'src': sname, 'line': source_line(sname, spec['np'], spec['nm'], plain)}
    sname = rng.choice(sorted(specs))
    k = rng.choice(['3', '-2', '5/2', '-1/3'])
    scale = {'src': sname, 'k': k, 'line': source_line(sname, specs[sname]['np'], specs[sname]['nm'], specs[sname], Fraction(k))}
    return {'type': 'circuit', 'netlist': lines, 'sources': specs, 'scale': scale, 'profile': profile, 'subs': subs, 'equiv': equiv,
            's0': '%d/%d' % (rng.randint(1, 9), rng.randint(1, 4)), 'w0': '%d/%d' % (rng.randint(1, 7), rng.randint(1, 3)),
            'tags': nl['tags'] + [profile], 'timeout': 75 if tier == 'quick' else 300}


def gen_container(rng):
    n = rng.randint(2, 6)
    terms = []
    collide = rng.random() < 0.3       # allow several sinusoids of one frequency / repeated keys
    ws = ['1', '2', '3']
    used = set()
    for _ in range(n):
        k = rng.choice(['const', 'cos', 'sin', 'step', 'exp', 'ramp', 'sdom', 'phasor', 'noise', 'noise', 'tsum'])
        d = {'k': k, 'c': rand_c(rng)}
        if k in ('cos', 'sin', 'phasor'):
            d['w'] = rng.choice(ws)
            if k == 'phasor':
                d['ci'] = rand_c(rng) if rng.random() < 0.5 else '0'
        if k in ('exp', 'sdom'):
            d['a'] = str(rng.randint(1, 4))
        if k == 'noise':
            d['nid'] = 'nz%d' % rng.randint(1, 3)
            d['c'] = str(abs(Fraction(d['c'])))
        if k == 'tsum':
            sub = []
            for _ in range(rng.randint(2, 3)):
                kk = rng.choice(['const', 'cos', 'sin', 'step', 'exp'])
                dd = {'k': kk, 'c': rand_c(rng)}
                if kk in ('cos', 'sin'):
                    dd['w'] = rng.choice(ws)
                if kk == 'exp':
                    dd['a'] = str(rng.randint(1, 4))
                sub.append(dd)
            d['terms'] = sub
        terms.append(d)
    if not collide:
        # keep at most one sinusoid / phasor per frequency and one constant
        seen_w = set()
        seen_const = False
        flat = []
        for d in terms:
            subs = d['terms'] if d['k'] == 'tsum' else [d]
            ok = True
            for s_ in subs:
                if s_['k'] in ('cos', 'sin', 'phasor'):
                    if s_['w'] in seen_w:
                        ok = False
                if s_['k'] == 'const' and seen_const:
                    ok = False
            if not ok:
                continue
            for s_ in subs:
                if s_['k'] in ('cos', 'sin', 'phasor'):
                    seen_w.add(s_['w'])
                if s_['k'] == 'const':
                    seen_const = True
            flat.append(d)
        terms = flat or [{'k': 'const', 'c': '2'}]
    idx = list(range(len(terms)))
    rng.shuffle(idx)
    ng = rng.randint(1, min(3, len(terms)))
    groups = [[] for _ in range(ng)]
    for j, i in enumerate(idx):
        groups[j % ng].append(i)
    return {'type': 'container', 'quantity': rng.choice(['voltage', 'current']), 'terms': terms, 'groups': groups,
            's0': '%d/%d' % (rng.randint(1, 9), rng.randint(1, 4)), 'w0': '%d/%d' % (rng.randint(1, 7), rng.randint(1, 3)),
            'collide': collide, 'timeout': 40}


CORPUS = [
    # resistive circuit, cos and sin of one frequency from different sources (decompose overwrite), noise
    {'type': 'circuit', 'profile': 'res', 'tags': ['corpus'], 's0': '3/2', 'w0': '5/3', 'timeout': 120,
     'netlist': ['V1 1 0 {3+cos(2*t)+u(t)}', 'R1 1 2 2', 'R2 2 0 3', 'I1 2 0 {sin(2*t)}', 'V3 3 2 noise {2}', 'R3 3 0 1'],
     'sources': {'V1': {'kind': 'texpr', 'terms': [{'k': 'const', 'c': '3'}, {'k': 'cos', 'c': '1', 'w': '2'}, {'k': 'step', 'c': '1'}], 'np': '1', 'nm': '0'},
                 'I1': {'kind': 'texpr', 'terms': [{'k': 'sin', 'c': '1', 'w': '2'}], 'np': '2', 'nm': '0'},
                 'V3': {'kind': 'noise', 'c': '2', 'nid': None, 'np': '3', 'nm': '2'}},
     'scale': {'src': 'I1', 'k': '3', 'line': 'I1 2 0 {3*sin(2*t)}'}},
    # initial value problem (kill_except and the initial conditions, DESIGN F2)
    {'type': 'circuit', 'profile': 'ivp', 'tags': ['corpus'], 's0': '2/1', 'w0': '1/1', 'timeout': 120,
     'netlist': ['V1 1 0 step {5}', 'R1 1 2 2', 'C1 2 0 3 4', 'I1 2 0 step {2}'],
     'sources': {'V1': {'kind': 'step', 'c': '5', 'np': '1', 'nm': '0'}, 'I1': {'kind': 'step', 'c': '2', 'np': '2', 'nm': '0'}},
     'scale': {'src': 'V1', 'k': '3', 'line': 'V1 1 0 step {15}'}},
    # dc + ac + step + shared noise identifier, one reactive element
    {'type': 'circuit', 'profile': 'noise', 'tags': ['corpus'], 's0': '3/2', 'w0': '5/3', 'timeout': 120,
     'netlist': ['V1 1 0 dc {5}', 'R1 1 2 2', 'C1 2 0 3', 'I1 2 0 step {4}', 'R2 2 3 1', 'V2 3 0 ac {3} 0 2', 'V3 4 0 noise {3} nx7',
                 'R3 4 2 5', 'I2 2 0 noise {2} nx7'],
     'sources': {'V1': {'kind': 'dc', 'c': '5', 'np': '1', 'nm': '0'}, 'I1': {'kind': 'step', 'c': '4', 'np': '2', 'nm': '0'},
                 'V2': {'kind': 'ac', 'c': '3', 'w': '2', 'np': '3', 'nm': '0'}, 'V3': {'kind': 'noise', 'c': '3', 'nid': 'nx7', 'np': '4', 'nm': '0'},
                 'I2': {'kind': 'noise', 'c': '2', 'nid': 'nx7', 'np': '2', 'nm': '0'}},
     'scale': {'src': 'V2', 'k': '-2', 'line': 'V2 3 0 ac {-6} 0 2'}},
    # coupled inductors with initial currents (the K stamp reads both), and the same coupling without ICs + ac
    {'type': 'circuit', 'profile': 'ivp', 'tags': ['corpus', 'K'], 's0': '2/1', 'w0': '1/1', 'timeout': 120,
     'netlist': ['V1 1 0 step {5}', 'R1 1 2 2', 'L1 2 0 3 1', 'L2 3 0 3 -2', 'R2 3 0 4', 'K1 L1 L2 {1/2}', 'I1 3 0 step {2}'],
     'sources': {'V1': {'kind': 'step', 'c': '5', 'np': '1', 'nm': '0'}, 'I1': {'kind': 'step', 'c': '2', 'np': '3', 'nm': '0'}},
     'scale': {'src': 'I1', 'k': '-2', 'line': 'I1 3 0 step {-4}'}},
    {'type': 'circuit', 'profile': 'ac', 'tags': ['corpus', 'K'], 's0': '3/2', 'w0': '2/1', 'timeout': 120,
     'netlist': ['V1 1 0 ac {5} 0 2', 'R1 1 2 2', 'L1 2 0 3', 'L2 3 0 3', 'R2 3 0 4', 'K1 L1 L2 {1/4}', 'I1 3 0 step {2}', 'V2 4 3 dc {1}', 'R3 4 0 1'],
     'sources': {'V1': {'kind': 'ac', 'c': '5', 'w': '2', 'np': '1', 'nm': '0'}, 'I1': {'kind': 'step', 'c': '2', 'np': '3', 'nm': '0'},
                 'V2': {'kind': 'dc', 'c': '1', 'np': '4', 'nm': '3'}},
     'scale': {'src': 'V1', 'k': '3', 'line': 'V1 1 0 ac {15} 0 2'}},
    # amplitude written as a sum (ACChecker._is_sum_ac): additivity / homogeneity / exact phasor
    {'type': 'circuit', 'profile': 'multi', 'tags': ['corpus', 'ampsum'], 's0': '3/2', 'w0': '2/1', 'timeout': 120,
     'subs': {'am': '1', 'bm': '3/2'},
     'netlist': ['V1 1 0 {(am+bm)*sin(2*t)}', 'V2 2 1 {3+u(t)}', 'R1 2 3 1', 'C1 3 0 1'],
     'sources': {'V1': {'kind': 'texpr', 'terms': [{'k': 'sin', 'c': '5/2', 'w': '2', 'amp': '(am+bm)'}], 'np': '1', 'nm': '0'},
                 'V2': {'kind': 'texpr', 'terms': [{'k': 'const', 'c': '3'}, {'k': 'step', 'c': '1'}], 'np': '2', 'nm': '1'}},
     'equiv': {'src': 'V1', 'line': 'V1 1 0 {(5/2)*sin(2*t)}'},
     'scale': {'src': 'V1', 'k': '3', 'line': 'V1 1 0 {3*(am+bm)*sin(2*t)}'}},
    {'type': 'container', 'quantity': 'voltage', 's0': '3/2', 'w0': '5/3', 'collide': True, 'timeout': 40,
     'terms': [{'k': 'const', 'c': '3'}, {'k': 'cos', 'c': '2', 'w': '2'}, {'k': 'sin', 'c': '5', 'w': '2'}, {'k': 'step', 'c': '1'},
               {'k': 'sdom', 'c': '2', 'a': '3'}, {'k': 'noise', 'c': '3', 'nid': 'nz1'}, {'k': 'noise', 'c': '4', 'nid': 'nz1'},
               {'k': 'noise', 'c': '4', 'nid': 'nz2'}, {'k': 'phasor', 'c': '2', 'ci': '1', 'w': '3'}],
     'groups': [[0, 1, 5], [2, 3, 4, 6, 7, 8]]},
]


def gen_cases(rng, tier):
    nc = int(os.environ.get('VERIF_NCASES', 34 if tier == 'quick' else 400))
    profiles = ['mixed', 'dcstep', 'multi', 'sdom', 'noise', 'ac', 'res', 'ivp', 'mixed', 'multi', 'res']
    cases = [dict(c) for c in CORPUS]
    for i in range(nc):
        cases.append(gen_circuit(rng, profiles[i % len(profiles)], tier))
    ncont = int(os.environ.get('VERIF_NCONT', 130 if tier == 'quick' else 1500))
    for i in range(ncont):
        cases.append(gen_container(rng))
    for i in range(12 if tier == 'quick' else 60):
        a = {'c': str(rng.randint(1, 9)), 'nid': 'nz%d' % rng.randint(1, 2)}
        b_ = {'c': str(rng.randint(1, 9)), 'nid': 'nz%d' % rng.randint(1, 2)}
        cases.append({'type': 'noise', 'items': [a, b_], 'w0': '3/2', 'timeout': 20})
    return cases


# ---- model terms from specs (the worker computes the images with its own tables) --------------------
# container model literals
def wid(wmap, w):
    w = Fraction(w)
    if w not in wmap:
        wmap[w] = len(wmap)
    return wmap[w]


def nidnum(nmap, nid):
    if nid not in nmap:
        nmap[nid] = len(nmap)
    return nmap[nid]


def key_lit(ks, wmap, nmap):
    if ks == 'dc':
        return 'KyDC'
    if ks == 't':
        return 'KyT'
    if ks == 'x':
        return 'KyX'
    if ks == 's':
        return 'KyS'
    if ks.startswith('w:'):
        return '(KyAC %d)' % wid(wmap, ks[2:])
    if ks.startswith('n'):
        return '(KyN %d)' % nidnum(nmap, ks)
    return None


def terms_of_parts(parts, wmap, nmap):
    """model terms (Coq literals) + python tuples from the stored parts of a real Superposition;
    time-domain parts are split into their additive terms, classified by the worker's own classifier.
    returns (list of coq term literals, list of python dict terms) or None when an image is unavailable"""
    lits, terms = [], []
    for p in parts:
        ks = p['key']
        kl = key_lit(ks, wmap, nmap)
        if kl is None or p.get('unknown'):
            return None
        if ks in ('t', 'x', 'dc'):
            if 'terms' not in p:
                return None
            for tm in p['terms']:
                if tm['s'] is None:
                    return None
                cl = {'dc': 'ClDC', 'x': 'ClX'}.get(tm['cls']) or '(ClAC %d)' % wid(wmap, tm['w'])
                ph = P(tm['ph']) if tm['ph'] else Z0
                terms.append({'key': ks, 'cls': tm['cls'], 'w': tm['w'], 't': P(tm['t']), 's': P(tm['s']), 'ph': ph})
                lits.append('tm %s %s %s %s %s %s' % (kl, cl, qi(P(tm['t'])), qi(P(tm['s'])), qi((ph[0], Fraction(0))), qi((ph[1], Fraction(0)))))
        elif ks == 's':
            if p['s'] is None:
                return None
            tt = P(p['t']) if p.get('t') is not None else None
            terms.append({'key': 's', 'cls': 'x', 'w': None, 't': tt, 's': P(p['s']), 'ph': Z0})
            lits.append('tm KyS ClX %s %s ci0 ci0' % (qi(tt or Z0), qi(P(p['s']))))
        elif ks.startswith('w:'):
            if p.get('ph') is None or p.get('t') is None:
                return None
            ph = P(p['ph'])
            terms.append({'key': ks, 'cls': 'ac', 'w': ks[2:], 't': P(p['t']), 's': P(p['s']), 'ph': ph})
            lits.append('tm %s (ClAC %d) %s %s %s %s' % (kl, wid(wmap, ks[2:]), qi(P(p['t'])), qi(P(p['s'])),
                                                          qi((ph[0], Fraction(0))), qi((ph[1], Fraction(0)))))
        elif ks.startswith('n'):
            if p.get('amp') is None:
                return None
            terms.append({'key': ks, 'cls': 'n', 'w': None, 'amp': P(p['amp'])})
            lits.append('tm %s ClX %s ci0 ci0 ci0' % (kl, qi(P(p['amp']))))
    return lits, terms


def buckets(terms):
    """representation-independent invariants of a signal from classified terms:
    DC (time image), AC {w: phasor}, TR (Laplace image of everything transient), T-image of the non-'s' terms,
    noise {key: amplitude}"""
    dc = Z0
    ac = {}
    tr = Z0
    tnos = Z0
    has_s = False
    s_t_ok = True
    s_t = Z0
    noise = {}
    for t_ in terms:
        if t_['cls'] == 'n':
            noise[t_['key']] = cadd(noise.get(t_['key'], Z0), t_['amp'])
            continue
        k = t_['key']
        if k == 's':
            tr = cadd(tr, t_['s'])
            has_s = True
            if t_['t'] is None:
                s_t_ok = False
            else:
                s_t = cadd(s_t, t_['t'])
            continue
        tnos = cadd(tnos, t_['t'])
        if k == 'dc' or (k == 't' and t_['cls'] == 'dc'):
            dc = cadd(dc, t_['t'])
        elif k.startswith('w:') or (k == 't' and t_['cls'] == 'ac'):
            w = Fraction(t_['w'] if not k.startswith('w:') else k[2:])
            ac[w] = cadd(ac.get(w, Z0), t_['ph'])
        else:
            tr = cadd(tr, t_['s'])
    return {'dc': dc, 'ac': {w: v for w, v in ac.items() if v != Z0}, 'tr': tr, 'tnos': tnos,
            'time': cadd(tnos, s_t) if s_t_ok else None, 'noise': {k: v for k, v in noise.items() if v != Z0}}


def lap_of(bk, s0):
    """Laplace image at s0 of the signal described by buckets (own formulas)"""
    s0 = Fraction(s0)
    tot = (bk['dc'][0] / s0, Fraction(0))
    for w, ph in bk['ac'].items():
        tot = cadd(tot, ((ph[0] * s0 - ph[1] * w) / (s0 * s0 + w * w), Fraction(0)))
    return cadd(tot, bk['tr'])


def bk_add(a, b_, k=1):
    k = (Fraction(k), Fraction(0))
    ac = dict(a['ac'])
    for w, v in b_['ac'].items():
        ac[w] = cadd(ac.get(w, Z0), cmul(k, v))
    return {'dc': cadd(a['dc'], cmul(k, b_['dc'])), 'ac': {w: v for w, v in ac.items() if v != Z0},
            'tr': cadd(a['tr'], cmul(k, b_['tr']))}


def bk_eq(a, b_):
    return a['dc'] == b_['dc'] and a['tr'] == b_['tr'] and \
        {w: v for w, v in a['ac'].items() if v != Z0} == {w: v for w, v in b_['ac'].items() if v != Z0}


BK0 = {'dc': Z0, 'ac': {}, 'tr': Z0}


def spec_buckets(spec, s0):
    """independent statement of what a source spec means (own formulas, exact)"""
    s0 = Fraction(s0)
    dc, ac, tr = Z0, {}, Z0
    kind = spec['kind']
    terms = spec['terms'] if kind == 'texpr' else [dict(spec, k={'dc': 'const', 'step': 'step', 'ac': 'cos', 'sdom': 'sdom', 'noise': 'noise'}[kind])]
    noise = None
    for t_ in terms:
        c = Fraction(t_['c'])
        k = t_['k']
        if k == 'const':
            dc = cadd(dc, (c, Fraction(0)))
        elif k == 'cos':
            w = Fraction(t_['w'])
            ac[w] = cadd(ac.get(w, Z0), (c, Fraction(0)))
        elif k == 'sin':
            w = Fraction(t_['w'])
            ac[w] = cadd(ac.get(w, Z0), (Fraction(0), -c))
        elif k == 'step':
            tr = cadd(tr, (c / s0, Fraction(0)))
        elif k == 'exp':
            tr = cadd(tr, (c / (s0 + Fraction(t_['a'])), Fraction(0)))
        elif k == 'ramp':
            tr = cadd(tr, (c / (s0 * s0), Fraction(0)))
        elif k == 'sdom':
            tr = cadd(tr, (c / (s0 + Fraction(t_['a'])), Fraction(0)))
        elif k == 'noise':
            noise = c
    return {'dc': dc, 'ac': {w: v for w, v in ac.items() if v != Z0}, 'tr': tr}, noise


# ---- Coq side: MNA level --------------------------------------------------------------------------
KINDC = {'dc': 'KDc', 's': 'KS', 'ivp': 'KIvp', 'laplace': 'KLaplace', 'transient': 'KTransient', 't': 'KT', 'time': 'KTime'}


def kind_const(k):
    if k in KINDC:
        return KINDC[k]
    if k.startswith('w:'):
        return 'KAc'
    if k.startswith('n'):
        return 'KNoise'
    return None


def rawc_of(e, ids, kindc, owner, eps):
    pr = dict(e['params'])
    pr['pEps'] = eps
    arms = []
    for pn in PNAMES:
        v = pr.get(pn)
        if v is not None:
            arms.append('%s => %s' % (pn, qi(P(v))))
    par = '(fun n => match n with %s | _ => ci0 end)' % ' | '.join(arms) if arms else '(fun _ => ci0)'
    n = (e['nidx'] + [-1, -1, -1, -1])[:4]
    cidx = (e.get('cidx') or [-1, -1])
    ctrl = ids.get(e.get('ctrl'), 0)
    typ = {'C': 'TyC', 'm': 'TyM'}.get(e['type'], 'TyOtherType')
    info = '(CI %d %s %s %s %d)' % (ids[e['name']], b(e['need_branch_current']), b(e['need_extra_branch_current']),
                                    b(e['is_current_controlled']), ctrl)
    return ('(RawC c%s %s %s %s (%d) (%d) (%d) (%d) (%d) (%d) %d %d %s %s %s %s %s)' % (
        owner, info, kindc, typ, n[0], n[1], n[2], n[3], cidx[0], cidx[1],
        ids.get(e.get('L1'), 0), ids.get(e.get('L2'), 0),
        b(e.get('has_ic')), b(e.get('ctrl_is_vsrc', False)), b(e['nargs'] > 1), b(e.get('tp_has_src')), par))


def rhs_of_group(kd, kind, members, nn, mm):
    """right-hand side produced by the sources of the listed elements only (certificate
    construction; the result is checked in Coq against the model)"""
    z = [Z0] * (nn + mm)
    ub = kd['unknown_branch_currents']
    for e in kd['elements']:
        if e['name'] not in members:
            continue
        ty = e['type']
        n0, n1 = (e['nidx'] + [-1, -1])[:2]
        isc = P(e['params'].get('pIsc')) or Z0
        voc = P(e['params'].get('pVoc')) or Z0
        if ty == 'I' or (ty == 'C' and kind == 'ivp' and e.get('has_ic')):
            if n0 >= 0:
                z[n0] = cadd(z[n0], isc)
            if n1 >= 0:
                z[n1] = csub(z[n1], isc)
        elif ty == 'V' or (ty == 'L' and kind == 'ivp' and e.get('has_ic')):
            if e['name'] in ub:
                m = ub.index(e['name'])
                z[nn + m] = cadd(z[nn + m], voc)
        elif ty == 'K' and kind == 'ivp':
            M = P(e['params'].get('pZM2')) or Z0
            i01 = P(e['params'].get('pI01')) or Z0
            i02 = P(e['params'].get('pI02')) or Z0
            if e.get('L1') in ub and e.get('L2') in ub:
                m1, m2 = ub.index(e['L1']), ub.index(e['L2'])
                z[nn + m1] = csub(z[nn + m1], cmul(M, i02))
                z[nn + m2] = csub(z[nn + m2], cmul(M, i01))
    return z


def mna_checks(ci, case, wr, tr, res, flags):
    """Coq boolean checks for one circuit; returns list of (label, defn, expr)"""
    checks = []
    srcs = wr['sources']
    ics = wr.get('ics', [])
    for kind, kd in wr['kinds'].items():
        kindc = kind_const(kind)
        kl_ = kind.replace('/', '|')
        if kindc is None or 'solve_error' in kd:
            res.count('kind_not_modelled' if kindc is None else 'singular_or_unsolvable')
            continue
        ids = {e['name']: i for i, e in enumerate(kd['elements'])}
        raws = []
        ok = True
        for e in kd['elements']:
            owner = None
            for c in e['mro']:
                o = tr.stamp_owner(c) if c in tr.bases else None
                if o:
                    owner = o
                    break
            if owner is None or owner not in CNAMES:
                ok = False
                res.count('unsupported_class_' + str(e['cls']))
                break
            raws.append(rawc_of(e, ids, kindc, owner, case.get('eps', '0')))
        if not ok:
            continue
        # a capacitor in a dc analysis is stamped as the conductance eps and the solution is the limit eps -> 0:
        # the limit solves the system taken at eps = 0 (matrix and model are evaluated there, case['eps'] = 0)
        if kd.get('has_eps'):
            res.count('dc_kind_with_capacitor_checked_at_eps_0')
        A, Zv = kd['A'], kd['Z']
        nn = len(kd['node_list']) - 1
        mm = len(kd['unknown_branch_currents'])
        if any(x is None for row in A for x in row) or any(x is None for x in Zv):
            res.count('matrix_not_exact')
            continue
        sol = None
        for m_, x in kd.get('solutions', {}).items():
            if not isinstance(x, dict) and all(v is not None for v in x):
                sol = [P(v) for v in x]
                break
        if sol is None:
            res.count('solution_not_exact')
            continue
        ktag = re.sub(r'[^A-Za-z0-9]', '_', kind)
        es = 'es_%d_%s' % (ci, ktag)
        defn = 'Definition %s : list rawc := [%s].' % (es, ';\n  '.join(raws))
        checks.append(('%d/%s/full_solution' % (ci, kl_), defn, 'check_full %s %d%%nat %d%%nat %s' % (es, nn, mm, qil(sol))))
        # groups: each independent source, and the set of initial conditions
        Am = [[P(x) for x in row] for row in A]
        Zfull = [P(x) for x in Zv]
        groups = [(s_, [s_]) for s_ in srcs if s_ in ids]
        ic_members = [n for n in ics if n in ids and kind == 'ivp']
        # a mutual inductance reads the initial currents of its two inductors: its position belongs to the ICs
        kcpl = [e['name'] for e in kd['elements'] if e['type'] == 'K']
        if kcpl:
            res.count('mna_kinds_with_mutual_inductance')
        if kind == 'ivp':
            ic_members += kcpl
        if ic_members:
            groups.append(('ICs', ic_members))
        zs = {g: rhs_of_group(kd, kind, mem, nn, mm) for g, mem in groups}
        tot = [csum([zs[g][i] for g in zs]) for i in range(nn + mm)]
        if tot != Zfull:
            res.count('rhs_not_explained_by_sources')     # e.g. a component kind whose sources this harness does not split
            continue
        xs = {}
        for g, mem in groups:
            x = solve(Am, zs[g])
            if x is None:
                break
            xs[g] = x
        if len(xs) != len(groups):
            res.count('certificate_solve_failed')
            continue
        for g, mem in groups:
            checks.append(('%d/%s/group_solution_%s' % (ci, kl_, g), None, 'check_group %s [%s] %d%%nat %d%%nat %s' % (
                es, '; '.join('%d%%nat' % ids[m_] for m_ in mem), nn, mm, qil(xs[g]))))
        if groups:
            checks.append(('%d/%s/group_sum' % (ci, kl_), None, 'check_vsum [%s] %s' % ('; '.join(qil(xs[g]) for g, _ in groups), qil(sol))))
        res.count('mna_kinds_checked')
        # what kill_except(g) reports vs the zero-valued-source model
        for g, mem in groups:
            kg = wr['killed'].get(g)
            if not kg or 'error' in kg:
                res.count('kill_error:' + (kg or {}).get('error', 'missing').split(':')[0])
                continue
            # initial conditions that survive kill_except(source) (finding F2): the implementation keeps them
            keep = list(mem)
            xg = xs[g]
            if g != 'ICs' and kind == 'ivp' and kg.get('ics'):
                flags.add('ics_survive')
                if 'ICs' in xs:
                    xg = [cadd(a_, b_) for a_, b_ in zip(xs[g], xs['ICs'])]
            # the killed circuit's analysis kinds: same key, or 'transient' for an ivp whose ICs were removed
            ksub = kg['sub'].get(kind)
            if ksub is None and kind == 'ivp' and not kg.get('ics'):
                cands = [k_ for k_ in kg['sub'] if k_ in ('transient',)]
                if len(kg['sub']) == 1 and cands:
                    ksub = kg['sub'][cands[0]]
            if ksub is None and re.match(r'^n\d+$', kind):
                # an unnamed noise source gets a fresh automatic identifier in every copy of the netlist
                nk = [k_ for k_ in kg['sub'] if k_.startswith('n')]
                if len(nk) == 1 and len([k_ for k_ in wr['kinds'] if k_.startswith('n')]) == 1:
                    ksub = kg['sub'][nk[0]]
            if ksub is None and 'time' in kg['sub'] and 'Vbk' in kg['sub']['time'] and \
                    (kind in ('dc', 'transient') or kind.startswith('w:')):
                # the killed circuit has no s-domain source left and is analysed in the time domain: take the
                # part of its time-domain result that belongs to this kind
                kt = kg['sub']['time']

                def part(bk):
                    if bk is None:
                        return None
                    if kind == 'dc':
                        return bk['dc']
                    if kind == 'transient':
                        return bk['tr']
                    return bk['ac'].get('%d/%d' % (Fraction(kind[2:]).numerator, Fraction(kind[2:]).denominator), '0/1')
                ksub = {'Vdict': {n_: part(b_) for n_, b_ in kt['Vbk'].items()},
                        'Idict': {n_: part(b_) for n_, b_ in kt['Ibk'].items()}}
                res.count('killed_time_domain_split_by_kind')
            if ksub is None:
                if all(v == Z0 for v in xg):
                    continue
                res.count('killed_kind_missing')
                if not kg['sub'] and any(v != Z0 for v in xg):
                    checks.append(('%d/%s/kill_%s/no_analysis' % (ci, kl_, g), None, 'false'))
                continue
            if 'solve_error' in ksub:
                res.count('killed_solve_error')
                continue
            for node, idx in kd['node_index'].items():
                ev = ksub['Vdict'].get(node)
                if ev is None:
                    continue
                checks.append(('%d/%s/kill_%s/V_%s' % (ci, kl_, g, node), None, 'check_node %s (%d) %s' % (qil(xg), idx, qi(P(ev)))))
            for j, nm in enumerate(kd['unknown_branch_currents']):
                ev = ksub['Idict'].get(nm)
                if ev is None or nm not in ids:
                    continue
                e = kd['elements'][ids[nm]]
                if e['type'] not in ('V', 'L', 'E', 'H', 'TF', 'AM'):
                    continue
                checks.append(('%d/%s/kill_%s/I_%s' % (ci, kl_, g, nm), None, 'check_node %s (%d) %s' % (qil(xg), nn + j, qi(P(ev)))))
            for e in kd['elements']:
                if e['type'] in ('R', 'C') and e['name'] in ksub['Idict'] and ksub['Idict'][e['name']] is not None:
                    V0, Zr = e['params'].get('V0'), e['params'].get('pZ')
                    if V0 is None or Zr is None or P(Zr) == Z0:
                        continue
                    v0 = P(V0)
                    if e['type'] == 'C' and kind == 'ivp' and e.get('has_ic') and e['name'] not in keep and not (g != 'ICs' and kg.get('ics')):
                        v0 = Z0       # this capacitor's initial condition is part of another group
                    checks.append(('%d/%s/kill_%s/I_%s' % (ci, kl_, g, e['name']), None, 'check_reportc %s %d%%nat RImm %s %s %d%%nat %s %s' % (
                        es, ids[e['name']], qi(v0), qi(P(Zr)), nn, qil(xg), qi(P(ksub['Idict'][e['name']])))))
    return checks


# ---- Coq side: containers ---------------------------------------------------------------------------
def container_checks(prefix, dump, wmap, nmap, res, model_lits=None, want=('dec', 'parts', 'laplace', 'time', 'kinds', 'noise')):
    """checks of one real Superposition against the container model.  The model terms are the
    stored parts (split into classified additive terms) unless model_lits is given."""
    out = []
    if 'error' in dump or 'parts' not in dump:
        return out
    tp = terms_of_parts(dump['parts'], wmap, nmap)
    if tp is None and model_lits is None:
        res.count('container_images_unavailable')
        return out
    lits = model_lits if model_lits is not None else tp[0]
    sig = '[%s]' % '; '.join(lits)
    name = 'sg_' + re.sub(r'[^A-Za-z0-9]', '_', prefix)
    defn = 'Definition %s : sig QcIF := %s.' % (name, sig)
    first = [True]

    def add(label, expr):
        out.append((prefix + '/' + label.replace('/', '|'), defn if first[0] else None, expr))
        first[0] = False
    if 'dec' in dump and 'dec' in want:
        seen = set()
        for p in dump['dec']:
            ks = p['key']
            kl = key_lit(ks, wmap, nmap)
            seen.add(ks)
            if kl is None:
                continue
            if ks in ('dc', 'x', 't'):
                if p.get('t') is not None:
                    add('dec_t_' + ks, 'eqc (tval %s (decompose %s)) %s' % (kl, name, qi(P(p['t']))))
                if p.get('s') is not None:
                    add('dec_s_' + ks, 'eqc (sval %s (decompose %s)) %s' % (kl, name, qi(P(p['s']))))
            elif ks == 's' and p.get('s') is not None:
                add('dec_s_s', 'eqc (sval KyS (decompose %s)) %s' % (name, qi(P(p['s']))))
            elif ks.startswith('w:') and p.get('ph') is not None:
                ph = P(p['ph'])
                w = wid(wmap, ks[2:])
                add('dec_ph_' + ks, 'eqc (phasor_re %d %s) %s && eqc (phasor_im %d %s) %s' % (
                    w, name, qi((ph[0], Fraction(0))), w, name, qi((ph[1], Fraction(0)))))
            elif ks.startswith('n') and p.get('amp') is not None:
                add('dec_n_' + ks, 'eqc (nlookup %d (nstore (noise_items %s))) %s' % (nidnum(nmap, ks), name, qi(P(p['amp']))))
        # a key of the model with a non-zero value must be present in the real decomposition
        for ks in ('dc', 'x', 's'):
            if ks not in seen:
                add('dec_absent_' + ks, 'eqc (tval %s (decompose %s)) ci0 && eqc (sval %s (decompose %s)) ci0' % (
                    key_lit(ks, wmap, nmap), name, key_lit(ks, wmap, nmap), name))
        for w_, wi in list(wmap.items()):
            ks = 'w:%d/%d' % (w_.numerator, w_.denominator)
            if ks not in seen:
                add('dec_absent_' + ks, 'eqc (phasor_re %d %s) ci0 && eqc (phasor_im %d %s) ci0' % (wi, name, wi, name))
    if 'dc' in dump and dump['dc'] is not None and 'dec' in want:
        add('dc', 'eqc (part_dc %s) %s' % (name, qi(P(dump['dc']))))
    if 'ac' in dump and 'dec' in want:
        for ks, v in dump['ac'].items():
            if v is None or '?' in ks:
                continue
            ph = P(v)
            w = wid(wmap, ks[2:])
            add('ac_' + ks, 'eqc (phasor_re %d %s) %s && eqc (phasor_im %d %s) %s' % (
                w, name, qi((ph[0], Fraction(0))), w, name, qi((ph[1], Fraction(0)))))
    if dump.get('laplace') is not None and 'laplace' in want:
        add('laplace', 'eqc (laplace %s) %s' % (name, qi(P(dump['laplace']))))
    if model_lits is not None:
        all_t = all(not l.startswith('tm KyS') for l in lits)
    else:
        all_t = all(t_.get('t') is not None for t_ in tp[1] if t_['key'] == 's')
    if dump.get('time_t') is not None and 'time' in want and all_t:
        add('time', 'eqc (time %s) %s' % (name, qi(P(dump['time_t']))))
    if dump.get('time_s') is not None and 'time' in want:
        add('time_laplace_image', 'eqc (laplace %s) %s' % (name, qi(P(dump['time_s']))))
    if dump.get('transient_s') is not None and 'time' in want:
        add('transient_s', 'eqc (part_transient_s %s) %s' % (name, qi(P(dump['transient_s']))))
    if dump.get('transient_t') is not None and 'time' in want and all_t:
        add('transient_t', 'eqc (part_transient %s) %s' % (name, qi(P(dump['transient_t']))))
    if 'kinds_tr' in dump and 'kinds' in want:
        gl = []
        for ks in dump['kinds_tr']:
            if ks == 'dc':
                gl.append('GDC')
            elif ks == 'transient':
                gl.append('GTR')
            elif ks.startswith('w:') and '?' not in ks:
                gl.append('(GAC %d)' % wid(wmap, ks[2:]))
            elif ks.startswith('n'):
                gl.append('(GN %d)' % nidnum(nmap, ks))
            else:
                gl.append('GTR')
        add('kinds', 'check_kinds %s [%s]' % (name, '; '.join(gl)))
    if dump.get('n2') is not None and 'noise' in want:
        add('noise_power', 'eqc (noise_power (K:=QcIF) nsqc (noise_items %s)) %s' % (name, qi(P(dump['n2']))))
    return out


def spec_term_lits(terms, s0, wmap, nmap, images):
    """model terms of a direct container case: images[i] is the worker's independent image record of term i"""
    lits = []
    for t_, im in zip(terms, images):
        if im is None:
            return None
        for r in im:
            kl = key_lit(r['key'], wmap, nmap)
            if r['key'].startswith('n'):
                lits.append('tm %s ClX %s ci0 ci0 ci0' % (kl, qi(P(r['amp']))))
                continue
            cl = {'dc': 'ClDC', 'x': 'ClX'}.get(r['cls']) or '(ClAC %d)' % wid(wmap, r['w'])
            ph = P(r['ph']) if r.get('ph') else Z0
            if r['s'] is None or r['t'] is None:
                return None
            lits.append('tm %s %s %s %s %s %s' % (kl, cl, qi(P(r['t'])), qi(P(r['s'])), qi((ph[0], Fraction(0))), qi((ph[1], Fraction(0)))))
    return lits


HEADER = ('Require Import LT.FieldSec LT.Circuit LT.MNA LT.LinearSys LT.QcI LT.SuperposModel.\n'
          'Require Import Gen.StampsGen Gen.C01model Gen.C03defs Gen.C03model.\n'
          'Local Open Scope Z_scope.\nLocal Open Scope bool_scope.\n')


def parse_z_list(out):
    m = re.search(r'=\s*\[(.*?)\]\s*:\s*list Z', out, re.S)
    if not m:
        return None
    body = m.group(1).strip()
    return [int(x.strip()) for x in body.split(';')] if body else []


EXTRA_IMPORT = ['']


def cases_file(items):
    lines = [HEADER + EXTRA_IMPORT[0]]
    seen = set()
    for gi, defn, expr in items:
        if defn and defn not in seen:
            seen.add(defn)
            lines.append(defn)
    lines.append('Definition cases : list (Z * bool) := [')
    lines.append(';\n'.join('(%d, %s)' % (gi, expr) for gi, defn, expr in items))
    lines.append('].\nDefinition failing := map fst (filter (fun p => negb (snd p)) cases).\nEval vm_compute in failing.\n')
    return '\n'.join(lines)


# ---- independent search oracle (public results only, exact) -----------------------------------------
def obj_terms(dump):
    """classified terms of a real Superposition from its STORED parts (python side)"""
    if dump is None or 'error' in dump or 'parts' not in dump:
        return None
    tp = terms_of_parts(dump['parts'], {}, {})
    return None if tp is None else tp[1]


def fingerprint_decompose(terms):
    """structural reasons why Superposition.decompose() is known to drop terms"""
    fp = set()
    by_w = {}
    stored_w = set()
    n_tdc = 0
    for t_ in terms:
        if t_['key'] == 't' and t_['cls'] == 'ac':
            w = Fraction(t_['w'])
            by_w[w] = by_w.get(w, 0) + 1
        if t_['key'].startswith('w:'):
            stored_w.add(Fraction(t_['key'][2:]))
        if t_['key'] == 't' and t_['cls'] == 'dc':
            n_tdc += 1
    if any(v > 1 for v in by_w.values()):
        fp.add('decompose:same-omega-terms-overwritten')
    if any(w in stored_w for w in by_w) or (n_tdc and any(t_['key'] == 'dc' for t_ in terms)) or \
            (any(t_['key'] == 't' and t_['cls'] == 'x' for t_ in terms) and any(t_['key'] == 'x' for t_ in terms)):
        fp.add('decompose:t-part-overwrites-existing-key')
    return fp


def oracle_object(label, dump, s0, out, case):
    """reassembly of one Superposition: the public dc / ac / transient / laplace() / time() views against the
    stored parts (own classification, own Laplace table)"""
    terms = obj_terms(dump)
    if terms is None:
        return None
    bk = buckets(terms)
    fp = fingerprint_decompose(terms)

    def bad(what, got, exp):
        keys = sorted(fp) if (fp and what in ('dc', 'ac', 'decompose', 'transient')) else ['reassembly:' + what]
        for k in keys:
            out.append({'key': k, 'what': '%s: %s is %s, the stored parts give %s' % (label, what, got, exp), 'case': case})
    if dump.get('dc') is not None and P(dump['dc']) != bk['dc']:
        bad('dc', dump['dc'], bk['dc'])
    if 'ac' in dump:
        got = {Fraction(k[2:]): P(v) for k, v in dump['ac'].items() if v is not None and '?' not in k}
        got = {w: v for w, v in got.items() if v != Z0}
        if all(v is not None for v in dump['ac'].values()) and got != bk['ac']:
            bad('ac', dump['ac'], {str(w): v for w, v in bk['ac'].items()})
    lap = lap_of(bk, s0)
    if dump.get('laplace') is not None and P(dump['laplace']) != lap:
        bad('laplace()', dump['laplace'], lap)
    if dump.get('time_s') is not None and P(dump['time_s']) != lap:
        bad('time() (Laplace image)', dump['time_s'], lap)
    if dump.get('time_t') is not None and bk['time'] is not None and P(dump['time_t']) != bk['time']:
        bad('time()', dump['time_t'], bk['time'])
    if dump.get('transient_s') is not None and P(dump['transient_s']) != bk['tr']:
        bad('transient', dump['transient_s'], bk['tr'])
    if dump.get('n2') is not None:
        exp = sum((cnorm(v) for v in bk['noise'].values()), Fraction(0))
        if P(dump['n2']) != (exp, Fraction(0)):
            bad('noise power .n**2', dump['n2'], exp)
    return bk


def oracle_circuit(case, wr, res):
    out = []
    s0 = case['s0']
    full = wr['api']
    srcs = wr['sources']
    groups = list(srcs) + (['ICs'] if wr.get('is_ivp') else [])
    killed = wr['killed']
    specs = case.get('sources', {})
    # (a) sources: what lcapy made of each source value vs what the netlist says
    for sname, dump in wr.get('source_sup', {}).items():
        if sname not in specs:
            continue
        exp, noise = spec_buckets(specs[sname], s0)
        terms = obj_terms(dump)
        if terms is None:
            res.count('oracle_source_unavailable')
            continue
        bk = buckets(terms)
        if not bk_eq(bk, exp):
            out.append({'key': 'source-value:' + specs[sname]['kind'], 'case': case,
                        'what': 'source %s: stored value %s differs from the netlist value %s' % (sname, bk, exp)})
        oracle_object('source %s' % sname, dump, s0, out, case)
        # every part of the source value must be analysed by some kind (grouping of sources by signal kind)
        if not wr.get('is_ivp') and not wr.get('is_time_domain'):
            need = ([('dc', 'dc')] if exp['dc'] != Z0 else []) + [('w:%d/%d' % (w_.numerator, w_.denominator), 'ac') for w_ in exp['ac']] + \
                   ([('transient', 'transient')] if exp['tr'] != Z0 else [])
            for kd_, tag in need:
                if kd_ not in wr['kinds']:
                    out.append({'key': 'groups:kind-not-analysed:' + tag, 'case': case,
                                'what': 'source %s has a %s part but the circuit has no %s analysis (kinds %s)' % (sname, tag, kd_, list(wr['kinds']))})
        elif exp['dc'] != Z0 or exp['ac'] or exp['tr'] != Z0:
            gk = 'ivp' if wr.get('is_ivp') else 'time'
            if sname not in wr.get('groups', {}).get(gk, []):
                out.append({'key': 'groups:source-not-in-' + gk, 'case': case,
                            'what': 'source %s has a non-noise value but is not in the %s analysis group %s' % (sname, gk, wr.get('groups'))})
        if noise is not None and noise != 0 and not wr.get('is_ivp') and not any(k_.startswith('n') for k_ in wr['kinds']):
            out.append({'key': 'groups:noise-not-analysed', 'case': case,
                        'what': 'noise source %s but the circuit has no noise analysis (kinds %s)' % (sname, list(wr['kinds']))})
        # per-kind selection: the value the sub-netlist of each kind uses
        for kind, kd in wr['kinds'].items():
            e = [x for x in kd['elements'] if x['name'] == sname]
            if not e:
                continue
            pv = e[0]['params'].get('pVoc' if dump.get('is_v') else 'pIsc')
            if pv is None:
                continue
            pv = P(pv)
            want = None
            if kind == 'dc':
                want = exp['dc']
            elif kind.startswith('w:'):
                want = exp['ac'].get(Fraction(kind[2:]), Z0)
            elif kind == 'transient':
                want = exp['tr']
            elif kind in ('ivp', 'laplace'):
                want = lap_of(exp, s0)
            elif kind.startswith('n'):
                nid = specs[sname].get('nid')
                if noise is None:
                    want = Z0
                elif nid is not None:
                    want = (noise, Fraction(0)) if kind == nid else Z0
                else:
                    # automatic identifier (renamed in every netlist copy): this source's own kind has the amplitude
                    want = None if pv == Z0 else (noise, Fraction(0))
            if want is not None and pv != want:
                fp = sorted(fingerprint_spec(specs[sname])) or ['select:' + (kind if not kind.startswith('w:') else 'ac')]
                for k in fp:
                    out.append({'key': k, 'case': case,
                                'what': 'source %s: analysis kind %s uses the value %s, the netlist value has %s' % (sname, kind, pv, want)})
    # (b) every observed quantity
    ics_survive = any(killed.get(g, {}).get('ics') for g in srcs) and wr.get('is_ivp')
    for cat in ('N', 'I'):
        for name, dump in full.get(cat, {}).items():
            label = ('V(%s)' if cat == 'N' else 'I(%s)') % name
            bk = oracle_object(label, dump, s0, out, case)
            if bk is None:
                res.count('oracle_object_unavailable')
                continue
            res.count('oracle_objects')
            # superposition over sources
            parts = {}
            ok = True
            for g in groups:
                kg = killed.get(g)
                if not kg or 'error' in kg:
                    ok = False
                    break
                d = kg['api'][cat].get(name)
                if d is None:
                    # the element is not in the killed circuit: a killed current source is an open circuit (no
                    # current); the current through a killed voltage source (a wire) is not reported by lcapy
                    if cat == 'I' and name in srcs and not wr['source_sup'].get(name, {}).get('is_v', True):
                        t_ = []
                    else:
                        t_ = None
                elif 'error' in d:
                    t_ = None
                else:
                    t_ = obj_terms(d)
                if t_ is None:
                    ok = False
                    break
                parts[g] = buckets(t_)
            if not ok:
                res.count('oracle_kill_unavailable')
                continue
            tot = BK0
            for g in groups:
                tot = bk_add(tot, parts[g])
            if not bk_eq(tot, bk):
                if ics_survive:
                    # kill_except(source) kept the initial conditions: every source response contains the ICs' response
                    corr = bk_add(tot, parts['ICs'], -len(srcs))
                    out.append({'key': 'kill_except:initial-conditions-survive', 'case': case,
                                'what': '%s: sum of kill_except responses %s != full response %s (ICs are not killed)' % (label, tot, bk)})
                    if not bk_eq(corr, bk):
                        out.append({'key': 'superposition:sum-of-parts', 'case': case,
                                    'what': '%s: even after removing the repeated IC response the parts %s do not sum to %s' % (label, corr, bk)})
                else:
                    out.append({'key': 'superposition:sum-of-parts', 'case': case,
                                'what': '%s: sum over sources of kill_except responses %s != full response %s' % (label, tot, bk)})
            res.count('oracle_superposition_checked')
            # noise: same identifier -> amplitudes add, distinct identifiers -> powers add
            nz = [g for g in srcs if specs.get(g, {}).get('kind') == 'noise']
            if nz and dump.get('n2') is not None:
                by_id = {}
                for i, g in enumerate(nz):
                    nid = specs[g].get('nid') or ('auto%d' % i)
                    amp = csum(list(parts[g]['noise'].values())) if 'noise' in parts[g] else Z0
                    by_id[nid] = cadd(by_id.get(nid, Z0), amp)
                exp = sum((cnorm(v) for v in by_id.values()), Fraction(0))
                if P(dump['n2']) != (exp, Fraction(0)):
                    out.append({'key': 'noise:combination', 'case': case,
                                'what': '%s: total noise power %s, expected %s from per-source amplitudes (same nid: amplitude, else power)' % (label, dump['n2'], exp)})
                res.count('oracle_noise_checked')
            # the same source value written with the amplitude already added up must give the same response
            eqv = wr.get('equiv')
            if eqv and 'error' not in eqv:
                d = eqv['api'][cat].get(name)
                t_ = obj_terms(d) if d is not None and 'error' not in d else None
                if t_ is not None:
                    got = buckets(t_)
                    if not bk_eq(got, bk):
                        out.append({'key': 'source-form:amplitude-sum', 'case': case,
                                    'what': '%s: with %s written as `%s` the response is %s, with the unexpanded amplitude sum it is %s' % (
                                        label, eqv['src'], eqv['line'], got, bk)})
                    res.count('oracle_equivalent_form_checked')
            # scaling
            sc = wr.get('scaled')
            if sc and 'error' not in sc and sc['src'] in parts:
                d = sc['api'][cat].get(name)
                t_ = obj_terms(d) if d is not None else None
                if t_ is not None:
                    k = Fraction(sc['k'])
                    contrib = parts[sc['src']]
                    if ics_survive and 'ICs' in parts:
                        contrib = bk_add(contrib, parts['ICs'], -1)
                    exp = bk_add(bk, contrib, k - 1)
                    got = buckets(t_)
                    if not bk_eq(got, exp):
                        out.append({'key': 'scaling', 'case': case,
                                    'what': '%s: response with %s scaled by %s is %s, expected %s' % (label, sc['src'], k, got, exp)})
                    res.count('oracle_scaling_checked')
    return out


def fingerprint_spec(spec):
    fp = set()
    if spec['kind'] == 'texpr':
        ws = [t_['w'] for t_ in spec['terms'] if t_['k'] in ('cos', 'sin')]
        if len(ws) != len(set(ws)):
            fp.add('decompose:same-omega-terms-overwritten')
    return fp


def flat_terms(terms):
    out = []
    for t_ in terms:
        out += t_['terms'] if t_['k'] == 'tsum' else [t_]
    return out


def container_expect(terms, idxs, s0):
    """independent expectation for the container built from terms[idxs]"""
    bk = dict(BK0)
    noise = {}
    for i in idxs:
        for t_ in flat_terms([terms[i]]):
            if t_['k'] == 'noise':
                noise[t_['nid']] = noise.get(t_['nid'], Fraction(0)) + Fraction(t_['c'])
            elif t_['k'] == 'phasor':
                w = Fraction(t_['w'])
                ac = dict(bk['ac'])
                ac[w] = cadd(ac.get(w, Z0), (Fraction(t_['c']), Fraction(t_.get('ci', '0'))))
                bk = {'dc': bk['dc'], 'ac': {w_: v for w_, v in ac.items() if v != Z0}, 'tr': bk['tr']}
            else:
                b1, _ = spec_buckets({'kind': 'texpr', 'terms': [t_]}, s0)
                bk = bk_add(bk, b1)
    return bk, {k: v for k, v in noise.items() if v != 0}


def container_fingerprint(case, idxs, total):
    """structural reasons for the known decompose() defects in a direct container case"""
    fp = set()
    terms = case['terms']
    groups = case['groups']
    per_t = []      # additive sinusoid frequencies inside the time-domain part
    ws_t, ws_ph, consts = [], [], 0
    for i in idxs:
        for t_ in flat_terms([terms[i]]):
            if t_['k'] in ('cos', 'sin'):
                ws_t.append(t_['w'])
            elif t_['k'] == 'phasor':
                ws_ph.append(t_['w'])
            elif t_['k'] == 'const':
                consts += 1
    if len(ws_t) != len(set(ws_t)):
        fp.add('decompose:same-omega-terms-overwritten')
    if set(ws_t) & set(ws_ph):
        fp.add('decompose:t-part-overwrites-existing-key')
    if total and len(groups) > 1:
        # S1 + S2 with an s-domain part in S2 starts from S1.decompose(): later time-domain parts collide with its keys
        has_s_later = any(any(t_['k'] == 'sdom' for t_ in flat_terms([terms[i]])) for g in groups[1:] for i in g)
        if has_s_later:
            fp.add('decompose:t-part-overwrites-existing-key')
    return fp


def oracle_container(case, wr, res):
    out = []
    s0 = case['s0']
    terms = case['terms']

    def check(label, dump, idxs, total):
        t_ = obj_terms(dump)
        if t_ is None:
            res.count('oracle_container_unavailable')
            return
        got = buckets(t_)
        exp, noise = container_expect(terms, idxs, s0)
        fp = container_fingerprint(case, idxs, total)
        # S1 + S2 with an s-domain part in S2 is built from S1.decompose(): there the known decompose() defects
        # corrupt the stored sum itself, not only its dc/ac/transient views
        via_decompose = total and len(case['groups']) > 1 and \
            any(any(t2['k'] == 'sdom' for t2 in flat_terms([terms[i]])) for g in case['groups'][1:] for i in g)
        if not bk_eq(got, exp):
            for k in (sorted(fp) if (fp and via_decompose) else ['container:add']):
                out.append({'key': k, 'case': case, 'what': '%s: stored parts %s differ from the sum of the added terms %s' % (label, got, exp)})
        gn = {k: v for k, v in got['noise'].items()}
        exp_amp = sorted(abs(v) for v in noise.values())
        got_amp = sorted(abs(v[0]) for v in gn.values() if v[1] == 0)
        if exp_amp != got_amp:
            out.append({'key': 'noise:same-id-amplitudes', 'case': case, 'what': '%s: noise amplitudes %s, expected %s (same identifier adds in amplitude)' % (label, got_amp, exp_amp)})
        if dump.get('n2') is not None and P(dump['n2']) != (sum((v * v for v in noise.values()), Fraction(0)), Fraction(0)):
            out.append({'key': 'noise:distinct-ids-power', 'case': case, 'what': '%s: total noise power %s, expected %s' % (label, dump['n2'], sum(v * v for v in noise.values()))})
        # the public views against the independent expectation
        def bad(what, g_, e_):
            for k in (sorted(fp) if fp and (what in ('dc', 'ac', 'transient') or via_decompose) else ['reassembly:' + what]):
                out.append({'key': k, 'case': case, 'what': '%s: %s is %s, the added terms give %s' % (label, what, g_, e_)})
        if dump.get('dc') is not None and P(dump['dc']) != exp['dc']:
            bad('dc', dump['dc'], exp['dc'])
        if 'ac' in dump and all(v is not None for v in dump['ac'].values()):
            g_ = {Fraction(k[2:]): P(v) for k, v in dump['ac'].items() if '?' not in k}
            g_ = {w: v for w, v in g_.items() if v != Z0}
            if g_ != exp['ac']:
                bad('ac', dump['ac'], {str(w): v for w, v in exp['ac'].items()})
        lap = lap_of(exp, s0)
        if dump.get('laplace') is not None and P(dump['laplace']) != lap:
            bad('laplace()', dump['laplace'], lap)
        if dump.get('time_s') is not None and P(dump['time_s']) != lap:
            bad('time() (Laplace image)', dump['time_s'], lap)
        if dump.get('transient_s') is not None and P(dump['transient_s']) != exp['tr']:
            bad('transient', dump['transient_s'], exp['tr'])
        res.count('oracle_container_checked')
    allidx = [i for g in case['groups'] for i in g]
    check('total', wr['total'], allidx, True)
    for gi, (g, d) in enumerate(zip(case['groups'], wr.get('groups_before', []))):
        check('group %d' % gi, d, g, False)
    # operands must not be changed by forming the sum
    for gi, (d0, d1) in enumerate(zip(wr.get('groups_before', []), wr.get('groups', []))):
        def norm(dec):
            return [(p_['key'], p_.get('s'), p_.get('ph'), p_.get('amp'), p_.get('t') if p_['key'] != 's' else None) for p_ in dec]
        if d0.get('dec') is not None and d1.get('dec') is not None and norm(d0['dec']) != norm(d1['dec']):
            out.append({'key': '__add__:operand-decomposition-mutated', 'case': case,
                        'what': 'group %d: decompose() of an operand changed after it was used in a sum: %s -> %s' % (
                            gi, [(p['key']) for p in d0['dec']], [(p['key']) for p in d1['dec']])})
    if 'minus_last' in wr and 'error' not in wr['minus_last'] and len(case['groups']) > 1:
        rest = [i for g in case['groups'][:-1] for i in g]
        t_ = obj_terms(wr['minus_last'])
        if t_ is not None:
            got = buckets(t_)
            exp, noise = container_expect(terms, rest, s0)
            if not bk_eq(got, exp):
                for k in (sorted(container_fingerprint(case, allidx, True)) or ['container:sub']):
                    out.append({'key': k, 'case': case, 'what': 'total - last group: %s, expected %s' % (got, exp)})
    return out


# ---- run ---------------------------------------------------------------------------------------------------
def run(tier='quick', replay=None):
    res = core.Result(PID, tier)
    rng = random.Random(core.seed() * 104729 + 3)
    core.ensure_theory(['FieldSec', 'Circuit', 'MNA', 'LinearSys', 'QcI', 'SuperposModel'])
    w = core.Work(PID)
    violations = []
    try:
        res.trusted = ['Coq 8.16.1 kernel + vm_compute',
                       'translator tools/tr_stamps.py (sha256 %s)' % core.sha256_file(os.path.join(core.VERIF, 'tools', 'tr_stamps.py'))[:16],
                       'translator tools/tr_superpos.py (sha256 %s)' % core.sha256_file(os.path.join(core.VERIF, 'tools', 'tr_superpos.py'))[:16],
                       'hand models coq/props/C01model.v (assembly), C03defs.v, C03model.v, coq/theory/MNA.v (unknown ordering, reporting), '
                       'coq/theory/SuperposModel.v (container, noise) - validated by correspondence on every run',
                       'oracles (modelled, contract checked per case): sympy matrix solve, inverse Laplace, coeff(t,0)/is_ac term classification, node merging of killed sources',
                       'exact canonical monomial form + own Laplace table in tools/impl_superpos.py (comparison of time-domain expressions)']
        res.assumptions = ['characteristic-0 field with decidable equality',
                           'linear-response theorems assume the MNA system is well-posed (injective on the unknowns); superposition/scaling of solutions need no such assumption',
                           'per-kind component parameters (Y, Z, gains) are inputs of the stamp theorems (checked against textbook laws by C01)',
                           'an initial value problem is compared with causal sources only (without initial conditions Lcapy assumes steady state before t = 0)']
        # -- cases and implementation runs (in the background while Coq proves)
        cases = gen_cases(rng, tier)
        if replay and 'case' in replay:
            cases = [replay['case']]
        tr = None
        texts = {}
        try:
            tr = TS.StampTranslator(os.path.join(core.REPO, 'lcapy', 'mnacpts.py'))
            tr.translate_all()
            texts['StampsGen.v'] = TS.emit(tr)
        except TS.Untranslatable as e:
            res.failed_obl.append(('translate', 'lcapy/mnacpts.py', str(e)))
            res.obligations += 1
            tr = None
        trs = None
        try:
            trs = TSP.SuperposTranslator(os.path.join(core.REPO, 'lcapy', 'superposition.py'), os.path.join(core.REPO, 'lcapy', 'netlist.py'))
            trs.translate_all()
            texts['SuperposGen.v'] = TSP.emit(trs)
        except TSP.Untranslatable as e:
            res.failed_obl.append(('translate_superposition', 'lcapy/superposition.py, lcapy/netlist.py', str(e)))
            res.obligations += 1
            trs = None
        for c_ in cases:
            if c_['type'] == 'circuit':
                c_['tp_src'] = tr.tp_src if tr is not None else {}
        wres_box = {}

        def impl():
            wres_box['r'] = core.run_impl('impl_superpos.py', cases, timeout=1500 if tier == 'quick' else 6000)
        th = threading.Thread(target=impl)
        log('start impl on %d cases' % len(cases))
        th.start()
        model_ok = False
        grp_ok = False
        sup_results = {}
        if trs is not None:
            w.write('SuperposGen.v', texts['SuperposGen.v'])
            for f in ('C03sup.v', 'C03grp.v'):
                texts[f] = open(os.path.join(core.VERIF, 'coq', 'props', f)).read()
                w.write(f, texts[f])
            r_ = core.coqc_many(w.dir, ['SuperposGen.v'], timeout=300)
            sup_results.update(r_)
            if r_['SuperposGen.v'][0]:
                r_ = core.coqc_many(w.dir, ['C03sup.v', 'C03grp.v'], timeout=600)
                sup_results.update(r_)
                grp_ok = r_['C03grp.v'][0]
            else:
                res.failed_obl.append(('gen_agroup_sound', 'C03sup.v', 'not checked: Gen.SuperposGen does not compile'))
                res.obligations += 1
        if tr is not None:
            w.write('StampsGen.v', texts['StampsGen.v'])
            ok, out, secs = core.coqc(w.dir, 'StampsGen.v')
            if not ok:
                res.failed_obl.append(('StampsGen', 'StampsGen.v', out[-800:]))
                res.obligations += 1
            else:
                for f in ('C01model.v', 'C03defs.v', 'C03model.v', 'C03a.v', 'C03b.v', 'C03c.v', 'C03d.v', 'C03.v', 'C03net.v'):
                    texts[f] = open(os.path.join(core.VERIF, 'coq', 'props', f)).read()
                    w.write(f, texts[f])
                bad = core.gate_text('generated+props', '\n'.join(texts.values()))
                bad += core.gate_files([os.path.join(core.COQ_THEORY, f) for f in ('LinearSys.v', 'SuperposModel.v')])
                if bad:
                    res.failed_obl.append(('gate', 'props', '; '.join(bad)))
                    res.obligations += 1
                log('coqc props')
                allr = {}
                r0 = core.coqc_many(w.dir, ['C01model.v'], timeout=300)
                allr.update(r0)
                if r0['C01model.v'][0]:
                    r1 = core.coqc_many(w.dir, ['C03defs.v'], timeout=300)
                    allr.update(r1)
                    if r1['C03defs.v'][0]:
                        r2 = core.coqc_many(w.dir, ['C03model.v', 'C03a.v', 'C03b.v', 'C03c.v', 'C03d.v'], timeout=1500)
                        allr.update(r2)
                        model_ok = r2['C03model.v'][0]
                        r3 = {}
                        if all(r2[f_][0] for f_ in ('C03a.v', 'C03b.v', 'C03c.v', 'C03d.v')):
                            r3 = core.coqc_many(w.dir, ['C03.v'], timeout=600)
                            allr.update(r3)
                        if r3 and r3['C03.v'][0]:
                            allr.update(core.coqc_many(w.dir, ['C03net.v'], timeout=900))
                        else:
                            res.failed_obl.append(('mna_superposition', 'C03net.v', 'not checked: a per-class linearity lemma (Gen.C03a-d/C03) failed'))
                            res.obligations += 1
                allr.update(sup_results)
                sup_results = {}
                res.coq_results(w.dir, allr, {f: texts[f] for f in allr})
                res.extra['coq_seconds'] = {f: round(r[2], 1) for f, r in allr.items()}
                res.extra['unsupported_stamps'] = tr.unsupported
        if sup_results:
            res.coq_results(w.dir, sup_results, {f: texts[f] for f in sup_results})
        for f in ('LinearSys.v', 'SuperposModel.v'):
            names = core.obligations_in(open(os.path.join(core.COQ_THEORY, f)).read())
            res.obligations += len(names)
            res.discharged += len(names)
        EXTRA_IMPORT[0] = 'Require Import Gen.SuperposGen Gen.C03grp.\n' if grp_ok else ''
        log('props done; waiting for impl')
        th.join()
        wres = wres_box['r']
        log('impl done')

        # -- correspondence items and oracle
        items, labels, gi = [], {}, 0
        ncirc = 0
        for ci, (case, wr) in enumerate(zip(cases, wres)):
            ty = case['type']
            if 'error' in wr:
                res.count('impl_error:%s:%s' % (ty, wr['error'].split(':')[0]))
                continue
            flags = set()
            chk = []
            if ty == 'circuit':
                ncirc += 1
                for t_ in case.get('tags', []):
                    res.count('tag_' + t_)
                res.count('sources_%d' % len(wr['sources']))
                for k_ in wr['kinds']:
                    res.count('kind_' + (k_ if not k_.startswith('w:') else 'ac') if not k_.startswith('n') else 'kind_noise')
                nontriv = len(wr['sources']) >= 2 and any('solve_error' not in kd for kd in wr['kinds'].values())
                res.add_case('\n'.join(case['netlist']), nontriv,
                             {'netlist': case['netlist'], 'kinds': list(wr['kinds'].keys()), 'groups': wr.get('groups_tr')} if len(res.samples) < 4 else None)
                for ce in oracle_circuit(case, wr, res):
                    res.counterexamples.append(ce)
                if tr is not None and model_ok:
                    chk += mna_checks(ci, case, wr, tr, res, flags)
                    # containers: sources, node voltages, branch currents
                    wmap, nmap = {}, {}
                    for sname, dump in wr.get('source_sup', {}).items():
                        chk += container_checks('%d/src_%s' % (ci, sname), dump, wmap, nmap, res)
                        chk += select_checks(ci, sname, dump, wr, wmap, nmap, res)
                    for cat in ('N', 'I'):
                        for name, dump in wr['api'].get(cat, {}).items():
                            chk += container_checks('%d/%s_%s' % (ci, cat, name), dump, wmap, nmap, res)
                            chk += accumulation_checks(ci, cat, name, dump, wr, wmap, nmap, res)
                    if grp_ok:
                        chk += grouping_checks(ci, case, wr, wmap, nmap, res)
            elif ty == 'container':
                res.add_case(json.dumps([case['terms'], case['groups']], sort_keys=True), True,
                             {'terms': case['terms'], 'groups': case['groups']} if len(res.samples) < 5 and ci % 7 == 0 else None)
                for ce in oracle_container(case, wr, res):
                    res.counterexamples.append(ce)
                if model_ok:
                    wmap, nmap = {}, {}
                    allidx = [i for g in case['groups'] for i in g]
                    imgs = wr.get('spec_images')
                    if imgs is not None:
                        lits = spec_term_lits([case['terms'][i] for i in allidx], case['s0'], wmap, nmap, [imgs[i] for i in allidx])
                        if lits is not None:
                            chk += container_checks('%d/total' % ci, wr['total'], wmap, nmap, res, model_lits=lits)
                        for gix, (g, d) in enumerate(zip(case['groups'], wr.get('groups_before', []))):
                            lits = spec_term_lits([case['terms'][i] for i in g], case['s0'], wmap, nmap, [imgs[i] for i in g])
                            if lits is not None:
                                chk += container_checks('%d/group%d' % (ci, gix), d, wmap, nmap, res, model_lits=lits)
            elif ty == 'noise':
                a, b_ = case['items']
                same = a['nid'] == b_['nid']
                ca, cb = Fraction(a['c']), Fraction(b_['c'])
                exp_add = (ca + cb) ** 2 if same else ca * ca + cb * cb
                exp_sub = (ca - cb) ** 2 if same else ca * ca + cb * cb
                res.add_case(json.dumps(case['items']), True, None)
                if wr.get('add_sq') is not None and P(wr['add_sq']) != (exp_add, Fraction(0)):
                    res.counterexamples.append({'key': 'noise:expr-add', 'case': case, 'what': 'NoiseExpression add: %s, expected %s' % (wr['add_sq'], exp_add)})
                if wr.get('sub_sq') is not None and P(wr['sub_sq']) != (exp_sub, Fraction(0)):
                    res.counterexamples.append({'key': 'noise:expr-sub', 'case': case, 'what': 'NoiseExpression sub: %s, expected %s' % (wr['sub_sq'], exp_sub)})
                if model_ok and wr.get('add_sq') is not None:
                    ia, ib = (1, 1) if same else (1, 2)
                    its = '[(%d%%nat, %s); (%d%%nat, %s)]' % (ia, qi((ca, Fraction(0))), ib, qi((cb, Fraction(0))))
                    chk.append(('%d/noise_add' % ci, None, 'eqc (noise_power (K:=QcIF) nsqc %s) %s' % (its, qi(P(wr['add_sq'])))))
            for label, defn, expr in chk:
                last = label.split('/')[-1]
                cat = ('kill_vs_zeroed_source_model' if '/kill_' in label else
                       'mna_' + last.split('_')[0] + ('_' + last.split('_')[1] if last.startswith(('group_', 'full_')) else '') if last.startswith(('full_', 'group_')) else
                       'container_' + re.sub(r'[^a-z_].*$', '', last.replace('|', '_')).rstrip('_'))
                res.count('coq_check:' + cat)
                items.append((gi, defn, expr, ci))
                labels[gi] = (label, ci, frozenset(flags))
                gi += 1
        res.programs = ncirc
        failing = []
        if items:
            shards, cur, cur_c = [], [], set()
            for it in items:
                if len(cur) >= 350 and it[3] not in cur_c:
                    shards.append(cur)
                    cur, cur_c = [], set()
                cur.append(it)
                cur_c.add(it[3])
            if cur:
                shards.append(cur)
            fns = []
            for si, sh in enumerate(shards):
                w.write('cases_%d.v' % si, cases_file([(a, b_, c) for a, b_, c, _ in sh]))
                fns.append('cases_%d.v' % si)
            log('coqc %d case files (%d checks)' % (len(fns), len(items)))
            cr = core.coqc_many(w.dir, fns, timeout=900)
            log('cases done')
            for f, (ok, out, secs) in cr.items():
                fl = parse_z_list(out) if ok else None
                if fl is None:
                    res.failed_obl.append(('correspondence_eval', f, out[-700:]))
                    res.obligations += 1
                else:
                    failing += fl
            res.extra['traces_validated_against_impl'] = len(items)
        # -- decide
        oracle_keys_by_case = {}
        for ce in res.counterexamples:
            oracle_keys_by_case.setdefault(id(ce['case']), set()).add(ce['key'])
        for g in failing:
            lab, ci, flags = labels[g]
            log('correspondence differs: %s' % lab)
            res.disagreements.append({'check': lab, 'case': cases[ci], 'oracle_keys': sorted(oracle_keys_by_case.get(id(cases[ci]), []))})
        res.rule = ('netgen netlists (R/L/C tree + chords + controlled sources, transformer, gyrator, wires, ammeters) with 2-4 independent '
                    'sources re-drawn from 8 kind profiles (dc/step, sums like 3+cos(2t)+u(t), s-domain, ac, noise with shared/distinct ids, '
                    'resistive, initial value problems) + direct Superposition containers from random term multisets and groupings + '
                    'NoiseExpression pairs + a fixed corpus; non-trivial = at least 2 sources and one analysis kind solved; distinct = distinct netlist / term list')
        seen = set()
        for ce in res.counterexamples:
            key = ce['key']
            if key in seen:
                continue
            seen.add(key)
            violations.append({'key': key, 'what': ce['what'], 'case': strip_case(ce['case']), 'found_input': True})
        for d in res.disagreements:
            parts = d['check'].split('/')
            what = parts[-1].split('_')[0] if len(parts) > 1 else parts[0]
            # a correspondence difference on a case for which the oracle already produced a concrete failing input
            # OF THE SAME MECHANISM is the same defect seen from the model side
            if explained(d['check'], d['oracle_keys']):
                continue
            is_mna = '/kill_' in d['check'] or what in ('full', 'group')
            key = 'correspondence:' + ('mna' if is_mna else 'container') + ':' + what
            if key in seen:
                continue
            seen.add(key)
            violations.append({'key': key, 'what': 'model and implementation differ (%s)' % d['check'], 'case': strip_case(d['case']),
                               'check': d['check'], 'found_input': False, 'correspondence': 'Gen.C03model'})
        have_input = bool(res.counterexamples)
        for name, f, msg in res.failed_obl:
            violations.append({'key': 'obligation:' + name, 'what': 'Coq obligation %s in %s no longer checks' % (name, f),
                               'theorem': name, 'file': f, 'message': msg, 'found_input': False,
                               'note': 'a failing input, if one was found by the oracle, is reported as a separate violation' if have_input else ''})
        return core.finish(res, violations)
    finally:
        if not os.environ.get('VERIF_KEEP'):
            w.cleanup()


def explained(label, oracle_keys):
    last = label.split('/')[-1]
    if '/kill_' in label or 'group_' in last or 'full_solution' in last:
        pre = ('kill_except:', 'superposition:', 'scaling')
    elif last.startswith(('dec_', 'ac_', 'dc', 'kinds', 'transient', 'time', 'laplace', 'select_', 'agroups', 'isg', 'subkeys')):
        pre = ('decompose:', '__add__:', 'reassembly:', 'container:', 'source-value:', 'select:', 'groups:')
    elif last.startswith(('noise', 'accumulate_n')):
        pre = ('noise:',)
    else:
        pre = ()
    return any(k.startswith(pre) for k in oracle_keys) if pre else False


def select_checks(ci, sname, dump, wr, wmap, nmap, res):
    """V._select / I._select (Superposition.netval / select): the value the sub-netlist of every analysis
    kind uses for the source is what the container model selects for that kind"""
    out = []
    if 'error' in dump or 'parts' not in dump:
        return out
    tp = terms_of_parts(dump['parts'], wmap, nmap)
    if tp is None:
        return out
    name = 'sg_' + re.sub(r'[^A-Za-z0-9]', '_', '%d/src_%s' % (ci, sname))
    defn = 'Definition %s : sig QcIF := [%s].' % (name, '; '.join(tp[0]))
    for kind, kd in wr['kinds'].items():
        e = [x for x in kd['elements'] if x['name'] == sname]
        if not e:
            continue
        pv = e[0]['params'].get('pVoc' if dump.get('is_v') else 'pIsc')
        if pv is None:
            continue
        pv = P(pv)
        kl_ = kind.replace('/', '|')
        if kind == 'dc':
            ex = 'eqc (select_t GDC %s) %s' % (name, qi(pv))
        elif kind.startswith('w:'):
            w = wid(wmap, kind[2:])
            ex = 'eqc (phasor_re %d %s) %s && eqc (phasor_im %d %s) %s' % (w, name, qi((pv[0], Fraction(0))), w, name, qi((pv[1], Fraction(0))))
        elif kind == 'transient':
            ex = 'eqc (select_s GTR %s) %s' % (name, qi(pv))
        elif kind in ('ivp', 'laplace'):
            ex = 'eqc (laplace %s) %s' % (name, qi(pv))
        elif kind == 'time':
            if any(t_['key'] == 's' for t_ in tp[1]):
                continue
            ex = 'eqc (time %s) %s' % (name, qi(pv))
        elif kind.startswith('n'):
            # an unnamed noise source gets a fresh automatic identifier in every copy of the netlist:
            # identify the source's noise part by position, not by the name of the identifier
            nk = [t_['key'] for t_ in tp[1] if t_['cls'] == 'n']
            if len(nk) > 1:
                continue
            if not nk or (kind != nk[0] and re.match(r'^n\d+$', nk[0]) is None):
                ex = 'eqc ci0 %s' % qi(pv)          # a differently named noise kind: this source contributes nothing
            else:
                ex = 'eqc (nlookup %d (nstore (noise_items %s))) %s' % (nidnum(nmap, nk[0]), name, qi(pv))
                if kind != nk[0] and pv == Z0:
                    continue                         # automatic identifiers: cannot tell which kind belongs to which source
        else:
            continue
        out.append(('%d/src_%s/select_%s' % (ci, sname, kl_), defn, ex))
    # the analysis groups the source is listed in (Netlist._analysis_groups)
    if wr.get('groups'):
        mode = 'AIvp' if wr.get('is_ivp') else ('ATime' if wr.get('is_time_domain') else 'AGeneral')
        impl = []
        for gk, members in wr['groups'].items():
            if sname not in members:
                continue
            if gk == 'ivp':
                impl.append('AgIvp')
            elif gk == 'time':
                impl.append('AgTime')
            elif gk == 'dc':
                impl.append('(AgKind GDC)')
            elif gk == 'transient':
                impl.append('(AgKind GTR)')
            elif gk.startswith('w:') and '?' not in gk:
                impl.append('(AgKind (GAC %d))' % wid(wmap, gk[2:]))
            elif gk.startswith('n'):
                impl.append('(AgKind (GN %d))' % nidnum(nmap, gk))
        out.append(('%d/src_%s/agroups' % (ci, sname), defn, 'check_agroups %s %s [%s]' % (mode, name, '; '.join(impl))))
    return out


def group_lit(gk, wmap, nmap):
    if gk == 'dc':
        return 'GDC'
    if gk == 'transient':
        return 'GTR'
    if gk.startswith('w:') and '?' not in gk:
        return '(GAC %d)' % wid(wmap, gk[2:])
    if gk.startswith('n'):
        return '(GN %d)' % nidnum(nmap, gk)
    return None


def grouping_checks(ci, case, wr, wmap, nmap, res):
    """netlist level (Gen.C03grp): NetlistMixin.independent_source_groups(True) of the circuit against the model
    dictionary [isg] built from the stored source values, in netlist order; the keys of Netlist.sub against the
    regenerated key function gen_akeys applied to the keys of independent_source_groups(True)"""
    out = []
    gtr, sup = wr.get('groups_tr'), wr.get('source_sup', {})
    if gtr is None or not sup:
        return out
    order = [l.split()[0] for l in case['netlist']]
    names = sorted(sup, key=lambda n: order.index(n) if n in order else len(order))
    if any(n not in order for n in names) or any('?' in k for k in list(gtr) + list(wr['kinds'])):
        res.count('grouping_not_compared')
        return out
    num = {n: i + 1 for i, n in enumerate(names)}
    defs, srcs = [], []
    for n in names:
        dump = sup[n]
        tp = terms_of_parts(dump['parts'], wmap, nmap) if 'error' not in dump and 'parts' in dump else None
        if tp is None:
            res.count('grouping_not_compared')
            return out
        nm = 'gs_' + re.sub(r'[^A-Za-z0-9]', '_', '%d_%s' % (ci, n))
        defs.append('Definition %s : sig QcIF := [%s].' % (nm, '; '.join(tp[0])))
        srcs.append('(%d%%nat, %s)' % (num[n], nm))
    impl, keys = [], []
    for gk, members in gtr.items():
        gl = group_lit(gk, wmap, nmap)
        if gl is None or any(m_ not in num for m_ in members):
            res.count('grouping_not_compared')
            return out
        keys.append(gl)
        impl.append('(%s, [%s])' % (gl, '; '.join('%d%%nat' % num[m_] for m_ in members)))
    defn = '\n'.join(defs)
    out.append(('%d/net/isg' % ci, defn, 'check_isg [%s] [%s]' % ('; '.join(srcs), '; '.join(impl))))
    mode = 'AIvp' if wr.get('is_ivp') else ('ATime' if wr.get('is_time_domain') else 'AGeneral')
    subk = []
    for k_ in wr['kinds']:
        a = 'AgIvp' if k_ == 'ivp' else 'AgTime' if k_ == 'time' else None
        if a is None:
            gl = group_lit(k_, wmap, nmap)
            if gl is None:
                res.count('grouping_not_compared')
                return out
            a = '(AgKind %s)' % gl
        subk.append(a)
    strict = not any(re.match(r'^n\d+$', k_) for k_ in list(gtr) + list(wr['kinds']))
    out.append(('%d/net/subkeys' % ci, defn, 'check_subkeys %s %s [%s] [%s]' % (mode, 'true' if strict else 'false', '; '.join(keys), '; '.join(subk))))
    return out


def strip_case(case):
    c = dict(case)
    c.pop('tp_src', None)
    return c


def accumulation_checks(ci, cat, name, dump, wr, wmap, nmap, res):
    """Netlist.get_I / _get_Vd: the stored parts of the public Superposition are the per-kind
    sub-netlist results added up"""
    out = []
    if 'error' in dump or 'parts' not in dump:
        return out
    sub = {}
    for kind, kd in wr['kinds'].items():
        if 'solve_error' in kd:
            return out
        v = (kd.get('Vdict') if cat == 'N' else kd.get('Idict'))
        if v is None or name not in v or v[name] is None:
            return out
        sub[kind] = P(v[name])
    # expected stored images per storage key
    exp_t, exp_s, exp_ph, exp_n = Z0, Z0, {}, {}
    for kind, v in sub.items():
        if kind in ('dc', 'time'):
            exp_t = cadd(exp_t, v)
        elif kind in ('transient', 'ivp', 'laplace', 's'):
            exp_s = cadd(exp_s, v)
        elif kind.startswith('w:'):
            exp_ph[kind] = v
        elif kind.startswith('n'):
            exp_n[kind] = v
    got_t, got_s, got_ph, got_n = Z0, Z0, {}, []
    for p in dump['parts']:
        ks = p['key']
        if ks == 't':
            if p.get('t') is None:
                return out
            got_t = cadd(got_t, P(p['t']))
        elif ks == 's':
            if p.get('s') is None:
                return out
            got_s = cadd(got_s, P(p['s']))
        elif ks.startswith('w:'):
            if p.get('ph') is None:
                return out
            got_ph[ks] = P(p['ph'])
        elif ks.startswith('n'):
            if p.get('amp') is None:
                return out
            got_n.append(P(p['amp']))
    pre = '%d/%s_%s/accumulate' % (ci, cat, name)
    out.append((pre + '_t', None, 'eqc %s %s' % (qi(exp_t), qi(got_t))))
    out.append((pre + '_s', None, 'eqc %s %s' % (qi(exp_s), qi(got_s))))
    for k_ in set(exp_ph) | set(got_ph):
        out.append((pre + '_ph', None, 'eqc %s %s' % (qi(exp_ph.get(k_, Z0)), qi(got_ph.get(k_, Z0)))))
    en = sorted([v for v in exp_n.values() if v != Z0])
    gn = sorted([v for v in got_n if v != Z0])
    out.append((pre + '_n', None, b(en == gn)))
    return out


if __name__ == '__main__':
    sys.exit(run(sys.argv[1] if len(sys.argv) > 1 else 'quick'))
