"""C12 — Fourier-family transforms agree with their definitions and with each other.

  translate   lcapy/fourier.py (FourierTransformer.term: every return expression with its guard pattern),
              inverse_fourier.py, the variable changes of texpr/fexpr/omegaexpr/normfexpr/normomegaexpr/sexpr and the
              skeleton of BilateralForwardTransformer.doit                   (tools/tr_fourier.py -> Gen/FourierGen.v)
  prove       generated: table_sound_<line>  translated closed form = textbook closed form (FourierTable.v: FPair)
                         table_inv_<line>    inverse closed form = forward closed form at -x   (IFT = FT with f -> -f)
                         varchange_<class>_<method>, sshort_<method>   literal scale factors = omega = 2 pi f, F = f dt ...
                         code_model_sound, code_inverse_model_sound   (C12_closure.v) the model with the translated tables is an
                                             FPair on every structured signal / spectrum (FourierSound.model_sound_tbl, inverse_model_sound)
              props/C12.v: duality closure, inverse_is_flip, f_omega_scaling, causal_LT_FT, model_sound, cache transparency, analysis
              (FourierAnalysis.v, Coquelicot: rect, tri, trap, one-sided exponential = the bilateral Riemann integral)
  correspond  generated signals of the closure: what Lcapy returned (canonical form by tools/fourier_nf.py, exact) vs the
              model FourierModel.ft with (a) the table translated from the source and (b) the textbook table, decided by
              vm_compute inside Coq; x(f), x(omega), x(F), x(Omega), X(t), conversions between the four variables,
              H(s)(j omega) shortcut, histories of calls (cache)
  search      mpmath quadrature of the defining bilateral integral of the structured signal (break points at the
              discontinuities), 1e-9 relative at two frequencies; never used to accept
"""
import json
import os
import random
import re
import sys
import time
from fractions import Fraction

sys.path.insert(0, os.path.dirname(os.path.dirname(os.path.abspath(__file__))))
from vlib import core
sys.path.insert(0, os.path.join(core.VERIF, 'tools'))
sys.path.insert(0, os.path.join(core.VERIF, 'checks'))
import tr_fourier as T
import fourier_sig as S
import c12gen as G

PID = 'C12'
MANIFEST = {
    'text': 'Coq: (spec, any characteristic-0 field with pi, j, symbols for delta/sign/step/rect/tri/trap/sincn/exp and their '
            'parity, scaling and additivity laws) the inductive relation FPair = Fourier table + linearity + similarity/shift + '
            'modulation; duality is admissible (induction on derivations, every table entry has its dual), hence "IFT = FT with '
            'f -> -f" inverts FPair; the omega/F/Omega forms are the f form at var/k with delta(omega/2pi) = 2 pi delta(omega); '
            'a causal exp-poly signal with admissible poles has FT(f) = LT(j 2 pi f).  Every return expression of '
            'FourierTransformer.term that can fire (incl. t/(a t - j b)), translated from the source on every run, is proved equal to '
            'the textbook closed form for both transformers, and every literal scale factor of the variable changes to the specified '
            'one.  The closed forms expected from the SymPy fall-through (impulses, t^n e^{ct}u(t), two-sided exponentials, '
            'sgn/t-weighted ones, Gaussians, Lorentzian) are derived in FPair (FourierOspec.v), not assumed.  (analysis, Coquelicot) '
            'rect, tri, peak-1 trap, e^{-at}u(t) and e^{-a|t|} have the stated transform as bilateral Riemann integral, real and '
            'imaginary part.  The executable model (table lookup + rules + linearity) is evaluated inside Coq on generated signals '
            'against what Lcapy returned, for f, omega, F, Omega, X(t), conversions, the s -> j omega shortcut incl. its boundary '
            '(imaginary-axis poles must carry impulses pi*residue) and call histories.  The way that model composes table and rules '
            'is itself proved sound for ALL structured signals (FourierSound.v, induction over the signal): with sden s x the meaning of '
            'a structured signal and Fden the meaning (ev) of the transform assembled with the parameter environments of ft, '
            'model_sound: FPair x (Fden textbook-table s); model_sound_tbl / inverse_model_sound: the same for any table and rules that '
            'satisfy the statements of table_sound_<line> / table_inv_<line>, and their instances for the tables translated from the '
            'source are generated and proved on every run (code_model_sound, code_inverse_model_sound: every structured signal / '
            'spectrum over the patterns whose entry obligation holds - all but trap today - has FT(model result) correct in FPair).',
    'note': 'partial: generalised-function entries (delta, constants, steps, sign, sinusoids, 1/t) are specification-level (no '
            'distribution theory for Coq 8.16); what SymPy itself computes is not verified - its results are compared per case with '
            'closed forms that are theorems of the specification; the Gaussian has no analysis-side integral; the discrete-time '
            'Fourier family (DTFT/DFT) belongs to C13.  Entries without obligation: `False and ...` (dead), the shadowed second '
            't*Heaviside(t) branch, t*DiracDelta(t,1) (SymPy simplifies the input to 0 before the branch can fire).  Trusted: Coq '
            'kernel/vm_compute, tools/tr_fourier.py + templates in checks/c12gen.py, the canonicaliser tools/fourier_nf.py and its Coq '
            'twin FourierFn.nfe (the closure theorems are about the meaning ev of the assembled transform, not about nfe; SO signals - '
            'results taken from SymPy - are outside sden), specification FourierSpec.v/FourierTable.v; standard-library real axioms '
            'for FourierAnalysis.v.',
    'technique': 'Coq proof (inductive spec + field identities over closed forms translated from source + Coquelicot integrals) '
                 '+ in-Coq correspondence evaluation of an executable model + quadrature search oracle',
}

POINTS = [('5/11', '49/16', '7/4'), ('-13/7', '25/9', '5/3')]
DT = '3/7'
XS = ['0.37', '-1.21', '0.83', '-0.52']
VARCLS = {'f': 'FourierDomainExpression', 'omega': 'AngularFourierDomainExpression', 'F': 'NormFourierDomainExpression',
          'Omega': 'NormAngularFourierDomainExpression'}
VARM = {'f': 'fourier', 'omega': 'angular_fourier', 'F': 'norm_fourier', 'Omega': 'norm_angular_fourier'}
VNUM = {'f': 'Vf', 'omega': 'Vw', 'F': 'VF', 'Omega': 'VW'}


# ------------------------------------------------------------------------------------------ generator
class Gen:
    def __init__(self, rng):
        self.rng = rng

    def ch(self, l):
        return self.rng.choice(l)

    def base_t(self, integrable=None):
        r = self.rng
        integ = [
            lambda: ['SB', 'rect', {}], lambda: ['SB', 'tri', {}],
            lambda: ['SB', 'trap', {'alpha': self.ch(['1/2', '1/3', '1/4', '2/3', '3/4'])}],
            lambda: ['SB', 'expu', {'c1': self.ch(['-1', '-2', '-3', '-1/2', '-3/2']), 'c0': '0/1'}],
            lambda: ['SB', 'expu', {'c1': ['c', self.ch(['-1', '-2', '-3/2']), self.ch(['3', '-2', '1/2'])], 'c0': '0/1'}],
            lambda: ['SO', 'twoexp', {'a': self.ch(['1', '2', '3', '3/2'])}],
            lambda: ['SO', 'gauss', {'r': self.ch(['1', '2', '1/2', '3'])}],
            lambda: ['SO', 'gausspi', {'r': self.ch(['1', '2', '1/2'])}],
            lambda: ['SO', 'texpu1', {'c': self.ch(['-1', '-2', '-3'])}],
            lambda: ['SO', 'texpu2', {'c': self.ch(['-1', '-2'])}],
            lambda: ['SO', 'sgnexp', {'a': self.ch(['1', '2', '3'])}],
            lambda: ['SO', 'ttwoexp', {'a': self.ch(['1', '2'])}],
        ]
        gen = [
            lambda: ['SB', 'const', {'cval': self.ch(['1', '3', '-2', '5/2'])}],
            lambda: ['SB', 't', {}], lambda: ['SB', 't2', {}], lambda: ['SB', 'abs', {}], lambda: ['SB', 'sign', {}],
            lambda: ['SB', 'step', {}], lambda: ['SB', 'tstep', {}], lambda: ['SB', 'sincn', {}], lambda: ['SB', 'sincn2', {}],
            lambda: ['SB', 'sincu', {}],
            lambda: ['SO', 'delta0', {}], lambda: ['SO', 'delta1', {}], lambda: ['SO', 'delta2', {}],
        ]
        if integrable is None:
            integrable = r.random() < 0.6
        return self.ch(integ if integrable else gen)()

    def wrap(self, s, depth=0, allow_mod=True):
        r = self.rng
        k = r.random()
        if k < 0.30:
            return s
        if k < 0.60:
            a = self.ch(['1', '1', '2', '3', '1/2', '-1', '-2', '1/3', '3/2'])
            b = self.ch(['0', '1', '-1', '1/2', '-1/2', '2', '-3/2'])
            if a == '1' and b == '0':
                b = '-1'
            return ['SAf', a, b, s]
        if k < 0.80 and allow_mod and not _contains(s, ('delta1', 'delta2')):
            m = r.random()
            w = self.ch([['f', '1'], ['f', '2'], ['f', '1/2'], ['f', '-1'], ['w', '3'], ['w', '1'], ['w', '-2'], ['w', '1/2']])
            if m < 0.4:
                return ['SMo', w, s]
            nw = [w[0], S.fs(-Fraction(w[1]))]
            if m < 0.7:    # cos
                return ['SAd', ['SSc', '1/2', ['SMo', w, s]], ['SSc', '1/2', ['SMo', nw, s]]]
            return ['SAd', ['SSc', ['c', '0', '-1/2'], ['SMo', w, s]], ['SSc', ['c', '0', '1/2'], ['SMo', nw, s]]]   # sin
        if k < 0.92:
            return ['SSc', self.ch(['3', '-2', '1/2', '5/3', ['c', '0', '1'], ['c', '1', '-2']]), s]
        return s

    def signal_t(self):
        r = self.rng
        s = self.base_t()
        for _ in range(r.choice([0, 1, 1, 2])):
            s = self.wrap(s)
        if r.random() < 0.2:
            s2 = self.base_t()
            if r.random() < 0.5:
                s2 = self.wrap(s2)
            s = ['SAd', s, s2]
        return s

    def base_f(self):
        fs_ = [
            lambda: ['SB', 'rect', {}], lambda: ['SB', 'tri', {}], lambda: ['SB', 'sincn', {}], lambda: ['SB', 'sincn2', {}],
            lambda: ['SB', 'trap', {'alpha': self.ch(['1/2', '1/3', '2/3'])}],
            lambda: ['SB', 'const', {'cval': self.ch(['1', '2', '-3/2'])}], lambda: ['SB', 't', {}], lambda: ['SB', 'abs', {}],
            lambda: ['SB', 'sign', {}], lambda: ['SB', 'step', {}],
            lambda: ['SB', 'expu', {'c1': self.ch(['-1', '-2', '-1/2']), 'c0': '0/1'}],
            lambda: ['SB', 'reciplin', {'c1': ['jtpi', self.ch(['1', '1', '2', '1/2'])], 'c0': self.ch(['1', '2', '3', '1/2'])}],
            lambda: ['SO', 'delta0', {}], lambda: ['SO', 'gausspi', {'r': self.ch(['1', '2'])}],
            lambda: ['SO', 'lorentz', {'a': self.ch(['1', '2', '3'])}],
        ]
        return self.ch(fs_)()

    def signal_f(self):
        r = self.rng
        s = self.base_f()
        for _ in range(r.choice([0, 1, 1])):
            s = self.wrap(s)
        return s

    def hmodel(self):
        """causal stable rational H(s) as partial fractions; returns (source, sig of h(t))"""
        r = self.rng
        terms = []
        sigs = []
        used = set()
        for _ in range(r.choice([1, 2, 2, 3])):
            a = self.ch(['1', '2', '3', '1/2', '3/2'])
            k = r.choice([0, 0, 0, 1]) if r.random() < 0.7 else 'pair'
            c = self.ch(['1', '2', '-1', '3/2', '5'])
            if k == 'pair':
                b = self.ch(['1', '2', '3'])
                if ('p', a, b) in used:
                    continue
                used.add(('p', a, b))
                # c (s + a)/((s + a)^2 + b^2)  <->  c e^{-a t} cos(b t) u(t)
                terms.append('%s*(s + %s)/((s + %s)**2 + %s**2)' % (S.src_q(c), S.src_q(a), S.src_q(a), S.src_q(b)))
                for sg in ('', '-'):
                    sigs.append(['SSc', S.fs(Fraction(c) / 2), ['SB', 'expu', {'c1': ['c', S.fs(-Fraction(a)), sg + b], 'c0': '0/1'}]])
            elif k == 0:
                if ('r', a) in used:
                    continue
                used.add(('r', a))
                terms.append('%s/(s + %s)' % (S.src_q(c), S.src_q(a)))
                sigs.append(['SSc', c, ['SB', 'expu', {'c1': S.fs(-Fraction(a)), 'c0': '0/1'}]])
            else:
                if ('r', a) in used:
                    continue
                used.add(('r', a))
                terms.append('%s/(s + %s)**2' % (S.src_q(c), S.src_q(a)))
                sigs.append(['SSc', c, ['SO', 'texpu1', {'c': S.fs(-Fraction(a))}]])
        if not terms:
            return self.hmodel()
        sig = sigs[0]
        for x in sigs[1:]:
            sig = ['SAd', sig, x]
        return ' + '.join(terms), sig


def _contains(s, names):
    k = s[0]
    if k in ('SB', 'SO'):
        return s[1] in names
    if k == 'SSc':
        return _contains(s[2], names)
    if k == 'SAd':
        return _contains(s[1], names) or _contains(s[2], names)
    if k == 'SAf':
        return _contains(s[3], names)
    return _contains(s[2], names)


def _derived(s, out):
    k = s[0]
    if k == 'SSc':
        _derived(s[2], out)
    elif k == 'SAd':
        _derived(s[1], out)
        _derived(s[2], out)
    elif k == 'SAf':
        if (Fraction(s[1]), Fraction(s[2])) != (1, 0) and _contains(s[3], ('tstep',)):
            out.add('tshift')          # a bare polynomial factor under similarity/shift: t u(t) at a t + b
        if Fraction(s[1]) < 0 and _contains(s[3], ('expu', 'texpu1', 'texpu2')):
            out.add('anticausal')      # reversed one-sided exponential: its spectrum has the pole in the other half plane
        if Fraction(s[1]) < 0 and _contains(s[3], ('reciplin',)):
            out.add('reciplin_rhp')    # 1/(c1 (a f + b) + c0) with a < 0: pole in the other half plane
        _derived(s[3], out)
    elif k == 'SMo':
        if _contains(s[2], ('step', 'sign', 'tstep', 'abs')):
            out.add('modstep')         # step-like signal times a complex exponential: spectrum with a pole off the origin
        _derived(s[2], out)


def sig_feats(s, inverse_dir=False):
    fs_ = set(S.features(s))
    d = set()
    _derived(s, d)
    fs_ |= {x for x in d if x == 'tshift'}
    if inverse_dir:
        if 'modstep' in d:
            fs_.add('modstep')
        if 'anticausal' in d:
            fs_.add('anticausal')
        if 'reciplin_rhp' in d:
            fs_.add('reciplin_rhp')
    return fs_


def make_cases(rng, tier, replay=None):
    g = Gen(rng)
    n_t, n_f, n_h, n_hist = (72, 28, 6, 3) if tier == 'quick' else (900, 350, 60, 20)
    cases = []
    vars_ = ['f', 'omega', 'F', 'Omega']

    def add(c):
        if c.get('dom') == 'f' and not re.search(r'\bf\b', c['expr']):
            return       # a constant is not an f-domain expression for Lcapy's parser
        c['id'] = len(cases)
        c.setdefault('points', [list(p) for p in POINTS])
        c.setdefault('dt', DT)
        c.setdefault('xs', XS)
        cases.append(c)

    # every base signal once, plain, in f (all table entries are exercised in both directions)
    bases_t = [['SB', 'rect', {}], ['SB', 'tri', {}], ['SB', 'trap', {'alpha': '1/2'}], ['SB', 'expu', {'c1': '-2', 'c0': '0/1'}],
               ['SB', 'const', {'cval': '3'}], ['SB', 't', {}], ['SB', 't2', {}], ['SB', 'abs', {}], ['SB', 'sign', {}], ['SB', 'step', {}],
               ['SB', 'tstep', {}], ['SB', 'recip', {}], ['SB', 'recip2', {}], ['SB', 'sincn', {}], ['SB', 'sincu', {}], ['SB', 'sincn2', {}],
               ['SB', 'reciplin', {'c1': ['jtpi', '1'], 'c0': '2'}], ['SMo', ['w', '3'], ['SB', 'const', {'cval': '1'}]],
               ['SO', 'delta0', {}], ['SO', 'delta1', {}], ['SO', 'twoexp', {'a': '2'}], ['SO', 'gauss', {'r': '1'}], ['SO', 'gausspi', {'r': '1'}],
               ['SO', 'texpu1', {'c': '-2'}], ['SO', 'sgnexp', {'a': '3'}], ['SO', 'ttwoexp', {'a': '1'}],
               # reversed one-sided exponential, step times a sinusoid (spectra with poles off the upper half plane / on the axis)
               ['SAf', '-1', '0', ['SB', 'expu', {'c1': '-2', 'c0': '0/1'}]],
               ['SAd', ['SSc', '1/2', ['SMo', ['w', '3'], ['SB', 'step', {}]]], ['SSc', '1/2', ['SMo', ['w', '-3'], ['SB', 'step', {}]]]],
               ['SAf', '1', '-1', ['SB', 'step', {}]], ['SAf', '2', '1', ['SB', 'tri', {}]],
               # t/(a t - j b), pole in the upper half plane (a table entry outside the listed signal class)
               ['SB', 'tratio', {'ta': '1', 'tb': '1'}], ['SB', 'tratio', {'ta': '2', 'tb': '3'}], ['SB', 'tratio', {'ta': '-2', 'tb': '-1'}],
               # ... and in the lower half plane (b/a < 0)
               ['SB', 'tration', {'ta': '1', 'tb': '-1'}], ['SB', 'tration', {'ta': '-2', 'tb': '1'}], ['SB', 'tration', {'ta': '3', 'tb': '-1/2'}],
               ]
    for s in bases_t:
        add({'kind': 'sig', 'dom': 't', 'sig': s, 'expr': S.sig_src(s, 't'), 'tag': 'base',
             'ops': [{'op': 'fwd', 'var': 'f'}, {'op': 'rt', 'var': 'f'}], 'oracle': S.support(s) is not None, 'want_input_nf': True})
        add({'kind': 'sig', 'dom': 'f', 'sig': s, 'expr': S.sig_src(s, 'f'), 'tag': 'base',
             'ops': [{'op': 'inv'}], 'oracle': S.support(s) is not None})
    add({'kind': 'sig', 'dom': 'f', 'sig': ['SAf', '-1', '0', ['SB', 'reciplin', {'c1': ['jtpi', '1'], 'c0': '2'}]],
         'expr': S.sig_src(['SAf', '-1', '0', ['SB', 'reciplin', {'c1': ['jtpi', '1'], 'c0': '2'}]], 'f'), 'tag': 'base', 'ops': [{'op': 'inv'}], 'oracle': False})
    # polynomial factor times a shifted step / signum (the closure under shifts of t u(t), |t|)
    for tau in ('1', '-1/2'):
        for nm, b1, b0 in (('u', 'tstep', 'step'), ('sign', 'abs', 'sign')):
            mt = S.fs(-Fraction(tau))
            sig = ['SAd', ['SAf', '1', mt, ['SB', b1, {}]], ['SSc', tau, ['SAf', '1', mt, ['SB', b0, {}]]]]
            src = 't*%s(%s)' % (nm, S.lin_src(1, mt, 't'))
            add({'kind': 'sig', 'dom': 't', 'sig': sig, 'expr': src, 'tag': 'tshift', 'extra_feats': ['tshift'],
                 'ops': [{'op': 'fwd', 'var': 'f'}], 'oracle': False})
    # the four variables on one signal, and every conversion between them
    for s in (['SAf', '1', '-1', ['SB', 'rect', {}]], ['SB', 'expu', {'c1': '-2', 'c0': '0/1'}],
              ['SAd', ['SSc', '1/2', ['SMo', ['w', '3'], ['SB', 'const', {'cval': '1'}]]], ['SSc', '1/2', ['SMo', ['w', '-3'], ['SB', 'const', {'cval': '1'}]]]]):
        ops = []
        for v in vars_:
            ops.append({'op': 'fwd', 'var': v})
            ops.append({'op': 'rt', 'var': v})
            for v2 in vars_:
                ops.append({'op': 'conv', 'var': v, 'to': v2})
        add({'kind': 'sig', 'dom': 't', 'sig': s, 'expr': S.sig_src(s, 't'), 'tag': 'vars', 'ops': ops, 'oracle': False, 'want_input_nf': True})
    # random signals
    for i in range(n_t):
        s = g.signal_t()
        v = vars_[i % 4] if i % 3 else 'f'
        ops = [{'op': 'fwd', 'var': v}, {'op': 'rt', 'var': v}]
        if i % 5 == 0:
            v2 = rng.choice(vars_)
            ops.append({'op': 'conv', 'var': v, 'to': v2})
        add({'kind': 'sig', 'dom': 't', 'sig': s, 'expr': S.sig_src(s, 't'), 'tag': 'rand', 'ops': ops,
             'oracle': S.support(s) is not None, 'want_input_nf': True})
    for i in range(n_f):
        s = g.signal_f()
        add({'kind': 'sig', 'dom': 'f', 'sig': s, 'expr': S.sig_src(s, 'f'), 'tag': 'rand', 'ops': [{'op': 'inv'}],
             'oracle': S.support(s) is not None})
    for i in range(n_h):
        src, sig = g.hmodel()
        ops = []
        for v in vars_:
            ops.append({'op': 'sshort', 'var': v})
        ops.append({'op': 'viatime', 'var': vars_[i % 4]})
        add({'kind': 'sshort', 'dom': 's', 'sig': sig, 'expr': src, 'tag': 'sshort', 'ops': ops, 'oracle': False})
    # the boundary of the s -> j omega shortcut: causal H(s) with poles ON the imaginary axis must not take the shortcut;
    # the spectrum carries an impulse pi * residue at every such pole (model: FT of the causal time signal)
    stp = ['SB', 'step', {}]
    def cosu(w_):
        return ['SAd', ['SSc', '1/2', ['SMo', ['w', w_], stp]], ['SSc', '1/2', ['SMo', ['w', S.fs(-Fraction(w_))], stp]]]
    def sinu(w_):
        return ['SAd', ['SSc', ['c', '0', '-1/2'], ['SMo', ['w', w_], stp]], ['SSc', ['c', '0', '1/2'], ['SMo', ['w', S.fs(-Fraction(w_))], stp]]]
    marg = [('1/s', stp), ('3/s', ['SSc', '3', stp]), ('s/(s**2 + 9)', cosu('3')), ('2/(s**2 + 4)', sinu('2')),
            ('1/(s*(s + 2))', ['SAd', ['SSc', '1/2', stp], ['SSc', '-1/2', ['SB', 'expu', {'c1': '-2', 'c0': '0/1'}]]]),
            ('1/s**2', ['SB', 'tstep', {}]),
            ('2/s + 1/(s + 1)', ['SAd', ['SSc', '2', stp], ['SB', 'expu', {'c1': '-1', 'c0': '0/1'}]]),
            ('s/(s**2 + 1) + 1/(s + 3)', ['SAd', cosu('1'), ['SB', 'expu', {'c1': '-3', 'c0': '0/1'}]])]
    if tier == 'quick':
        marg = [marg[0], marg[2], marg[4], marg[(1, 3, 5, 6, 7)[core.seed() % 5]]]
    for mi, (src, sig) in enumerate(marg):
        vs_ = vars_ if tier != 'quick' else ['omega', 'f', ('F', 'Omega')[(mi + core.seed()) % 2]]
        ops = [{'op': 'sshort', 'var': v} for v in vs_] + [{'op': 'viatime', 'var': 'omega'}]
        add({'kind': 'sshort', 'dom': 's', 'sig': sig, 'expr': src, 'tag': 'marginal', 'extra_feats': ['marginal'], 'ops': ops, 'oracle': False})
    # histories: the same key with different constant factors, interleaved (cache keyed without the constant)
    for i in range(n_hist):
        s1, s2 = g.signal_t(), g.signal_t()
        seq = [['SSc', '3', s1], s2, ['SSc', '-5/2', s1], ['SSc', '7', s2], s1]
        add({'kind': 'hist', 'dom': 't', 'sigs': seq, 'hist': [S.sig_src(x, 't') for x in seq], 'tag': 'hist',
             'ops': [{'op': 'fwd', 'var': 'f'}], 'oracle': False, 'expr': ' ; '.join(S.sig_src(x, 't') for x in seq)})
    return cases


# ------------------------------------------------------------------------------------------ Coq cases
def coq_q(x):
    return S.coq_q(x)


def coq_term(t):
    d = 'None' if t['d'] is None else '(Some (%d%%nat, %s))' % (t['d'][0], S.coq_lp(t['d'][1]))
    at = '; '.join('(%d%%nat, %s, %s, %s, %d%%nat)' % (a[0], coq_q(a[1]), coq_q(a[2]), coq_q(a[3]), a[4]) for a in t['at'])
    return '(T (QI %s %s) %s %s %s (%s, %s, %s) [%s])' % (coq_q(t['c'][0]), coq_q(t['c'][1]), d, S.coq_lp(t['u']), S.coq_lp(t['v']),
                                                          coq_q(t['rx'][0]), coq_q(t['rx'][1]), coq_q(t['rx'][2]), at)


def coq_nf(nf):
    return '[%s]' % '; '.join(coq_term(t) for t in nf)


def var_map(var, dt):
    """(al, be) Laurent numbers with Var = al * x + be for the variable of the result"""
    D = Fraction(dt)
    z = Fraction(0)
    al = {'f': [z, Fraction(1), z], 't': [z, Fraction(1), z], 'omega': [Fraction(1, 2), z, z],
          'F': [z, 1 / D, z], 'Omega': [1 / (2 * D), z, z]}[var]
    return S.coq_lp(al), S.coq_lp([z, z, z])


CASES_HEAD = '''(* GENERATED correspondence evaluation (checks/c12.py): the model FourierModel.ft with the table translated from
   lcapy/fourier.py (code) and with the textbook table (spec), against the canonical form of what Lcapy returned. *)
Require Import LT.FieldSec LT.PolyQ LT.QcI LT.ExpPoly LT.FourierSpec LT.FourierFn LT.FourierTable LT.FourierModel.
Require Import Gen.FourierGen.
From Coq Require Import QArith Qcanon.
Definition spec_tbl_inv : list (nat * fn) := map (fun p => (fst p, flipfn (snd p))) spec_tbl.
Definition chk (A : option (list term)) (B : list term) : nat :=
  match A with None => 2%nat | Some a => if nf_eqb a B then 0%nat else 1%nat end.
Definition code (inv : bool) (P sP : Qc) (s : sig) (al be : lp) (x0 : Qc) :=
  if inv then ft gen_tbl_inv gen_rsim_inv gen_rmod_inv true P sP s al be x0
  else ft gen_tbl_fwd gen_rsim_fwd gen_rmod_fwd false P sP s al be x0.
Definition spec (inv : bool) (P sP : Qc) (s : sig) (al be : lp) (x0 : Qc) :=
  if inv then ft spec_tbl_inv (flipfn sp_simshift) (flipfn sp_mod) true P sP s al be x0
  else ft spec_tbl sp_simshift sp_mod false P sP s al be x0.
(* the open finding F15, stated independently of the translation: the textbook table with the trap entry
   multiplied by alpha.  A wrong result is attributed to F15 only if this table reproduces it exactly. *)
Definition kd_tbl : list (nat * fn) :=
  map (fun p => if Nat.eqb (fst p) P_trap then (fst p, Mul (Par 4) (snd p)) else p) spec_tbl.
Definition kd_tbl_inv : list (nat * fn) := map (fun p => (fst p, flipfn (snd p))) kd_tbl.
Definition kd (inv : bool) (P sP : Qc) (s : sig) (al be : lp) (x0 : Qc) :=
  if inv then ft kd_tbl_inv (flipfn sp_simshift) (flipfn sp_mod) true P sP s al be x0
  else ft kd_tbl sp_simshift sp_mod false P sP s al be x0.
'''


def cases_v(items, have_gen=True):
    """items: list of dict(idx, kind 'model'|'eq', inv, sig(json), var, dt, point, obs(nf), ref(nf));
    without the generated table (translation failed) only the textbook table is evaluated"""
    head = CASES_HEAD
    if not have_gen:
        head = head.replace('Require Import Gen.FourierGen.\n', '')
        i = head.index('Definition code ')
        j = head.index('Definition spec ')
        head = head[:i] + head[j:] + 'Definition code := spec.\n'
    out = [head]
    sigdefs = {}
    rows = []
    for it in items:
        if it['kind'] == 'model':
            key = json.dumps(it['sig'], sort_keys=True)
            if key not in sigdefs:
                sigdefs[key] = 'sg_%d' % len(sigdefs)
                out.append('Definition %s : sig := %s.' % (sigdefs[key], S.coq_sig(it['sig'])))
            al, be = var_map(it['var'], it['dt'])
            x0, P, sP = it['point']
            args = '%s %s %s %s %s %s %s' % ('true' if it['inv'] else 'false', coq_q(P), coq_q(sP), sigdefs[key], al, be, coq_q(x0))
            out.append('Definition obs_%d : list term := %s.' % (it['idx'], coq_nf(it['obs'])))
            rows.append('(%d%%nat, chk (code %s) obs_%d, chk (spec %s) obs_%d, chk (kd %s) obs_%d)' % (
                it['idx'], args, it['idx'], args, it['idx'], args, it['idx']))
        else:
            out.append('Definition obs_%d : list term := %s.' % (it['idx'], coq_nf(it['obs'])))
            out.append('Definition ref_%d : list term := %s.' % (it['idx'], coq_nf(it['ref'])))
            kd3 = '1%nat'
            if it.get('kdref') is not None:
                out.append('Definition kdref_%d : list term := %s.' % (it['idx'], coq_nf(it['kdref'])))
                kd3 = 'chk (Some kdref_%d) obs_%d' % (it['idx'], it['idx'])
            rows.append('(%d%%nat, chk (Some ref_%d) obs_%d, chk (Some ref_%d) obs_%d, %s)' % (it['idx'], it['idx'], it['idx'], it['idx'], it['idx'], kd3))
    out.append('Definition items : list (nat * nat * nat * nat) := [\n  %s].' % ';\n  '.join(rows))
    out.append('Definition pick (f : nat * nat * nat * nat -> nat) (v : nat) := map (fun r => fst (fst (fst r))) (filter (fun r => Nat.eqb (f r) v) items).')
    out.append('Eval vm_compute in pick (fun r => snd (fst (fst r))) 1%nat.   (* code table: mismatch *)')
    out.append('Eval vm_compute in pick (fun r => snd (fst r)) 1%nat.         (* textbook table: mismatch *)')
    out.append('Eval vm_compute in pick (fun r => snd (fst (fst r))) 2%nat.   (* code table: model abstains *)')
    out.append('Eval vm_compute in pick (fun r => snd (fst r)) 2%nat.         (* textbook table: model abstains *)')
    out.append('Eval vm_compute in pick (fun r => snd r) 0%nat.               (* textbook table with the F15 trap entry: agrees *)')
    return '\n'.join(out) + '\n'


def parse_lists(out):
    res = []
    for m in re.finditer(r'=\s*\[(.*?)\]\s*:\s*list nat', out, re.S):
        body = m.group(1).strip()
        res.append([int(x.replace('%nat', '').strip()) for x in body.split(';')] if body else [])
    return res


# ------------------------------------------------------------------------------------------ decision helpers
def op_features(case, op):
    k = op['op']
    fs_ = set()
    if case['kind'] in ('sig', 'sshort') and case.get('sig') is not None and k in ('fwd', 'inv', 'rt', 'viatime'):
        fs_ |= sig_feats(case['sig'], inverse_dir=k in ('inv', 'rt'))
    fs_ |= set(case.get('extra_feats', []))
    if k == 'fwd' and op['var'] != 'f':
        fs_.add('conv:FourierDomainExpression.%s' % VARM[op['var']])
    if k == 'rt':
        fs_.add('conv:%s.inverse_fourier' % VARCLS[op['var']])
    if k == 'conv':
        fs_ = {'conv:%s.%s' % (VARCLS[op['var']], VARM[op['to']])}
    if k == 'sshort':
        fs_ = {'sshort:LaplaceDomainExpression.%s' % VARM[op['var']]} | set(case.get('extra_feats', []))
    return fs_


def op_kind(case, op):
    k = op['op']
    if k == 'fwd':
        return 'fwd'
    if k == 'inv':
        return 'inv'
    return k


def close(a, b, rel=1e-9):
    return abs(a - b) <= rel * max(1.0, abs(a), abs(b))


# ------------------------------------------------------------------------------------------ main
def run(tier='quick', replay=None):
    res = core.Result(PID, tier)
    rng = random.Random(core.seed() * 15485863 + 12)
    core.ensure_theory(['FieldSec', 'PolyQ', 'QcI', 'ExpPoly', 'FourierSpec', 'FourierFn', 'FourierTable', 'FourierModel', 'FourierOspec', 'FourierAnalysis', 'FourierSound'])
    w = core.Work(PID)
    violations = []
    tph = {}
    try:
        sha = lambda p: core.sha256_file(os.path.join(core.VERIF, p))[:16]
        res.trusted = [
            'Coq 8.16.1 kernel + vm_compute (no native_compute); Coquelicot 3.x for coq/theory/FourierAnalysis.v',
            'translator tools/tr_fourier.py (sha256 %s) + statement/proof templates checks/c12gen.py (sha256 %s): guards of '
            'FourierTransformer.term are pinned verbatim (text -> pattern id), return expressions and scale factors are translated' % (
                sha('tools/tr_fourier.py'), sha('checks/c12gen.py')),
            'canonicaliser tools/fourier_nf.py (sha256 %s) of what Lcapy returned (exact rational arithmetic, pi as an indeterminate with a '
            'rational square root, delta sifting, quarter-turn folding) and its Coq twin coq/theory/FourierFn.v (nfe, nf_eqb)' % sha('tools/fourier_nf.py'),
            'worker tools/impl_fourier.py (sha256 %s), structured signals tools/fourier_sig.py (sha256 %s: source text, Coq term, numeric '
            'evaluator of the search oracle)' % (sha('tools/impl_fourier.py'), sha('tools/fourier_sig.py')),
            'specification coq/theory/FourierSpec.v (FPair and the laws of the symbols, bundled in the record fctx), FourierTable.v (textbook '
            'closed forms sp_* with their FPair proofs), FourierModel.v (ft, ospec: specification of the results Lcapy takes from SymPy), '
            'FourierSound.v (sden: meaning of a structured signal; Fden: meaning of the transform the model assembles)',
            'oracles modelled, not verified: sympy.fourier_transform (fall-through of term), Ratfun.partfrac and as_ordered_terms (hypotheses of '
            'compute_split_sound), symsimplify / expand(diracdelta) / simplify of texpr.FT (identity on the canonical form) — validated per case',
        ]
        res.assumptions = [
            'FPair is a specification-level relation: delta^(n), sign, step, rect, tri, trap, sincn, exp, cosh, sinh, tanh are symbols '
            'constrained by parity, delta scaling, exp additivity, u = (1 + sgn)/2, |x| = x sgn x, sincn 0 = 1 (record fctx; a trivial instance '
            'over Q(i) is exhibited in props/C12.v); equality of functions is taken off a finite set of singular points',
            'analysis statements (FourierAnalysis.v): real-valued signals, real f, Riemann improper integral from -oo to +oo; 0 < alpha <= 1 '
            'for trap, a > 0 for e^{-a t} u(t); real and imaginary part separately',
            'characteristic 0 field with decidable equality (FieldSec.fld)',
        ]
        # ---- 1. translate -----------------------------------------------------------------------------------
        t_ = time.time()
        tr = None
        try:
            tr = T.Translation(core.REPO)
        except T.Untranslatable as e:
            res.failed_obl.append(('translate', 'lcapy/fourier.py', str(e)))
            res.obligations += 1
        except (OSError, SyntaxError) as e:
            res.failed_obl.append(('translate', 'lcapy', '%s: %s' % (type(e).__name__, e)))
            res.obligations += 1
        texts = {}
        meta = {'unspecified': [], 'table_obligations': [], 'var_obligations': []}
        gen_ok = False
        thm_files = {}
        if tr is not None:
            # parts of the source outside the translator's subset: each is a broken obligation of its own, the rest goes on
            for part, detail in tr.errors:
                nm_ = part if part.startswith(('varchange_', 'sshort_')) else 'translate_' + part
                res.failed_obl.append((nm_, 'translation of lcapy (tools/tr_fourier.py)', 'Untranslatable: ' + detail))
                res.obligations += 1
            try:
                texts['FourierGen.v'] = G.gen_defs(tr)
                thm_files.update(G.gen_table_obligations(tr, meta))
                thm_files.update(G.gen_var_obligations(tr, meta))
            except T.Untranslatable as e:
                res.failed_obl.append(('generate', 'FourierGen.v', str(e)))
                res.obligations += 1
                thm_files = {}
            if 'FourierGen.v' in texts:
                w.write('FourierGen.v', texts['FourierGen.v'])
                ok, out, secs = core.coqc(w.dir, 'FourierGen.v')
                gen_ok = ok and tr.entries is not None
                if not ok:
                    res.failed_obl.append(('FourierGen', 'FourierGen.v', out[-800:]))
                    res.obligations += 1
            for nm, ok, detail in G.structural_checks(tr):
                res.obligations += 1
                if ok:
                    res.discharged += 1
                else:
                    res.failed_obl.append((nm, 'structure', detail))
            res.extra['entries_without_specification'] = meta['unspecified']
        tph['translate'] = round(time.time() - t_, 1)

        # ---- 2. run the real code (in the background of the proofs) -----------------------------------------------
        t_ = time.time()
        cases = make_cases(rng, tier)
        if replay:
            c = replay.get('case') or (replay.get('replay') or {}).get('case')
            if c:
                c = dict(c)
                c['id'] = 0
                cases = [c]
            else:
                print('replay file names a theorem/correspondence, not an input: %s' % (replay.get('theorem') or replay.get('key')))
                cases = []
        import threading
        impl_out = {}

        def bg():
            if cases:
                impl_out['r'] = core.run_impl('impl_fourier.py', cases, timeout=3000 if tier != 'quick' else 900)
            else:
                impl_out['r'] = []
        th = threading.Thread(target=bg)
        th.start()

        # ---- 3. prove ----------------------------------------------------------------------------------------------
        ptxt = open(os.path.join(core.VERIF, 'coq', 'props', 'C12.v')).read()
        files = []
        if 'FourierGen.v' in texts and os.path.exists(w.path('FourierGen.vo')) and not replay:
            # grouped first (fast); members of a failing group are then compiled one by one
            names = sorted(thm_files)
            ngroups = 12
            groups = [names[i::ngroups] for i in range(ngroups)]
            gtexts = {}
            for gi, gr in enumerate(groups):
                if gr:
                    gtexts['C12_group_%d.v' % gi] = group_text([thm_files[n] for n in gr])
            for f_, t in gtexts.items():
                w.write(f_, t)
            w.write('C12.v', ptxt)
            bad = core.gate_text('generated', '\n'.join(list(thm_files.values()) + [texts['FourierGen.v']]))
            bad += core.gate_text('props/C12.v', ptxt)
            if bad:
                res.failed_obl.append(('gate', 'generated', '; '.join(bad)))
                res.obligations += 1
            # props/C12.v (the longest file) compiles in the background of the generated obligations
            pr_out = {}
            pth = threading.Thread(target=lambda: pr_out.update(core.coqc_many(w.dir, ['C12.v'], timeout=900)))
            pth.start()
            r1 = core.coqc_many(w.dir, sorted(gtexts), timeout=900)
            final = {}
            ftexts = {}
            redo = []
            for gi, gr in enumerate(groups):
                gf = 'C12_group_%d.v' % gi
                if not gr:
                    continue
                if r1[gf][0]:
                    final[gf] = r1[gf]
                    ftexts[gf] = gtexts[gf]
                else:
                    redo += gr
            for n in redo:
                w.write(n, thm_files[n])
            if redo:
                r2 = core.coqc_many(w.dir, redo, timeout=600)
                for n in redo:
                    final[n] = r2[n]
                    ftexts[n] = thm_files[n]
            # closure: the model with the table and rules translated from the source is sound on every structured signal
            # over the patterns whose table_sound obligation was proved (premises of FourierSound.model_sound_tbl)
            proved = {}
            for f_, r_ in final.items():
                if r_[0]:
                    for n_ in core.obligations_in(ftexts[f_]):
                        proved[n_] = f_[:-2]
            try:
                ctxt, cinfo = G.gen_closure(tr, proved)
            except (T.Untranslatable, KeyError) as e:
                ctxt, cinfo = None, {'error': str(e)}
                res.failed_obl.append(('code_model_sound', 'C12_closure.v', 'generation failed: %s' % e))
                res.obligations += 1
            res.extra['closure'] = cinfo
            if ctxt is not None:
                badc = core.gate_text('C12_closure.v', ctxt)
                if badc:
                    res.failed_obl.append(('gate', 'C12_closure.v', '; '.join(badc)))
                    res.obligations += 1
                w.write('C12_closure.v', ctxt)
                final['C12_closure.v'] = core.coqc(w.dir, 'C12_closure.v', 600)
                ftexts['C12_closure.v'] = ctxt
            for d_ in ('fwd', 'inv'):
                if 'error' not in cinfo and (cinfo.get(d_) is None or None in cinfo[d_]['rules'].values()):
                    # the broken rule obligation is itself reported; no closure theorem for this direction
                    res.count('closure_%s_not_generated_rule_obligation_failed' % d_)
            pth.join()
            if 'C12.v' in pr_out:
                final['C12.v'] = pr_out['C12.v']
                ftexts['C12.v'] = ptxt
            res.coq_results(w.dir, final, ftexts)
            res.extra['coq_seconds'] = {f_: round(r[2], 1) for f_, r in final.items() if r[2] > 5}
        elif not replay:
            w.write('C12.v', ptxt)
            r1 = core.coqc_many(w.dir, ['C12.v'], timeout=900)
            res.coq_results(w.dir, r1, {'C12.v': ptxt})
        tph['prove'] = round(time.time() - t_, 1)
        th.join()
        results = impl_out['r']
        tph['impl+prove'] = round(time.time() - t_, 1)

        # ---- 4. correspondence inside Coq ----------------------------------------------------------------------------
        t_ = time.time()
        items = []
        opinfo = {}      # idx -> (case id, op index, point index)
        op_status = {}   # (case id, op index) -> dict
        for c, r in zip(cases, results):
            res.programs += 1
            if r.get('crash') or r.get('parse_error'):
                res.count('impl_error')
                continue
            ops = c['ops'] if c['kind'] != 'hist' else [{'op': 'fwd', 'var': 'f'}] * len(c['hist'])
            for oi, (op, ro) in enumerate(zip(ops, r['ops'])):
                st = {'kind': op_kind(c, op), 'feats': op_features(c, op) if c['kind'] != 'hist' else sig_feats(c['sigs'][oi]) | {'history'},
                      'str': ro.get('str'), 'state': None}
                op_status[(c['id'], oi)] = st
                if 'error' in ro:
                    st['state'] = 'error'
                    res.count('lcapy_raises')
                    continue
                if ro.get('nonfinite'):
                    st['state'] = 'nonfinite'
                    st['verdict'] = 'fail'
                    res.count('nonfinite_result')
                    continue
                if ro.get('notclosed'):
                    st['state'] = 'notclosed'
                    res.count('not_closed_form')
                    continue
                if 'nf' not in ro:
                    st['state'] = 'uncanon'
                    st['why'] = ro.get('uncanon')
                    res.count('uncanonical')
                    continue
                st['state'] = 'compared'
                st['code'] = []
                st['spec'] = []
                for pi_, nf in enumerate(ro['nf']):
                    idx = len(items)
                    opinfo[idx] = (c['id'], oi, pi_)
                    if op['op'] == 'conv':
                        if 'ref_nf' not in ro:
                            st['state'] = 'uncanon'
                            st['why'] = 'reference: %s' % ro.get('ref_uncanon')
                            break
                        items.append({'idx': idx, 'kind': 'eq', 'obs': nf, 'ref': ro['ref_nf'][pi_]})
                    elif op['op'] == 'rt':
                        if 'input_nf' not in r:
                            st['state'] = 'uncanon'
                            st['why'] = 'input: %s' % r.get('input_uncanon')
                            break
                        items.append({'idx': idx, 'kind': 'eq', 'obs': nf, 'ref': r['input_nf'][pi_],
                                      'kdref': (r.get('input_nf_absdropped') or [None] * 9)[pi_]})
                    else:
                        sig = c['sigs'][oi] if c['kind'] == 'hist' else c['sig']
                        inv = op['op'] == 'inv'
                        var = 't' if inv else (op['to'] if op['op'] == 'conv' else op['var'])
                        items.append({'idx': idx, 'kind': 'model', 'inv': inv, 'sig': sig, 'var': var, 'dt': c['dt'],
                                      'point': c['points'][pi_], 'obs': nf})
        for c, r in zip(cases, results):
            if c['kind'] != 'sig' or not r.get('ops'):
                continue
            deg = set()
            for oi, (op, ro) in enumerate(zip(c['ops'], r['ops'])):
                if op['op'] == 'fwd' and (ro.get('degenerate_delta') or 'degenerate impulse' in (ro.get('uncanon') or '')):
                    deg.add(op['var'])
            for oi, op in enumerate(c['ops']):
                if op['op'] == 'rt' and op['var'] in deg and (c['id'], oi) in op_status:
                    op_status[(c['id'], oi)]['feats'].add('degenerate_delta')
        code_bad, spec_bad, code_abs, spec_abs, kd_ok = set(), set(), set(), set(), set()
        if items:
            shard = 150
            fns = []
            for si in range(0, len(items), shard):
                fn = 'cases_%d.v' % (si // shard)
                w.write(fn, cases_v(items[si:si + shard], gen_ok))
                fns.append(fn)
            cr = core.coqc_many(w.dir, fns, timeout=900)
            for fn in fns:
                ok, out, secs = cr[fn]
                ls = parse_lists(out) if ok else []
                if not ok or len(ls) != 5:
                    res.failed_obl.append(('correspondence_eval', fn, out[-600:]))
                    res.obligations += 1
                    continue
                code_bad |= set(ls[0]); spec_bad |= set(ls[1]); code_abs |= set(ls[2]); spec_abs |= set(ls[3]); kd_ok |= set(ls[4])
            res.extra['traces_validated_against_impl'] = len(items)
        for idx, (cid, oi, pi_) in opinfo.items():
            st = op_status[(cid, oi)]
            if st['state'] != 'compared':
                continue
            st['code'].append('abstain' if idx in code_abs else ('bad' if idx in code_bad else 'ok'))
            st['spec'].append('abstain' if idx in spec_abs else ('bad' if idx in spec_bad else 'ok'))
            st.setdefault('kd', []).append(idx in kd_ok)
        tph['correspond'] = round(time.time() - t_, 1)

        # ---- 5. numeric search oracle --------------------------------------------------------------------------------
        oracle_bad = {}
        for c, r in zip(cases, results):
            if not c.get('oracle') or not r.get('quad'):
                if c.get('oracle'):
                    res.count('oracle_unavailable')
                continue
            for oi, (op, ro) in enumerate(zip(c['ops'], r['ops'])):
                if 'num' not in ro:
                    continue
                if op['op'] in ('fwd', 'inv'):
                    ref = r['quad']
                elif op['op'] == 'rt' and 'sigvals' in r:
                    ref = r['sigvals']
                else:
                    continue
                bad = 0
                for (x, a, b), (x2, a2, b2) in zip(ro['num'], ref):
                    try:
                        if not (close(float(a), float(a2)) and close(float(b), float(b2))):
                            bad += 1
                    except ValueError:
                        bad = 0
                        break
                res.count('oracle_evaluated')
                if bad >= 2:       # confirmed at a second point
                    oracle_bad[(c['id'], oi)] = {'lcapy': ro['num'], 'integral': ref}
                    res.count('oracle_mismatch')
                else:
                    res.count('oracle_agree')

        # ---- 6. decide ----------------------------------------------------------------------------------------------------
        byid = {c['id']: c for c in cases}
        passing = {}
        failing = {}
        for (cid, oi), st in op_status.items():
            c = byid[cid]
            if st['state'] != 'compared':
                if (cid, oi) in oracle_bad or st['state'] == 'nonfinite':
                    st['verdict'] = 'fail'
                else:
                    continue
            else:
                sp = st['spec']
                if any(x == 'bad' for x in sp) or (cid, oi) in oracle_bad:
                    st['verdict'] = 'fail'
                elif all(x == 'ok' for x in sp):
                    st['verdict'] = 'pass'
                else:
                    st['verdict'] = 'abstain'
                    res.count('model_abstains')
            kind = st['kind']
            res.add_case(json.dumps([c['expr'], c['ops'][oi] if c['kind'] != 'hist' else oi], sort_keys=True),
                         st['verdict'] != 'abstain',
                         {'expr': c['expr'], 'op': c['ops'][oi] if c['kind'] != 'hist' else 'history step %d' % oi, 'lcapy': st['str'],
                          'verdict': st['verdict']} if (cid * 7 + oi) % 61 == 0 else None)
            res.count('op_' + kind)
            res.count('verdict_' + st['verdict'])
            for f_ in st['feats']:
                res.count('feature_' + f_)
                d = passing if st['verdict'] == 'pass' else (failing if st['verdict'] == 'fail' else None)
                if d is not None:
                    d.setdefault((kind, f_), 0)
                    d[(kind, f_)] += 1
        # features named by a broken obligation (the theorem says which entry / method is wrong)
        oblkey = {}
        for o in meta['table_obligations']:
            ft_ = ('rule:' + o['pid'][2:]) if o['pid'].startswith('R_') else ('pid:' + {'tratio1': 'tratio', 'tratio2': 'tratio', 'tratio1n': 'tration', 'tratio2n': 'tration'}.get(o['pid'], o['pid']))
            oblkey[o['sound']] = ('fwd', ft_)
            oblkey[o['inv']] = ('inv', ft_)
        for fname_, cls_, m_, src_, dst_ in T.CONV:
            oblkey['varchange_%s_%s' % (cls_, m_)] = (None, 'conv:%s.%s' % (cls_, m_))
        for fname_, cls_, m_, dst_ in T.SCONV:
            oblkey['sshort_%s' % m_] = (None, 'sshort:%s.%s' % (cls_, m_))
        import hashlib
        irhash = {}
        if tr is not None:
            for e in tr.entries or []:
                irhash['table_sound_%d' % e['line']] = hashlib.sha1(repr(e['fwd']).encode()).hexdigest()[:8]
                irhash['table_inv_%d' % e['line']] = hashlib.sha1(repr(e['inv']).encode()).hexdigest()[:8]
            for v in tr.varchanges:
                irhash['varchange_%s_%s' % (v['cls'], v['method'])] = hashlib.sha1(repr(v['ir']).encode()).hexdigest()[:8]
            for v in tr.sconv:
                irhash['sshort_%s' % v['method']] = hashlib.sha1(repr(v['ir']).encode()).hexdigest()[:8]

        def heads(txt):
            return ','.join(sorted(set(re.findall(r'([A-Za-z_]\w*)\(', txt or '')))) or 'none'
        broken = {}
        for name, f_, msg in res.failed_obl:
            if name in oblkey:
                broken.setdefault(oblkey[name], []).append(name)

        def broken_feature(kind, feats):
            for (k_, ft_), names in sorted(broken.items(), key=lambda kv: kv[0][1]):
                if ft_ in feats and (k_ is None or k_ == kind or (k_ == 'inv' and kind == 'rt' and False)):
                    return ft_, names
            return None, None
        # keys of the failing ops
        found = {}
        for (cid, oi), st in sorted(op_status.items()):
            if st.get('verdict') != 'fail':
                continue
            c = byid[cid]
            kind = st['kind']
            bf, thms = broken_feature(kind, st['feats'])
            sus = [f_ for f_ in st['feats'] if (kind, f_) in failing and (kind, f_) not in passing]
            sus.sort(key=lambda f_: (-failing[(kind, f_)], f_))
            if st.get('kd') and all(st['kd']) and 'pid:trap' in st['feats'] and kind in ('fwd', 'inv'):
                # exactly the behaviour of the open finding F15 (trap entry times alpha), whatever the translation did
                key = '%s:pid:trap:alpha-factor' % kind
                thms = [n for n in (thms or []) if oblkey.get(n) == (kind, 'pid:trap')] or None
                if thms is None:
                    thms = [n for (k_, ft_), ns in broken.items() if (k_, ft_) == (kind, 'pid:trap') for n in ns] or None
            elif kind == 'rt' and st.get('kd') and all(st['kd']) and 'oid:twoexp' in st['feats']:
                # exactly the behaviour of the open SymPy fall-back finding: exp(-a|t|) comes back as exp(-a t), rest intact
                key = 'rt:oid:twoexp:exp'
            elif bf:
                # a known defect of a table entry / scale factor is the translated expression itself: the finding is keyed by
                # the hash of that expression, and only covers results that the model WITH the translated (wrong) expression
                # reproduces exactly; anything else on the same entry is a different violation
                explained = st['state'] != 'compared' or kind in ('rt', 'conv', 'sshort', 'viatime') or not any(x == 'bad' for x in (st.get('code') or []))
                if explained and bf in ('pid:tratio', 'pid:tration'):
                    # only plain inputs of this class are generated: keyed by input class + shape of the wrong result,
                    # independent of whether the translation succeeded
                    key = '%s:%s:%s' % (kind, bf, heads(st['str']))
                elif explained:
                    key = '%s:%s@%s' % (kind, bf, '+'.join(sorted(irhash.get(n, '?') for n in thms)))
                else:
                    key = '%s:%s:unexplained:%s' % (kind, bf, heads(st['str']))
            elif st['state'] == 'nonfinite' and 'degenerate_delta' in st['feats']:
                key = '%s:degenerate_delta' % kind
            elif sus:
                # keyed by the input class and the shape of the wrong result (function heads), so that a different wrong
                # result for the same class is a new violation
                key = '%s:%s:%s' % (kind, sus[0], heads(st['str']))
            else:
                key = '%s:input:%s' % (kind, re.sub(r'\s+', '', c['expr'])[:60])
            ce = {'case': {k: v for k, v in c.items() if k != 'id'}, 'op_index': oi, 'lcapy': st['str'], 'spec_compare': st.get('spec'),
                  'code_compare': st.get('code'), 'oracle': oracle_bad.get((cid, oi))}
            if thms:
                ce['theorems'] = thms
            ce['case']['ops'] = [c['ops'][oi]] if c['kind'] != 'hist' else c['ops']
            res.counterexamples.append(ce)
            size = lambda e_: (e_['case'].get('kind') == 'hist', len(json.dumps(e_['case'].get('sig'))), len(e_['case'].get('expr', '')))
            if key not in found or size(ce) < size(found[key]):
                found[key] = ce
        if os.environ.get('C12_DEBUG'):
            dbg = []
            for (cid, oi), st in sorted(op_status.items()):
                c = byid[cid]
                dbg.append({'expr': c['expr'], 'op': c['ops'][oi] if c['kind'] != 'hist' else oi, 'state': st['state'], 'verdict': st.get('verdict'),
                            'lcapy': st['str'], 'spec': st.get('spec'), 'code': st.get('code'), 'why': st.get('why'),
                            'oracle': oracle_bad.get((cid, oi)), 'feats': sorted(st['feats'])})
            json.dump(dbg, open(os.path.join(core.VERIF, '.work', 'c12_debug.json'), 'w'), indent=1)
        for key, ce in sorted(found.items()):
            violations.append({'key': key, 'what': 'Lcapy result differs from the specified transform (%s)' % key, 'replay': ce,
                               'case': ce['case'], 'lcapy': ce['lcapy'], 'found_input': True, 'how': './check C12 --replay <this file>'})
        # correspondence differences (model with the translated table vs the code) that are not property violations
        for (cid, oi), st in sorted(op_status.items()):
            if st['state'] == 'compared' and any(x == 'bad' for x in st['code']) and st.get('verdict') != 'fail':
                c = byid[cid]
                res.disagreements.append({'case': c['expr'], 'op': c['ops'][oi] if c['kind'] != 'hist' else oi, 'lcapy': st['str']})
        if res.disagreements:
            d0 = res.disagreements[0]
            violations.append({'key': 'correspondence:ft', 'what': 'model with the translated table and the real code differ',
                               'case': d0, 'n': len(res.disagreements), 'found_input': False,
                               'correspondence': 'FourierModel.ft gen_tbl vs lcapy'})
        # broken obligations: is there a failing input for the same pattern / method?
        res.extra['obligation_keys'] = {}
        for name, f_, msg in res.failed_obl:
            hit = None
            if name in oblkey:
                k_, ft_ = oblkey[name]
                for key, ce in found.items():
                    if name in (ce.get('theorems') or []):
                        hit = key
                        break
            if hit:
                res.extra['obligation_keys'][name] = hit
                continue
            violations.append({'key': 'obligation:' + name, 'what': 'Coq obligation %s (%s) no longer checks' % (name, f_),
                               'theorem': name, 'file': f_, 'message': msg, 'found_input': False,
                               'expected_feature': list(oblkey.get(name, ()))})
        res.rule = ('cases: every base signal of the table plain in both directions; signals drawn from the closure (base x affine argument x '
                    'modulation by complex exponential / cos / sin x constant x sum); x(var) for var in f, omega, F, Omega, X(t) round trip, '
                    'conversions between the variables, H(s)(var, causal) and via the time domain, call histories.  An evaluation = one '
                    'operation on one signal; non-trivial = Lcapy returned a closed form that the canonicaliser accepts and the model covers; '
                    'distinct = distinct (expression, operation).')
        res.extra['seconds_per_phase'] = tph
        res.extra['n_cases'] = len(cases)
        if replay:
            # one stored input through implementation, model and oracle; evidence of the full run is left alone
            bad = 0
            for (cid, oi), st in sorted(op_status.items()):
                print('replay op %d %s: lcapy=%s | state=%s | model(textbook table)=%s | model(translated table)=%s | quadrature=%s' % (
                    oi, byid[cid]['ops'][oi] if byid[cid]['kind'] != 'hist' else '', st['str'], st['state'], st.get('spec'), st.get('code'),
                    oracle_bad.get((cid, oi))))
                bad += st.get('verdict') == 'fail'
            print('replay verdict: %s' % ('property violated on this input' if bad else 'no violation on this input'))
            return 1 if bad else 0
        return core.finish(res, violations)
    finally:
        if not os.environ.get('VERIF_KEEP'):
            w.cleanup()


def group_text(texts):
    """several single-theorem files merged into one (same header and section)"""
    head = None
    bodies = []
    prints = []
    for t in texts:
        i = t.index('(* fourier.py') if '(* fourier.py' in t else None
        m = re.search(r'\n\(\* [^\n]*\*\)\nTheorem ', t)
        start = m.start() + 1
        end = t.index('End Obl.')
        if head is None:
            head = t[:start]
        # keep the rho_dt hypothesis of the variable-change files once
        bodies.append(t[start:end])
        prints += re.findall(r'Print Assumptions \w+\.', t)
    if 'rho_dt' not in head and any('rho_dt' in b or 'vprep' in b for b in bodies):
        head += 'Hypothesis rho_dt : rho 11%nat = c_dt C.\nLtac vprep := prep; pose proof (c_dt_nz C) as Hdt; rewrite <- rho_dt in Hdt.\n'
    return head + '\n'.join(bodies) + 'End Obl.\n' + '\n'.join(prints) + '\n'


if __name__ == '__main__':
    sys.exit(run(sys.argv[1] if len(sys.argv) > 1 else 'quick'))
