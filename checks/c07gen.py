"""C07 - generation of the Coq obligation files (statement templates are fixed
here; the definitions they talk about are regenerated from /repo)."""

SEC_HDR = '''(* GENERATED statement (template in checks/c07gen.py) about definitions regenerated from lcapy/twoport.py *)
Require Import LT.FieldSec LT.TwoPort LT.Sections Gen.TwoPortGen Gen.SectionsGen.
Local Open Scope F_scope.
Ltac unf := sec_spec_unfold; sec_unfold; tp_unfold; sec_unfold.
Ltac absdiv1 n d := let w := fresh "w" in let Ew := fresh "Ew" in let Hw := fresh "Hw" in
   remember (fdiv n d) as w eqn:Ew; assert (Hw : fmul w d = n) by (rewrite Ew; field; nz); clear Ew.
Ltac absdiv := repeat match goal with
  | H : context [fdiv ?n ?d] |- _ => absdiv1 n d
  | |- context [fdiv ?n ?d] => absdiv1 n d end.
Ltac rsolve := first [ eq_from_hyps | (absdiv; first [ knsatz | wit_all; knsatz ]) ].
Ltac decomp := repeat match goal with H : exists _, _ |- _ => destruct H | H : _ /\\ _ |- _ => destruct H end.
'''

# constructor -> (argument names, hypotheses, specification, witnesses for the cascade existentials)
CTOR_SPEC = {
    'Zseries': (['z'], [], 'series_rel z', []),
    'Yseries': (['y'], ['y <> 0'], 'series_rel (1 / y)', []),
    'Yshunt': (['y'], [], 'shunt_rel y', []),
    'Zshunt': (['z'], ['z <> 0'], 'shunt_rel (1 / z)', []),
    'transformer': (['a'], ['a <> 0'], 'transformer_rel a', []),
    'gyrator': (['r'], ['r <> 0'], 'gyrator_rel r', []),
    'Lsection': (['z1', 'z2'], ['z2 <> 0'], 'Lsection_rel z1 z2', ['(v1 - z1 * i1)', 'i1']),
    'Tsection': (['z1', 'z2', 'z3'], ['z2 <> 0'], 'Tsection_rel z1 z2 z3',
                 ['(v2 - z3 * i2)', '(fopp i2)', '(v1 - z1 * i1)', 'i1']),
    'Pisection': (['z1', 'z2', 'z3'], ['z1 <> 0', 'z3 <> 0'], 'Pisection_rel z1 z2 z3',
                  ['v1', '(i1 - v1 / z1)', '(v1 - z2 * (i1 - v1 / z1))', '(i1 - v1 / z1)']),
}
EXTRA_HYPS = {('Z', 'Pisection'): ['z2 <> 0', 'z1 + z2 + z3 <> 0'], ('Z', 'Tsection'): []}


def section_file(kind, ctor, nparams):
    args, hyps, spec, wits = CTOR_SPEC[ctor]
    if len(args) != nparams:
        return None
    hyps = hyps + EXTRA_HYPS.get((kind, ctor), [])
    name = 'section_sem_%s_%s' % (kind, ctor)
    hs = ''.join('%s -> ' % h for h in hyps)
    ex = ('exists ' + ', '.join(wits[:2]) + '. ' + (('split; [exists %s|]. ' % ', '.join(wits[2:])) if len(wits) > 2 else '')) if wits else ''
    if ctor == 'Pisection':
        # Pisection_rel = cascade shunt (cascade series shunt): the inner existential is in the second component
        ex = 'exists %s, %s. split; [|exists %s, %s]. ' % tuple(wits)
    txt = SEC_HDR + '''
Section Obl.
Variable K : fld.
Add Field KFobl : (fth K).
(* %sMatrix.%s gives the %s-parameters of the physical section *)
Theorem %s (Z0 %s : K) (v : port K) : %s(rel_%s Z0 (%s_ctor_%s %s) v <-> %s v).
Proof.
  intros%s. destruct v as [v1 i1 v2 i2]. unf. split.
  - intros [E1 E2]. %sall: repeat split; rsolve.
  - intros H. decomp. split; rsolve.
Qed.
End Obl.
Print Assumptions %s.
''' % (kind, ctor, kind, name, ' '.join(args), hs, kind, kind, ctor, ' '.join(args), spec,
       ''.join(' Hn%d' % i for i in range(len(hyps))), ex, name)
    return name, txt


TP_SPECS = {
    'SeriesPair': ('series_rel (opZ o_OP1 + opZ o_OP2)', None),
    'LSection': ('cascade (series_rel (opZ o_OP1)) (shunt_rel (opY o_OP2))', None),
    'LSectionAlt': ('cascade (shunt_rel (opY o_OP1)) (series_rel (opZ o_OP2))', None),
    'TSection': ('cascade (cascade (series_rel (opZ o_OP1)) (shunt_rel (opY o_OP2))) (series_rel (opZ o_OP3))', None),
    'PiSection': ('cascade (cascade (shunt_rel (opY o_OP1)) (series_rel (opZ o_OP2))) (shunt_rel (opY o_OP3))', None),
    'CSection': ('cascade (series_rel (opZ o_OP1 + opZ o_OP2)) (shunt_rel (opY o_OP3))', None),
    'HSection': ('cascade (cascade (series_rel (opZ o_OP1 + opZ o_OP2)) (shunt_rel (opY o_OP3))) (series_rel (opZ o_OP4 + opZ o_OP5))', None),
    'BoxSection': ('cascade (cascade (shunt_rel (opY o_OP1)) (series_rel (opZ o_OP2 + opZ o_OP3))) (shunt_rel (opY o_OP4))', None),
}
LADDER_SPECS = {
    # class -> (first element, relation of the odd-indexed arguments, of the even-indexed ones)
    'Ladder': ('series_rel (opZ o1)', 'fun o => series_rel (opZ o)', 'fun o => shunt_rel (opY o)'),
    'LadderAlt': ('shunt_rel (opY o1)', 'fun o => shunt_rel (opY o)', 'fun o => series_rel (opZ o)'),
}


def tp_files(st):
    """obligations about the TwoPort classes; one file per statement group so that one
    broken class does not hide the others.  Returns {filename: (names, text)}"""
    files = {}
    hdr = SEC_HDR + '\nSection Obl.\nVariable K : fld.\nAdd Field KFobl : (fth K).\n'
    # elementary two-ports
    for cname, spec in (('Series', 'series_rel (opZ o)'), ('SeriesAlt', 'series_rel (opZ o)'), ('Shunt', 'shunt_rel (opY o)')):
        if cname in st.elems:
            nm = 'section_sem_%s' % cname
            files['C07_tp_%s.v' % cname] = ([nm], hdr + '''
Theorem %s (Z0 : K) (o : opd K) (v : port K) : rel_B Z0 (tB (tp_%s Z0 o)) v <-> %s v.
Proof. destruct v as [v1 i1 v2 i2], o as [z y voc isc]. unf. split; intros [E1 E2]; split; rsolve. Qed.
End Obl.
Print Assumptions %s.
''' % (nm, cname, spec, nm))
    for cname, spec in (('IdealTransformer', 'transformer_rel x'), ('IdealGyrator', 'gyrator_rel x')):
        if cname in st.elems:
            nm = 'section_sem_%s' % cname
            files['C07_tp_%s.v' % cname] = ([nm], hdr + '''
Theorem %s (Z0 x : K) (v : port K) : x <> 0 -> (rel_B Z0 (tB (tp_%s Z0 x)) v <-> %s v).
Proof. intros Hx. destruct v as [v1 i1 v2 i2]. unf. split; intros [E1 E2]; split; rsolve. Qed.
End Obl.
Print Assumptions %s.
''' % (nm, cname, spec, nm))
    # Chain: relational composition, with and without the source vector
    files['C07_tp_Chain.v'] = (['chain_sem', 'chain_B_sem', 'chain_assoc'], hdr + '''
(* Chain(a, b): port 2 of a drives port 1 of b; the affine B relations (with source vectors) compose *)
Theorem chain_sem (a b : tpm K) (v : port K) : cascade (relBs a) (relBs b) v <-> relBs (tp_Chain a b) v.
Proof.
  destruct a as [[a11 a12 a21 a22] av ai], b as [[b11 b12 b21 b22] bv bi], v as [v1 i1 v2 i2]. unf. split.
  - intros [Vm [Im [[A1 A2] [B1 B2]]]]. split; knsatz.
  - intros [E1 E2]. exists (a11 * v1 + a12 * i1 + av), (a21 * v1 + a22 * i1 + ai). repeat split; knsatz.
Qed.
Theorem chain_B_sem (Z0 : K) (a b : tpm K) (v : port K) :
  cascade (rel_B Z0 (tB a)) (rel_B Z0 (tB b)) v <-> rel_B Z0 (tB (tp_Chain a b)) v.
Proof. rewrite cascade_B. destruct a as [[a11 a12 a21 a22] av ai], b as [[b11 b12 b21 b22] bv bi]. sec_unfold. reflexivity. Qed.
Theorem chain_assoc (a b c : tpm K) : tp_Chain (tp_Chain a b) c = tp_Chain a (tp_Chain b c).
Proof.
  destruct a as [[a11 a12 a21 a22] av ai], b as [[b11 b12 b21 b22] bv bi], c as [[c11 c12 c21 c22] cv ci].
  sec_unfold. tp_unfold. f_equal; [apply mat_eq|..]; ring.
Qed.
End Obl.
Print Assumptions chain_sem.
Print Assumptions chain_B_sem.
Print Assumptions chain_assoc.
''')
    for cname, d in st.sections.items():
        if cname not in TP_SPECS:
            continue
        spec = TP_SPECS[cname][0]
        nm = 'section_sem_%s' % cname
        ps = ' '.join('o_' + p for p in d['params'])
        destr = ', '.join('o_%s as [z%d y%d voc%d isc%d]' % (p, i, i, i, i) for i, p in enumerate(d['params']))
        files['C07_tp_%s.v' % cname] = ([nm], hdr + '''
Lemma series_add (Z0 z1 z2 : K) (v : port K) : series_rel (z1 + z2) v <-> rel_B Z0 (mmul (Bser z2) (Bser z1)) v.
Proof. destruct v as [v1 i1 v2 i2]. unf. split; intros [E1 E2]; split; knsatz. Qed.
(* %s: the B matrix of the network object is that of the physical section (doc-string picture) *)
Theorem %s (Z0 : K) (%s : opd K) (v : port K) :
  rel_B Z0 (tB (tp_%s Z0 %s)) v <-> %s v.
Proof.
  eapply iff_trans_mat.
  - intros w. repeat first [ apply casc_B | apply series_rel_B | apply shunt_rel_B | apply series_add ].
  - destruct %s. sec_unfold. sec_spec_unfold. tp_unfold. apply mat_eq; ring.
Qed.
End Obl.
Print Assumptions %s.
''' % (cname, nm, ps, cname, ps, spec, destr, nm))
    for cname, d in st.ladders.items():
        first, rodd, reven = LADDER_SPECS[cname]
        nm = 'ladder_sem_%s' % cname
        files['C07_tp_%s.v' % cname] = ([nm, nm + '_sources'], hdr + '''
Lemma chain_B (Z0 : K) (a b : tpm K) (v : port K) :
  cascade (rel_B Z0 (tB a)) (rel_B Z0 (tB b)) v <-> rel_B Z0 (tB (tp_Chain a b)) v.
Proof. rewrite cascade_B. destruct a as [[a11 a12 a21 a22] av ai], b as [[b11 b12 b21 b22] bv bi]. sec_unfold. reflexivity. Qed.
Lemma el_series (Z0 : K) (o : opd K) (v : port K) : rel_B Z0 (tB (tp_Series Z0 o)) v <-> series_rel (opZ o) v.
Proof. destruct v as [v1 i1 v2 i2], o as [z y voc isc]. unf. split; intros [E1 E2]; split; rsolve. Qed.
Lemma el_shunt (Z0 : K) (o : opd K) (v : port K) : rel_B Z0 (tB (tp_Shunt Z0 o)) v <-> shunt_rel (opY o) v.
Proof. destruct v as [v1 i1 v2 i2], o as [z y voc isc]. unf. split; intros [E1 E2]; split; rsolve. Qed.
(* %s(OP1, *args) for EVERY list of arguments: the B matrix is that of the physical ladder
   (the elements cascaded in the order listed), by induction on the list *)
Theorem %s (Z0 : K) (o1 : opd K) (args : list (opd K)) (v : port K) :
  rel_B Z0 (tB (tp_%s Z0 o1 args)) v <-> ladder_rel (%s) (%s) (%s) args 0 v.
Proof.
  unfold tp_%s.
  apply (ladder_sem_gen K (@tp_Chain K) _ _ (%s) (%s) (fun t => rel_B Z0 (tB t))).
  - intros a b w. apply chain_B.
  - intros o w. first [apply el_series | apply el_shunt].
  - intros o w. first [apply el_series | apply el_shunt].
  - intros w. first [apply el_series | apply el_shunt].
Qed.
(* the same with source vectors: the affine relation of the ladder object is the cascade of
   the affine relations of its elements *)
Lemma chain_s (a b : tpm K) (v : port K) : cascade (relBs a) (relBs b) v <-> relBs (tp_Chain a b) v.
Proof.
  destruct a as [[a11 a12 a21 a22] av ai], b as [[b11 b12 b21 b22] bv bi], v as [v1 i1 v2 i2]. unf. split.
  - intros [Vm [Im [[A1 A2] [B1 B2]]]]. split; knsatz.
  - intros [E1 E2]. exists (a11 * v1 + a12 * i1 + av), (a21 * v1 + a22 * i1 + ai). repeat split; knsatz.
Qed.
Theorem %s_sources (Z0 : K) (o1 : opd K) (args : list (opd K)) (v : port K) (fo fe : opd K -> tpm K) (f1 : tpm K) :
  relBs (ladder_fold (@tp_Chain K) fo fe f1 args 0) v <->
  ladder_rel (fun o => relBs (fo o)) (fun o => relBs (fe o)) (relBs f1) args 0 v.
Proof.
  apply (ladder_sem_gen K (@tp_Chain K) fo fe (fun o => relBs (fo o)) (fun o => relBs (fe o)) (@relBs K)).
  - intros a b w. apply chain_s.
  - intros; reflexivity.
  - intros; reflexivity.
  - intros; reflexivity.
Qed.
End Obl.
Print Assumptions %s.
Print Assumptions %s_sources.
''' % (cname, nm, cname, rodd, reven, first, cname, rodd, reven, nm, nm, nm))
    # parallel / series / hybrid connections
    conn = {'Par2': ('Y', 'par_conn', 'par2_sem'), 'Ser2': ('Z', 'ser_conn', 'ser2_sem'),
            'Hybrid2': ('H', 'hyb_conn', 'hybrid2_sem'), 'InverseHybrid2': ('G', 'ihyb_conn', 'inverse_hybrid2_sem')}
    for cname, d in st.sums.items():
        k0, cn, lem = conn[cname]
        nm = 'section_sem_%s' % cname
        if d['kind'] != k0:
            body = '(* %s sums %sparams, the specification of this connection needs %sparams *)\nTheorem %s : False.\nProof. fail. Qed.\n' % (cname, d['kind'], k0, nm)
        else:
            body = '''
(* %s(a, b): the %s matrices add, which is the %s connection of the two relations *)
Theorem %s (Z0 : K) (a b : mat K) (v : port K) :
  rel_%s Z0 (tp_%s_%s Z0 a b) v <-> %s (rel_%s Z0 (B_%sparams Z0 a)) (rel_%s Z0 (B_%sparams Z0 b)) v.
Proof. unfold tp_%s_%s. symmetry. apply %s. Qed.
''' % (cname, k0, cn, nm, k0, cname, k0, cn, k0, k0, k0, k0, cname, k0, lem)
        files['C07_tp_%s.v' % cname] = ([nm], hdr + body + 'End Obl.\nPrint Assumptions %s.\n' % nm)
    return files


# ---- one-port obligations over the regenerated leaf table -------------------------------
OP_HDR = '''(* GENERATED statement (template in checks/c07gen.py) about the leaf table regenerated from lcapy/oneport.py *)
Require Import LT.FieldSec LT.OnePort Gen.OnePortGen Gen.C07lem.
From Coq Require Import Bool List.
Import ListNotations.
Local Open Scope F_scope.
Section Obl.
Variable K : fld.
Add Field KFobl : (fth K).
Variable s : K.
Variable spow : K -> K.
Variable omega0 : K.
Variable xf_dc : K -> K. Variable xf_step : K -> K. Variable xf_any : K -> K.
Variable xf_time : K -> K. Variable xf_noise : K -> K.
Variable xf_ac : K -> K -> K -> K.
Notation LDt := (ld s spow omega0 xf_dc xf_step xf_any xf_time xf_noise xf_ac).
'''
SECVARS = 's spow omega0 xf_dc xf_step xf_any xf_time xf_noise xf_ac'


def guard_files(tr):
    """one obligation per leaf class: when the guard of ParSer.Voc/Isc is false for the
    leaf, the leaf really has no source.  Returns {filename: (names, text)}"""
    files = {}
    for c in tr.order:
        lc = tr.leaves[c]
        ps = ' '.join('(a_%s : %s)' % (n, 'K' if t == 'K' else 'option K') for n, t in lc.params)
        ar = ' '.join('a_' + n for n, _ in lc.params)
        nm = 'leaf_guard_sound_%s' % c
        files['C07_guard_%s.v' % c] = ([nm], OP_HDR + '''
(* %s: if ParSer.Voc / ParSer.Isc skip the netlist route for this leaf (guard false), its Voc and Isc are 0 *)
Lemma %s %s :
  gl (L_%s %s) = false -> lVoc (LDt (L_%s %s)) = 0 /\\ lIsc (LDt (L_%s %s)) = 0.
Proof. guard_tac. Qed.
End Obl.
Print Assumptions %s.
''' % (c, nm, ps, c, ar, c, ar, c, ar, nm))
    return files


def guard_all_file(tr):
    reqs = '\n'.join('Require Import Gen.C07_guard_%s.' % c for c in tr.order)
    arms = ' | '.join('apply leaf_guard_sound_%s' % c for c in tr.order)
    txt = OP_HDR.replace('Section Obl.', reqs + '\nSection Obl.') + '''
Theorem leaf_guard_sound_all : leaf_guard_sound LDt gl.
Proof. intros l; destruct l; first [ %s ]. Qed.
(* C07, one-ports, as coded (ParSer.Voc / ParSer.Isc with their guard): for every admissible
   tree the terminal relation of the physical network is  v = Voc - Z i  with the values the
   network algebra reports *)
Theorem C07_oneport_code (t : tree (lf K)) : admissible LDt t ->
  forall v i, sem LDt t v i <-> v = Voc_code LDt gl t - Zt LDt t * i.
Proof. apply oneport_sem_code. exact leaf_guard_sound_all. Qed.
Theorem C07_code_eq_spec (t : tree (lf K)) : Voc_code LDt gl t = Voc LDt t /\\ Isc_code LDt gl t = Isc LDt t.
Proof. apply code_eq_spec. exact leaf_guard_sound_all. Qed.
End Obl.
Print Assumptions leaf_guard_sound_all.
Print Assumptions C07_oneport_code.
Print Assumptions C07_code_eq_spec.
''' % arms
    return ['leaf_guard_sound_all', 'C07_oneport_code', 'C07_code_eq_spec'], txt


NF_FN = {'impedance': 'Zt LDt', 'admittance': 'Yt LDt', 'Voc': 'Voc_code LDt gl', 'Isc': 'Isc_code LDt gl'}
NF_LHS = {'Ser.impedance': 'Zt LDt (Ser ts)', 'Ser.admittance': 'Yt LDt (Ser ts)', 'Ser.Voc': 'Voc_code LDt gl (Ser ts)',
          'Par.admittance': 'Yt LDt (Par ts)', 'Par.impedance': 'Zt LDt (Par ts)', 'Par.Isc': 'Isc_code LDt gl (Par ts)'}


def nf_file(tr):
    """the one-line Ser/Par methods, as translated, are the model functions of theory/OnePort.v"""
    names = []
    body = []
    for meth, (form, attr) in tr.normal.items():
        nm = 'nf_' + meth.replace('.', '_')
        node = meth.split('.')[0]
        if form == 'sum':
            rhs = 'fsum (map (%s) ts)' % NF_FN[attr]
        else:
            rhs = '1 / %s (%s ts)' % (NF_FN[attr], node)
        body.append('(* %s: %s of the arguments\' %s *)\nLemma %s (ts : list (tree (lf K))) : %s = %s.\nProof. reflexivity. Qed.\n'
                    % (meth, form, attr, nm, NF_LHS[meth], rhs))
        names.append(nm)
    txt = OP_HDR + '\n' + '\n'.join(body) + 'End Obl.\n' + '\n'.join('Print Assumptions %s.' % n for n in names) + '\n'
    return names, txt


# ---- source vectors of the two-port models -------------------------------------------------
SRC_REL = {'A': 'relAs', 'G': 'relGs', 'H': 'relHs', 'Y': 'relYs', 'Z': 'relZs'}
SRC_OWN = {'B': ('V2b', 'I2b'), 'A': ('V1a', 'I1a'), 'G': ('I1g', 'V2g'), 'H': ('V1h', 'I2h'), 'Y': ('I1y', 'I2y'), 'Z': ('V1z', 'V2z')}
# existence conditions of the target representation (entries of the source matrix)
SRC_HYP_FROM_B = {'A': ['x11 * x22 - x12 * x21 <> 0'], 'G': ['x22 <> 0'], 'H': ['x11 <> 0'], 'Y': ['x12 <> 0'], 'Z': ['x21 <> 0']}
SRC_HYP_TO_B = {'A': ['x11 * x22 - x12 * x21 <> 0'], 'G': ['x12 <> 0'], 'H': ['x12 <> 0'], 'Y': ['x12 <> 0'], 'Z': ['x12 <> 0']}
SRC_HDR = SEC_HDR.replace('Ltac unf := sec_spec_unfold; sec_unfold; tp_unfold; sec_unfold.',
                          'Ltac unf := sec_spec_unfold; sec_unfold; gen_unfold; tp_unfold; sec_unfold.')


def srcconv_files(st):
    """one obligation per (model class, target representation): the affine port relation with the
    translated source conversion is the same relation.  Returns {file: (names, text)}"""
    files = {}
    hdr = SRC_HDR + '\nSection Obl.\nVariable K : fld.\nAdd Field KFobl : (fth K).\n'
    M = '(Mat x11 x12 x21 x22)'

    def emit(fname, name, hyps, lhs, rhs, comment):
        hs = ''.join('%s -> ' % h for h in hyps)
        files[fname] = ([name], hdr + '''
(* %s *)
Theorem %s (Z0 x11 x12 x21 x22 s1 s2 : K) (v : port K) : %s(%s v <-> %s v).
Proof.
  intros%s. destruct v as [v1 i1 v2 i2]. unf. split; intros [E1 E2]; split; rsolve.
Qed.
End Obl.
Print Assumptions %s.
''' % (comment, name, hs, lhs, rhs, ''.join(' Hn%d' % i for i in range(len(hyps))), name))
    # B-model (and the generic TwoPort definitions) -> every other representation
    for owner_set, tag in ((None, 'B'), ('TwoPort', 'TwoPort')):
        for X in 'AGHYZ':
            p1, p2 = SRC_OWN[X]
            if owner_set is None:
                o1, o2 = st.src_B.get(p1), st.src_B.get(p2)
            else:
                o1 = o2 = owner_set
                if st.src_B.get(p1) == owner_set and st.src_B.get(p2) == owner_set:
                    continue      # same definitions as the B-model statement
            if (o1, 'B', p1) not in st.srcconv or (o2, 'B', p2) not in st.srcconv:
                continue
            name = 'src_conv_%s_%s' % (tag, X)
            emit('C07_src_%s_%s.v' % (tag, X), name, SRC_HYP_FROM_B[X],
                 'relBs (TPM %s s1 s2)' % M,
                 '%s (B_%sparams Z0 %s) (src_%s_%s Z0 %s s1 s2) (src_%s_%s Z0 %s s1 s2)' % (SRC_REL[X], X, M, o1, p1, M, o2, p2, M),
                 '%s.%s / %s.%s: the %s-model sources of a two-port given by its B model' % (o1, p1, o2, p2, X))
    # every other model class -> its B model
    for X in 'AGHYZ':
        owner = 'TwoPort%sModel' % X
        if (owner, X, 'V2b') in st.srcconv and (owner, X, 'I2b') in st.srcconv:
            name = 'src_conv_%s_B' % X
            emit('C07_src_%s_B.v' % X, name, SRC_HYP_TO_B[X],
                 '%s %s s1 s2' % (SRC_REL[X], M),
                 'relBs (TPM (%s_Bparams Z0 %s) (src_%s_V2b Z0 %s s1 s2) (src_%s_I2b Z0 %s s1 s2))' % (X, M, owner, M, owner, M),
                 '%s.V2b / I2b: the B-model sources of a two-port given by its %s model' % (owner, X))
    if ('TwoPortZModel', 'Z', 'I1y') in st.srcconv and ('TwoPortZModel', 'Z', 'I2y') in st.srcconv:
        emit('C07_src_Z_Y.v', 'src_conv_Z_Y', ['x11 * x22 - x12 * x21 <> 0'], 'relZs %s s1 s2' % M,
             'relYs (Z_Yparams Z0 %s) (src_TwoPortZModel_I1y Z0 %s s1 s2) (src_TwoPortZModel_I2y Z0 %s s1 s2)' % (M, M, M),
             'TwoPortZModel.I1y / I2y')
    # elementary two-ports with the sources of their one-port
    for cname, spec in (('Series', 'series_src_rel (opZ o) (opVoc o)'), ('SeriesAlt', 'series_src_rel (opZ o) (opVoc o)'),
                        ('Shunt', 'shunt_src_rel (opY o) (opIsc o)')):
        if cname in st.elems:
            nm = 'section_src_%s' % cname
            files['C07_src_%s.v' % cname] = ([nm], hdr + '''
(* %s(OP): B matrix AND source vector (V2b, I2b) describe the one-port placed in the section
   (Thevenin data Z, Voc / Norton data Y, Isc; + terminal at port 1 / on the upper rail) *)
Theorem %s (Z0 : K) (o : opd K) (v : port K) : relBs (tp_%s Z0 o) v <-> %s v.
Proof. destruct v as [v1 i1 v2 i2], o as [z y voc isc]. unf. split; intros [E1 E2]; split; rsolve. Qed.
End Obl.
Print Assumptions %s.
''' % (cname, nm, cname, spec, nm))
    conn = {'Par2': ('Y', 'par_conn', 'par2_src_sem'), 'Ser2': ('Z', 'ser_conn', 'ser2_src_sem'),
            'Hybrid2': ('H', 'hyb_conn', 'hybrid2_src_sem'), 'InverseHybrid2': ('G', 'ihyb_conn', 'inverse_hybrid2_src_sem')}
    for cname, d in st.sums.items():
        k0, cn, lem = conn[cname]
        nm = 'section_src_%s' % cname
        if d['kind'] != k0 or not d.get('src_ok'):
            body = '(* %s.__init__ does not accumulate the two %s-model sources of its arguments by += *)\nTheorem %s : False.\nProof. fail. Qed.\n' % (cname, k0, nm)
        else:
            body = '''
(* %s(a, b) adds the %s matrices and the %s-model source vectors of its arguments: the %s connection of the affine relations *)
Theorem %s (a b : mat K) (a1 a2 b1 b2 : K) (v : port K) :
  %s (madd a b) (a1 + b1) (a2 + b2) v <-> %s (%s a a1 a2) (%s b b1 b2) v.
Proof. symmetry. apply %s. Qed.
''' % (cname, k0, k0, cn, nm, SRC_REL[k0], cn, SRC_REL[k0], SRC_REL[k0], lem)
        files['C07_src_%s.v' % cname] = ([nm], hdr + body + 'End Obl.\nPrint Assumptions %s.\n' % nm)
    return files
