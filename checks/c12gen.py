"""C12 — Coq generation from the translation of lcapy/fourier.py & friends
(used by checks/c12.py): definitions of the translated closed forms, the tables
for the executable model, and the obligation files."""
import os
import sys

sys.path.insert(0, os.path.dirname(os.path.dirname(os.path.abspath(__file__))))
from vlib import core
sys.path.insert(0, os.path.join(core.VERIF, 'tools'))
import tr_fourier as T

# pattern ids of coq/theory/FourierModel.v
PIDNUM = {'const': 0, 't': 1, 't2': 2, 'abs': 3, 'sign': 4, 'step': 5, 'recip': 6, 'recip2': 7, 'tstep': 8, 'expu': 9,
          'sincn': 10, 'sincu': 11, 'sincn2': 12, 'rect': 13, 'tri': 14, 'trap': 15, 'trap0': 16, 'reciplin': 17,
          'sech': 18, 'csch': 19, 'tanh': 20, 'cexp': 21, 'tratio1': 22, 'tratio2': 22, 'tratio1n': 23, 'tratio2n': 23}
RULES = {'R_simshift': 'sp_simshift', 'R_mod': 'sp_mod'}
SPEC_ALIAS = {'tratio1': 'sp_tratio', 'tratio2': 'sp_tratio', 'tratio1n': 'sp_tration', 'tratio2n': 'sp_tration'}
# entries that have no specification (outside C12's signal class) or cannot fire
UNSPECIFIED = {'tdelta1': 't * DiracDelta(t, 1): polynomial-weighted derivative of an impulse, outside the signal class',
               'DEAD': 'guard is `False and ...`',
               'SHADOWED_tstep': 'pattern t*Heaviside(t) is already matched by the earlier `other == Heaviside(t) * t`'}
STRUCTURAL = ('D_integral', 'D_func', 'D_function', 'R_expand', 'O_sympy', 'O_sympy_table', 'O_sympy_exp')

HEADER = '''(* GENERATED from %s by tools/tr_fourier.py + checks/c12gen.py.
   Do not edit: regenerated from the working tree of the repository on every run. *)
Require Import LT.FieldSec LT.PolyQ LT.QcI LT.ExpPoly LT.FourierSpec LT.FourierFn LT.FourierTable LT.FourierModel.
'''

# per pattern: hypotheses, exceptional points and preparation of the pointwise proof
#   (x is the point, Hin : ~ In x EXC)
PREP_X0 = 'assert (x <> 0) by (intro Z; apply Hin; left; symmetry; exact Z).'
PAT = {
    'const': ([], '[]', ''), 't': ([], '[]', ''), 't2': ([], '[]', ''),
    'abs': ([], '[0 : K]', PREP_X0), 'sign': ([], '[0 : K]', PREP_X0), 'step': ([], '[0 : K]', PREP_X0),
    'tstep': ([], '[0 : K]', PREP_X0), 'recip': ([], '[]', ''), 'recip2': ([], '[]', ''),
    'expu': ([], '[rho 3%nat / (c_j C * ((1 + 1) * c_pi C)); - (rho 3%nat / (c_j C * ((1 + 1) * c_pi C)))]',
             'assert (c_j C * ((1 + 1) * c_pi C) * x - rho 3%nat <> 0) by (intro Z; apply Hin; left; '
             'transitivity ((c_j C * ((1 + 1) * c_pi C) * x - rho 3%nat + rho 3%nat) / (c_j C * ((1 + 1) * c_pi C))); [rewrite Z|]; field; nz). '
             'assert (c_j C * ((1 + 1) * c_pi C) * - x - rho 3%nat <> 0) by (intro Z; apply Hin; right; left; '
             'transitivity (- ((c_j C * ((1 + 1) * c_pi C) * - x - rho 3%nat + rho 3%nat) / (c_j C * ((1 + 1) * c_pi C)))); [rewrite Z|]; field; nz).'),
    'sincn': ([], '[]', ''), 'sincu': ([], '[]', ''), 'sincn2': ([], '[]', ''), 'rect': ([], '[]', ''),
    'tri': ([], '[]', ''), 'trap': ([], '[]', ''), 'trap0': ([], '[]', ''),
    'reciplin': (['rho 3%nat <> 0'], '[]', ''), 'sech': ([], '[]', ''), 'csch': ([], '[]', ''), 'tanh': ([], '[]', ''),
    'cexp': (['rho 10%nat <> 0'], '[]', ''),
    # t/(a t - j b): the branch returns the lower-half-plane form when (b/a).is_negative and the upper-half-plane form
    # otherwise (also for a symbolic b/a of unknown sign); the sign is the hypothesis `c_stable` of the FPair theorems
    # sp_sound_tratio (b/a > 0) / sp_sound_tration (b/a < 0) that these closed forms are compared with
    'tratio1': (['rho 5%nat <> 0'], '[]', ''), 'tratio2': (['rho 5%nat <> 0'], '[]', ''),
    'tratio1n': (['rho 5%nat <> 0'], '[]', ''), 'tratio2n': (['rho 5%nat <> 0'], '[]', ''),
    'R_simshift': (['rho 7%nat <> 0'], '[]', ''), 'R_mod': (['rho 10%nat <> 0'], '[]', ''),
}


def printable(ir):
    return not T.has_kind(ir, ('sympy', 'delegate', 'linear'))


def spec_name(pid):
    return RULES.get(pid, SPEC_ALIAS.get(pid, 'sp_' + pid))


def gen_defs(tr):
    out = [HEADER % ', '.join('lcapy/%s sha256 %s' % (f, h[:12]) for f, h in sorted(tr.files.items()))]
    for e in tr.entries or []:
        if printable(e['fwd']) and printable(e['inv']):
            out.append('(* fourier.py line %d [%s]: return %s *)' % (e['line'], e['pid'], e['src']))
            out.append('Definition fwd_%d : fn := %s.' % (e['line'], T.coq_fn(e['fwd'])))
            out.append('Definition inv_%d : fn := %s.' % (e['line'], T.coq_fn(e['inv'])))
    for d, pre in ((('fwd', 'fwd_'), ('inv', 'inv_')) if tr.entries is not None else ()):
        rows = ['(%d%%nat, %s%d)' % (PIDNUM[e['pid']], pre, e['line']) for e in tr.entries if e['pid'] in PIDNUM]
        out.append('(* first match wins, as in the elif chain *)')
        out.append('Definition gen_tbl_%s : list (nat * fn) := [%s].' % (d, '; '.join(rows)))
        for r, nm in (('R_simshift', 'rsim'), ('R_mod', 'rmod')):
            es = [e for e in tr.entries if e['pid'] == r]
            if len(es) != 1:
                raise T.Untranslatable('expected exactly one %s rule, found %d' % (r, len(es)))
            out.append('Definition gen_%s_%s : fn := %s%d.' % (nm, d, pre, es[0]['line']))
    for v in tr.varchanges:
        out.append('(* %s.%s (%s line %d): substitutes the %s-domain variable *)' % (v['cls'], v['method'], v['file'], v['line'], v['src']))
        out.append('Definition vc_%s_%s : fn := %s.' % (v['cls'], v['method'], T.coq_fn(v['ir'])))
    for v in tr.sconv:
        out.append('(* %s.%s (%s line %d): s := ... for causal stable expressions *)' % (v['cls'], v['method'], v['file'], v['line']))
        out.append('Definition ss_%s : fn := %s.' % (v['method'], T.coq_fn(v['ir'])))
    return '\n'.join(out) + '\n'


OBL_HEAD = '''Require Import Gen.FourierGen.
Local Open Scope F_scope.
Section Obl.
Variable K : fld.
Add Field KFobl : (fth K).
Variable C : fctx K.
Variable rho : nat -> K.
Variables Qf Qi : K -> K.
Hypothesis HQ : forall y, Qi y = Qf (- y).
Ltac prep := pose proof (j_nz K C) as Hj; pose proof (two_nz K) as H2; pose proof (c_pi_nz C) as Hpi; unfold two in H2.
'''


def _one(nm, comment, stmt, proof, extra=''):
    return '\n'.join([HEADER % 'lcapy', OBL_HEAD, extra, '(* %s *)' % comment, 'Theorem %s : %s.' % (nm, stmt), proof,
                      'End Obl.', 'Print Assumptions %s.' % nm]) + '\n'


def gen_table_obligations(tr, meta):
    """table_sound_<line>: translated forward closed form = textbook closed form (off a finite set);
       table_inv_<line>:   translated inverse closed form = textbook closed form at -x  (IFT = FT with f -> -f).
       One file per theorem, so that a broken entry does not hide the others."""
    files = {}
    for e in tr.entries or []:
        pid = e['pid']
        if pid in UNSPECIFIED:
            meta['unspecified'].append({'line': e['line'], 'pid': pid, 'why': UNSPECIFIED[pid], 'src': e['src']})
            continue
        if pid in STRUCTURAL:
            continue
        if pid not in PAT:
            raise T.Untranslatable('no specification template for pattern %s (line %d)' % (pid, e['line']))
        hyps, exc, prep = PAT[pid]
        sp = spec_name(pid)
        hs = ''.join('%s -> ' % h for h in hyps)
        hn = ' '.join('Hy%d' % i for i in range(len(hyps)))
        L = e['line']
        cm = 'fourier.py line %d [%s]: return %s' % (L, pid, e['src'])
        files['C12_tab_%d_sound.v' % L] = _one(
            'table_sound_%d' % L, cm, '%seqae (ev C rho Qf fwd_%d) (ev C rho Qf %s)' % (hs, L, sp),
            'Proof. intros %s. prep. apply (eqae_off K %s). intros x Hin. %s\n  cbv [fwd_%d]. tab_evs. tab_norm K C Qf. tab_close. Qed.' % (hn, exc, prep, L))
        files['C12_tab_%d_inv.v' % L] = _one(
            'table_inv_%d' % L, cm, '%seqae (ev C rho Qi inv_%d) (fun x => ev C rho Qf %s (- x))' % (hs, L, sp),
            'Proof. intros %s. prep. apply (eqae_off K %s). intros x Hin. %s\n  cbv [inv_%d]. tab_evs. rewrite ?HQ. tab_norm K C Qf. tab_close. Qed.' % (hn, exc, prep, L))
        meta['table_obligations'].append({'line': L, 'pid': pid, 'sound': 'table_sound_%d' % L, 'inv': 'table_inv_%d' % L})
    return files


VNAME = {'Vf': 'Vf', 'Vw': 'Vw', 'VF': 'VF', 'VW': 'VW'}


def gen_var_obligations(tr, meta):
    files = {}
    extra = 'Hypothesis rho_dt : rho 11%nat = c_dt C.\nLtac vprep := prep; pose proof (c_dt_nz C) as Hdt; rewrite <- rho_dt in Hdt.'
    for v in tr.varchanges:
        nm = 'varchange_%s_%s' % (v['cls'], v['method'])
        files['C12_var_%s_%s.v' % (v['cls'], v['method'])] = _one(
            nm, '%s.%s, %s line %d' % (v['cls'], v['method'], v['file'], v['line']),
            'forall x, ev C rho Qf vc_%s_%s x = ev C rho Qf (vsubst_spec %s %s) x' % (v['cls'], v['method'], v['src'], v['dst']),
            'Proof. intros x. vprep. cbv [vc_%s_%s vsubst_spec vk]. tab_evs. tab_close. Qed.' % (v['cls'], v['method']), extra)
        meta['var_obligations'].append({'name': nm, 'cls': v['cls'], 'method': v['method'], 'src': v['src'], 'dst': v['dst']})
    for v in tr.sconv:
        nm = 'sshort_%s' % v['method']
        files['C12_var_s_%s.v' % v['method']] = _one(
            nm, '%s.%s, %s line %d' % (v['cls'], v['method'], v['file'], v['line']),
            'forall x, ev C rho Qf ss_%s x = ev C rho Qf (sshort_spec %s) x' % (v['method'], v['dst']),
            'Proof. intros x. vprep. cbv [ss_%s sshort_spec vk]. tab_evs. tab_close. Qed.' % v['method'], extra)
        meta['var_obligations'].append({'name': nm, 'cls': v['cls'], 'method': v['method'], 'src': 's', 'dst': v['dst']})
    return files


def gen_closure(tr, proved):
    """code_model_sound / code_inverse_model_sound: the transform that the model assembles from the table and the rules
    TRANSLATED FROM THE SOURCE is an FPair for every structured signal over the patterns whose table_sound (table_inv)
    obligation was proved in this run (instances of FourierSound.model_sound_tbl / inverse_model_sound; their premises are
    discharged by the theorems table_sound_<line> / table_inv_<line>).
    proved: theorem name -> module (file stem) in which it was accepted by coqc.
    Returns (file text or None, info): no theorem for a direction in which an obligation of a RULE (similarity/shift,
    modulation) is not proved - that failure is reported by the obligation itself."""
    info = {'fwd': None, 'inv': None}
    if tr.entries is None:
        return None, info
    first = {}
    for e in tr.entries:
        if e['pid'] in PIDNUM and PIDNUM[e['pid']] not in first:
            first[PIDNUM[e['pid']]] = e          # first match wins, as lookup in gen_tbl_fwd / gen_tbl_inv
    mods = set()
    body = []
    for d, thm, pre, lem in (('fwd', 'table_sound_%d', 'fwd_', 'model_sound_tbl'), ('inv', 'table_inv_%d', 'inv_', 'inverse_model_sound')):
        di = {'good': [], 'excluded': [], 'rules': {}}
        ok = True
        for r in RULES:
            es = [e for e in tr.entries if e['pid'] == r]
            if len(es) != 1 or (thm % es[0]['line']) not in proved:
                di['rules'][r] = None
                ok = False
            else:
                di['rules'][r] = es[0]['line']
        info[d] = di
        if not ok:
            continue
        cases = []
        nums = []
        for num in sorted(first):
            e = first[num]
            nm = thm % e['line']
            if e['pid'] in UNSPECIFIED or e['pid'] not in PAT or nm not in proved:
                di['excluded'].append({'pid': e['pid'], 'line': e['line']})
                continue
            di['good'].append(e['pid'])
            nums.append(num)
            mods.add(proved[nm])
            cases.append('    destruct Hin as [<-|Hin]; [exists %s%d, %s; split; [reflexivity | split; [reflexivity | '
                         'apply %s; first [exact HQ | exact Hside]]] | ].  (* %s *)' % (pre, e['line'], spec_name(e['pid']), nm, e['pid']))
        for r in RULES:
            mods.add(proved[thm % di['rules'][r]])
        cm = '(* patterns: %s;  not covered (no proved obligation for the entry that fires): %s *)' % (
            ', '.join(di['good']), ', '.join('%s (line %d)' % (x['pid'], x['line']) for x in di['excluded']) or 'none')
        body.append('Definition good_pids_%s : list nat := [%s].' % (d, '; '.join('%d%%nat' % n for n in nums)))
        body.append(cm)
        if d == 'fwd':
            body += ['Theorem code_model_sound (K : fld) (C : fctx K) (s : sig) (x : K -> K) :',
                     '  sden K C s x -> incl (pids s) good_pids_fwd -> FPair C x (Fden K C gen_tbl_fwd gen_rsim_fwd gen_rmod_fwd s).',
                     'Proof.',
                     '  apply (model_sound_tbl K C gen_tbl_fwd gen_rsim_fwd gen_rmod_fwd good_pids_fwd).',
                     '  - intros pid rho Q Hin Hside. pose proof I as HQ. unfold good_pids_fwd in Hin. cbn [In] in Hin.'] + cases + [
                     '    destruct Hin.',
                     '  - intros rho Q H7. apply table_sound_%d. exact H7.' % di['rules']['R_simshift'],
                     '  - intros rho Q H10. apply table_sound_%d. exact H10.' % di['rules']['R_mod'],
                     'Qed.']
        else:
            body += ['(* s structures a SPECTRUM X; the inverse transformer returns y = Fden ... s with FT y = X *)',
                     'Theorem code_inverse_model_sound (K : fld) (C : fctx K) (s : sig) (X : K -> K) :',
                     '  sden K C s X -> incl (pids s) good_pids_inv -> FPair C (Fden K C gen_tbl_inv gen_rsim_inv gen_rmod_inv s) X.',
                     'Proof.',
                     '  apply (inverse_model_sound K C gen_tbl_inv gen_rsim_inv gen_rmod_inv good_pids_inv).',
                     '  - intros pid rho Qf Qi HQ Hin Hside. unfold good_pids_inv in Hin. cbn [In] in Hin.'] + cases + [
                     '    destruct Hin.',
                     '  - intros rho Qf Qi HQ H7. apply table_inv_%d; first [exact HQ | exact H7].' % di['rules']['R_simshift'],
                     '  - intros rho Qf Qi HQ H10. apply table_inv_%d; first [exact HQ | exact H10].' % di['rules']['R_mod'],
                     'Qed.']
    if not body:
        return None, info
    out = [HEADER % 'lcapy', 'Require Import LT.FourierSound.', 'Require Import Gen.FourierGen.',
           ''.join('Require Import Gen.%s.\n' % m for m in sorted(mods)),
           'From Coq Require Import List.', 'Import ListNotations.', 'Local Open Scope F_scope.'] + body
    out += ['Print Assumptions %s.' % n for n in ('code_model_sound', 'code_inverse_model_sound') if any(('Theorem %s ' % n) in l for l in body)]
    return '\n'.join(out) + '\n', info


def structural_checks(tr):
    """facts about the non-table returns that the hand model relies on; returns list of (name, ok, detail)"""
    res = []
    # parts that could not be translated at all are reported by the caller (tr.errors)
    for e in tr.entries or []:
        if e['pid'].startswith('O_sympy'):
            ok = e['fwd'] == ('mul', ('par', 0), ('sympy', ('var',))) and e['inv'] == ('mul', ('par', 0), ('sympy', ('neg', ('var',))))
            res.append(('sympy_punt_uses_sf_%d' % e['line'], ok, e['src']))
        if e['pid'] == 'R_expand':
            ok = e['fwd'] == ('mul', ('linear',), ('par', 0)) and e['inv'] == e['fwd']
            res.append(('expand_functions_is_linear_%d' % e['line'], ok, e['src']))
    if tr.entries is not None:
        res.append(('transformer_key_is_expr_t_f', tr.facts.get('key') == 'return (expr, t, f)', str(tr.facts.get('key'))))
        res.append(('sympy_fourier_transform_called', bool(tr.facts.get('sympy_call')), ''))
        pids = [e['pid'] for e in tr.entries]
        for need in [x for x in PIDNUM if x not in ('tratio2', 'tratio2n')] + list(RULES):
            if need not in pids:
                res.append(('entry_present_%s' % need, False, 'no return for pattern %s' % need))
    if tr.inverse is not None:
        res.append(('inverse_is_same_table_with_is_inverse', tr.inverse == {'is_inverse': True, 'overrides': ['check', 'noevaluate']}, str(tr.inverse)))
    if tr.doit is not None:
        res.append(('doit_skeleton', tr.doit == {'key_excludes_const': True, 'cache_stores_unscaled': True, 'retry': 'partfrac'}, str(tr.doit)))
    return res


if __name__ == '__main__':
    tr = T.Translation(sys.argv[1] if len(sys.argv) > 1 else core.REPO)
    w = core.Work('C12gen')
    meta = {'unspecified': [], 'table_obligations': [], 'var_obligations': []}
    w.write('FourierGen.v', gen_defs(tr))
    files = dict(gen_table_obligations(tr, meta))
    files.update(gen_var_obligations(tr, meta))
    for f, t in files.items():
        w.write(f, t)
    print(core.coqc(w.dir, 'FourierGen.v')[1][-3000:])
    import time
    t0 = time.time()
    rs = core.coqc_many(w.dir, sorted(files), timeout=300)
    for f in sorted(rs):
        ok, o, s_ = rs[f]
        print('%-60s %s %.1fs %s' % (f, 'ok' if ok else 'FAIL', s_, '' if ok else o.strip().split('\n')[-1][:100]))
    print('total %.1fs' % (time.time() - t0))
    print(structural_checks(tr))
    if not os.environ.get('VERIF_KEEP'):
        w.cleanup()
