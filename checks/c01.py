"""C01 - solved circuits obey KCL and every component's defining relation.

  translate  lcapy/mnacpts.py `_stamp` methods -> Gen/StampsGen.v (tools/tr_stamps.py)
  prove      props/C01.v     one lemma per stamp-defining class: the regenerated stamp
                             realises the physical component (DESIGN App. B) for all
                             node/branch indices, parameters, fields
             props/C01net.v  induction over the netlist: MNA system <-> KCL + relations
             theory/MNA.v    unknown-ordering model: no duplicates, completeness; reporting
  correspond random netlists through the real MNA (tools/impl_circuit.py): the model's
             unknown ordering, every entry of A and Z, "each solver's x satisfies the
             model system", every reported current/voltage - evaluated inside Coq (Qc)
  search     independent textbook oracle on the values Lcapy reports (KCL at every
             node, v = R i, i = sC v - C v0, v = sL i - L i0, source/controlled laws)
"""
import json
import os
import random
import re
import sys
from fractions import Fraction

sys.path.insert(0, os.path.dirname(os.path.dirname(os.path.abspath(__file__))))
from vlib import core, netgen
sys.path.insert(0, os.path.join(core.VERIF, 'tools'))
import tr_stamps as TS
import tr_sources as SRC
import tr_equipot as EQP

PID = 'C01'
MANIFEST = {
    'text': 'Coq theorems over the stamps regenerated from lcapy/mnacpts.py on every run: each stamp realises the physical '
            'component (currents drawn per node, constitutive residual per branch row) for arbitrary node/branch indices '
            '(grounded, coinciding), parameters and any characteristic-0 field; by induction over the netlist the assembled '
            'MNA system holds iff KCL and every constitutive relation hold; the unknown-ordering model has no duplicates and is '
            'complete.  Wires: Lcapy stamps no wire but merges the nodes wires join; the merging is modelled as a sequential contraction '
            '(LT.WireMerge.merge) and proved equivalent to treating every wire as an ideal conductor (equal potentials at its ends, any current): '
            'a flow of wire currents balancing every raw node exists iff the demands of every merged class sum to zero (flow_exists, merged_balance, '
            'by induction over the wire list), hence the MNA system of the merged netlist holds iff the raw circuit with ideal wires is satisfied '
            '(merged_to_wires, wires_to_merged, mna_wires), for ANY index map with the kernel of the contraction - a decidable check evaluated in Coq on '
            'the node indices Lcapy used.  The value definitions of the independent-source classes are regenerated from lcapy/oneport.py and proved equal '
            'to their specification (an ac source of amplitude a and phase phi is the phasor a E(j phi), for EVERY function E).  '
            'Assembly, ordering, reporting, the per-kind source values and the solver contract (A x = Z for each solver method) are tied to the '
            'real code by evaluating the model inside Coq on generated netlists, over Q for the dc/Laplace kinds and over the '
            'Gaussian rationals Q(i) for the phasor (ac) kinds and the noise kinds (at omega = w0); resistive circuits (time-domain kind) are evaluated at an instant t0 > 0.',
    'note': 'Trusted: Coq kernel/vm_compute; tools/tr_stamps.py; spec coq/theory/Circuit.v (physical semantics, App. B); hand models '
            'coq/theory/MNA.v + props/C01model.v (ordering, assembly, reporting) validated by correspondence; sympy linear solve, '
            'and the eps-limit are modelled as oracles whose contract is checked per case, not verified; node merging is inside the model '
            '(coq/theory/WireMerge.v, props/C01wire.v; the rule which components imply a wire - W, and nodes 1/3 of TL/TP - is regenerated from NetlistMixin.equipotential_nodes by tools/tr_equipot.py and must equal the documented rule); component '
            'parameters (Y, Z, Isc, Voc per analysis kind) are inputs of the theorem and are checked against textbook laws by the search oracle.',
    'technique': 'Coq proof over stamps and source definitions translated from source + induction over netlists + in-Coq correspondence evaluation (Q and Q(i)) + textbook-law search oracle',
}

SRC_OK = [False]
WIRE_RULES = [None]
# documented: a wire joins its two nodes; a transmission line / two-port has its two reference terminals (nodes 1 and 3:
# out-, in-) at one potential ("Assuming V2' = V1'").  The rule regenerated from the source must be this one.
SPEC_WIRE_RULES = [('eq', 'W', 'all'), ('prefix', 'TL', (1, 3)), ('prefix', 'TP', (1, 3))]
KINDS = {'dc': 'KDc', 's': 'KS', 'ivp': 'KIvp', 'laplace': 'KLaplace', 'transient': 'KTransient', 't': 'KT', 'time': 'KTime'}
CNAMES = ['RC', 'L', 'V', 'AM', 'I', 'VCVS', 'VCCS', 'CCCS', 'CCVS', 'K', 'TF', 'GY', 'TL', 'TPA', 'TPB', 'TPG', 'TPH',
          'TPY', 'TPZ', 'TR', 'SPpp', 'SPpm', 'SPppp', 'SPpmm', 'SPppm', 'RV', 'Dummy']
PNAMES = ['pY', 'pZ', 'pIsc', 'pVoc', 'pArg0', 'pArg1', 'pAlpha', 'pEps', 'pA11', 'pA12', 'pA21', 'pA22',
          'pY11', 'pY12', 'pY21', 'pY22', 'pZM0', 'pZM1', 'pZL1', 'pZL2', 'pK', 'pZM2', 'pI01', 'pI02']


def q(x, F='Q'):
    """Coq literal in QcF (F='Q') or in the Gaussian rationals QcIF (F='I'; worker format 're|im')"""
    if F == 'Q':
        return core.qc_lit(x)
    re_, _, im_ = str(x).partition('|')
    a, c = Fraction(re_), Fraction(im_ or 0)
    return '(qi (%d) %d (%d) %d)' % (a.numerator, a.denominator, c.numerator, c.denominator)


FIELD = {'Q': ('QcF', 'qc_eqb', '0%Qc'), 'I': ('QcIF', 'qci_eqb', 'ci0')}


def valid(v, F):
    return v is not None and (F == 'I' or '|' not in str(v))


def b(x):
    return 'true' if x else 'false'


def raw_of(e, ids, kindc, owner, eps, F='Q'):
    """Coq `Raw` literal for one element of the worker output, or None if unsupported"""
    cl = owner
    if cl not in CNAMES:
        return None
    pr = dict(e['params'])
    pr['pEps'] = eps
    arms = []
    KN, EQ, ZERO = FIELD[F]
    for pn in PNAMES:
        if valid(pr.get(pn), F):
            arms.append('%s => %s' % (pn, q(pr[pn], F)))
    par = '(fun n => match n with %s | _ => %s end)' % (' | '.join(arms), ZERO) if arms else '(fun _ => %s)' % ZERO
    if not arms:
        par = '(fun _ => %s)' % ZERO
    elif len(arms) == len(PNAMES):
        par = '(fun n => match n with %s end)' % ' | '.join(arms)
    n = (e['nidx'] + [-1, -1, -1, -1])[:4]
    cidx = (e.get('cidx') or [-1, -1])
    ctrl = ids.get(e.get('ctrl'), 0)
    typ = {'C': 'TyC', 'm': 'TyM'}.get(e['type'], 'TyOtherType')
    info = '(CI %d %s %s %s %d)' % (ids[e['name']], b(e['need_branch_current']), b(e['need_extra_branch_current']),
                                    b(e['is_current_controlled']), ctrl)
    return ('(Raw %s c%s %s %s %s (%d) (%d) (%d) (%d) (%d) (%d) %d %d %s %s %s %s %s)' % (
        KN, cl, info, kindc, typ, n[0], n[1], n[2], n[3], cidx[0], cidx[1],
        ids.get(e.get('L1'), 0), ids.get(e.get('L2'), 0),
        b(e.get('has_ic')), b(e.get('ctrl_is_vsrc', False)), b(e['nargs'] > 1), b(e.get('tp_has_src')), par))


# ---- independent textbook oracle ---------------------------------------------
class G:
    """exact Gaussian rational (used for the ac kinds; for the real kinds im stays 0)"""
    __slots__ = ('re', 'im')

    def __init__(self, re_=0, im_=0):
        if isinstance(re_, G):
            re_, im_ = re_.re, re_.im
        elif isinstance(re_, str):
            a, _, c = re_.partition('|')
            re_, im_ = Fraction(a), Fraction(c or 0)
        self.re, self.im = Fraction(re_), Fraction(im_)

    def __add__(self, o):
        o = G(o)
        return G(self.re + o.re, self.im + o.im)
    __radd__ = __add__

    def __neg__(self):
        return G(-self.re, -self.im)

    def __sub__(self, o):
        return self + (-G(o))

    def __rsub__(self, o):
        return G(o) - self

    def __mul__(self, o):
        o = G(o)
        return G(self.re * o.re - self.im * o.im, self.re * o.im + self.im * o.re)
    __rmul__ = __mul__

    def __truediv__(self, o):
        o = G(o)
        n = o.re * o.re + o.im * o.im
        return self * G(o.re / n, -o.im / n)

    def __eq__(self, o):
        if o is None:
            return False
        o = G(o)
        return self.re == o.re and self.im == o.im

    def __ne__(self, o):
        return not self.__eq__(o)

    def __hash__(self):
        return hash((self.re, self.im))

    def __repr__(self):
        return str(self.re) if self.im == 0 else '(%s) + (%s)j' % (self.re, self.im)


PHASES = {'0': G(1), 'pi/2': G(0, 1), '-pi/2': G(0, -1), 'pi': G(-1), '-pi': G(-1), '3*pi/2': G(0, -1)}


def source_value(toks, kind, ac, s):
    """value a V/I source line prescribes in the sub-analysis `kind`, read from
    the NETLIST TEXT only (None = form not handled).  toks = netlist tokens."""
    args = toks[3:]
    if not args:
        return None
    kw = args[0]
    vals = [a.strip('{}') for a in args[1:]]

    def num(x):
        try:
            return Fraction(x)
        except Exception:
            return None
    if kw == 'dc' and len(vals) == 1:
        v = num(vals[0])
        if v is None:
            return None
        return G(v) if kind in ('dc', 'time') else (G(v) / s if kind == 'ivp' else G(0))
    if kw == 'step' and len(vals) == 1:
        v = num(vals[0])
        if v is None:
            return None
        if kind == 'time':
            return G(v)               # evaluated at an instant t0 > 0
        return G(v) / s if kind in ('s', 'ivp', 'laplace', 'transient') else G(0)
    if kw == 'ac' and len(vals) in (1, 2, 3):
        v = num(vals[0])
        ph = PHASES.get(vals[1].replace(' ', '')) if len(vals) > 1 else G(1)
        if v is None or ph is None or len(vals) < 3:
            return None
        om = num(vals[2])
        if om is None:
            return None
        if ac:
            return G(v) * ph if num(kind) == om else G(0)
        return G(0) if kind == 'dc' else None
    if len(args) == 1 and num(kw.strip('{}')) is not None:
        v = num(kw.strip('{}'))          # `V1 1 0 5`: constant source
        if kind in ('dc', 'time'):
            return G(v)
        if kind == 'ivp':
            return G(v) / s
        return None
    m = re.match(r'^\{?(-?[0-9/]+)\*exp\(-(\d+)\*t\)\*u\(t\)\}?$', kw) if len(args) == 1 else None
    if m:
        v = num(m.group(1))
        if v is None:
            return None
        return G(v) / (s + int(m.group(2))) if kind in ('s', 'ivp', 'laplace', 'transient') else G(0)
    return None


def parse_val(tok):
    tok = tok.strip('{}')
    try:
        return Fraction(tok)
    except Exception:
        return None


def oracle(case, kd, s0):
    """returns list of violated laws (strings) using only reported values, the
    netlist text and textbook relations.  kd = worker dump for one kind."""
    bad = []
    kind = kd['kind']
    is_noise = bool(kd.get('noise'))
    is_ac = bool(kd.get('ac')) or is_noise
    if kind not in ('dc', 's', 'ivp', 'laplace', 'transient', 'time') and not is_ac:
        return bad
    V = {k: (G(v) if v is not None else None) for k, v in kd.get('Vdict', {}).items()}
    I = {k: (G(v) if v is not None else None) for k, v in kd.get('Idict', {}).items()}
    if any(v is None for v in V.values()):
        return bad
    if is_ac:
        try:
            s = G(0, Fraction(case.get('w0', '2') if is_noise else kind))      # s = j omega
        except Exception:
            return bad
    else:
        s = G(Fraction(s0))
    if case.get('solver') and kd.get('solver_method') != case['solver']:
        bad.append('configured solver_method %s did not reach the analysis (it used %s)' % (case['solver'], kd.get('solver_method')))
    live_noise = []
    node_sum = {}      # node index -> sum of currents leaving the node through elements
    incomplete = set()

    def leave(n, i):
        node_sum[n] = node_sum.get(n, 0) + i
    for e in kd['elements']:
        nm, ty, cls = e['name'], e['type'], e['cls']
        nn = e['nodes']
        if e.get('ignore'):
            continue
        v1 = V.get(nn[0]) if len(nn) > 0 else None
        v2 = V.get(nn[1]) if len(nn) > 1 else None
        line = [l for l in case['netlist'] if l.split()[0] == nm]
        toks = line[0].split() if line else []
        cur = I.get(nm)
        if cur is not None and case.get('convention') == 'hybrid' and e.get('is_source'):
            cur = -cur      # the documented hybrid convention flips source currents only
        elif cur is not None and case.get('convention') == 'active':
            cur = -cur      # the active convention flips every current
        if (ty.startswith('TL') or ty.startswith('TP')) and len(nn) >= 4:
            vr1, vr3 = V.get(nn[1]), V.get(nn[3])
            if vr1 is not None and vr3 is not None and vr1 != vr3:
                bad.append('%s: the two reference terminals of the two-port are not at one potential' % nm)
        if ty in ('W', 'O', 'P', 'VM', 'K', 'A'):
            if ty == 'W':
                if v1 != v2:
                    bad.append('%s: wire ends differ' % nm)
                # wires carry unknown current: nodes are merged, handled by using node indices
            continue
        if ty in ('R', 'C', 'L', 'V', 'I', 'E', 'H', 'AM', 'G', 'F', 'Y', 'Z') and len(nn) >= 2:
            if ty == 'G':
                g = parse_val(toks[5])
                cur = -g * (V[nn[2]] - V[nn[3]]) if g is not None else None
            if ty == 'F':
                f = parse_val(toks[4])
                ic = I.get(toks[3])
                if ic is not None and case.get('convention') in ('hybrid', 'active'):
                    ic = -ic
                cur = f * ic if (f is not None and ic is not None) else None
            if cur is None:
                incomplete.update(e['nidx'][:2])
                continue
            leave(e['nidx'][0], cur)
            leave(e['nidx'][1], -cur)
            dv = v1 - v2
            if ty in ('V', 'I') and is_noise:
                nv = parse_val(toks[4]) if len(toks) > 4 and toks[3] == 'noise' else (0 if len(toks) > 3 and toks[3] != 'noise' else None)
                got = dv if ty == 'V' else -cur
                if nv is not None:
                    if got != 0 and got != nv:
                        bad.append('%s: noise source neither off nor at its netlist value (value %s, prescribed %s)' % (nm, got, nv))
                    if got != 0:
                        live_noise.append(nm)
            elif ty in ('V', 'I'):
                sv = source_value(toks, kind, is_ac, s)
                if sv is not None:
                    if ty == 'V' and dv != sv:
                        bad.append('%s: voltage source does not impose the value its netlist line prescribes (v=%s, prescribed %s)' % (nm, dv, sv))
                    # Lcapy's I source injects its value INTO its first node (Circuit.v: drawn_I), so the
                    # current through it from the first to the second node (passive convention) is -value
                    if ty == 'I' and cur != -sv:
                        bad.append('%s: current source does not drive the value its netlist line prescribes (i=%s, prescribed %s)' % (nm, cur, -sv))
            if ty == 'R':
                r = parse_val(toks[3])
                if r is not None and dv != r * cur:
                    bad.append('%s: v = R i violated (v=%s, R=%s, i=%s)' % (nm, dv, r, cur))
            elif ty == 'C' and kind != 'dc':
                c = parse_val(toks[3])
                v0 = parse_val(toks[4]) if len(toks) > 4 and kind == 'ivp' else 0
                if c is not None and v0 is not None and cur != s * c * dv - c * v0:
                    bad.append('%s: I = sC V - C v0 violated' % nm)
            elif ty == 'C' and kind == 'dc':
                if cur != 0:
                    bad.append('%s: capacitor carries dc current' % nm)
            elif ty == 'L':
                lv = parse_val(toks[3])
                i0 = parse_val(toks[4]) if len(toks) > 4 and kind == 'ivp' else 0
                if kind == 'dc':
                    if dv != 0:
                        bad.append('%s: inductor has dc voltage' % nm)
                elif lv is not None and i0 is not None:
                    # mutual inductance: V1 = sL1 I1 - L1 i01 + sM I2 - M i02, M = k sqrt(L1 L2)
                    mut = 0
                    okm = True
                    for kl in case['netlist']:
                        kt = kl.split()
                        if kt[0].startswith('K') and nm in kt[1:3]:
                            other = kt[2] if kt[1] == nm else kt[1]
                            ol = [l for l in case['netlist'] if l.split()[0] == other]
                            kv = parse_val(kt[3])
                            lo = parse_val(ol[0].split()[3]) if ol else None
                            io = I.get(other)
                            i0o = parse_val(ol[0].split()[4]) if ol and len(ol[0].split()) > 4 and kind == 'ivp' else 0
                            if None in (kv, lo, io, i0o):
                                okm = False
                                break
                            import sympy as _sp
                            m2 = _sp.sqrt(_sp.Rational(lv.numerator, lv.denominator) * _sp.Rational(lo.numerator, lo.denominator))
                            if not m2.is_Rational:
                                okm = False
                                break
                            M = kv * Fraction(int(m2.p), int(m2.q))
                            mut += s * M * io - M * i0o
                    if okm and dv != s * lv * cur - lv * i0 + mut:
                        bad.append('%s: V = sL I - L i0 (+ mutual terms) violated' % nm)
            elif ty == 'E' and cls in ('E', 'VCVS'):
                a = parse_val(toks[5])
                ac = parse_val(toks[6]) if len(toks) > 6 else 0
                vc1, vc2 = V[nn[2]], V[nn[3]]
                if a is not None and ac is not None and dv != a * (vc1 - vc2) + ac * (vc1 + vc2) / 2:
                    bad.append('%s: VCVS relation violated' % nm)
            elif ty == 'H':
                h = parse_val(toks[4])
                ic = I.get(toks[3])
                if ic is not None and case.get('convention') in ('hybrid', 'active'):
                    ic = -ic
                if h is not None and ic is not None and dv != h * ic:
                    bad.append('%s: CCVS relation violated' % nm)
            elif ty == 'AM':
                if dv != 0:
                    bad.append('%s: ammeter has a voltage drop' % nm)
        elif ty == 'TF' and len(nn) == 4:
            a = parse_val(toks[5])
            if cur is None or a is None:
                incomplete.update(e['nidx'])
                continue
            leave(e['nidx'][0], cur); leave(e['nidx'][1], -cur)
            leave(e['nidx'][2], -a * cur); leave(e['nidx'][3], a * cur)
            if V[nn[0]] - V[nn[1]] != a * (V[nn[2]] - V[nn[3]]):
                bad.append('%s: transformer voltage ratio violated' % nm)
        elif ty == 'GY' and len(nn) == 4:
            r = parse_val(toks[5])
            i2, i1 = cur, I.get(nm + 'X')
            if i1 is not None and case.get('convention') == 'active':
                i1 = -i1
            if i1 is None or i2 is None or r is None:
                incomplete.update(e['nidx'])
                continue
            leave(e['nidx'][0], i2); leave(e['nidx'][1], -i2)
            leave(e['nidx'][2], i1); leave(e['nidx'][3], -i1)
            if V[nn[0]] - V[nn[1]] != -r * i1 or V[nn[2]] - V[nn[3]] != r * i2:
                bad.append('%s: gyrator relations violated' % nm)
        elif ty == 'TR':
            a = parse_val(toks[3])
            if cur is None or a is None:
                incomplete.update(e['nidx'])
                continue
            leave(e['nidx'][1], cur)
            if V[nn[1]] != a * V[nn[0]]:
                bad.append('%s: transfer relation violated' % nm)
        else:
            incomplete.update(e['nidx'])
    if is_noise and len(live_noise) > 1:
        bad.append('more than one noise source is live in one noise analysis: %s' % ', '.join(live_noise))
    for n, tot in node_sum.items():
        if n >= 0 and n not in incomplete and tot != 0:
            bad.append('KCL violated at node index %d (sum of leaving currents %s)' % (n, tot))
    return bad


# ---- cases file ------------------------------------------------------------------
HEADER = ('Require Import LT.FieldSec LT.QcI LT.Circuit LT.MNA LT.Sources LT.WireMerge Gen.StampsGen Gen.C01model Gen.SourcesGen.\n'
          'Local Open Scope Z_scope.\n')


def build_checks(ci, case, wres, tr, res, point_eps):
    """returns list of (label, coq bool expr) for one circuit"""
    checks = []
    if 'kinds' not in wres:
        return checks
    for kind, kd in wres['kinds'].items():
        F = 'I' if (kd.get('ac') or kd.get('noise')) else 'Q'
        if kind not in KINDS and F == 'Q':
            res.count('kind_skipped_' + ('noise_or_other' if kind not in KINDS else kind))
            continue
        KN, EQ, ZERO = FIELD[F]
        kindc = ('KNoise' if kd.get('noise') else 'KAc') if F == 'I' else KINDS[kind]
        kt = re.sub(r'[^A-Za-z0-9]', '_', kind)
        ids = {e['name']: i for i, e in enumerate(kd['elements'])}
        raws = []
        ok = True
        for e in kd['elements']:
            owner = None
            for c in e['mro']:
                o = tr.stamp_owner(c) if c in tr.bases else None
                if o:
                    owner = o
                    break
            r = raw_of(e, ids, kindc, owner, point_eps, F) if owner else None
            if r is None:
                ok = False
                res.count('unsupported_class_' + str(e['cls']))
                break
            raws.append(r)
        if not ok:
            continue
        # independent sources: the value the sub-analysis uses (pVoc / pIsc of the sub-netlist element) must be
        # the value the regenerated class definition gives for the ORIGINAL netlist arguments
        if SRC_OK[0]:
            byname = {e['name']: e for e in kd['elements']}
            for sr in wres.get('sources', []):
                e = byname.get(sr.get('name'))
                if e is None or 'error' in sr or sr['cls'] not in SRC.CLASSES:
                    continue
                exp = e['params'].get('pVoc' if sr['type'] == 'V' else 'pIsc')
                args = (sr['args'] + [None, None, None])[:3]
                given = (sr['given'] + [False, False, False])[:3]
                if not valid(exp, F) or any(g and not valid(a, F) for a, g in zip(args, given)) or not given[0]:
                    res.count('source_value_not_rational')
                    continue
                if sr['cls'] in ('Vac', 'Iac'):
                    if not given[2] or (given[1] and (Fraction(str(args[1]).partition('|')[0]) * 2).denominator != 1) \
                            or (given[1] and '|' in str(args[1])):
                        res.count('source_phase_not_quarter_turn_or_symbolic_omega')
                        continue
                try:
                    wlit = q(str(Fraction(case.get('w0', '2') if kd.get('noise') else kind)), F) if F == 'I' else ZERO
                except Exception:
                    continue
                slit = ('(cimul cii %s)' % wlit) if F == 'I' else q(case['s0'], F)
                al = [q(a, F) if g else ZERO for a, g in zip(args, given)]
                desc = '(gen_%s %s %s %s %s %s %s %s %s %s %s)' % (
                    sr['cls'], KN, 'cii' if F == 'I' else ZERO, ZERO, 'Equarter' if F == 'I' else '(fun x => x)',
                    al[0], al[1], al[2], b(given[0]), b(given[1]), b(given[2]))
                checks.append(('%d/%s/src_%s' % (ci, kind, sr['name']), None,
                               'src_ok %s %s %s %s %s %s %s' % (KN, EQ, desc, kindc, slit, wlit, q(exp, F))))
                res.count('source_values_compared')
        es = 'es_%d_%s' % (ci, kt)
        defn = 'Definition %s : list (raw %s) := [%s].' % (es, KN, ';\n  '.join(raws))
        # unknown ordering
        exp = []
        for k in kd['unknown_branch_currents']:
            if k in ids:
                exp.append('(%d%%nat, false)' % ids[k])
            elif k.endswith('X') and k[:-1] in ids:
                exp.append('(%d%%nat, true)' % ids[k[:-1]])
            else:
                exp.append('(999%nat, false)')
        checks.append(('%d/%s/unknowns' % (ci, kind), defn, 'check_unknowns %s %s [%s]' % (KN, es, '; '.join(exp))))
        # node merging: Lcapy stamps no wire, it merges the nodes wires join.  The indices it used must have the
        # kernel of the sequential contraction LT.WireMerge.merge of the wires (hypothesis kern_ok of the theorems
        # merged_to_wires / wires_to_merged / mna_wires of props/C01wire.v), and every terminal index must be the
        # image of its raw node.  Raw ids: ground '0' = -1, the other node names 0, 1, ... in sorted order.
        if WIRE_RULES[0] is None:
            res.count('merge_check_skipped_rule_untranslatable')
        elif any(e.get('eqn') for e in kd['elements']):
            res.count('merge_check_skipped_internal_equipotential_nodes')
        else:
            rid, nxt = {}, 0
            for nme in sorted(kd['node_index']):
                if nme == '0':
                    rid[nme] = -1
                else:
                    rid[nme] = nxt
                    nxt += 1
            wl = []
            for e in kd['elements']:
                # which components imply a wire: rules regenerated from NetlistMixin.equipotential_nodes (tools/tr_equipot.py)
                wl += EQP.wires_of(WIRE_RULES[0], e['type'], e['nodes']) or []
            if all(a in rid and b_ in rid for a, b_ in wl) and all(nd in rid for e in kd['elements'] for nd in e['nodes'][:len(e['nidx'])]):
                idxf = '(fun x => match x with %s_ => -1 end)' % ''.join(
                    '%d => %d | ' % (rid[nme], kd['node_index'][nme]) for nme in sorted(kd['node_index']) if rid[nme] >= 0)
                nlz = '[%s]' % '; '.join(str(i) for i in range(nxt))
                wz = '[%s]' % '; '.join('(%d, %d)' % (rid[a], rid[b_]) for a, b_ in wl)
                checks.append(('%d/%s/merge' % (ci, kind), None, 'kern_okb %s %s %s' % (nlz, wz, idxf)))
                prs = ['(%d, %d)' % (rid[nd], ix) for e in kd['elements'] for nd, ix in zip(e['nodes'], e['nidx'])]
                prs.append('(-1, %d)' % kd['node_index'].get('0', -1))
                checks.append(('%d/%s/nodeidx' % (ci, kind), None,
                               'forallb (fun p => Z.eqb (%s (fst p)) (snd p)) [%s]' % (idxf, '; '.join(prs))))
                res.count('node_merging_checked')
                if wl:
                    res.count('node_merging_checked_with_wires')
            else:
                res.count('merge_check_skipped_unknown_node')
        # entries
        A, Zv = kd['A'], kd['Z']
        nn = len(kd['node_list']) - 1
        mm = len(kd['unknown_branch_currents'])
        if all(valid(x, F) for row in A for x in row) and all(valid(x, F) for x in Zv):
            ents = []
            for r in range(nn + mm):
                for c in range(nn + mm):
                    blk = ('MG' if c < nn else 'MB') if r < nn else ('MC' if c < nn else 'MD')
                    ents.append('(%s, %d, %d, %s)' % (blk, r if r < nn else r - nn, c if c < nn else c - nn, q(A[r][c], F)))
                ents.append('(%s, %d, 0, %s)' % ('MIs' if r < nn else 'MEs', r if r < nn else r - nn, q(Zv[r], F)))
            checks.append(('%d/%s/entries' % (ci, kind), None, 'check_entries %s %s %s [%s]' % (KN, EQ, es, '; '.join(ents))))
            res.count('entries_compared', len(ents))
            if F == 'I':
                res.count('ac_entries_compared', len(ents))
        else:
            res.count('matrix_not_rational')
        es_sol = es
        if kd.get('has_eps'):
            # capacitors at dc are stamped as a conductance eps and the limit eps -> 0 of the solution is
            # reported; by continuity that limit satisfies the system at eps = 0, so the solver contract is
            # checked against the model assembled with eps := 0 (the entries above were compared at eps = 1/7)
            raws0 = []
            for e in kd['elements']:
                owner = None
                for c in e['mro']:
                    o = tr.stamp_owner(c) if c in tr.bases else None
                    if o:
                        owner = o
                        break
                raws0.append(raw_of(e, ids, kindc, owner, '0/1', F))
            es_sol = 'es0_%d_%s' % (ci, kt)
            checks.append(('%d/%s/unknowns0' % (ci, kind), 'Definition %s : list (raw %s) := [%s].' % (es_sol, KN, ';\n  '.join(raws0)),
                           'check_unknowns %s %s [%s]' % (KN, es_sol, '; '.join(exp))))
            res.count('eps_case_solution_checked_at_eps_0')
        # solver contract and reporting
        first = None
        for m, x in kd.get('solutions', {}).items():
            if isinstance(x, dict) or any(not valid(v, F) for v in x):
                res.count('solution_unavailable_' + m)
                continue
            xs = '[%s]' % '; '.join(q(v, F) for v in x)
            checks.append(('%d/%s/solution_%s' % (ci, kind, m), None,
                           'check_solution %s %s %s %d%%nat %d%%nat %s' % (KN, EQ, es_sol, nn, mm, xs)))
            if first is None:
                first = xs
        if first is None or 'Idict' not in kd:
            continue
        conv = {'passive': 'Passive', 'hybrid': 'Hybrid', 'active': 'Active'}[case.get('convention', 'passive')]
        for e in kd['elements']:
            nm = e['name']
            if nm not in kd['Idict'] or not valid(kd['Idict'][nm], F):
                continue
            if e['type'] in ('R', 'NR', 'C', 'Y', 'Z'):
                V0, Zr = e['params'].get('V0'), e['params'].get('pZ')
                if not valid(V0, F) or not valid(Zr, F):
                    continue
                rk, v0, zr = 'RImm', q(V0, F), q(Zr, F)
            elif e['type'] == 'I':
                rk, v0, zr = 'RIsrc', ZERO, q('1', F)
            elif nm in kd['unknown_branch_currents']:
                rk, v0, zr = '(RBranch %s)' % b(e['is_source']), ZERO, q('1', F)
            else:
                continue
            checks.append(('%d/%s/I_%s' % (ci, kind, nm), None, 'check_report %s %s %s %d%%nat %s %s %s %s %d%%nat %s %s' % (
                KN, EQ, es_sol, ids[nm], conv, rk, v0, zr, nn, first, q(kd['Idict'][nm], F))))
        for node, idx in kd['node_index'].items():
            ev = kd['Vdict'].get(node)
            if not valid(ev, F):
                continue
            model = ('(vec_of %s %s 0 %d)' % (KN, first, idx)) if idx >= 0 else '(@f0 %s)' % KN
            checks.append(('%d/%s/V_%s' % (ci, kind, node), None, '%s %s %s' % (EQ, model, q(ev, F))))
    return checks


def cases_file(items):
    """items: list of (global index, defn or None, expr)"""
    lines = [HEADER]
    seen = set()
    for gi, defn, expr in items:
        if defn and defn not in seen:
            seen.add(defn)
            lines.append(defn)
    lines.append('Definition cases : list (nat * bool) := [')
    lines.append(';\n'.join('(%d%%nat, %s)' % (gi, expr) for gi, defn, expr in items))
    lines.append('].\nDefinition failing := map fst (filter (fun p => negb (snd p)) cases).\nEval vm_compute in failing.\n')
    return '\n'.join(lines)


def gen_cases(rng, tier):
    n = int(os.environ.get('VERIF_NCASES', 60 if tier == 'quick' else 400))
    cases = []
    profiles = ['s', 'ivp', 'dc', 'mixed', 'ac', 'res', 'noise']
    for i in range(n):
        prof = profiles[i % len(profiles)]
        nl = netgen.gen_netlist(rng, prof)
        cases.append({'netlist': nl['lines'], 'tags': nl['tags'], 's0': '%s%d/%d' % ('-' if i % 3 == 2 else '', rng.randint(1, 9), rng.randint(1, 4)),
                      'eps': '1/7', 'convention': 'hybrid' if i % 5 == 4 else ('active' if i % 7 == 3 else 'passive'),
                      'methods': ['DM', 'LU', 'GE', 'ADJ'] if i % 3 == 0 else ['DM', 'LU']})
        # the solver configured on the circuit (it must reach the sub-analyses and give the same reported values)
        if i % 4 == 1:
            cases[-1]['solver'] = 'LU'
        elif i % 8 == 3:
            cases[-1]['solver'] = 'ADJ'
    return cases


CORPUS = [
    # shorted inductor (finding F1, fixed), controlled source listed before its controlling source (fixed)
    {'netlist': ['V1 1 0 step 5', 'R1 1 2 2', 'L1 2 3 3', 'W 2 3', 'R2 3 0 1'], 'tags': ['corpus'], 's0': '2/1', 'methods': ['DM', 'LU']},
    {'netlist': ['H1 2 0 V1 3', 'R2 2 0 1', 'V1 1 0 dc 4', 'R1 1 0 2'], 'tags': ['corpus'], 's0': '2/1', 'methods': ['DM', 'LU']},
    {'netlist': ['V1 1 0 step 5', 'R1 1 2 2', 'C1 2 0 3 4', 'L1 2 3 5 1', 'R2 3 0 7', 'E1 4 0 2 0 3', 'R3 4 3 1'], 'tags': ['corpus'], 's0': '3/2', 'methods': ['DM', 'LU', 'GE']},
    {'netlist': ['V1 1 0 dc 6', 'R1 1 2 3', 'C1 2 0 2', 'R2 2 0 4', 'L1 2 3 1', 'R3 3 0 5'], 'tags': ['corpus', 'dc'], 's0': '1/1', 'methods': ['DM']},
    # coupled inductors with initial currents (mutual initial-condition term, fixed finding of C02)
    {'netlist': ['L1 1 0 2 3', 'R1 1 0 1', 'L2 2 0 2 1', 'R2 2 0 1', 'K1 L1 L2 {1/2}'], 'tags': ['corpus', 'K', 'ic'], 's0': '3/2', 'methods': ['DM', 'LU']},
    {'netlist': ['V1 1 0 step 2', 'R1 1 2 1', 'L1 2 0 8 -1', 'L2 3 0 2', 'R2 3 0 4', 'K1 L2 L1 {3/4}', 'C1 3 0 1 2'], 'tags': ['corpus', 'K', 'ic'], 's0': '2/1', 'methods': ['DM']},
    # causal circuit with mutual inductance, evaluated at a negative real s (sqrt(s**2) is not s there)
    {'netlist': ['V1 1 0 step 1', 'R1 1 2 1', 'L1 2 0 1', 'L2 3 0 1', 'K1 L1 L2 {1/2}', 'R2 3 0 1'], 'tags': ['corpus', 'K'], 's0': '-3/2', 'methods': ['DM', 'LU']},
    # wire-merged nodes: chains of wires, a wire loop, classes merged with classes, wires into ground, underscore names
    {'netlist': ['V1 1 0 step 5', 'W 1 2', 'W 2 3', 'W 3 4', 'R1 4 5 2', 'W 5 6', 'C1 6 0_1 3', 'W 0_1 0', 'W 0 0_2', 'R2 3 0_2 4'],
     'tags': ['corpus', 'wires'], 's0': '3/2', 'methods': ['DM', 'LU']},
    {'netlist': ['V1 1 0 dc 3', 'W 1 2', 'W 3 4', 'W 5 6', 'W 2 3', 'W 4 5', 'R1 6 0 2', 'R2 3 7 1', 'W 7 8', 'W 8 0', 'W 9 3', 'R3 9 10 5', 'W 10 0'],
     'tags': ['corpus', 'wires', 'dc'], 's0': '1/1', 'methods': ['DM', 'GE']},
    {'netlist': ['I1 a 0 step 2', 'W a b', 'W b c', 'W c a', 'R1 c d 3', 'L1 d e 2 1', 'W e f_1', 'W f_1 f_2', 'R2 f_2 0 1', 'E1 g 0 b e 2', 'R3 g 0 4'],
     'tags': ['corpus', 'wires'], 's0': '2/3', 'methods': ['DM', 'LU']},
    # two-port / transmission line with floating reference terminals (documented: they are at one potential)
    {'netlist': ['V1 1 0 step 3', 'R1 1 2 2', 'TP1 3 4 2 5 A 2 3 1 2', 'R2 5 0 1', 'R3 3 0 4', 'R4 4 0 5'],
     'tags': ['corpus', 'wires', 'TP'], 's0': '3/2', 'methods': ['DM', 'LU']},
    # phasor (ac) analysis over the Gaussian rationals: sources with quarter-turn phases, two frequencies + dc
    {'netlist': ['I1 1 0 ac 2 {pi/2} 3', 'R1 1 2 2', 'C1 2 0 {1/3}', 'R2 1 0 1'], 'tags': ['corpus', 'ac'], 's0': '2/1', 'methods': ['DM', 'LU'], 'api': False},
    {'netlist': ['V1 1 0 ac 5 {-pi/2} 2', 'R1 1 2 2', 'L1 2 3 2', 'I1 3 0 ac 2 {pi/2} 2', 'R2 3 0 1', 'V2 3 4 dc 2', 'R3 4 0 1',
                 'I2 0 2 ac 3 {pi} {1/2}', 'C1 2 0 {1/4}'], 'tags': ['corpus', 'ac'], 's0': '2/1', 'methods': ['DM'], 'api': False},
]


def log(msg):
    if os.environ.get('VERIF_VERBOSE'):
        import time as _t
        sys.stderr.write('[%s] %s\n' % (_t.strftime('%H:%M:%S'), msg))
        sys.stderr.flush()


def run(tier='quick', replay=None):
    res = core.Result(PID, tier)
    rng = random.Random(core.seed() * 7919 + 1)
    core.ensure_theory(['FieldSec', 'QcI', 'Circuit', 'MNA', 'CircuitLinear', 'Sources', 'WireMerge'])
    w = core.Work(PID)
    violations = []
    try:
        res.trusted = ['Coq 8.16.1 kernel + vm_compute',
                       'translator tools/tr_stamps.py (sha256 %s)' % core.sha256_file(os.path.join(core.VERIF, 'tools', 'tr_stamps.py'))[:16],
                       'translator tools/tr_sources.py (sha256 %s)' % core.sha256_file(os.path.join(core.VERIF, 'tools', 'tr_sources.py'))[:16],
                       'hand model of the per-kind selection of source values coq/theory/Sources.v value_at (validated by correspondence)',
                       'specification coq/theory/Circuit.v (physical semantics of each component kind)',
                       'hand models coq/theory/MNA.v, coq/props/C01model.v (validated by correspondence)',
                       'oracles (modelled, contract checked per case): sympy matrix solve, eps -> 0 limit',
                       'node merging: model coq/theory/WireMerge.v (merge), the kernel check kern_okb is evaluated in Coq on the indices Lcapy used; which components imply a wire is regenerated from NetlistMixin.equipotential_nodes by tools/tr_equipot.py (sha256 %s)' % core.sha256_file(os.path.join(core.VERIF, 'tools', 'tr_equipot.py'))[:16]]
        res.assumptions = ['characteristic-0 field with decidable equality',
                           'component parameters (Y, Z, Isc, Voc, gains) are inputs of the stamp theorems; their values per analysis kind are checked by the textbook oracle']
        log('translate')
        texts = {}
        tr = None
        try:
            tr = TS.StampTranslator(os.path.join(core.REPO, 'lcapy', 'mnacpts.py'))
            tr.translate_all()
            texts['StampsGen.v'] = TS.emit(tr)
        except TS.Untranslatable as e:
            res.failed_obl.append(('translate', 'lcapy/mnacpts.py', str(e)))
            res.obligations += 1
            tr = None
        srct = None
        try:
            srct = SRC.SrcTranslator(os.path.join(core.REPO, 'lcapy', 'oneport.py'))
            srct.translate_all()
            texts['SourcesGen.v'] = SRC.emit(srct)
        except SRC.Untranslatable as e:
            res.failed_obl.append(('translate_sources', 'lcapy/oneport.py', str(e)))
            res.obligations += 1
            srct = None
        WIRE_RULES[0] = None
        res.obligations += 1
        try:
            got = EQP.translate(os.path.join(core.REPO, 'lcapy', 'netlistmixin.py'))
            res.extra['wire_rules'] = [list(map(str, r_)) for r_ in got]
            if got == SPEC_WIRE_RULES:
                res.discharged += 1
            else:
                res.failed_obl.append(('wire_rule_is_documented_rule', 'lcapy/netlistmixin.py',
                                       'NetlistMixin.equipotential_nodes joins %s; documented: %s' % (got, SPEC_WIRE_RULES)))
        except EQP.Untranslatable as e:
            res.failed_obl.append(('translate_equipotential_nodes', 'lcapy/netlistmixin.py', str(e)))
        WIRE_RULES[0] = SPEC_WIRE_RULES
        SRC_OK[0] = False
        if srct is not None:
            w.write('SourcesGen.v', texts['SourcesGen.v'])
            ok, out, secs = core.coqc(w.dir, 'SourcesGen.v')
            if not ok:
                res.failed_obl.append(('SourcesGen', 'SourcesGen.v', out[-800:]))
                res.obligations += 1
            else:
                SRC_OK[0] = True
                texts['C01src.v'] = open(os.path.join(core.VERIF, 'coq', 'props', 'C01src.v')).read()
                w.write('C01src.v', texts['C01src.v'])
                rs = core.coqc_many(w.dir, ['C01src.v'], timeout=300)
                res.coq_results(w.dir, rs, {'C01src.v': texts['C01src.v']})
        model_ok = False
        if tr is not None:
            w.write('StampsGen.v', texts['StampsGen.v'])
            ok, out, secs = core.coqc(w.dir, 'StampsGen.v')
            if not ok:
                res.failed_obl.append(('StampsGen', 'StampsGen.v', out[-800:]))
                res.obligations += 1
            else:
                for f in ('C01model.v', 'C01.v', 'C01net.v', 'C01wire.v'):
                    texts[f] = open(os.path.join(core.VERIF, 'coq', 'props', f)).read()
                    w.write(f, texts[f])
                bad = core.gate_text('generated+props', '\n'.join(texts.values()))
                if bad:
                    res.failed_obl.append(('gate', 'props', '; '.join(bad)))
                    res.obligations += 1
                log('coqc props')
                r1 = core.coqc_many(w.dir, ['C01model.v', 'C01.v'], timeout=1500)
                model_ok = r1['C01model.v'][0]
                r2 = {}
                if r1['C01.v'][0] and model_ok:
                    r2 = core.coqc_many(w.dir, ['C01net.v'], timeout=600)
                else:
                    res.failed_obl.append(('mna_iff_phys', 'C01net.v', 'not checked: a prerequisite file failed'))
                    res.obligations += 1
                allr = dict(r1)
                allr.update(r2)
                if r2 and r2['C01net.v'][0]:
                    allr.update(core.coqc_many(w.dir, ['C01wire.v'], timeout=600))
                else:
                    res.failed_obl.append(('mna_wires', 'C01wire.v', 'not checked: a prerequisite file failed'))
                    res.obligations += 1
                res.coq_results(w.dir, allr, {f: texts[f] for f in allr})
                res.extra['coq_seconds'] = {f: round(r[2], 1) for f, r in allr.items()}
                res.extra['unsupported_stamps'] = tr.unsupported
        # theory obligations (MNA.v, Circuit.v) are checked by the setup build; count them
        for f in ('MNA.v', 'Circuit.v', 'CircuitLinear.v', 'WireMerge.v'):
            names = core.obligations_in(open(os.path.join(core.COQ_THEORY, f)).read())
            res.obligations += len(names)
            res.discharged += len(names)

        # correspondence + oracle
        targeted = []
        for name, f_, msg_ in res.failed_obl:
            if name.startswith('stamp_sem_'):
                for lines in netgen.targeted(rng, name[len('stamp_sem_'):]):
                    targeted.append({'netlist': lines, 'tags': ['targeted', name], 's0': '3/2', 'methods': ['DM']})
        cases = CORPUS + targeted + gen_cases(rng, tier)
        if replay and 'case' in replay:
            cases = [replay['case']]
        for c_ in cases:
            c_['tp_src'] = tr.tp_src if tr is not None else {}
            c_.setdefault('api', False)     # the public-API dump of the worker is not used by this check
        log('run impl on %d cases' % len(cases))
        wres = core.run_impl('impl_circuit.py', cases, timeout=420)
        log('impl done')
        items = []
        labels = {}
        gi = 0
        ncirc = 0
        for ci, (case, wr) in enumerate(zip(cases, wres)):
            if 'error' in wr:
                res.count('impl_error:' + wr['error'].split(':')[0])
                continue
            ncirc += 1
            for t in case.get('tags', []):
                res.count('tag_' + t)
            nontriv = False
            for kind, kd in wr['kinds'].items():
                if 'solve_error' in kd:
                    res.count('singular_or_unsolvable')
                    continue
                nontriv = True
                for law in oracle(case, kd, case['s0']):
                    res.counterexamples.append({'case': case, 'kind': kind, 'law': law})
                res.count('kind_' + kind)
            res.add_case('\n'.join(case['netlist']), nontriv,
                         {'netlist': case['netlist'], 'kinds': list(wr['kinds'].keys())} if len(res.samples) < 4 else None)
            if tr is None or not model_ok:
                continue
            for label, defn, expr in build_checks(ci, case, wr, tr, res, case.get('eps', '1/7')):
                items.append((gi, defn, expr, ci))
                labels[gi] = label
                gi += 1
        res.programs = ncirc
        failing = []
        if items:
            # shard by circuit so that definitions stay with their uses
            shards, cur, cur_c = [], [], set()
            for it in items:
                if len(cur) >= 250 and it[3] not in cur_c:
                    shards.append(cur)
                    cur, cur_c = [], set()
                cur.append(it)
                cur_c.add(it[3])
            if cur:
                shards.append(cur)
            fns = []
            for si, sh in enumerate(shards):
                w.write('cases_%d.v' % si, cases_file([(a, b_, c) for a, b_, c, _ in sh]))
                fns.append('cases_%d.v' % si)
            log('coqc %d case files' % len(fns))
            cr = core.coqc_many(w.dir, fns, timeout=900)
            log('cases done')
            for f, (ok, out, secs) in cr.items():
                fl = core.parse_eval_list(out) if ok else None
                if fl is None:
                    res.failed_obl.append(('correspondence_eval', f, out[-700:]))
                    res.obligations += 1
                else:
                    failing += fl
            res.extra['traces_validated_against_impl'] = len(items)
        for g in failing:
            lab = labels[g]
            ci = int(lab.split('/')[0])
            res.disagreements.append({'check': lab, 'case': cases[ci]})
        res.rule = ('random connected netlists (netgen: R/L/C tree + chords + sources + controlled sources, transformer, gyrator, '
                    'mutual inductance, two-ports, wires, ammeters, duplicates; profiles dc/s/ivp/mixed/ac/res (ac = phasor analysis, evaluated over the Gaussian rationals; res = resistive circuits, analysed in the time domain and evaluated at an instant t0 > 0; noise = one analysis per noise source, evaluated at omega = w0 over the Gaussian rationals); both current-sign conventions; '
                    '2-4 solver methods) plus a fixed corpus; non-trivial = Lcapy solved at least one analysis kind; distinct = distinct netlist text')

        # decide
        seen = set()
        for ce in res.counterexamples:
            key = 'law:' + re.sub(r'[^A-Za-z]+', '_', re.sub(r'\(.*', '', ce['law'].split(':')[-1])).strip('_')[:40] + ':' + \
                  re.sub(r'[^A-Za-z]+', '', ce['law'].split(':')[0])[:12] + ':' + (ce['kind'] if ce['kind'] in KINDS else 'ac')
            if key in seen:
                continue
            seen.add(key)
            violations.append({'key': key, 'what': 'reported solution violates a textbook law: ' + ce['law'],
                               'case': ce['case'], 'kind': ce['kind'], 'found_input': True})
        have_input = bool(res.counterexamples)
        for d in res.disagreements:
            kind_of = d['check'].split('/')[2].split('_')[0]
            key = 'correspondence:' + kind_of
            if key in seen:
                continue
            seen.add(key)
            violations.append({'key': key, 'what': 'model and implementation differ on %s (%s)' % (kind_of, d['check']),
                               'case': d['case'], 'check': d['check'], 'found_input': False,
                               'correspondence': 'Gen.C01model.%s' % {'unknowns': 'check_unknowns', 'entries': 'check_entries',
                                                                      'solution': 'check_solution', 'I': 'check_report', 'V': 'vec_of', 'merge': 'LT.WireMerge.kern_okb', 'nodeidx': 'node index = image of the raw node'}.get(kind_of, kind_of)})
        for name, f, msg in res.failed_obl:
            violations.append({'key': 'obligation:' + name, 'what': 'Coq obligation %s in %s no longer checks' % (name, f),
                               'theorem': name, 'file': f, 'message': msg, 'found_input': False,
                               'note': 'a failing input, if one was found by the oracle, is reported as a separate violation' if have_input else ''})
        return core.finish(res, violations)
    finally:
        if not os.environ.get('VERIF_KEEP'):
            w.cleanup()


if __name__ == '__main__':
    sys.exit(run(sys.argv[1] if len(sys.argv) > 1 else 'quick'))
