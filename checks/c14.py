"""C14 - phasor (ac) results equal the transfer function on the j-omega axis.

  translate  lcapy/mnacpts.py `_stamp` methods -> Gen/StampsGen.v            (tools/tr_stamps.py)
             leaf immittances, OnePort.impedance/admittance, the cpt.Y/cpt.Z -> select chain,
             Vac/Iac constructors, phasor.py time()/from_time, ACChecker phase offsets
                                              -> Gen/ImmittanceGen.v          (tools/tr_immittance.py)
  prove      theory/PhasorHom.v   partial field homomorphisms ("s := j omega"): residuals commute,
                                  solution_transport, superposition_sum, sol_unique
             theory/PhasorTime.v  phasor <-> sinusoid algebra (roundtrip, d/dt = j omega, steady state)
             theory/PhasorReal.v  the same at the real numbers with genuine cos/sin and derivatives
             props/C14.v          stamp_hom_* / stamp_ac_* for every stamp-defining class
             props/C14reg.v       regularity of every stamped entry
             props/C14imm.v       table = textbook immittances; ac_is_s_at_jw; generated phasor
                                  conversions = model; Vac/Iac roundtrip
             props/C14net.v       assemble_ac, phasor_eq_transfer, transported_is_physical,
                                  phasor_eq_transfer_sum
  correspond random circuits with 1-4 ac / t-domain sinusoidal sources through the real ac analysis and
             the real s-domain analysis (tools/impl_ac.py); evaluated inside Coq over Q(i) (props/C14model.v):
             every matrix entry, the solution vectors, source phasors, reported V/I phasors vs
             sum P_k H_k(j omega), immittances, transfer(..)(j omega), v(t) coefficients, phasor round trips
  symbolic   sources whose angular frequency is a SYMBOL (omega_0, w1): the ac sub-netlist, the s-domain route, the
             reported phasors, immittances, H(j omega) and v(t) are rational functions of the symbol; they go through the
             same in-Coq correspondence at rational sample points, as many as the degree bound asks for
             (theory/PhasorSym.v: poly_vanishes_from_points, rat_points_determine, sympoints_decide; props/C14sym.v:
             leafZ_rat_spec, leaf_Z_sampling), the guard sympoints_ok being evaluated in Coq
  search     independent textbook phasor MNA in exact Gaussian-rational arithmetic on the netlist text;
             ODE substitution of the reconstructed sinusoid for series RC / RL / RLC; symbolic-phase
             sinusoid -> phasor -> time round trips
"""
import json
import os
import random
import re
import sys
from fractions import Fraction

sys.path.insert(0, os.path.dirname(os.path.dirname(os.path.abspath(__file__))))
from vlib import core, netgen
sys.path.insert(0, os.path.join(core.VERIF, 'tools'))
import tr_stamps as TS
import tr_immittance as TI

PID = 'C14'
MANIFEST = {
    'text': 'Coq theorems over the stamps and immittance/phasor tables regenerated from the source on every run: every stamp '
            'commutes with any partial field homomorphism h (s := j omega), the ac sub-netlist assembles to the h-image of the '
            's-domain system, the ac immittance of each leaf is the h-image of its s-domain immittance, hence for a non-singular ac '
            'system the phasor solution is the image of the s-domain solution, summed over same-frequency sources as '
            'source phasor x transfer function(j omega); sinusoid -> phasor -> time is the identity (algebraically and over the reals, '
            'where d/dt is multiplication by j omega); every branch of the same-frequency term merge (ACChecker._is_sum_ac: y = 0, x = 0, '
            'polar sqrt/atan2) yields the sum of the terms\' phasors, and the frequency-response read-out (Expr.magnitude / phase / dB) '
            'reconstructs H(j omega) - the sqrt/atan2 contract is proved over the reals (polar_R_right/left). A symbolic angular '
            'frequency is an indeterminate: every compared quantity is a rational function of it, and agreement at more distinct points '
            'than the cross-multiplied degree is identity (poly_vanishes_from_points, rat_points_determine, sympoints_decide; the table '
            'immittance at s = j w is such a function, leafZ_rat_spec / leaf_Z_sampling). The model is tied to the '
            'code by evaluating it inside Coq over Q(i) on what the real ac and s-domain analyses returned.',
    'note': 'Trusted: Coq kernel/vm_compute; tools/tr_stamps.py, tools/tr_immittance.py; spec coq/theory/Circuit.v; hand models '
            'props/C14model.v, theory/MNA.v (validated by correspondence); "evaluate at s = j omega" is an abstract partial homomorphism '
            '(sympy substitution and linear solve are modelled oracles whose contract is checked per case); ACChecker term recognition '
            '(which inputs are accepted: refusals of non-sinusoids are searched, not proved), Superposition decomposition, sympy '
            'sqrt/atan2/log10 evaluation and CPE powers s**alpha are oracles validated by correspondence; symbolic angular frequencies go through the '
            'in-Coq correspondence at sample points (the degree of the expressions of the real code is measured with sympy; the degree of a '
            'model entry, a + b j w + c / (j w), is by inspection of the stamps except for the leaf immittances, where it is proved); '
            'symbolic amplitudes and symbolic phases are covered by the search oracle only; PhasorReal.v uses the standard-library real-number axioms (printed).',
    'technique': 'Coq proof over stamps/tables translated from source (homomorphism transport, linearity, uniqueness, polar form) + in-Coq correspondence over Q(i) + textbook phasor-MNA/ODE/metamorphic search oracle',
}

CNAMES = ['RC', 'L', 'V', 'AM', 'I', 'VCVS', 'VCCS', 'CCCS', 'CCVS', 'K', 'TF', 'GY', 'TL', 'TPA', 'TPB', 'TPG', 'TPH',
          'TPY', 'TPZ', 'TR', 'SPpp', 'SPpm', 'SPppp', 'SPpmm', 'SPppm', 'RV', 'Dummy']
PNAMES = ['pY', 'pZ', 'pIsc', 'pVoc', 'pArg0', 'pArg1', 'pAlpha', 'pEps', 'pA11', 'pA12', 'pA21', 'pA22',
          'pY11', 'pY12', 'pY21', 'pY22', 'pZM0', 'pZM1', 'pZL1', 'pZL2', 'pK']
SKINDS = {'s': 'KS', 'laplace': 'KLaplace', 'transient': 'KTransient'}
PROPS = ['C01model.v', 'C14.v', 'C14reg.v', 'C14imm.v', 'C01.v', 'C01net.v', 'C14net.v', 'C14model.v', 'C14sym.v']


def log(msg):
    if os.environ.get('VERIF_VERBOSE'):
        import time as _t
        sys.stderr.write('[%s] %s\n' % (_t.strftime('%H:%M:%S'), msg))
        sys.stderr.flush()


# ---- literals -----------------------------------------------------------------------
def qc(x):
    return core.qc_lit(x)


def gq(sv):
    """'p/q,r/s' -> Coq qci literal"""
    a, b = sv.split(',')
    return '(QI %s %s)' % (qc(a), qc(b))


def gpair(sv):
    a, b = sv.split(',')
    return Fraction(a), Fraction(b)


def b(x):
    return 'true' if x else 'false'


def fs(x):
    return netgen.fs(x)


# ---- generator -------------------------------------------------------------------------
OMEGAS = [Fraction(1), Fraction(2), Fraction(3), Fraction(1, 2), Fraction(3, 2), Fraction(5)]
PHI = {0: '0', 1: '{pi/2}', -1: '{-pi/2}', 2: '{pi}'}


def is_symw(w):
    """an angular frequency given as a symbol name"""
    return isinstance(w, str) and re.match(r'^[A-Za-z_]\w*$', w) is not None


def wkey_of(w):
    if is_symw(w):
        return w
    w = Fraction(w)
    return '%d/%d' % (w.numerator, w.denominator)


def sym(x):
    if is_symw(x):
        return x
    x = Fraction(x)
    return str(x.numerator) if x.denominator == 1 else '(%d/%d)' % (x.numerator, x.denominator)


def term_text(t):
    """A*f(w*t + k*pi/2) as sympy/lcapy text"""
    ph = {0: '', 1: ' + pi/2', -1: ' - pi/2', 2: ' + pi'}[t['k']]
    return '%s*%s(%s*t%s)' % (sym(t['A']), t['f'], sym(t['w']), ph)


def term_phasor(t):
    """(re, im) Fractions: cos: A j^k ; sin: -j A j^k  (python-side copy used only to drive the worker)"""
    A = Fraction(t['A'])
    rot = {0: (1, 0), 1: (0, 1), 2: (-1, 0), 3: (0, -1)}[(t['k'] + (0 if t['f'] == 'cos' else -1)) % 4]
    return A * rot[0], A * rot[1]


def gen_source(rng, omegas, allow_same=True):
    """returns (netlist value text, description dict)"""
    r = rng.random()
    w = rng.choice(omegas)
    A = netgen.val(rng, 1, 6, (1, 1, 2, 3)) * rng.choice([1, 1, 1, -1])
    if r < 0.45:
        k = rng.choice([0, 0, 1, -1, 2])
        return 'ac %s %s %s' % (fs(A), PHI[k], fs(w)), {'form': 'ac', 'A': str(A), 'k': k, 'w': str(w)}
    n = 1 if (r < 0.8 or len(omegas) < 2) else 2
    terms = []
    used = []
    for _ in range(n):
        w = rng.choice([x for x in omegas if x not in used] or omegas)
        used.append(w)
        terms.append({'f': rng.choice(['cos', 'sin']), 'A': str(netgen.val(rng, 1, 6, (1, 1, 2)) * rng.choice([1, 1, -1])),
                      'k': rng.choice([0, 0, 0, 1, -1, 2]), 'w': str(w)})
    if allow_same and rng.random() < 0.12:
        # a second term of the SAME frequency in one source (e.g. 3*cos(2*t) + sin(2*t))
        t0 = terms[0]
        terms.append({'f': 'sin' if t0['f'] == 'cos' else 'cos', 'A': str(netgen.val(rng, 1, 4, (1, 1, 2))), 'k': 0, 'w': t0['w']})
    return '{%s}' % ' + '.join(term_text(t) for t in terms), {'form': 't', 'terms': terms}


def src_terms(d):
    if d['form'] == 'ac':
        return [{'f': 'cos', 'A': d['A'], 'k': d['k'], 'w': d['w']}]
    return d['terms']


def src_P(d):
    """{omega string 'p/q': [re, im]}"""
    out = {}
    for t in src_terms(d):
        key = wkey_of(t['w'])
        re_, im_ = term_phasor(t)
        o = out.get(key, (Fraction(0), Fraction(0)))
        out[key] = (o[0] + re_, o[1] + im_)
    return {k: [str(v[0]), str(v[1])] for k, v in out.items()}


def has_same_omega_terms(case):
    for s_ in case['src']:
        ws = [wkey_of(t['w']) for t in src_terms(s_['desc'])]
        if len(ws) != len(set(ws)):
            return True
    return False


def make_case(lines, rng, omegas, tags, allow_same=True):
    out, src = [], []
    for l in lines:
        p = l.split()
        if re.match(r'^[VI]\d+$', p[0]):
            val, d = gen_source(rng, omegas, allow_same)
            prefix = ' '.join(p[:3])
            out.append(prefix + ' ' + val)
            src.append({'name': p[0], 'prefix': prefix, 'desc': d, 'P': src_P(d)})
        else:
            out.append(l)
    case = {'netlist': out, 'src': src, 'tags': sorted(tags)}
    vs = [s_ for s_ in src if s_['name'][0] == 'V']
    two = [l.split() for l in out if re.match(r'^[RCL]\d+$', l.split()[0])]
    if vs and two:
        e = rng.choice(two)
        case['transfer'] = vs[0]['prefix'].split()[1:3] + e[1:3]
        case['transfer_src'] = vs[0]['name']
        case['transfer_elt'] = e[0]
    return case


def gen_cases(rng, tier):
    n = int(os.environ.get('VERIF_NCASES', 48 if tier == 'quick' else 400))
    cases = []
    allow = ['E', 'G', 'H', 'F', 'TF', 'GY', 'K', 'W', 'AM', 'dup', 'TPA', 'TPY', 'TR']
    for i in range(n):
        size = rng.choice([2, 2, 3, 3, 4]) if tier == 'quick' else None
        nl = netgen.gen_netlist(rng, 's', size=size, extras=(i % 3 != 0), allow=allow)
        nw = 1 if i % 2 == 0 else 2
        omegas = rng.sample(OMEGAS, nw)
        cases.append(make_case(nl['lines'], rng, omegas, set(nl['tags']) | {'nw%d' % nw}))
    return cases


SYM_POINTS = {'omega_0': ['3/2', '2', '5/3', '7/2', '1/3', '4', '5/2', '7/3', '9/2', '6', '1/5', '8/3', '10/3', '7/4', '9/5', '11/6', '13/3'],
              'w1': ['1/2', '3', '7/5', '5', '2/3', '9/4', '11/2', '1/4', '7', '3/4', '5/4', '11/3', '13/2', '8/5', '11/4', '13/6', '17/3']}
CORPUS = [
    # RC / RL / RLC dividers of test_phasor-like shape, several sources, sin forms, phases
    {'netlist': ['V1 1 0 ac 3 0 2', 'R1 1 2 2', 'C1 2 0 {1/3}'], 'src': [{'name': 'V1', 'prefix': 'V1 1 0', 'desc': {'form': 'ac', 'A': '3', 'k': 0, 'w': '2'}}],
     'transfer': ['1', '0', '2', '0'], 'transfer_src': 'V1', 'transfer_elt': 'C1', 'ode': 'RC'},
    {'netlist': ['V1 1 0 {2*sin(3*t)}', 'R1 1 2 2', 'L1 2 0 {1/2}'], 'src': [{'name': 'V1', 'prefix': 'V1 1 0', 'desc': {'form': 't', 'terms': [{'f': 'sin', 'A': '2', 'k': 0, 'w': '3'}]}}],
     'transfer': ['1', '0', '2', '0'], 'transfer_src': 'V1', 'transfer_elt': 'L1', 'ode': 'RL'},
    {'netlist': ['V1 1 0 ac 5 {pi/2} 1', 'R1 1 2 3', 'L1 2 3 2', 'C1 3 0 {1/4}'], 'src': [{'name': 'V1', 'prefix': 'V1 1 0', 'desc': {'form': 'ac', 'A': '5', 'k': 1, 'w': '1'}}],
     'transfer': ['1', '0', '3', '0'], 'transfer_src': 'V1', 'transfer_elt': 'C1', 'ode': 'RLC'},
    {'netlist': ['V1 1 0 ac 3 0 2', 'R1 1 2 2', 'C1 2 0 {1/3}', 'L1 2 3 4', 'R2 3 0 5', 'V2 4 0 {sin(5*t)}', 'R3 4 3 1', 'I1 0 2 ac 2 {pi/2} 2'],
     'src': [{'name': 'V1', 'prefix': 'V1 1 0', 'desc': {'form': 'ac', 'A': '3', 'k': 0, 'w': '2'}},
             {'name': 'V2', 'prefix': 'V2 4 0', 'desc': {'form': 't', 'terms': [{'f': 'sin', 'A': '1', 'k': 0, 'w': '5'}]}},
             {'name': 'I1', 'prefix': 'I1 0 2', 'desc': {'form': 'ac', 'A': '2', 'k': 1, 'w': '2'}}],
     'transfer': ['1', '0', '3', '0'], 'transfer_src': 'V1', 'transfer_elt': 'R2'},
    # one t-domain source carrying two frequencies and a dc offset-free cos/sin mix
    {'netlist': ['V1 1 0 {3*cos(2*t) + 4*sin(5*t)}', 'R1 1 2 2', 'C1 2 0 {1/3}', 'R2 2 0 4'],
     'src': [{'name': 'V1', 'prefix': 'V1 1 0', 'desc': {'form': 't', 'terms': [{'f': 'cos', 'A': '3', 'k': 0, 'w': '2'}, {'f': 'sin', 'A': '4', 'k': 0, 'w': '5'}]}}]},
    # mutual inductance and a controlled source in ac analysis
    {'netlist': ['V1 1 0 ac 2 0 3', 'R1 1 2 1', 'L1 2 0 2', 'L2 3 0 2', 'K1 L1 L2 {1/2}', 'R2 3 0 4', 'E1 4 0 3 0 2', 'R3 4 0 5'],
     'src': [{'name': 'V1', 'prefix': 'V1 1 0', 'desc': {'form': 'ac', 'A': '2', 'k': 0, 'w': '3'}}]},
    # two terms of the same frequency inside one t-domain source
    {'netlist': ['V1 1 0 {3*cos(2*t) + sin(2*t)}', 'R1 1 2 2', 'C1 2 0 {1/3}'],
     'src': [{'name': 'V1', 'prefix': 'V1 1 0', 'desc': {'form': 't', 'terms': [{'f': 'cos', 'A': '3', 'k': 0, 'w': '2'}, {'f': 'sin', 'A': '1', 'k': 0, 'w': '2'}]}}]},
    # a voltage source directly across the input port of transfer(): the ladder-network shortcut kills (shorts) it
    {'netlist': ['V1 0 1 ac 4 0 2', 'C1 2 0 9', 'R1 2 3 8', 'C2 2 3 {1/3}', 'I1 2 3 ac 1 0 2', 'C3 3 2 8'],
     'src': [{'name': 'V1', 'prefix': 'V1 0 1', 'desc': {'form': 'ac', 'A': '4', 'k': 0, 'w': '2'}},
             {'name': 'I1', 'prefix': 'I1 2 3', 'desc': {'form': 'ac', 'A': '1', 'k': 0, 'w': '2'}}],
     'transfer': ['0', '1', '2', '0'], 'transfer_src': 'V1', 'transfer_elt': 'C1'},
    # same mechanism: here the ladder search never terminates (and allocates without bound)
    {'netlist': ['R1 0 1 2', 'R2 0 2 3', 'R3 3 0 8', 'V1 0 m79 ac -1 {pi/2} 2', 'R4 m79 2 1', 'R5 1 0 1', 'C1 1 3 {7/3}', 'L1 1 0 8', 'R6 1 0 7', 'R7 3 0 2'],
     'src': [{'name': 'V1', 'prefix': 'V1 0 m79', 'desc': {'form': 'ac', 'A': '-1', 'k': 1, 'w': '2'}}],
     'transfer': ['0', 'm79', '1', '0'], 'transfer_src': 'V1', 'transfer_elt': 'R5', 'transfer_cpu_s': 4},
    # symbolic angular frequency (the default omega_0 of `ac A phi`), compared with the textbook solution at omega_0 = 3/2 and 2
    {'netlist': ['V1 1 0 ac 3 {pi/2}', 'R1 1 2 2', 'C1 2 0 {1/3}', 'L1 2 3 4', 'R2 3 0 5', 'I1 0 2 ac 2'], 'omega_subs': '3/2',
     'src': [{'name': 'V1', 'prefix': 'V1 1 0', 'desc': {'form': 'ac', 'A': '3', 'k': 1, 'w': '3/2'}},
             {'name': 'I1', 'prefix': 'I1 0 2', 'desc': {'form': 'ac', 'A': '2', 'k': 0, 'w': '3/2'}}]},
    {'netlist': ['V1 1 0 ac 2', 'R1 1 2 1', 'L1 2 0 2', 'L2 3 0 2', 'K1 L1 L2 {1/2}', 'R2 3 0 4', 'C1 3 0 {1/5}'], 'omega_subs': '2',
     'src': [{'name': 'V1', 'prefix': 'V1 1 0', 'desc': {'form': 'ac', 'A': '2', 'k': 0, 'w': '2'}}]},
    # the same two, and a two-symbol circuit with a t-domain source and a dc offset, with the symbol kept as an
    # indeterminate: in-Coq correspondence at (degree bound + 1) sample points
    {'netlist': ['V1 1 0 ac 3 {pi/2}', 'R1 1 2 2', 'C1 2 0 {1/3}', 'L1 2 3 4', 'R2 3 0 5', 'I1 0 2 ac 2'],
     'omega_points': {'omega_0': SYM_POINTS['omega_0']}, 'ntime': 2, 'transfer': ['1', '0', '3', '0'], 'transfer_src': 'V1', 'transfer_elt': 'R2',
     'src': [{'name': 'V1', 'prefix': 'V1 1 0', 'desc': {'form': 'ac', 'A': '3', 'k': 1, 'w': 'omega_0'}},
             {'name': 'I1', 'prefix': 'I1 0 2', 'desc': {'form': 'ac', 'A': '2', 'k': 0, 'w': 'omega_0'}}]},
    {'netlist': ['V1 1 0 ac 2', 'R1 1 2 1', 'L1 2 0 2', 'L2 3 0 2', 'K1 L1 L2 {1/2}', 'R2 3 0 4', 'C1 3 0 {1/5}'],
     'omega_points': {'omega_0': SYM_POINTS['omega_0']}, 'ntime': 2, 'transfer': ['1', '0', '3', '0'], 'transfer_src': 'V1', 'transfer_elt': 'R2',
     'src': [{'name': 'V1', 'prefix': 'V1 1 0', 'desc': {'form': 'ac', 'A': '2', 'k': 0, 'w': 'omega_0'}}]},
    # a lossless tank resonant at omega_0 = 2, which is one of the sample points: the pole is skipped, not compared
    {'netlist': ['I1 0 1 ac 3', 'L1 1 0 {1/4}', 'C1 1 0 1'], 'omega_points': {'omega_0': SYM_POINTS['omega_0']}, 'ntime': 2,
     'src': [{'name': 'I1', 'prefix': 'I1 0 1', 'desc': {'form': 'ac', 'A': '3', 'k': 0, 'w': 'omega_0'}}]},
    {'netlist': ['V1 1 0 {3*sin(w1*t)}', 'R1 1 2 2', 'L1 2 0 {1/3}', 'I1 0 2 {2*cos(omega_0*t + pi/2) + 2}', 'C1 2 0 {1/4}'],
     'omega_points': {'omega_0': SYM_POINTS['omega_0'], 'w1': SYM_POINTS['w1']}, 'ntime': 2,
     'src': [{'name': 'V1', 'prefix': 'V1 1 0', 'desc': {'form': 't', 'terms': [{'f': 'sin', 'A': '3', 'k': 0, 'w': 'w1'}]}},
             {'name': 'I1', 'prefix': 'I1 0 2', 'desc': {'form': 't', 'terms': [{'f': 'cos', 'A': '2', 'k': 1, 'w': 'omega_0'}]}}]},
    # a t-domain source that is a PRODUCT of two sinusoids, cos(t) cos(2t) = cos(t)/2 + cos(3t)/2
    {'netlist': ['V1 1 0 {cos(t)*cos(2*t)}', 'R1 1 2 2', 'C1 2 0 {1/4}'], 'product_source': True,
     'src': [{'name': 'V1', 'prefix': 'V1 1 0', 'desc': {'form': 't', 'terms': [{'f': 'cos', 'A': '1/2', 'k': 0, 'w': '1'}, {'f': 'cos', 'A': '1/2', 'k': 0, 'w': '3'}]}}]},
    # a source written as one product term with a symbolic amplitude sum (expanded and merged inside ACChecker)
    {'netlist': ['V1 1 0 {(2 + a)*sin(2*t)}', 'R1 1 2 2', 'C1 2 0 {1/4}'], 'sym_subs': {'a': '3/2'},
     'src': [{'name': 'V1', 'prefix': 'V1 1 0', 'desc': {'form': 't', 'terms': [{'f': 'sin', 'A': '7/2', 'k': 0, 'w': '2'}]}}]},
]
for _c in CORPUS:
    _c.setdefault('tags', ['corpus'])
    for _s in _c['src']:
        _s['P'] = src_P(_s['desc'])


def gen_phasor_cases(rng, tier):
    n = 40 if tier == 'quick' else 300
    out = []
    for i in range(n):
        t = {'f': rng.choice(['cos', 'sin']), 'A': str(netgen.val(rng, 1, 7, (1, 1, 2, 3)) * rng.choice([1, 1, -1])),
             'k': rng.choice([0, 1, -1, 2]), 'w': str(rng.choice(OMEGAS))}
        out.append({'mode': 'phasor', 'expr': term_text(t), 'term': t, 'w': t['w']})
    # symbolic / non-special phases for the search oracle only
    for i in range(10 if tier == 'quick' else 60):
        f = rng.choice(['cos', 'sin'])
        A = netgen.val(rng, 1, 7, (1, 2, 3))
        w = rng.choice(OMEGAS)
        ph = rng.choice(['1/3', '2', 'phi', '-5/7', 'pi/3', 'pi/4'])
        out.append({'mode': 'phasor', 'expr': '%s*%s(%s*t + %s)' % (sym(A), f, sym(w), ph), 'w': str(w), 'oracle_only': True})
    # sinusoids that expand into several terms of ONE frequency (ACChecker._is_sum_ac: merged amplitude / phase,
    # branches y == 0, x == 0, general): symbolic amplitude sums, phase-shifted pairs whose cos or sin parts cancel
    for i in range(24 if tier == 'quick' else 150):
        w = rng.choice(OMEGAS)
        wt = '%s*t' % sym(w)
        A, B = netgen.val(rng, 1, 6, (1, 1, 2)), netgen.val(rng, 1, 6, (1, 1, 3))
        ph = rng.choice(['pi/3', 'pi/4', 'pi/6', 'pi/5', '1/2', 'phi'])
        fam = i % 8
        if fam == 0:
            ex = '(%s + a)*sin(%s)' % (sym(A), wt)
        elif fam == 1:
            ex = '(%s + a)*cos(%s)' % (sym(A), wt)
        elif fam == 2:       # cos parts cancel: 2 A cos(ph) sin(wt)
            ex = '%s*sin(%s + %s) + %s*sin(%s - %s)' % (sym(A), wt, ph, sym(A), wt, ph)
        elif fam == 3:       # sin parts cancel: 2 A cos(ph) cos(wt)
            ex = '%s*cos(%s + %s) + %s*cos(%s - %s)' % (sym(A), wt, ph, sym(A), wt, ph)
        elif fam == 4:       # cos parts cancel: -2 A sin(ph) sin(wt)
            ex = '%s*cos(%s + %s) - %s*cos(%s - %s)' % (sym(A), wt, ph, sym(A), wt, ph)
        elif fam == 5:       # sin parts cancel: 2 A sin(ph) cos(wt)
            ex = '%s*sin(%s + %s) - %s*sin(%s - %s)' % (sym(A), wt, ph, sym(A), wt, ph)
        elif fam == 6:       # general two-term sum
            ex = '%s*sin(%s + %s) + %s*cos(%s - %s)' % (sym(A), wt, ph, sym(B), wt, rng.choice(['pi/7', '1/3', 'pi/3']))
        else:                # three terms, symbolic amplitudes
            ex = '(a + %s)*sin(%s) + b*sin(%s) - %s*sin(%s)' % (sym(A), wt, wt, sym(B), wt)
        out.append({'mode': 'phasor', 'expr': ex, 'w': str(w), 'oracle_only': True, 'family': 'sum%d' % fam})
    # a cos(wt) + b sin(wt) with rational a, b (merged by the polar `else` branch of _is_sum_ac: sqrt / atan2):
    # the result is a Gaussian rational again, so it is compared inside Coq with the sum of the terms' phasors
    for i in range(12 if tier == 'quick' else 80):
        w = rng.choice(OMEGAS)
        ts = [{'f': 'cos', 'A': str(netgen.val(rng, 1, 7, (1, 1, 2, 3)) * rng.choice([1, -1])), 'k': rng.choice([0, 2]), 'w': str(w)},
              {'f': 'sin', 'A': str(netgen.val(rng, 1, 7, (1, 1, 2, 3)) * rng.choice([1, -1])), 'k': rng.choice([0, 2]), 'w': str(w)}]
        out.append({'mode': 'phasor', 'expr': ' + '.join(term_text(t) for t in ts), 'terms': ts, 'w': str(w), 'family': 'polar'})
    # inputs that are NOT a single sinusoid: phasor() must refuse them (or, if it answers, time() must give the input back)
    w = rng.choice([Fraction(2), Fraction(3)])
    for ex, prod in (('exp(-t)*cos(%s*t)', False), ('t*cos(%s*t)', False), ('cos(%s*t)**2', False), ('cos(t**2 + %s)', False),
                     ('u(t)*cos(%s*t)', False), ('cos(%s*t) + cos(5*t)', False), ('cos(%s*t) + 1/(1 + t**2)', False),
                     ('cos(t)*cos(%s*t)', True), ('sin(%s*t)*cos(5*t)', True), ('2*cos(%s*t)*sin(t + 1)', True)):
        out.append({'mode': 'phasor', 'expr': ex % sym(w), 'w': str(w), 'oracle_only': True, 'family': 'nonsinusoid', 'product': prod})
    return out


def gen_symphase_cases(rng, tier):
    """single-frequency circuits whose ac sources all carry the SYMBOLIC phase phi: every phasor must be
    exp(j phi) times the phasor of the same circuit with phase 0 (which the correspondence covers)"""
    out = []
    for i in range(4 if tier == 'quick' else 30):
        nl = netgen.gen_netlist(rng, 's', size=rng.choice([2, 3]), extras=(i % 2 == 1), allow=['E', 'G', 'TF', 'K', 'W', 'dup'])
        w = rng.choice(OMEGAS)
        lines = []
        for l in nl['lines']:
            p = l.split()
            if re.match(r'^[VI]\d+$', p[0]):
                lines.append('%s ac %s PHI %s' % (' '.join(p[:3]), fs(netgen.val(rng, 1, 6, (1, 1, 2))), fs(w)))
            else:
                lines.append(l)
        if not any(re.match(r'^[CL]\d', l) for l in lines):
            # purely resistive circuits are analysed in the time domain (no phasors): add a capacitor
            srcl = [l.split() for l in lines if re.match(r'^[VI]\d', l)]
            nd = [n_ for n_ in srcl[0][1:3] if n_ != '0'] if srcl else []
            if nd:
                lines.append('C9 %s 0 {1/2}' % nd[0])
        out.append({'mode': 'symphase', 'netlist': lines})
    return out


def gen_symomega_cases(rng, tier):
    """circuits whose sources carry a SYMBOLIC angular frequency: `ac A phi` (the default omega_0), `ac A phi w1`,
    t-domain A*cos/sin(omega_0*t + k pi/2) (now and then with a dc offset, which adds the kind 'dc' to the circuit).
    One or two symbols per circuit.  The worker evaluates every rational function of the symbol at the first
    (degree bound + 1) values of SYM_POINTS[symbol]; each point then goes through the whole correspondence."""
    out = []
    n = 5 if tier == 'quick' else 36
    allow = ['E', 'G', 'H', 'F', 'TF', 'GY', 'K', 'W', 'AM', 'dup']
    for i in range(n):
        nl = netgen.gen_netlist(rng, 's', size=rng.choice([2, 2, 3]) if tier == 'quick' else rng.choice([2, 3, 3, 4]),
                                extras=(i % 2 == 1), allow=allow)
        names = ['omega_0'] if i % 3 != 2 else ['omega_0', 'w1']
        lines, src = [], []
        for l in nl['lines']:
            p = l.split()
            if not re.match(r'^[VI]\d+$', p[0]):
                lines.append(l)
                continue
            wn = names[len(src) % len(names)]
            A = netgen.val(rng, 1, 6, (1, 1, 2, 3)) * rng.choice([1, 1, 1, -1])
            prefix = ' '.join(p[:3])
            if rng.random() < 0.5:
                k = rng.choice([0, 0, 1, -1, 2])
                d = {'form': 'ac', 'A': str(A), 'k': k, 'w': wn}
                val = 'ac %s %s' % (fs(A), PHI[k]) + ('' if wn == 'omega_0' and rng.random() < 0.7 else ' ' + wn)
            else:
                tm = {'f': rng.choice(['cos', 'sin']), 'A': str(A), 'k': rng.choice([0, 0, 1, -1, 2]), 'w': wn}
                d = {'form': 't', 'terms': [tm]}
                dc = '' if rng.random() < 0.7 else '%s + ' % sym(netgen.val(rng, 1, 4, (1, 1, 2)))
                val = '{%s%s}' % (dc, term_text(tm))
            lines.append(prefix + ' ' + val)
            src.append({'name': p[0], 'prefix': prefix, 'desc': d, 'P': src_P(d)})
        if not src:
            continue
        if not any(re.match(r'^[CL]\d', l) for l in lines):
            # purely resistive circuits are analysed in the time domain (no phasors): add a capacitor
            nd = [n_ for n_ in src[0]['prefix'].split()[1:3] if n_ != '0']
            lines.append('C9 %s 0 {1/2}' % nd[0])
        case = {'netlist': lines, 'src': src, 'tags': sorted(set(nl['tags']) | {'symbolic_omega', 'nsym%d' % len(names)}),
                'omega_points': {k_: SYM_POINTS[k_] for k_ in names}, 'ntime': 2}
        vs = [s_ for s_ in src if s_['name'][0] == 'V']
        two = [l.split() for l in lines if re.match(r'^[RCL]\d+$', l.split()[0])]
        if vs and two:
            e = rng.choice(two)
            case['transfer'] = vs[0]['prefix'].split()[1:3] + e[1:3]
            case['transfer_src'] = vs[0]['name']
            case['transfer_elt'] = e[0]
        out.append(case)
    return out


def inst_case(case, i):
    """the case with every symbolic angular frequency replaced by its i-th sample value (source descriptions and phasors)"""
    op = case['omega_points']

    def inst_desc(d):
        if d['form'] == 'ac':
            return dict(d, w=op[d['w']][i] if is_symw(d['w']) else d['w'])
        return dict(d, terms=[dict(t, w=op[t['w']][i] if is_symw(t['w']) else t['w']) for t in d['terms']])
    c = dict(case)
    c['src'] = []
    for s_ in case['src']:
        d = inst_desc(s_['desc'])
        c['src'].append(dict(s_, desc=d, P=src_P(d)))
    return c


def gen_sym_cases(rng, tier):
    """circuits whose sources are ONE product term with a symbolic amplitude sum, (A + a)*sin(w t): the term is expanded
    inside ACChecker (merged by _is_sum_ac); results are compared by the oracle at a = a rational value"""
    out = []
    for i in range(6 if tier == 'quick' else 40):
        nl = netgen.gen_netlist(rng, 's', size=rng.choice([2, 3]), extras=False)
        w = rng.choice(OMEGAS)
        aval = netgen.val(rng, 1, 5, (1, 2, 3))
        lines, src = [], []
        for l in nl['lines']:
            p = l.split()
            if re.match(r'^[VI]\d+$', p[0]):
                A = netgen.val(rng, 1, 6, (1, 1, 2))
                f = 'sin' if (i + len(src)) % 2 == 0 else 'cos'
                prefix = ' '.join(p[:3])
                lines.append('%s {(%s + a)*%s(%s*t)}' % (prefix, sym(A), f, sym(w)))
                d = {'form': 't', 'terms': [{'f': f, 'A': str(A + aval), 'k': 0, 'w': str(w)}]}
                src.append({'name': p[0], 'prefix': prefix, 'desc': d, 'P': src_P(d)})
            else:
                lines.append(l)
        if src:
            out.append({'netlist': lines, 'src': src, 'sym_subs': {'a': str(aval)}, 'tags': ['symbolic_amplitude']})
    return out


# ---- independent textbook phasor analysis (search oracle) ---------------------------------
class G(object):
    """Gaussian rational"""
    __slots__ = ('r', 'i')

    def __init__(self, r=0, i=0):
        self.r = Fraction(r)
        self.i = Fraction(i)

    def __add__(self, o):
        o = o if isinstance(o, G) else G(o)
        return G(self.r + o.r, self.i + o.i)
    __radd__ = __add__

    def __neg__(self):
        return G(-self.r, -self.i)

    def __sub__(self, o):
        o = o if isinstance(o, G) else G(o)
        return G(self.r - o.r, self.i - o.i)

    def __rsub__(self, o):
        return G(o) - self

    def __mul__(self, o):
        o = o if isinstance(o, G) else G(o)
        return G(self.r * o.r - self.i * o.i, self.r * o.i + self.i * o.r)
    __rmul__ = __mul__

    def __truediv__(self, o):
        o = o if isinstance(o, G) else G(o)
        n = o.r * o.r + o.i * o.i
        return self * G(o.r / n, -o.i / n)

    def __rtruediv__(self, o):
        return G(o) / self

    def zero(self):
        return self.r == 0 and self.i == 0

    def __eq__(self, o):
        o = o if isinstance(o, G) else G(o)
        return self.r == o.r and self.i == o.i

    def __repr__(self):
        return '%s%+sj' % (self.r, self.i)


def pval(tok):
    tok = tok.strip('{}')
    try:
        return Fraction(tok)
    except Exception:
        return None


def oracle_solve(case, wkey):
    """textbook phasor MNA on the netlist text at angular frequency w.  Returns
    (dict element -> voltage phasor, dict V-source -> current phasor) or None when
    a component kind is outside the oracle / the system is singular."""
    w = Fraction(wkey)
    jw = G(0, w)
    lines = [l.split() for l in case['netlist']]
    srcP = {}
    for s_ in case['src']:
        p = s_['P'].get(wkey, ['0', '0'])
        srcP[s_['name']] = G(Fraction(p[0]), Fraction(p[1]))
    # wires merge nodes
    parent = {}

    def find(x):
        parent.setdefault(x, x)
        while parent[x] != x:
            parent[x] = parent[parent[x]]
            x = parent[x]
        return x

    def union(a, c):
        ra, rc = find(a), find(c)
        if ra == rc:
            return
        if rc == '0':
            parent[ra] = rc
        else:
            parent[rc] = ra
    nnodes = {'R': 2, 'C': 2, 'L': 2, 'V': 2, 'I': 2, 'E': 4, 'G': 4, 'H': 2, 'F': 2, 'TF': 4, 'GY': 4, 'TP': 4, 'AM': 2, 'TR': 2, 'W': 2}

    def typ(nm):
        m = re.match(r'^([A-Za-z]+)', nm)
        return m.group(1) if m else nm
    for p in lines:
        t = typ(p[0])
        if t == 'K':
            continue
        if t not in nnodes:
            return None
        for n in p[1:1 + nnodes[t]]:
            find(n)
        if t == 'W':
            union(p[1], p[2])
    find('0')
    roots = sorted(set(find(n) for n in parent) - {find('0')})
    nidx = {r_: i for i, r_ in enumerate(roots)}
    N = len(roots)
    branches = []          # (name, kind)
    for p in lines:
        t = typ(p[0])
        if t in ('V', 'L', 'E', 'H', 'AM', 'TF', 'TR'):
            branches.append(p[0])
        elif t == 'GY':
            branches += [p[0], p[0] + 'X']
        elif t == 'TP' and p[5] == 'A':
            branches.append(p[0])
    bidx = {n: N + i for i, n in enumerate(branches)}
    M = N + len(branches)
    A = [[G() for _ in range(M)] for _ in range(M)]
    rhs = [G() for _ in range(M)]

    def ni(n):
        r_ = find(n)
        return None if r_ == find('0') else nidx[r_]

    def kcl(n, col, coef):
        """current `coef * x[col]` leaves node n"""
        i = ni(n)
        if i is not None:
            A[i][col] = A[i][col] + coef

    def kcl_v(n, a, c, y):
        """current y * (v(a) - v(c)) leaves node n"""
        i = ni(n)
        if i is None:
            return
        ia, ic = ni(a), ni(c)
        if ia is not None:
            A[i][ia] = A[i][ia] + y
        if ic is not None:
            A[i][ic] = A[i][ic] - y

    def row_v(rw, a, c, coef):
        """adds coef * (v(a) - v(c)) to row rw"""
        ia, ic = ni(a), ni(c)
        if ia is not None:
            A[rw][ia] = A[rw][ia] + coef
        if ic is not None:
            A[rw][ic] = A[rw][ic] - coef
    Lval = {}
    for p in lines:
        if typ(p[0]) == 'L':
            Lval[p[0]] = pval(p[3])
    for p in lines:
        nm, t = p[0], typ(p[0])
        if t in ('R', 'C'):
            v = pval(p[3])
            if v is None or v == 0:
                return None
            y = G(1) / v if t == 'R' else jw * v
            kcl_v(p[1], p[1], p[2], y)
            kcl_v(p[2], p[1], p[2], -y)
        elif t == 'L':
            v = Lval[nm]
            if v is None:
                return None
            m = bidx[nm]
            kcl(p[1], m, 1); kcl(p[2], m, -1)
            row_v(m, p[1], p[2], 1)
            A[m][m] = A[m][m] - jw * v
        elif t in ('V', 'AM'):
            m = bidx[nm]
            kcl(p[1], m, 1); kcl(p[2], m, -1)
            row_v(m, p[1], p[2], 1)
            rhs[m] = srcP[nm] if t == 'V' else G()
        elif t == 'I':
            i1, i2 = ni(p[1]), ni(p[2])
            if i1 is not None:
                rhs[i1] = rhs[i1] + srcP[nm]
            if i2 is not None:
                rhs[i2] = rhs[i2] - srcP[nm]
        elif t == 'E':
            a = pval(p[5]); ac = pval(p[6]) if len(p) > 6 else Fraction(0)
            if a is None or ac is None:
                return None
            m = bidx[nm]
            kcl(p[1], m, 1); kcl(p[2], m, -1)
            row_v(m, p[1], p[2], 1)
            row_v(m, p[3], p[4], -G(a))
            for n_ in (p[3], p[4]):
                i_ = ni(n_)
                if i_ is not None:
                    A[m][i_] = A[m][i_] - G(ac) / 2
        elif t == 'G':
            g = pval(p[5])
            if g is None:
                return None
            kcl_v(p[1], p[3], p[4], -G(g))
            kcl_v(p[2], p[3], p[4], G(g))
        elif t == 'F':
            f_ = pval(p[4])
            if f_ is None or p[3] not in bidx:
                return None
            kcl(p[1], bidx[p[3]], G(f_)); kcl(p[2], bidx[p[3]], -G(f_))
        elif t == 'H':
            h_ = pval(p[4])
            if h_ is None or p[3] not in bidx:
                return None
            m = bidx[nm]
            kcl(p[1], m, 1); kcl(p[2], m, -1)
            row_v(m, p[1], p[2], 1)
            A[m][bidx[p[3]]] = A[m][bidx[p[3]]] - G(h_)
        elif t == 'TF':
            al = pval(p[5])
            if al is None:
                return None
            m = bidx[nm]
            kcl(p[1], m, 1); kcl(p[2], m, -1); kcl(p[3], m, -G(al)); kcl(p[4], m, G(al))
            row_v(m, p[1], p[2], 1); row_v(m, p[3], p[4], -G(al))
        elif t == 'GY':
            r_ = pval(p[5])
            if r_ is None:
                return None
            m2, m1 = bidx[nm], bidx[nm + 'X']
            kcl(p[1], m2, 1); kcl(p[2], m2, -1); kcl(p[3], m1, 1); kcl(p[4], m1, -1)
            row_v(m1, p[1], p[2], 1); A[m1][m1] = A[m1][m1] + G(r_)        # v(out) = -R i1
            row_v(m2, p[3], p[4], 1); A[m2][m2] = A[m2][m2] - G(r_)        # v(in) = R i2
        elif t == 'TP':
            vals = [pval(x) for x in p[6:10]]
            if any(v is None for v in vals):
                return None
            if p[5] == 'A':
                a11, a12, a21, a22 = [G(v) for v in vals]
                m = bidx[nm]
                kcl(p[1], m, 1); kcl(p[2], m, -1)
                # I1 = A21 V2 - A22 I2 leaves in+
                kcl_v(p[3], p[1], p[2], a21); kcl(p[3], m, -a22)
                kcl_v(p[4], p[1], p[2], -a21); kcl(p[4], m, a22)
                # V1 = A11 V2 - A12 I2
                row_v(m, p[3], p[4], 1); row_v(m, p[1], p[2], -a11); A[m][m] = A[m][m] + a12
            elif p[5] == 'Y':
                y11, y12, y21, y22 = [G(v) for v in vals]
                for (n_, sg) in ((p[3], 1), (p[4], -1)):
                    kcl_v(n_, p[3], p[4], y11 * sg); kcl_v(n_, p[1], p[2], y12 * sg)
                for (n_, sg) in ((p[1], 1), (p[2], -1)):
                    kcl_v(n_, p[3], p[4], y21 * sg); kcl_v(n_, p[1], p[2], y22 * sg)
            else:
                return None
        elif t == 'TR':
            a = pval(p[3])
            if a is None:
                return None
            m = bidx[nm]
            kcl(p[2], m, 1)
            i_in, i_out = ni(p[1]), ni(p[2])
            if i_out is not None:
                A[m][i_out] = A[m][i_out] + 1
            if i_in is not None:
                A[m][i_in] = A[m][i_in] - G(a)
    for p in lines:
        if typ(p[0]) == 'K':
            kk = pval(p[3])
            l1, l2 = Lval.get(p[1]), Lval.get(p[2])
            if kk is None or l1 is None or l2 is None or l1 != l2:
                return None
            zm = jw * kk * l1
            A[bidx[p[1]]][bidx[p[2]]] = A[bidx[p[1]]][bidx[p[2]]] - zm
            A[bidx[p[2]]][bidx[p[1]]] = A[bidx[p[2]]][bidx[p[1]]] - zm
    # Gaussian elimination
    for c in range(M):
        pr = None
        for r_ in range(c, M):
            if not A[r_][c].zero():
                pr = r_
                break
        if pr is None:
            return None
        A[c], A[pr] = A[pr], A[c]
        rhs[c], rhs[pr] = rhs[pr], rhs[c]
        pv = A[c][c]
        for r_ in range(M):
            if r_ != c and not A[r_][c].zero():
                f_ = A[r_][c] / pv
                A[r_] = [x - f_ * y for x, y in zip(A[r_], A[c])]
                rhs[r_] = rhs[r_] - f_ * rhs[c]
    x = [rhs[i] / A[i][i] for i in range(M)]

    def vn(n):
        i = ni(n)
        return G() if i is None else x[i]
    V, I = {}, {}
    for p in lines:
        t = typ(p[0])
        if t in ('R', 'C', 'L', 'V', 'I', 'E', 'G', 'H', 'F', 'AM', 'TF', 'GY') or (t == 'TP'):
            V[p[0]] = vn(p[1]) - vn(p[2])
        if t in ('V', 'L', 'AM', 'E', 'H'):
            I[p[0]] = x[bidx[p[0]]]
        if t == 'R':
            I[p[0]] = V[p[0]] / pval(p[3])
        if t == 'C':
            I[p[0]] = V[p[0]] * jw * pval(p[3])
    return V, I


# ---- Coq raw elements ---------------------------------------------------------------------
def par_lit(pr):
    arms = ['%s => %s' % (pn, gq(pr[pn])) for pn in PNAMES if pr.get(pn) is not None]
    if not arms:
        return '(fun _ => qi0)'
    if len(arms) == len(PNAMES):
        return '(fun n => match n with %s end)' % ' | '.join(arms)
    return '(fun n => match n with %s | _ => qi0 end)' % ' | '.join(arms)


def desc_lit(d):
    if d['form'] == 'ac':
        return '(SAc %s (%d) %s)' % (qc(d['A']), d['k'], qc(d['w']))
    return '(STerms [%s])' % '; '.join('Term %s %s (%d) %s' % ('TCos' if t['f'] == 'cos' else 'TSin', qc(t['A']), t['k'], qc(t['w']))
                                        for t in d['terms'])


LEAFMAP = {'R': 'lfR', 'NR': 'lfR', 'G': 'lfG', 'L': 'lfL', 'C': 'lfC', 'CPE': 'lfCPE', 'Y': 'lfY', 'Z': 'lfZ'}


def rawc_of(e, ids, owner, srcdesc):
    if owner not in CNAMES:
        return None
    n = (e['nidx'] + [-1, -1, -1, -1])[:4]
    cidx = (e.get('cidx') or [-1, -1])
    ctrl = ids.get(e.get('ctrl'), 0)
    typ = {'C': 'TyC', 'm': 'TyM'}.get(e['type'], 'TyOtherType')
    info = '(CI %d %s %s %s %d)' % (ids[e['name']], b(e['need_branch_current']), b(e['need_extra_branch_current']),
                                    b(e['is_current_controlled']), ctrl)
    leaf = 'None'
    if owner in ('RC', 'L') and e.get('leaf') in LEAFMAP and e.get('leaf_args') and all(a is not None for a in e['leaf_args']):
        la = e['leaf_args'] + ['0/1,0/1']
        if e['leaf'] == 'CPE' and la[1] not in ('1/1,0/1', '0/1,0/1'):
            return None
        leaf = '(Some (%s, %s, %s))' % (LEAFMAP[e['leaf']], gq(la[0]), gq(la[1] if e['leaf'] == 'CPE' else '0/1,0/1'))
    elif owner in ('RC', 'L'):
        return None
    src = 'None'
    if e['name'] in srcdesc:
        src = '(Some (%s, %s))' % (b(owner == 'V'), desc_lit(srcdesc[e['name']]))
    return ('(RawC c%s %s %s (%d) (%d) (%d) (%d) (%d) (%d) %d %d %s %s %s %s %s %s %s)' % (
        owner, info, typ, n[0], n[1], n[2], n[3], cidx[0], cidx[1],
        ids.get(e.get('L1'), 0), ids.get(e.get('L2'), 0),
        b(e.get('has_ic')), b(e.get('ctrl_is_vsrc', False)), b(e['nargs'] > 1), b(e.get('tp_has_src')),
        par_lit(e['params']), leaf, src))


def entries_lit(A, Zv, nn, mm):
    ents = []
    for r in range(nn + mm):
        for c in range(nn + mm):
            blk = ('MG' if c < nn else 'MB') if r < nn else ('MC' if c < nn else 'MD')
            ents.append('(%s, %d, %d, %s)' % (blk, r if r < nn else r - nn, c if c < nn else c - nn, gq(A[r][c])))
        ents.append('(%s, %d, 0, %s)' % ('MIs' if r < nn else 'MEs', r if r < nn else r - nn, gq(Zv[r])))
    return ents


HEADER = ('Require Import LT.FieldSec LT.Circuit LT.MNA LT.SeqQcI LT.PhasorHom LT.PhasorTime LT.PhasorSym.\n'
          'Require Import Gen.StampsGen Gen.C01model Gen.ImmittanceGen Gen.C14 Gen.C14imm Gen.C14model.\n'
          'Local Open Scope Z_scope.\nLocal Open Scope bool_scope.\n')


def build_checks(ci, case, wr, tr, res):
    """list of (label, defn or None, coq bool expr)"""
    checks = []
    case0 = case
    for wkey, ad in wr.get('ac', {}).items():
        if 'error' in ad:
            res.count('ac_kind_error')
            continue
        if ad.get('symbolic'):
            res.count('symbolic_omega_kind')      # compared by the search oracle only
            continue
        wl = qc(wkey)
        tag = '%d/%s' % (ci, wkey.replace('/', '_'))
        sp_ = ad.get('sympoint')
        case = inst_case(case0, sp_['i']) if sp_ else case0
        times = wr.get('time_pts', {}).get(str(sp_['i']), {}) if sp_ else wr.get('time', {})
        if sp_:
            tag = '%d/%s@%s' % (ci, sp_['sym'], wkey.replace('/', '_'))
            res.count('symbolic_omega_points')
            if sp_.get('k', sp_['i']) == 0:
                # the guard of theorem sympoints_decide, evaluated in Coq: distinct points, more of them than the degree bound
                complete = sp_['n'] > sp_['bound']
                res.count('symbolic_omega_kinds_' + ('complete' if complete else 'partial'))
                checks.append((tag + '/sympoints', None, 'sympoints_ok (K:=QcF) %d%%nat [%s]' % (
                    sp_['bound'] if complete else sp_['n'] - 1, '; '.join(qc(x) for x in sp_['points']))))
        srcdesc = {s_['name']: s_['desc'] for s_ in case['src']}
        sub, sd = ad['sub'], ad['s']
        # --- source phasors as built by the constructors / from_time, from the ac sub-netlist
        for e in sub['elements']:
            if e['name'] in srcdesc:
                pv = e['params'].get('pVoc' if e['type'] == 'V' else 'pIsc')
                if pv is not None:
                    checks.append((tag + '/srcP_' + e['name'], None, 'check_srcP %s %s %s' % (wl, desc_lit(srcdesc[e['name']]), gq(pv))))
        # --- immittances
        for nm, im in ad.get('imm', {}).items():
            e = [x for x in sub['elements'] if x['name'] == nm]
            if not e or 'error' in im or any(im.get(k) is None for k in ('Zac', 'Yac', 'Zs', 'Ys')):
                res.count('imm_unavailable')
                continue
            e = e[0]
            if e.get('leaf') not in LEAFMAP or not e.get('leaf_args') or any(a is None for a in e['leaf_args']):
                continue
            la = e['leaf_args'] + ['0/1,0/1']
            if e['leaf'] == 'CPE' and la[1] not in ('1/1,0/1', '0/1,0/1'):
                continue
            checks.append((tag + '/imm_' + nm, None, 'check_imm %s %s %s %s %s %s %s %s' % (
                wl, LEAFMAP[e['leaf']], gq(la[0]), gq(la[1] if e['leaf'] == 'CPE' else '0/1,0/1'),
                gq(im['Zac']), gq(im['Yac']), gq(im['Zs']), gq(im['Ys']))))
        # --- (ii) superposition of transfer x source phasor
        for attr in ('V', 'I'):
            for nm, rep in ad.get(attr, {}).items():
                if not isinstance(rep, str):
                    res.count('reported_%s_unavailable' % attr)
                    continue
                pairs = []
                ok = True
                for u in ad.get('unit', []):
                    hval = u.get(attr, {}).get(nm) if 'error' not in u else None
                    if hval is None:
                        ok = False
                        break
                    pairs.append('(%s, %s)' % (desc_lit(srcdesc[u['name']]), gq(hval)))
                if not ok:
                    res.count('unit_response_unavailable')
                    continue
                checks.append((tag + '/super%s_%s' % (attr, nm), None, 'check_super %s [%s] %s' % (wl, '; '.join(pairs), gq(rep))))
        # --- (iii) public transfer function
        if isinstance(ad.get('transfer'), str) and ad.get('transfer_s'):
            u = [x for x in ad.get('unit', []) if x['name'] == case.get('transfer_src') and 'error' not in x]
            lad = '@ladder' if ad.get('transfer_ladder') else ''
            res.count('transfer_route_' + ('ladder' if lad else 'generic'))
            checks.append((tag + '/transfer_eval' + lad, None, 'qci_eqb %s %s' % (gq(ad['transfer']), gq(ad['transfer_s']))))
            if u and u[0]['V'].get(case['transfer_elt']) is not None:
                checks.append((tag + '/transfer_unit' + lad, None, 'qci_eqb %s %s' % (gq(ad['transfer']), gq(u[0]['V'][case['transfer_elt']]))))
            if len(ad.get('unit', [])) == 1 and u and isinstance(ad['V'].get(case['transfer_elt']), str):
                checks.append((tag + '/transfer_phasor' + lad, None, 'qci_eqb (cimul %s (src_P %s %s)) %s' % (
                    gq(ad['transfer']), wl, desc_lit(srcdesc[case['transfer_src']]), gq(ad['V'][case['transfer_elt']]))))
        if isinstance(ad.get('transfer'), str) and isinstance(ad.get('fresp'), dict) and 'error' not in ad['fresp']:
            for rt in ('g', 'c'):
                fr = ad['fresp'].get(rt) or {}
                need = ('re', 'im', 'mag2', 'polar', 'db10', 'abs2', 'deg')
                if any(fr.get(k) is None for k in need):
                    res.count('fresp_not_rational')
                    continue
                checks.append((tag + '/fresp_' + rt, None, 'check_fresp %s %s %s %s %s %s && qc_eqb %s %s && qci_eqb %s qi0 && %s && %s' % (
                    gq(ad['transfer']), qc(fr['re'].split(',')[0]), qc(fr['im'].split(',')[0]), qc(fr['mag2'].split(',')[0]), gq(fr['polar']),
                    qc(fr['db10'].split(',')[0]), qc(fr['abs2'].split(',')[0]), qc(fr['mag2'].split(',')[0]), gq(fr['deg']),
                    b(fr.get('angle_same')), b(fr.get('mag_nonneg')))))
                res.count('fresp_checked')
        elif isinstance(ad.get('fresp'), dict) and 'error' in ad['fresp']:
            res.count('fresp_error')
        if isinstance(ad.get('transfer'), str) and ad.get('transfer_s'):
            pass
        elif 'transfer' in case:
            res.count('transfer_hang' if isinstance(ad.get('transfer'), dict) and ad['transfer'].get('hang') else 'transfer_unavailable')
        # --- time domain
        for nm, tp in times.items():
            if 'error' in tp or tp.get('rest') != '0' or not isinstance(ad['V'].get(nm), str):
                res.count('time_unavailable')
                continue
            cc, sc = tp['terms'].get(wkey, [None, None])
            if cc is None or sc is None:
                continue
            checks.append((tag + '/time_' + nm, None, 'check_time %s %s %s' % (gq(ad['V'][nm]), qc(cc.split(',')[0]), qc(sc.split(',')[0]))))
            if sp_:
                res.count('symbolic_omega_time_checks')
        # --- matrices and solutions through the model
        if 'error' in sd:
            res.count('s_route_error')
            continue
        if sd['kind'] not in SKINDS:
            res.count('s_kind_' + sd['kind'])
            continue
        if (sd['unknown_branch_currents'] != sub['unknown_branch_currents'] or sd['node_index'] != sub['node_index']
                or [e['name'] for e in sd['elements']] != [e['name'] for e in sub['elements']]):
            res.count('structure_differs')
            checks.append((tag + '/structure', None, 'false'))
            continue
        ids = {e['name']: i for i, e in enumerate(sd['elements'])}
        raws = []
        ok = True
        for e in sd['elements']:
            owner = None
            for c in e['mro']:
                o = tr.stamp_owner(c) if c in tr.bases else None
                if o:
                    owner = o
                    break
            r = rawc_of(e, ids, owner, srcdesc) if owner else None
            if r is None:
                ok = False
                res.count('unsupported_class_' + str(e['cls']))
                break
            raws.append(r)
        if not ok:
            continue
        if sp_:
            res.count('symbolic_omega_matrix_points')
        es = 'es_%d_%s' % (ci, re.sub(r'\W', '_', (sp_['sym'] + '_at_' if sp_ else '') + wkey))
        defn = 'Definition %s : list rawc := [%s].' % (es, ';\n  '.join(raws))
        kc = SKINDS[sd['kind']]
        exp = []
        for k in sub['unknown_branch_currents']:
            if k in ids:
                exp.append('(%d%%nat, false)' % ids[k])
            elif k.endswith('X') and k[:-1] in ids:
                exp.append('(%d%%nat, true)' % ids[k[:-1]])
            else:
                exp.append('(999%nat, false)')
        checks.append((tag + '/unknowns', defn, 'check_unknowns_c %s [%s]' % (es, '; '.join(exp))))
        nn = len(sub['node_list']) - 1
        mm = len(sub['unknown_branch_currents'])
        for which, dd, fn in (('ac', sub, 'check_entries_ac'), ('s', sd, 'check_entries_s')):
            if all(x is not None for row in dd['A'] for x in row) and all(x is not None for x in dd['Z']):
                ents = entries_lit(dd['A'], dd['Z'], nn, mm)
                checks.append((tag + '/entries_' + which, defn, '%s %s %s %s [%s]' % (fn, kc, wl, es, '; '.join(ents))))
                res.count('entries_compared', len(ents))
            else:
                res.count('matrix_not_gaussian_rational')
        xa, xs = sub.get('x'), sd.get('x')
        if xa and all(v is not None for v in xa):
            xl = '[%s]' % '; '.join(gq(v) for v in xa)
            checks.append((tag + '/solution_ac', defn, 'check_solution_ac %s %s %s %d%%nat %d%%nat %s' % (kc, wl, es, nn, mm, xl)))
            if xs and all(v is not None for v in xs):
                xsl = '[%s]' % '; '.join(gq(v) for v in xs)
                checks.append((tag + '/solution_transported', defn, 'check_solution_ac %s %s %s %d%%nat %d%%nat %s' % (kc, wl, es, nn, mm, xsl)))
                checks.append((tag + '/solution_equal', None, 'list_eqb %s %s' % (xl, xsl)))
        else:
            res.count('ac_solution_unavailable')
    return checks


def cases_file(items):
    lines = [HEADER]
    seen = set()
    for gi, defn, expr in items:
        if defn and defn not in seen:
            seen.add(defn)
            lines.append(defn)
    lines.append('Definition cases : list (nat * bool) := [')
    lines.append(';\n'.join('(%d%%nat, %s)' % (gi, expr) for gi, defn, expr in items))
    lines.append('].\nDefinition failing := map fst (filter (fun p => negb (snd p)) cases).\nEval vm_compute in failing.\n')
    return '\n'.join(lines)


# ---- ODE substitution for the simple series circuits of the corpus ----------------------
def ode_cases():
    out = []
    for c in CORPUS:
        if c.get('ode'):
            out.append({'mode': 'ode', 'netlist': c['netlist'], 'ode': c['ode']})
    return out


def run(tier='quick', replay=None):
    res = core.Result(PID, tier)
    rng = random.Random(core.seed() * 104729 + 14)
    core.ensure_theory(['FieldSec', 'Circuit', 'MNA', 'SeqQcI', 'PhasorHom', 'PhasorTime', 'PhasorReal', 'PolyQ', 'PhasorSym'])
    w = core.Work(PID)
    violations = []
    try:
        tdir = os.path.join(core.VERIF, 'tools')
        res.trusted = ['Coq 8.16.1 kernel + vm_compute',
                       'translators tools/tr_stamps.py (sha256 %s), tools/tr_immittance.py (sha256 %s)' % (
                           core.sha256_file(os.path.join(tdir, 'tr_stamps.py'))[:16], core.sha256_file(os.path.join(tdir, 'tr_immittance.py'))[:16]),
                       'specification coq/theory/Circuit.v (physical semantics), textbook immittances spec_Z in props/C14imm.v',
                       'hand models props/C14model.v, props/C01model.v, theory/MNA.v (validated by correspondence)',
                       'oracles (modelled, contract checked per case): sympy substitution s -> j omega, matrix solve, ACChecker term recognition, '
                       'Superposition decomposition of t-domain sources, CPE power s**alpha']
        res.assumptions = ['characteristic-0 fields; "evaluate at s = j omega" is a partial ring homomorphism on the elements regular at j omega',
                           'the ac system is non-singular (determinant does not vanish at j omega) for the equality ac solution = image of the s-domain solution',
                           'omega <> 0 and non-zero component values for the immittance lemma (denominators)']
        texts = {}
        tr = None
        ti = None
        log('translate')
        try:
            tr = TS.StampTranslator(os.path.join(core.REPO, 'lcapy', 'mnacpts.py'))
            tr.translate_all()
            texts['StampsGen.v'] = TS.emit(tr)
        except TS.Untranslatable as e:
            res.failed_obl.append(('translate_stamps', 'lcapy/mnacpts.py', str(e)))
            res.obligations += 1
            tr = None
        try:
            ti = TI.Translator(core.REPO).translate()
            texts['ImmittanceGen.v'] = ti.emit()
            # no other module re-defines Expr._select
            for fn in sorted(os.listdir(os.path.join(core.REPO, 'lcapy'))):
                if fn.endswith('.py') and fn not in ('expr.py', 'mnacpts.py'):
                    if re.search(r'^\s+def _select\(', open(os.path.join(core.REPO, 'lcapy', fn)).read(), re.M):
                        raise TI.Untranslatable('lcapy/%s: re-defines _select' % fn)
        except (TI.Untranslatable, OSError, SyntaxError) as e:
            res.failed_obl.append(('translate_immittance', 'lcapy/oneport.py ...', str(e)))
            res.obligations += 1
            ti = None
        # the Coq run of the property files goes on in a thread while the real code runs in worker processes
        coqstate = {'model_ok': False, 'allr': {}}

        def prove():
            allr = coqstate['allr']
            r0 = core.coqc_many(w.dir, ['StampsGen.v', 'ImmittanceGen.v'], timeout=300)
            allr.update(r0)
            if all(r[0] for r in r0.values()):
                r1 = core.coqc_many(w.dir, ['C01model.v', 'C14.v', 'C14reg.v', 'C14imm.v', 'C01.v', 'C14axioms.v'], timeout=1500)
                if r1['C14imm.v'][0]:
                    allr.update(core.coqc_many(w.dir, ['C14sym.v'], timeout=600))
                allr.update(r1)
                if r1['C01model.v'][0] and r1['C14.v'][0] and r1['C14imm.v'][0]:
                    r2 = core.coqc_many(w.dir, ['C14model.v'] + (['C01net.v'] if r1['C01.v'][0] else []), timeout=900)
                    allr.update(r2)
                    coqstate['model_ok'] = r2['C14model.v'][0]
                    if r1['C14reg.v'][0] and r2.get('C01net.v', (False,))[0]:
                        allr.update(core.coqc_many(w.dir, ['C14net.v'], timeout=900))
        prover = None
        if tr is not None and ti is not None:
            for f in PROPS:
                texts[f] = open(os.path.join(core.VERIF, 'coq', 'props', f)).read()
            # axioms of the theory theorems (compiled by the setup build), as printed by Coq in this run
            texts['C14axioms.v'] = ('Require Import LT.PhasorHom LT.PhasorTime LT.PhasorReal.\n' + '\n'.join(
                'Print Assumptions %s.' % t for t in ('node_res_hom', 'br_res_hom', 'solution_transport', 'transported_solution_unique',
                                                      'superposition', 'sol_scale', 'superposition_sum', 'sol_unique',
                                                      'phasor_time_roundtrip', 'roundtrip_unique', 'deriv_is_jw', 'steady_R', 'steady_L', 'steady_C',
                                                      'phasor_time_roundtrip_cos_R', 'phasor_time_roundtrip_sin_R', 'dtime_is_derivative',
                                                      'steady_state_C_R', 'steady_state_L_R', 'polar_sound', 'polar_modulus', 'mag_sq_quotient',
                                                      'polar_R_right', 'polar_R_left')) + '\n')
            for f, t in texts.items():
                w.write(f, t)
            bad = core.gate_text('generated+props', '\n'.join(texts.values()))
            for f in ('PhasorHom.v', 'PhasorTime.v', 'PhasorReal.v', 'PhasorSym.v'):
                bad += core.gate_text(f, open(os.path.join(core.COQ_THEORY, f)).read())
            if bad:
                res.failed_obl.append(('gate', 'props', '; '.join(bad)))
                res.obligations += 1
            log('coqc props (background)')
            import threading
            prover = threading.Thread(target=prove)
            prover.start()
            res.extra['immittance_table'] = ti.summary()
        for f in ('PhasorHom.v', 'PhasorTime.v', 'PhasorReal.v', 'PhasorSym.v'):
            names = core.obligations_in(open(os.path.join(core.COQ_THEORY, f)).read())
            res.obligations += len(names)
            res.discharged += len(names)
        res.notes.append('the four real-number axioms are used only by theory/PhasorReal.v; all other C14 theorems are closed under the global context')

        # ---- correspondence + oracle ------------------------------------------------------
        cases = [dict(c) for c in CORPUS] + gen_cases(rng, tier) + gen_sym_cases(rng, tier)
        # own generator state: the families above keep the inputs they had before this family was added
        cases += gen_symomega_cases(random.Random(core.seed() * 104729 + 1414), tier)
        pcases = gen_phasor_cases(rng, tier)
        ocases = ode_cases() + gen_symphase_cases(rng, tier)
        if replay and 'case' in replay:
            cases, pcases, ocases = [replay['case']], [], []
            if replay['case'].get('mode') == 'phasor':
                cases, pcases = [], [replay['case']]
        for c_ in cases:
            c_['tp_src'] = tr.tp_src if tr is not None else {}
        allc = cases + pcases + ocases
        log('run impl on %d cases' % len(allc))
        wres_all = core.run_impl('impl_ac.py', allc)
        log('impl done')
        model_ok = False
        if prover is not None:
            prover.join()
            log('props done')
            allr = coqstate['allr']
            model_ok = coqstate['model_ok']
            for f in PROPS + ['C14axioms.v']:
                if f not in allr:
                    res.failed_obl.append(('prerequisite', f, 'not checked: a prerequisite file failed'))
                    res.obligations += 1
            res.coq_results(w.dir, allr, {f: texts[f] for f in allr})
            res.extra['coq_seconds'] = {f: round(r[2], 1) for f, r in allr.items()}
        wres = wres_all[:len(cases)]
        pres = wres_all[len(cases):len(cases) + len(pcases)]
        ores = wres_all[len(cases) + len(pcases):]
        items, labels, gi, ncirc = [], {}, 0, 0
        for ci, (case, wr) in enumerate(zip(cases, wres)):
            if 'error' in wr:
                res.count('impl_error:' + wr['error'].split(':')[0])
                continue
            ncirc += 1
            for t in case.get('tags', []):
                res.count('tag_' + t)
            nontriv = bool(wr.get('ac'))
            res.count('ac_kinds', len(wr.get('ac', {})))
            # independent oracle
            case0 = case
            if case.get('omega_points'):
                # the angular frequencies of the ac sub-netlists must be the symbols the sources were given
                exp_k = set(t_['w'] for s_ in case['src'] for t_ in src_terms(s_['desc']))
                for k_ in wr.get('kinds', []):
                    if k_ not in exp_k and k_ not in ('dc', 's', 't', 'time', 'ivp', 'transient', 'laplace', 'super') and not re.match(r'^n\d', k_):
                        res.counterexamples.append({'case': case0, 'what': 'ac sub-netlist of angular frequency %s' % k_,
                                                    'reported': 'kinds %s' % wr.get('kinds'), 'expected': 'kinds among %s' % sorted(exp_k)})
            for wkey, ad in wr.get('ac', {}).items():
                if 'error' in ad:
                    continue
                case = inst_case(case0, ad['sympoint']['i']) if ad.get('sympoint') else case0
                try:
                    o = oracle_solve(case, wkey)
                except Exception as ex:          # an oracle crash is never a verdict
                    res.count('oracle_crash')
                    o = None
                if o is None:
                    res.count('oracle_unsupported_or_singular')
                    continue
                res.count('oracle_evaluated')
                oV, oI = o
                if isinstance(ad.get('transfer'), dict) and ad['transfer'].get('hang'):
                    # non-termination (measured in CPU seconds of the worker) is a failure of the real code on this input
                    res.counterexamples.append({'case': case0, 'omega': wkey,
                                                'ladder': any('laddernetworkmaker' in x for x in ad['transfer'].get('where', [])),
                                                'what': 'transfer(%s) does not terminate' % ','.join(case['transfer']),
                                                'reported': ad['transfer']['error'], 'expected': 'a transfer function'})
                # transfer function through the oracle: only the input source active, at unit value
                if isinstance(ad.get('transfer'), str) and case.get('transfer_src'):
                    uc = dict(case)
                    uc['src'] = [dict(s_, P={wkey: ['1', '0'] if s_['name'] == case['transfer_src'] else ['0', '0']}) for s_ in case['src']]
                    try:
                        ou = oracle_solve(uc, wkey)
                    except Exception:
                        ou = None
                    if ou is not None and case['transfer_elt'] in ou[0]:
                        hv = ou[0][case['transfer_elt']]
                        tr_, ti_ = gpair(ad['transfer'])
                        res.count('oracle_transfer_evaluated')
                        if not (hv.r == tr_ and hv.i == ti_):
                            res.counterexamples.append({'case': case0, 'omega': wkey, 'ladder': bool(ad.get('transfer_ladder')),
                                                        'what': 'transfer(%s)(j*%s)' % (','.join(case['transfer']), wkey),
                                                        'reported': ad['transfer'], 'expected': '%s,%s' % (hv.r, hv.i)})
                for attr, od in (('V', oV), ('I', oI)):
                    for nm, val in od.items():
                        rep = ad.get(attr, {}).get(nm)
                        if not isinstance(rep, str):
                            continue
                        rr, ri = gpair(rep)
                        if not (val.r == rr and val.i == ri):
                            res.counterexamples.append({'case': case0, 'omega': wkey, 'what': '%s.%s[%s]' % (nm, attr, wkey),
                                                        'reported': rep, 'expected': '%s,%s' % (val.r, val.i)})
            case = case0
            res.add_case('\n'.join(case['netlist']), nontriv,
                         {'netlist': case['netlist'], 'kinds': wr.get('kinds')} if len(res.samples) < 4 else None)
            if tr is None or not model_ok:
                continue
            for label, defn, expr in build_checks(ci, case, wr, tr, res):
                items.append((gi, defn, expr, ci))
                labels[gi] = (label, ('circuit', ci))
                gi += 1
        # phasor round trips
        for pi_, (pc, pr) in enumerate(zip(pcases, pres)):
            if 'error' in pr:
                res.count('phasor_error:' + pr['error'].split(':')[0])
                if not pc.get('oracle_only') and not re.match(r'worker crashed|timeout|MemoryError', pr['error']):
                    res.counterexamples.append({'case': pc, 'what': 'phasor() raised on a sinusoid: ' + pr['error'][:120]})
                continue
            res.add_case('phasor:' + pc['expr'], True)
            if pc.get('family'):
                res.count('phasor_' + pc['family'])
            if pr.get('refused'):
                # a refusal (ValueError 'Expecting an AC signal') is an error, not a wrong value
                res.count('phasor_refused_' + ('nonsinusoid' if pc.get('family') == 'nonsinusoid' else 'sinusoid'))
                continue
            if pr.get('diff_zero') is False:
                res.counterexamples.append({'case': pc, 'what': 'phasor(%s).time() differs from the sinusoid' % pc['expr'], 'reported': pr.get('time_str'), 'expected': pc['expr']})
            if pr.get('expected_ok') is False:
                res.counterexamples.append({'case': pc, 'what': 'phasor(%s) is not (cos coefficient) - j (sin coefficient)' % pc['expr'],
                                            'reported': pr.get('got'), 'expected': pr.get('expected')})
            if pr.get('expected_ok') is True:
                res.count('phasor_value_checked_by_oracle')
            if pc.get('oracle_only') or not model_ok:
                continue
            wkey = pr.get('omega')
            if pc.get('terms'):
                tm = pr.get('time') or {}
                cc, sc = (tm.get('terms', {}).get(wkey) or [None, None])
                if pr.get('P') is None or cc is None or sc is None or tm.get('rest') != '0':
                    res.count('phasor_polar_not_gaussian_rational')
                    continue
                items.append((gi, None, 'check_srcP %s %s %s && check_time %s %s %s && qc_eqb %s %s' % (
                    qc(wkey), desc_lit({'form': 't', 'terms': pc['terms']}), gq(pr['P']), gq(pr['P']), qc(cc.split(',')[0]), qc(sc.split(',')[0]),
                    qc(wkey), qc(pc['w'])), -1))
                labels[gi] = ('phasor/' + pc['expr'], ('phasor', pi_))
                gi += 1
                continue
            t = pc['term']
            tl = 'Term %s %s (%d) %s' % ('TCos' if t['f'] == 'cos' else 'TSin', qc(t['A']), t['k'], qc(t['w']))
            tm = pr.get('time') or {}
            cc, sc = (tm.get('terms', {}).get(wkey) or [None, None])
            if pr.get('P') is None or cc is None or sc is None or tm.get('rest') != '0' or Fraction(wkey) != Fraction(t['w']):
                items.append((gi, None, 'false', -1))
            else:
                items.append((gi, None, 'check_phasor (%s) %s %s %s' % (tl, gq(pr['P']), qc(cc.split(',')[0]), qc(sc.split(',')[0])), -1))
            labels[gi] = ('phasor/' + pc['expr'], ('phasor', pi_))
            gi += 1
        for oc, orr in zip(ocases, ores):
            if oc.get('mode') == 'symphase':
                if 'error' in orr:
                    res.count('symphase_error:' + orr['error'].split(':')[0])
                    continue
                res.count('symbolic_phase_circuits')
                res.count('symbolic_phase_phasors_compared', orr.get('compared', 0))
                res.add_case('symphase:' + '\n'.join(oc['netlist']), orr.get('compared', 0) > 0)
                for bd in orr.get('bad', []):
                    res.counterexamples.append({'case': oc, 'what': 'ac source with symbolic phase: ' + bd})
                continue
            if 'error' in orr:
                res.count('ode_error')
                continue
            res.count('ode_checked')
            if orr.get('residual_zero') is False:
                res.counterexamples.append({'case': oc, 'what': 'reconstructed sinusoid does not satisfy the circuit ODE (%s): residual %s' % (oc['ode'], orr.get('residual'))})
        res.programs = ncirc
        failing = []
        if items:
            shards, cur, cur_c = [], [], set()
            for it in items:
                if len(cur) >= 220 and it[3] not in cur_c:
                    shards.append(cur)
                    cur, cur_c = [], set()
                cur.append(it)
                cur_c.add(it[3])
            if cur:
                shards.append(cur)
            fns = []
            for si, sh in enumerate(shards):
                w.write('cases_%d.v' % si, cases_file([(a, b_, c) for a, b_, c, _ in sh]))
                fns.append('cases_%d.v' % si)
            log('coqc %d case files' % len(fns))
            cr = core.coqc_many(w.dir, fns, timeout=900)
            log('cases done')
            for f, (ok, out, secs) in cr.items():
                fl = core.parse_eval_list(out) if ok else None
                if fl is None:
                    res.failed_obl.append(('correspondence_eval', f, out[-700:]))
                    res.obligations += 1
                else:
                    failing += fl
            res.extra['traces_validated_against_impl'] = len(items)
        for g in failing:
            lab, (kind_, idx) = labels[g]
            res.disagreements.append({'check': lab, 'case': cases[idx] if kind_ == 'circuit' else pcases[idx]})
        res.rule = ('random connected netlists (netgen: R/L/C tree + chords + controlled sources, transformer, gyrator, mutual inductance, '
                    'two-ports, wires, ammeters) whose 1-4 independent sources are ac sources (amplitude, phase in {0, +-pi/2, pi}, rational omega) or '
                    't-domain cos/sin expressions (one or two frequencies per source, 1-2 distinct frequencies per circuit) plus a fixed corpus; '
                    'circuits whose sources carry a symbolic angular frequency (omega_0 by default, w1; ac and t-domain forms, dc offsets), each evaluated at '
                    '(degree bound + 1) rational sample points; single-sinusoid phasor round trips; non-trivial = Lcapy produced at least one ac sub-netlist; distinct = distinct netlist text')

        # ---- decide ----------------------------------------------------------------------
        seen = set()

        def fingerprint(case, what='', ladder=False):
            if case.get('mode') == 'phasor' and case.get('family') == 'nonsinusoid':
                return 'ACChecker._is_ac:product-of-sinusoids' if case.get('product') else 'phasor:nonsinusoid-accepted'
            if case.get('mode') == 'symphase':
                return 'symbolic-phase'
            if case.get('product_source'):
                return 'ACChecker._is_ac:product-of-sinusoids'
            if case.get('mode') == 'phasor':
                return 'phasor-roundtrip' + ((':polar-branch' if case['family'] == 'polar' else ':same-frequency-sum') if case.get('family') else '')
            if case.get('mode') == 'ode':
                return 'ode-substitution:' + str(case.get('ode'))
            if what.startswith('transfer') and ladder:
                return 'NetlistOpsMixin.transfer:ladder-shortcut'
            if what.startswith('transfer') and not what.startswith('transfer_phasor'):
                return None           # the transfer function itself does not depend on the source values
            if has_same_omega_terms(case):
                return 'tdomain-source:same-omega-terms'
            return None
        for ce in res.counterexamples:
            fp = fingerprint(ce['case'], ce.get('what', ''), ce.get('ladder', False))
            kind_ = 'transfer' if ce.get('what', '').startswith('transfer') else (re.findall(r'\.([VI])\[', ce.get('what', '')) or ['other'])[0]
            key = fp or ('oracle:' + kind_)
            if key in seen:
                continue
            seen.add(key)
            violations.append({'key': key, 'what': 'ac result differs from the textbook phasor solution: %s (reported %s, expected %s)' % (
                ce['what'], ce.get('reported'), ce.get('expected')), 'case': ce['case'], 'found_input': True})
        have_input = bool(res.counterexamples)
        for d in res.disagreements:
            kind_of = d['check'].split('/')[-1].split('_')[0] if not d['check'].startswith('phasor/') else 'phasor'
            fp = fingerprint(d['case'], d['check'].split('/')[-1], d['check'].endswith('@ladder')) if d['case'].get('mode') != 'phasor' else None
            key = fp or ('correspondence:' + kind_of)
            if key in seen:
                continue
            seen.add(key)
            violations.append({'key': key, 'what': 'model and implementation differ on %s (%s)' % (kind_of, d['check']),
                               'case': d['case'], 'check': d['check'], 'found_input': bool(fp),
                               'correspondence': 'Gen.C14model'})
        for name, f, msg in res.failed_obl:
            if name == 'prerequisite':
                name = 'prerequisite:' + f
            violations.append({'key': 'obligation:' + name, 'what': 'Coq obligation %s in %s no longer checks' % (name, f),
                               'theorem': name, 'file': f, 'message': msg, 'found_input': False,
                               'note': 'a failing input, if one was found by the oracle, is reported as a separate violation' if have_input else ''})
        return core.finish(res, violations)
    finally:
        if not os.environ.get('VERIF_KEEP'):
            w.cleanup()


if __name__ == '__main__':
    sys.exit(run(sys.argv[1] if len(sys.argv) > 1 else 'quick'))
