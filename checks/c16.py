"""C16 - results depend only on the circuit or expression, not on history or
environment.

  translate  lcapy/netlist*.py, netfile.py, circuit.py, mnacpts.py, node.py, transformers
             -> Gen/CachesGen.v (memoised keys, cleared keys, dependency lists, abstract
             programs of every function in the MRO of Circuit, summary hints)  (tools/tr_caches.py)
  prove      coq/theory/History.v (hand-written, generic): history_independent,
             public_history_independent, world_history_independent, copy_isolated,
             history_refuted, exec_sound (verified abstract interpreter), cached_equals_uncached
             coq/props/C16xform.v (hand-written, generic): doit_transparent, default_mismatch_refuted, xform_factors
             (model of the doit() entry points of lcapy/transformer.py over calls with keyword options and defaults);
             Gen/C16_xform.v: xform_transparent_<cls> / xform_refuted_<cls>_<opt> per transformer class
             Gen/C16_*.v (generated): per memoised key `cleared_<k>`, per public operation
             `op_<f>`, `progs_consistent`, `inv_lists_ok`, `c16_history_independent`;
             for keys that are NOT cleared the machine-checked refutation `refuted_<k>`
  correspond random sessions (one interpreter each): add/remove/queries/copies/rewrites
             interleaved with unrelated circuits and transforms; every observation is
             compared with the same query on Circuit(str(cct)) in fresh interpreters under
             the same and a different PYTHONHASHSEED; the History model (instantiated with
             the translated lists) is evaluated INSIDE Coq on every session and must predict
             each answer (fresh / which stale value), each netlist text and each filled slot
  search     the sessions themselves (independent oracle = fresh interpreter), targeted
             templates per broken obligation, delta-debugging of failing sessions to a
             minimal operation list, attribution by dropping one memoised attribute
"""
import json
import os
import random
import re
import subprocess
import sys
import time
from concurrent.futures import ThreadPoolExecutor

sys.path.insert(0, os.path.dirname(os.path.dirname(os.path.abspath(__file__))))
from vlib import core
sys.path.insert(0, os.path.join(core.VERIF, 'tools'))
import tr_caches as TR
import c16_ops as OPS

PID = 'C16'
MANIFEST = {
    'text': 'Coq theorems about a generic memoisation state machine (data, cache, raw writes, invalidation, queries with '
            'dependencies, evictions, several objects) prove that after EVERY finite history of accepted public operations '
            'every query returns what a freshly built object returns, that operations on copies/derived/unrelated objects never '
            'change an object\'s data, and that a cached transform equals the uncached one.  The instance is regenerated from the '
            'source on every run: memoised attributes, what _invalidate clears, an abstract program of every function in the MRO of '
            'Circuit (checked by a Coq-verified abstract interpreter), transformer cache keys.  The model is evaluated inside Coq on '
            'every explored session and must predict the real answers (fresh or which stale value), texts and filled slots.  '
            'Expression-level caches: a Coq model of the three doit() entry points of lcapy/transformer.py (evaluate bypass, cache flag, '
            'look-up, store, post-processing) with doit_transparent (after ANY history of calls with any options a call returns what an empty '
            'cache returns, provided every option the computation consults is in key() with the SAME default) and default_mismatch_refuted; '
            'instantiated per transformer class (xform_transparent_<cls> / xform_refuted_<cls>_<option>) from the regenerated (option, default) '
            'lists and the fail-closed translation of each doit() body.',
    'note': 'Trusted: Coq kernel/vm_compute; tools/tr_caches.py (AST -> tables/abstract programs; call resolution by name in the MRO, '
            'exceptions only where `raise`/try occur); the canonicalisers in tools/c16_ops.py; the fresh-interpreter oracle '
            '(forked from a just-imported interpreter, discrepancies re-confirmed in brand-new interpreters).  Public operations now include '
            'the public methods of the node/component objects a circuit hands out (Node.rename, Cpt.open_circuit, ...: obligations cbop_*), '
            'in-place modification of memoised values (queries_do_not_mutate_cache) and reassignment of process-wide switches that the analyses '
            'read (env_switches_ok; the switch is part of the data identity in the explored sessions).  Transformer options: consulted = '
            'kwargs.get/pop/[] sites and named parameters bound through a **kwargs splat in the methods of the class and its bases (passing '
            '**options to a foreign method is Untranslatable; Ratfun(expr, z, **kwargs) in InverseZTransformer is a plain-name call and not followed); '
            'None/False defaults are identified only where the value is provably used for its truth value; instance attributes read by the '
            'computation must be assigned by check() (tstate_<cls>; conditional assignment inside check() is not distinguished); classes that '
            'inherit key() (InverseFourier, InverseDFT) are covered through their base.  Not modelled: SubNetlist/MNA helper '
            'objects (never mutated), symbol assumptions (explored, not proved), objects after a mutator raised.',
    'technique': 'Coq proof (induction over histories, verified abstract interpretation of translated programs) + in-Coq evaluation of the '
                 'history model against stateful differential exploration with fresh-interpreter oracle and delta debugging',
}

HEADER = '''(* GENERATED from %s by tools/tr_caches.py + checks/c16.py.
   Do not edit: regenerated from /repo on every run. *)
Require Import LT.History.
From Coq Require Import List Bool Arith.
Import ListNotations.
'''
ZSEEDS = [11, 23, 37, 41]          # PYTHONHASHSEED values used for workers and fresh interpreters
import threading
MAXPROC = min(8, core.NCPU)        # lcapy worker processes alive at any time (shared machine; each is capped at 3 GiB)
PROC_SEM = threading.BoundedSemaphore(MAXPROC)


def skipped(*vals):
    """a step that hit the memory / time guard is not judged"""
    return any(isinstance(v, str) and v.startswith(OPS.SKIP_MARKS) for v in vals)


def ident(s):
    return re.sub(r'[^A-Za-z0-9_]', '_', s)


# ---- Coq generation -----------------------------------------------------------------------
class Gen:
    def __init__(self, T):
        self.T = T
        self.key_id = {k: i for i, k in enumerate(T.key_order)}
        self.nkeys = len(T.key_order)
        self.progs = [(i, q, TR.simplify(p)) for i, q, p in T.all_progs()]
        self.idx = T.fn_index

    def flags(self, fl):
        return 'None' if fl is None else 'Some (%s, %s)' % (str(fl[0]).lower(), str(fl[1]).lower())

    def gen_defs(self):
        T = self.T
        out = [HEADER % ', '.join('%s %s' % (f, T.cs.shas[f][:12]) for f in sorted(T.cs.shas))]
        out.append('(* memoised attributes (topologically numbered):')
        for k in T.key_order:
            m = T.memo[k]
            out.append('   %2d %-26s %-8s %s line %d%s' % (self.key_id[k], k, m['kind'], m['owner'], m['line'],
                                                          '' if k in T.cleared else '   NOT CLEARED by _invalidate'))
        out.append('*)')
        out.append('Definition memo_l : list nat := [%s].' % '; '.join(str(i) for i in range(self.nkeys)))
        out.append('Definition cleared_l : list nat := [%s].' % '; '.join(str(self.key_id[k]) for k in T.key_order if k in T.cleared))
        out.append('Definition deps_l : list (nat * list nat) := [%s].' % '; '.join(
            '(%d, [%s])' % (self.key_id[k], '; '.join(str(self.key_id[d]) for d in sorted(T.key_deps[k], key=lambda x: self.key_id[x])))
            for k in T.key_order))
        out.append('Definition readsdata_l : list nat := [%s].' % '; '.join(str(self.key_id[k]) for k in T.key_order if T.key_readsdata[k]))
        out.append('(* abstract programs: one per function of the MRO of Circuit, per call-back name, per foreign function that receives the circuit *)')
        out.append('Definition progs : list (nat * stm) := [')
        out.append(';\n'.join('  (* %s *) (%d, %s)' % (q, i, TR.coq_stm(p, self.idx)) for i, q, p in self.progs))
        out.append('].')
        out.append('(* summary hints (exit flags for entry flags ff, ft, tf, tt): only trusted after progs_consistent *)')
        rows = []
        for i, q, p in self.progs:
            row = T.sigma_table[q]
            rows.append('  (%d, [%s])' % (i, '; '.join(self.flags(row[fl]) for fl in [(False, False), (False, True), (True, False), (True, True)])))
        out.append('Definition sigma_l : list (nat * list (option flags)) := [\n' + ';\n'.join(rows) + '\n].')
        out.append('(* public operations: functions of the MRO of Circuit and public methods of the component / node objects it hands out *)')
        out.append('Definition public_l : list nat := [%s].' % '; '.join([str(self.idx[q]) for q in T.public] + [str(self.idx['cb:' + n]) for n in T.cb_public]))
        out.append('Definition public_ok_l : list nat := [%s].' % '; '.join(str(self.idx[q]) for q in T.public if T.op_ok[q]))
        out.append('Definition ctors_l : list nat := [%s].' % '; '.join(str(self.idx[q]) for q in sorted(T.ctor_ok)))
        out.append('(* returned objects that received a non-invalidating internal mutator: S flag at return (translator analysis) *)')
        out.append('Definition local_sites : list bool := [%s].' % '; '.join(str(s[3]).lower() for s in T.local_sites))
        kw = {}
        for t in T.transformers:
            for u in list(t['used']) + t['covered']:
                kw.setdefault(u, len(kw))
        self.kw = kw
        out.append('(* transformer caches: (options consulted, options in key()) as interned names %s *)' % json.dumps(kw))
        for t in T.transformers:
            used = [u for u in t['used'] if u not in TR.KW_EXEMPT]
            out.append('Definition tk_%s : list nat * list nat := ([%s], [%s]).' % (
                t['cls'], '; '.join(str(kw[u]) for u in used), '; '.join(str(kw[u]) for u in t['covered'])))
        # options with the default under which they are consulted / listed in key(): interned
        dflt = {}
        self.dflt = dflt
        for t in T.transformers:
            for u in list(t['key_defaults']) + [p[0] for p in t['opt_pairs']]:
                kw.setdefault(u, len(kw))
            for d in list(t['key_defaults'].values()) + [p[1] for p in t['opt_pairs']]:
                dflt.setdefault(d, len(dflt))
        out.append('(* transformer caches, with defaults: (option, default) consulted by the computation / listed in key(); defaults interned %s *)' % json.dumps(dflt))
        for t in T.transformers:
            out.append('Definition tkd_%s : list (nat * nat) * list (nat * nat) := ([%s], [%s]).' % (
                t['cls'], '; '.join('(%d, %d)' % (kw[u], dflt[d]) for u, d in t['opt_pairs']),
                '; '.join('(%d, %d)' % (kw[u], dflt[d]) for u, d in sorted(t['key_defaults'].items()))))
        return '\n'.join(out) + '\n'

    def obligations(self):
        """[(name, statement, proof, expected_true, violation_key)]"""
        T = self.T
        ob = [('deps_wf', 'deps_ok_b deps_l = true', 'vm_compute. reflexivity.', True, None)]
        for k in T.key_order:
            ob.append(('cleared_' + ident(k), 'mem %d cleared_l = true' % self.key_id[k], 'vm_compute. reflexivity.',
                       k in T.cleared, 'stale:' + k))
        for q in T.public:
            nm = q.split('.')[-1]
            ob.append(('op_' + ident(q), 'summary_ok sigma_l %d (true, false) = true' % self.idx[q], 'vm_compute. reflexivity.',
                       T.op_ok[q], ('noinvalidate:' + q) if nm in OPS.MUT_ENTRY else ('mutates:' + nm)))
        for n in T.cb_public:
            owner = (T.cb_owner[n] or ['?.' + n])[0]
            ob.append(('cbop_' + ident(n), 'summary_ok sigma_l %d (true, false) = true' % self.idx['cb:' + n], 'vm_compute. reflexivity.',
                       T.cb_ok[n], 'noinvalidate:' + owner))
        envbad = [x for x in T.env_switch_names if x not in T.env_invalidating]
        ob.append(('env_switches_ok', '%s = true' % str(not envbad).lower(), 'reflexivity.', not envbad, 'env:' + ','.join(envbad)))
        for q in sorted(T.ctor_ok):
            ob.append(('ctor_' + ident(q), 'summary_ok sigma_l %d (false, false) = true' % self.idx[q], 'vm_compute. reflexivity.',
                       T.ctor_ok[q], 'constructor:' + q))
        for (q, v, line, ok) in T.local_sites:
            pass
        ob.append(('locals_ok', 'forallb (fun b => b) local_sites = true', 'vm_compute. reflexivity.', all(s[3] for s in T.local_sites),
                   'receiver:' + ','.join('%s.%s' % (s[0], s[1]) for s in T.local_sites if not s[3])))
        cm = getattr(T, 'cache_mutation_sites', [])
        ob.append(('queries_do_not_mutate_cache', '%s = true' % str(not cm).lower(), 'reflexivity.', not cm,
                   'cachemutation:' + ','.join(sorted({'%s:%s' % (c['func'], c['key']) for c in cm}))))
        db = getattr(T, 'detach_bad', [])
        ob.append(('remove_detaches_as_attached', '%s = true' % str(not db and T.attach_ok and bool(T.detach)).lower(), 'reflexivity.',
                   not db and T.attach_ok and bool(T.detach), 'detach:' + ','.join(sorted({x['func'] for x in db})) if db else 'detach:attach-side'))
        ob.append(('raw_writes_ok', '%s = true' % str(not T.raw_sites_bad).lower(), 'reflexivity.', not T.raw_sites_bad,
                   'rawwrite:' + ','.join('%s:%s' % (s[0], s[1]) for s in T.raw_sites_bad)))
        for t in T.transformers:
            ok = not t['missing'] and t['head_ok']
            ob.append(('tkey_' + t['cls'], 'forallb (fun u => mem u (snd tk_%s)) (fst tk_%s) = true' % (t['cls'], t['cls']),
                       'vm_compute. reflexivity.', not t['missing'], 'transformkey:%s:%s' % (t['cls'], ','.join(t['missing']))))
            ob.append(('tkeyhead_' + t['cls'], '%s = true' % str(t['head_ok']).lower(), 'reflexivity.', t['head_ok'], 'transformkey:%s:head' % t['cls']))
            mm = sorted({m['opt'] for m in t['default_mismatch']})
            ob.append(('tkeydef_' + t['cls'], 'incl_pairs (fst tkd_%s) (snd tkd_%s) = true' % (t['cls'], t['cls']), 'vm_compute. reflexivity.',
                       not mm, 'transformkey:%s:default:%s' % (t['cls'], ','.join(mm))))
            ob.append(('tstate_' + t['cls'], '%s = true' % str(not t['state_bad']).lower(), 'reflexivity.', not t['state_bad'],
                       'transformstate:%s:%s' % (t['cls'], ';'.join(t['state_bad'])[:120])))
        return ob

    def gen_files(self):
        T = self.T
        files = {}
        ob = self.obligations()
        pre = HEADER % 'lcapy' + 'Require Import Gen.CachesGen Gen.C16xform.\n'
        good = [o for o in ob if o[3]]
        txt = [pre]
        for n, st, pf, _, _ in good:
            txt.append('Lemma %s : %s.\nProof. %s Qed.' % (n, st, pf))
        files['C16_ok.v'] = '\n'.join(txt) + '\n'
        files['C16_prog.v'] = pre + 'Theorem progs_consistent : consistent_b progs sigma_l = true.\nProof. vm_compute. reflexivity. Qed.\n'
        for i, (n, st, pf, _, key) in enumerate(o for o in ob if not o[3]):
            files['C16_bad_%d.v' % i] = pre + 'Lemma %s : %s.\nProof. %s Qed.\n' % (n, st, pf)
        files['C16_main.v'] = pre + '''
Theorem inv_lists_ok :
  forallb (fun k => mem k cleared_l) memo_l && deps_ok_b deps_l && public_ok progs sigma_l public_l = true.
Proof. vm_compute. reflexivity. Qed.

(* For every data type, every value type, every way [compute] the attribute bodies compute
   their result from the data and from the attributes they read: after ANY finite history of
   public operations of Circuit (executions of the translated programs, with arbitrary
   interleaved evictions by other instances) every attribute query returns exactly what a
   circuit freshly built from the current data returns. *)
Theorem c16_history_independent :
  forall (data val : Type) (compute : nat -> data -> list val -> val)
         (ops : list (list (event data))) (d0 : data) (k : nat),
  Forall (is_public_op data progs public_l) ops ->
  let s := run data val (fun k => mem k memo_l) (fun k => mem k cleared_l) (deps_of deps_l) compute (concat ops) (init d0) in
  fst (query data val (fun k => mem k memo_l) (deps_of deps_l) compute k s) = derive data val (deps_of deps_l) compute k (sdata s).
Proof.
  intros. apply (public_history_independent data val _ _ _ compute progs sigma_l public_l).
  - apply incl_ok_b_sound. vm_compute. reflexivity.
  - apply deps_ok_b_sound. vm_compute. reflexivity.
  - vm_compute. reflexivity.
  - assumption.
Qed.
Print Assumptions c16_history_independent.
'''
        xt = [pre,
              '(* per transformer class: the regenerated option lists and the translated shape of its doit() instantiate the generic theorems *)']
        for t in T.transformers:
            c = t['cls']
            hb, hf = str(t['doit_bypass']).lower(), str(t['doit_flag']).lower()
            if not t['default_mismatch'] and not t['missing']:
                xt.append('''Theorem xform_transparent_%s :
  forall (Hd R O : Type) (f : Hd -> kwargs nat -> R) (post : Hd * kwargs nat -> R -> O) (noeval : Hd * kwargs nat -> O)
         (keqb : Hd * list nat -> Hd * list nat -> bool),
  (forall h k1 k2, (forall ud, In ud (fst tkd_%s) -> kget nat k1 ud = kget nat k2 ud) -> f h k1 = f h k2) ->
  (forall a b, keqb a b = true -> a = b) ->
  forall (cs : list (xcall Hd nat)) (c : xcall Hd nat),
  fst (doit Hd nat R O (snd tkd_%s) f post noeval keqb %s %s c
         (fold_left (fun t y => snd (doit Hd nat R O (snd tkd_%s) f post noeval keqb %s %s y t)) cs [])) = uncached Hd nat R O f post noeval %s c.
Proof. intros. apply (doit_transparent Hd nat R O (fst tkd_%s)); auto. apply incl_pairs_sound. vm_compute. reflexivity. Qed.
Print Assumptions xform_transparent_%s.''' % (c, c, c, hb, hf, c, hb, hf, hb, c, c))
            for m in t['default_mismatch']:
                u, dk, du = self.kw[m['opt']], self.dflt[m['key_default']], self.dflt[m['use_default']]
                xt.append('''(* %s: key() lists option %s with default %s, %s consults it with default %s *)
Theorem xform_refuted_%s_%s :
  forall (Hd R O : Type) (f : Hd -> kwargs nat -> R) (post : Hd * kwargs nat -> R -> O) (noeval : Hd * kwargs nat -> O)
         (keqb : Hd * list nat -> Hd * list nat -> bool), (forall a, keqb a a = true) ->
  forall (h : Hd) (kw : kwargs nat),
  let x1 := (h, kw_set nat kw %d (Some %d)) in let x0 := (h, kw_set nat kw %d None) in
  %d <> %d /\\ kget nat (snd x1) (%d, %d) = %d /\\ kget nat (snd x0) (%d, %d) = %d /\\
  fst (doit Hd nat R O (snd tkd_%s) f post noeval keqb %s %s (x0, (true, true))
         (snd (doit Hd nat R O (snd tkd_%s) f post noeval keqb %s %s (x1, (true, true)) []))) = post x0 (fx Hd nat R f x1).
Proof.
  intros Hd R O f post noeval keqb Hr h kw x1 x0.
  destruct (default_mismatch_refuted Hd nat R O (snd tkd_%s) f post noeval keqb Hr %d %d %d h kw %s %s) as [_ [A [B C]]].
  - apply key_default_is_sound. vm_compute. reflexivity.
  - split; [discriminate|]. split; [exact A|]. split; [exact B|exact C].
Qed.
Print Assumptions xform_refuted_%s_%s.''' % (c, m['opt'], m['key_default'], m['site'], m['use_default'], c, ident(m['opt']),
                                             u, dk, u, dk, du, u, du, dk, u, du, du, c, hb, hf, c, hb, hf, c, u, dk, du, hb, hf, c, ident(m['opt'])))
        files['C16_xform.v'] = '\n'.join(xt) + '\n'
        bad_keys = [k for k in T.key_order if k not in T.cleared]
        if bad_keys:
            txt = [pre, '(* memoised attributes that _invalidate does not clear: machine-checked witness histories *)']
            for k in bad_keys:
                kid = self.key_id[k]
                txt.append('''Theorem refuted_%s :
  forall (data val : Type) (compute : nat -> data -> list val -> val) (d : data) (f : data -> data),
  derive data val (deps_of deps_l) compute %d (f d) <> derive data val (deps_of deps_l) compute %d d ->
  let ops := [[EQuery %d]; [EWrite f; EInval]] in
  let s := run data val (fun k => mem k memo_l) (fun k => mem k cleared_l) (deps_of deps_l) compute (concat ops) (init d) in
  Forall (accepted data) ops /\\
  fst (query data val (fun k => mem k memo_l) (deps_of deps_l) compute %d s) <> derive data val (deps_of deps_l) compute %d (sdata s).
Proof.
  intros. apply history_refuted_stale; auto.
  - apply deps_ok_b_sound. vm_compute. reflexivity.
Qed.
Print Assumptions refuted_%s.''' % (ident(k), kid, kid, kid, kid, kid, ident(k)))
            files['C16_refute.v'] = '\n'.join(txt) + '\n'
        return files, ob



# ---- session generation --------------------------------------------------------------------
BASES = [
    ['V1 1 0 6', 'R1 1 2 2', 'R2 2 0 4'],
    ['V1 1 0 step 5', 'R1 1 2 2', 'C1 2 0 3'],
    ['V1 1 0 step 6', 'R1 1 2 2', 'C1 2 0 3', 'R2 2 3 4', 'L1 3 0 4'],
    ['I1 0 1 2', 'R1 1 0 R1', 'R2 1 2 3', 'C1 2 0 C'],
    ['V1 1 0 step 4', 'R1 1 2 3', 'C1 2 0 2 5'],
    ['V1 1 0 5', 'V2 1 2 3', 'R1 2 0 2'],
    ['I1 0 1 2', 'R1 1 0 2', 'R2 1 0 3', 'R3 1 2 4', 'R4 2 0 5'],
    ['V1 1 0 5', 'R1 1 2 2', 'R2 2 3 3', 'R3 3 0 4'],
    ['V1 1 0 step 2', 'L1 1 2 3', 'R1 2 0 R'],
    ['V1 1 0 3', 'R1 1 2 2', 'W 2 3', 'R2 3 0 5', 'I1 0 2 1'],
    ['V1 1 0 step 2', 'R1 1 2 3', 'W 2 3', 'C1 3 0 2', 'R2 3 0 4'],
    ['V1 1 0 12', 'R1 1 2 2', 'R2 2 0 4', 'E1 3 0 2 3 3', 'R3 3 0 8'],
    ['V1 1 0 step 3', 'R1 1 2 2', 'E1 3 0 1 0 2', 'R2 3 2 4', 'C1 2 0 1'],
    ['I1 0 1 3', 'R1 1 2 2', 'W 2 3', 'W 3 4', 'R2 4 0 5', 'R3 2 0 6', 'W 0 5', 'R4 1 5 7'],
]
OTHERS = [
    ['V9 7 0 9', 'R9 7 8 R1', 'C9 8 0 C'],
    ['I9 0 5 step 3', 'R1 5 0 7', 'L9 5 6 2', 'R2 6 0 1'],
    ['V1 1 0 step 1', 'R1 1 0 R'],
]
XFORMS = [
    {'what': 'laplace', 'e': 'exp(-3*t)*u(t)'}, {'what': 'laplace', 'e': '2*t*exp(-t)*u(t)'}, {'what': 'laplace', 'e': 'cos(2*t)*u(t)'},
    {'what': 'ilt', 'e': '1/(s+2)'}, {'what': 'ilt', 'e': '1/(s+2)', 'kw': {'causal': True}}, {'what': 'ilt', 'e': '(s+1)/(s**2+5*s+6)'},
    {'what': 'ilt', 'e': 'R/(s*R*C+1)'}, {'what': 'laplace', 'e': 'R*exp(-t/C)*u(t)'},
    {'what': 'symbol', 'name': 'R', 'kw': {'real': True}}, {'what': 'symbol', 'name': 'C', 'kw': {'negative': True}},
    {'what': 'symbol', 'name': 'R1', 'kw': {'positive': False, 'real': True}},
    {'what': 'simplify', 'e': 'sqrt(R**2)'}, {'what': 'simplify', 'e': 'sqrt(R1**2) + abs(C)'},
    {'what': 'fourier', 'e': 'exp(-3*t)*u(t)'},
    # the same expression under different options: the options are part of what a cached result may be reused for
    {'what': 'ilt', 'e': '1/(s**2+3*s+2)', 'kw': {'damped_sin': True}}, {'what': 'ilt', 'e': '1/(s**2+3*s+2)'},
    {'what': 'ilt', 'e': '1/(s**2+3*s+2)', 'kw': {'damped_sin': False}},
    {'what': 'laplace', 'e': 'diff(x(t), t)', 'kw': {'zero_initial_conditions': False}}, {'what': 'laplace', 'e': 'diff(x(t), t)'},
    {'what': 'laplace', 'e': 'diff(x(t), t)', 'kw': {'zero_initial_conditions': True}},
    {'what': 'izt', 'e': 'z/(z-1/2)'}, {'what': 'izt', 'e': 'z/(z-1/2)', 'kw': {'causal': True}},
    {'what': 'izt', 'e': 'z**2/(z**2+z/2+1/4)', 'kw': {'pairs': False}}, {'what': 'izt', 'e': 'z**2/(z**2+z/2+1/4)'},
    {'what': 'izt', 'e': 'z**2/(z**2+z/2+1/4)', 'kw': {'pairs': True}}, {'what': 'zt', 'e': '(1/2)**n*u(n)'},
    {'what': 'dft', 'e': 'delta(n-1)', 'kw': {'N': 4}}, {'what': 'dft', 'e': 'delta(n-1)', 'kw': {'N': 8}}, {'what': 'dft', 'e': 'delta(n-1)'},
    {'what': 'idft', 'e': 'delta(k-1)', 'kw': {'N': 4}}, {'what': 'idft', 'e': 'delta(k-1)', 'kw': {'N': 8}},
    {'what': 'dtft', 'e': 'delta(n-2)'}, {'what': 'dtft', 'e': 'delta(n-2)', 'kw': {'images': 2}}, {'what': 'dtft', 'e': 'u(n)*(1/2)**n'},
]
XF_CLASS = {'ilt': 'InverseLaplaceTransformer', 'laplace': 'LaplaceTransformer', 'fourier': 'FourierTransformer', 'zt': 'ZTransformer',
            'izt': 'InverseZTransformer', 'dft': 'DFTTransformer', 'idft': 'DFTTransformer', 'dtft': 'DTFTTransformer'}
CHEAP_Q = ['complist', 'flags', 'switching', 'node_list', 'node_map', 'branch_list', 'enodes', 'cpts', 'nodes', 'lists', 'params', 'kinds']
MID_Q = ['V', 'I', 'Vc', 'cg', 'sim', 'text']
TOPO_Q = ['unconnected', 'nodes', 'nodes', 'wired_to', 'is_wired_to', 'across', 'in_series', 'in_parallel', 'loops', 'nodeinfo', 'enodes', 'node_map', 'cg']
COSTLY_Q = ['transfer', 'impedance', 'ss', 'nodal', 'mesh', 'thevenin', 'symbols']


class NetModel:
    """what the generator knows about an object (names and nodes), only used to pick arguments"""

    def __init__(self, lines):
        self.cpts = {}
        self.vals = {}
        for l in lines:
            self.add(l)

    def add(self, line):
        p = line.split()
        if p[0] == 'W':
            p[0] = 'W#%d' % len(self.cpts)
        self.cpts[p[0]] = p[1:5] if p[0][0] == 'E' and len(p) > 5 else p[1:3]
        if p[0][0] in 'RLC' and len(p) > 3:
            self.vals[p[0]] = p[3]

    def small(self):
        """cheap enough for the costly symbolic queries"""
        nsym = sum(1 for v in self.vals.values() if not v.replace('/', '').isdigit())
        return len(self.cpts) <= 6 and nsym <= 1

    def nodes(self):
        out = []
        for ns in self.cpts.values():
            for n in ns:
                if n not in out:
                    out.append(n)
        return out

    def copy(self):
        m = NetModel([])
        m.cpts = dict(self.cpts)
        m.vals = dict(self.vals)
        return m


def rand_query(rng, model, tier, kinds=None):
    r = rng.random()
    pool = CHEAP_Q if r < 0.38 else (TOPO_Q if r < 0.62 else (MID_Q if (r < 0.9 or not model.small()) else COSTLY_Q))
    if kinds:
        pool = kinds
    k = rng.choice(pool)
    q = {'k': k}
    nodes = [n for n in model.nodes() if n != '0'] or ['1']
    names = [c for c in model.cpts if not c.startswith('W')] or ['R1']
    if k in ('wired_to', 'nodeinfo'):
        q['a'] = rng.choice(model.nodes() or ['1'])
    elif k in ('is_wired_to', 'across'):
        q['a'] = rng.choice(model.nodes() or ['1'])
        q['b'] = rng.choice(model.nodes() or ['0'])
    elif k in ('in_series', 'in_parallel'):
        q['a'] = rng.choice(names)
    if k == 'V':
        q['a'] = rng.choice(nodes)
    elif k in ('I', 'Vc'):
        q['a'] = rng.choice(names)
    elif k == 'transfer':
        q['a'] = nodes[0]
        q['b'] = rng.choice(nodes)
    elif k in ('impedance', 'thevenin'):
        q['a'] = rng.choice(nodes)
        q['b'] = '0'
    return q


def rand_add(rng, model):
    typ = rng.choice(['R', 'R', 'R', 'C', 'L', 'V', 'I', 'W', 'W', 'SW', 'R', 'C', 'E', 'E'])
    nodes = model.nodes()
    a = rng.choice(nodes)
    b = rng.choice([n for n in nodes if n != a] + [str(len(nodes) + 3)])
    if rng.random() < 0.25 and any(c.startswith(typ) and not c.startswith('SW') for c in model.cpts) and typ not in ('W', 'SW'):
        name = rng.choice([c for c in model.cpts if c.startswith(typ)])     # override an existing component
    else:
        name = '%s%d' % (typ, rng.randint(4, 9))
    if typ == 'W':
        return 'W %s %s' % (a, b), 'W%s%s' % (a, b)
    if typ == 'E':
        c = rng.choice(nodes)
        return '%s %s %s %s %s %d' % (name, a, b, c, rng.choice([a, a, b, c]), rng.randint(2, 5)), name
    if typ == 'SW':
        return '%s %s %s no %d' % (name, a, b, rng.randint(0, 2)), name
    if typ == 'V':
        val = rng.choice(['%d' % rng.randint(1, 9), 'step %d' % rng.randint(1, 9)])
    elif typ == 'I':
        val = rng.choice(['%d' % rng.randint(1, 9), 'step %d' % rng.randint(1, 9)])
    else:
        nsym = sum(1 for v in model.vals.values() if not v.replace('/', '').isdigit())
        val = rng.choice([name, 'R']) if (rng.random() < 0.15 and nsym < 2) else '%d' % rng.randint(1, 9)
    return '%s %s %s %s' % (name, a, b, val), name


def gen_session(rng, tier, sid, nops=None):
    steps = []
    models = {}
    base = rng.choice(BASES)
    steps.append({'op': 'new', 'obj': 'a', 'text': '\n'.join(base)})
    models['a'] = NetModel(base)
    nobj = 1
    nops = nops or rng.randint(4, 12)
    qrate = rng.choice([0.0, 1.0, 2.0, 3.0])

    def queries(objs, n):
        for _ in range(n):
            o = rng.choice(objs)
            steps.append({'op': 'query', 'obj': o, 'q': rand_query(rng, models[o], tier)})
    queries(['a'], rng.randint(0, 4))
    for _ in range(nops):
        live = sorted(models)
        o = rng.choice(live) if rng.random() < 0.3 else 'a'
        r = rng.random()
        if r < 0.30:
            line, name = rand_add(rng, models[o])
            steps.append({'op': 'mut', 'obj': o, 'm': {'how': 'add', 'line': line}})
            models[o].add(line)
        elif r < 0.42 and len(models[o].cpts) > 2:
            name = rng.choice(list(models[o].cpts))
            if name.startswith('W'):
                continue
            steps.append({'op': 'mut', 'obj': o, 'm': {'how': 'remove', 'name': name}})
            models[o].cpts.pop(name, None)
        elif r < 0.47:
            name = rng.choice([c for c in models[o].cpts if not c.startswith('W')] or ['R1'])
            steps.append({'op': 'mut', 'obj': o, 'm': {'how': rng.choice(['open_circuit', 'short_circuit']), 'name': name}})
        elif r < 0.72:
            how = rng.choice(['remove_dangling', 'remove_disconnected', 'copy', 'copy', 'subs', 'kill', 'simplify', 'select', 'replace', 'laplace', 'r_model', 'prune', 'kill_except', 'transient', 'dc'])
            d = {'how': how}
            m2 = models[o].copy()
            if how == 'subs':
                d['map'] = {rng.choice(['R', 'C', 'R1', 'R2']): rng.randint(2, 9)}
            elif how == 'select':
                d['kind'] = rng.choice(['dc', 'transient', 'laplace', 'time'])
            elif how == 'replace':
                old = rng.choice([c for c in models[o].cpts if not c.startswith('W')] or ['R1'])
                d['old'] = old
                d['new'] = '%s %s %s %d' % (old, models[o].cpts.get(old, ['1', '0'])[0], models[o].cpts.get(old, ['1', '0'])[1], rng.randint(2, 9))
            elif how == 'prune':
                d['name'] = rng.choice([c for c in models[o].cpts if not c.startswith('W')] or ['R1'])
                m2.cpts.pop(d['name'], None)
            elif how == 'kill_except':
                srcs = [c for c in models[o].cpts if c[0] in 'VI']
                d['args'] = [rng.choice(srcs)] if srcs else []
            nobj += 1
            name = 'o%d' % nobj
            steps.append({'op': 'derive', 'obj': o, 'as': name, 'd': d})
            models[name] = m2
        elif r < 0.84:
            # unrelated circuit
            nobj += 1
            name = 'u%d' % nobj
            other = rng.choice(OTHERS)
            steps.append({'op': 'new', 'obj': name, 'text': '\n'.join(other)})
            models[name] = NetModel(other)
            queries([name], rng.randint(1, 3))
        elif r < 0.88:
            steps.append({'op': 'env', 'e': {'name': 'current_sign_convention', 'val': rng.choice(['active', 'hybrid', 'passive', 'passive'])}})
        elif r < 0.91:
            ns = [n for n in models[o].nodes() if n != '0'] or ['1']
            steps.append({'op': 'mut', 'obj': o, 'm': {'how': 'rename_node', 'name': rng.choice(ns), 'new': str(rng.randint(10, 14))}})
        else:
            steps.append({'op': 'xform', 't': rng.choice(XFORMS)})
            if rng.random() < 0.5:
                steps.append(dict(steps[-1]))        # the same transform again: cached = uncached
        n = int(qrate) + (1 if rng.random() < qrate - int(qrate) else 0)
        queries(sorted(models), rng.randint(0, max(1, n)))
    queries(sorted(models), rng.randint(2, 5))
    return {'id': sid, 'steps': steps}


def targeted_sessions(T, rng, bad_keys, bad_ops, workdir):
    """templates aimed at a memoised attribute that is not cleared / a public mutator that
    does not invalidate: query every view, mutate, query again"""
    out = []
    views_of = {}
    for kind, entries in OPS.ENTRY.items():
        ks = set()
        for e in entries:
            try:
                ks |= closure_keys(T, e)
            except TR.Untranslatable:
                pass
        views_of[kind] = ks
    # the process-wide transform caches: every transform twice, in two orders, around an unrelated circuit
    xs = [{'op': 'xform', 't': t} for t in XFORMS]
    out.append({'id': 'target_xforms_fwd', 'steps': [{'op': 'new', 'obj': 'a', 'text': '\n'.join(BASES[3])}] + xs + [dict(x) for x in xs] +
                [{'op': 'query', 'obj': 'a', 'q': {'k': 'V', 'a': '2'}}]})
    out.append({'id': 'target_xforms_rev', 'steps': [dict(x) for x in reversed(xs)] + [{'op': 'new', 'obj': 'a', 'text': '\n'.join(BASES[3])},
                {'op': 'query', 'obj': 'a', 'q': {'k': 'V', 'a': '2'}}] + [dict(x) for x in xs]})
    # node table after removing / re-adding components whose terminals share a node
    for bi, name, line in ((len(BASES) - 4, 'E1', 'E1 3 0 2 3 3'), (len(BASES) - 3, 'E1', 'E1 3 0 1 0 2')):
        base = BASES[bi]
        obs = [{'op': 'query', 'obj': 'a', 'q': {'k': k}} for k in ('nodes', 'unconnected', 'node_list')] + \
              [{'op': 'derive', 'obj': 'a', 'as': 'd%d', 'd': {'how': 'remove_dangling'}}]
        steps = [{'op': 'new', 'obj': 'a', 'text': '\n'.join(base)}]
        k = 0
        for m in ({'how': 'remove', 'name': name}, {'how': 'remove', 'name': [l.split()[0] for l in base if l.split()[0] != name][-1]},
                  {'how': 'add', 'line': line}, {'how': 'add', 'line': line}):
            steps.append({'op': 'mut', 'obj': 'a', 'm': m})
            for o in obs:
                o = json.loads(json.dumps(o))
                if 'as' in o:
                    k += 1
                    o['as'] = 'd%d' % k
                steps.append(o)
        out.append({'id': 'target_nodetable_%d' % bi, 'steps': steps})
    # node-level and topology queries, twice and in two orders, with no mutation in between
    for bi in (len(BASES) - 2, len(BASES) - 1):
        base = BASES[bi]
        m = NetModel(base)
        qs = []
        for n in m.nodes():
            qs.append({'op': 'query', 'obj': 'a', 'q': {'k': 'wired_to', 'a': n}})
        for k in ('enodes', 'node_map', 'node_list', 'loops', 'cg', 'nodes'):
            qs.append({'op': 'query', 'obj': 'a', 'q': {'k': k}})
        ns = m.nodes()
        for a in ns[:4]:
            for b in ns[:4]:
                if a < b:
                    qs.append({'op': 'query', 'obj': 'a', 'q': {'k': 'is_wired_to', 'a': a, 'b': b}})
                    qs.append({'op': 'query', 'obj': 'a', 'q': {'k': 'across', 'a': a, 'b': b}})
        for c in [x for x in m.cpts if not x.startswith('W')]:
            qs.append({'op': 'query', 'obj': 'a', 'q': {'k': 'in_series', 'a': c}})
            qs.append({'op': 'query', 'obj': 'a', 'q': {'k': 'in_parallel', 'a': c}})
        new = [{'op': 'new', 'obj': 'a', 'text': '\n'.join(base)}]
        out.append({'id': 'target_topology_fwd_%d' % bi, 'steps': new + qs + [dict(x) for x in qs]})
        out.append({'id': 'target_topology_rev_%d' % bi, 'steps': new + [dict(x) for x in reversed(qs)] + [dict(x) for x in qs]})
    # process-wide switches read by the analyses: answers before / while / after a reassignment
    for name in getattr(T, 'env_switch_names', []):
        if name not in OPS.ENV_DEFAULTS:
            continue
        qs = [{'op': 'query', 'obj': 'a', 'q': {'k': 'I', 'a': 'R1'}}, {'op': 'query', 'obj': 'a', 'q': {'k': 'I', 'a': 'V1'}},
              {'op': 'query', 'obj': 'a', 'q': {'k': 'Vc', 'a': 'R1'}}]
        out.append({'id': 'target_env_' + name, 'steps': [{'op': 'new', 'obj': 'a', 'text': '\n'.join(BASES[0])}] + qs +
                    [{'op': 'env', 'e': {'name': name, 'val': 'active'}}] + [dict(x) for x in qs] +
                    [{'op': 'env', 'e': {'name': name, 'val': OPS.ENV_DEFAULTS[name]}}] + [dict(x) for x in qs]})
    # public methods of node objects that write the netlist
    for n in getattr(T, 'cb_public', []):
        if not T.cb_ok[n] and ('cb:' + n) in [e for es in OPS.MUT_ENTRY.values() for e in es]:
            how = [h for h, es in OPS.MUT_ENTRY.items() if 'cb:' + n in es][0]
            qs = [{'op': 'query', 'obj': 'a', 'q': {'k': k}} for k in ('node_list', 'node_map', 'cg', 'nodes', 'enodes')]
            out.append({'id': 'target_cb_' + ident(n), 'steps': [{'op': 'new', 'obj': 'a', 'text': '\n'.join(BASES[0])}] + qs +
                        [{'op': 'mut', 'obj': 'a', 'm': {'how': how, 'name': '2', 'new': '7'}}] + [dict(x) for x in qs] +
                        [{'op': 'query', 'obj': 'a', 'q': {'k': 'V', 'a': '7'}}]})
    for key in bad_keys:
        kinds = sorted(k for k, ks in views_of.items() if key in ks and k not in ('symbols',))
        for bi in (1, 3):
            base = BASES[bi]
            m = NetModel(base)
            steps = [{'op': 'new', 'obj': 'a', 'text': '\n'.join(base)}]
            qs = []
            for k in kinds:
                qs.append({'op': 'query', 'obj': 'a', 'q': rand_query(rng, m, 'quick', [k])})
            steps += qs
            steps.append({'op': 'mut', 'obj': 'a', 'm': {'how': 'add', 'line': 'SW7 2 0 no 1' if bi == 1 else 'C7 2 0 4'}})
            steps += [dict(q) for q in qs]
            steps.append({'op': 'mut', 'obj': 'a', 'm': {'how': 'remove', 'name': 'R1'}})
            steps += [dict(q) for q in qs]
            out.append({'id': 'target_%s_%d' % (ident(key), bi), 'steps': steps})
    for q in bad_ops:
        name = q.split('.')[-1]
        if name not in OPS.MUT_ENTRY:
            # a public operation that is not a mutator but writes the circuit's data
            for bi in (1, 2):
                base = BASES[bi]
                m = NetModel(base)
                pre = [{'op': 'new', 'obj': 'a', 'text': '\n'.join(base)}, {'op': 'query', 'obj': 'a', 'q': {'k': 'flags'}}]
                for kind, entries in OPS.ENTRY.items():
                    if name in entries:
                        out.append({'id': 'target_op_%s_%s_%d' % (ident(q), kind, bi), 'steps': pre + [{'op': 'query', 'obj': 'a', 'q': rand_query(rng, m, 'quick', [kind])},
                                                                                                  {'op': 'query', 'obj': 'a', 'q': {'k': 'Vc', 'a': 'V1'}}]})
                for how, entries in OPS.DERIVE_ENTRY.items():
                    if name in entries:
                        out.append({'id': 'target_op_%s_%s_%d' % (ident(q), how, bi), 'steps': pre + [{'op': 'derive', 'obj': 'a', 'as': 'b', 'd': {'how': how}},
                                                                                                 {'op': 'query', 'obj': 'a', 'q': {'k': 'Vc', 'a': 'V1'}}]})
            continue
        fpath = os.path.join(workdir, 'extra.sch')
        base = BASES[1]
        m = NetModel(base)
        steps = [{'op': 'new', 'obj': 'a', 'text': '\n'.join(base)}]
        qs = [{'op': 'query', 'obj': 'a', 'q': rand_query(rng, m, 'quick', [k])} for k in ['flags', 'node_list', 'branch_list', 'V', 'cg', 'lists', 'kinds']]
        steps += qs
        steps.append({'op': 'mut', 'obj': 'a', 'm': {'how': name, 'file': fpath, 'file_text': 'R8 2 0 7\nC8 2 0 2\n'}})
        steps += [dict(x) for x in qs]
        out.append({'id': 'target_op_%s' % ident(q), 'steps': steps})
    return out


def closure_keys(T, entry):
    """all memo keys reachable from an entry attribute (through memoised ones as well)"""
    ks, _ = T.view(entry)
    seen = set()
    stack = list(ks)
    while stack:
        k = stack.pop()
        if k in seen:
            continue
        seen.add(k)
        stack.extend(T.key_deps.get(k, ()))
    return seen


# ---- running ---------------------------------------------------------------------------------
def run_session(sess, hashseed, memo_attrs, timeout=300):
    env = dict(os.environ, PYTHONPATH=core.REPO, PYTHONHASHSEED=str(hashseed))
    payload = dict(sess, memo_attrs=memo_attrs)
    try:
        with PROC_SEM:
            r = subprocess.run([core.PY, '-W', 'ignore', os.path.join(core.VERIF, 'tools', 'impl_history.py')], input=json.dumps(payload),
                               stdout=subprocess.PIPE, stderr=subprocess.PIPE, text=True, env=env, cwd=core.VERIF, timeout=timeout)
        return json.loads(r.stdout)
    except Exception as e:
        return {'error': '%s: %s' % (type(e).__name__, str(e)[:200])}


def run_sessions(sessions, memo_attrs):
    with ThreadPoolExecutor(max_workers=MAXPROC) as ex:
        futs = [ex.submit(run_session, s, s['hashseed'], memo_attrs) for s in sessions]
        return [f.result() for f in futs]


class Fresh:
    """memoising front-end of tools/impl_fresh.py: (hash seed, request) -> canonical result"""

    def __init__(self):
        self.cache = {}

    def key(self, seed, req):
        return '%d|%s' % (seed, json.dumps(req, sort_keys=True))

    def need(self, pairs):
        todo = {}
        for seed, req in pairs:
            k = self.key(seed, req)
            if k not in self.cache and k not in todo:
                todo[k] = (seed, req)
        if not todo:
            return
        by_seed = {}
        for k, (seed, req) in todo.items():
            by_seed.setdefault(seed, []).append((k, req))
        jobs = []
        per = max(1, MAXPROC // max(1, len(by_seed)))
        for seed, items in by_seed.items():
            n = min(per, len(items))
            for i in range(n):
                jobs.append((seed, items[i::n]))

        def work(job):
            seed, items = job
            env = dict(os.environ, PYTHONPATH=core.REPO, PYTHONHASHSEED=str(seed))
            try:
                with PROC_SEM:
                    r = subprocess.run([core.PY, '-W', 'ignore', os.path.join(core.VERIF, 'tools', 'impl_fresh.py')],
                                       input=json.dumps([req for _, req in items]), stdout=subprocess.PIPE, stderr=subprocess.PIPE,
                                       text=True, env=env, cwd=core.VERIF, timeout=900)
                res = json.loads(r.stdout)
                assert len(res) == len(items)
            except Exception as e:
                res = ['ERR:fresh-worker-crash'] * len(items)
            return [(k, v) for (k, _), v in zip(items, res)]
        with ThreadPoolExecutor(max_workers=MAXPROC) as ex:
            for part in ex.map(work, jobs):
                for k, v in part:
                    self.cache[k] = v

    def get(self, seed, req):
        return self.cache.get(self.key(seed, req))

    def confirm(self, seed, req):
        """one request in a brand-new interpreter (no fork)"""
        env = dict(os.environ, PYTHONPATH=core.REPO, PYTHONHASHSEED=str(seed))
        try:
            with PROC_SEM:
                r = subprocess.run([core.PY, '-W', 'ignore', os.path.join(core.VERIF, 'tools', 'impl_fresh.py'), '--nofork'],
                                   input=json.dumps([req]), stdout=subprocess.PIPE, stderr=subprocess.PIPE, text=True, env=env, cwd=core.VERIF, timeout=300)
            return json.loads(r.stdout)[0]
        except Exception:
            return 'ERR:fresh-worker-crash'


def other_seed(seed):
    return ZSEEDS[(ZSEEDS.index(seed) + 1) % len(ZSEEDS)]


def is_ground_insertion(before, after):
    """Lcapy documents (with a warning) that analysing a netlist without node 0 first adds
    `W <node> 0`; that is the only data change tolerated from a query"""
    b = [l for l in before.split('\n') if l.strip()]
    a = [l for l in after.split('\n') if l.strip()]
    if len(a) != len(b) + 1 or a[:len(b)] != b:
        return False
    m = re.match(r'^W (\S+) 0$', a[-1].strip())
    has0 = any('0' in l.split()[1:3] for l in b if not l.startswith('#'))
    return bool(m) and not has0


def lines_of(text):
    return sorted(l.strip() for l in OPS._names(text).split('\n') if l.strip())


def step_requests(sess, recs):
    """fresh requests needed to judge every step of a session: list of (step index, kind, request)"""
    out = []
    prev_texts = {}
    for i, (st, rec) in enumerate(zip(sess['steps'], recs)):
        op = st['op']
        if op == 'query':
            txt = rec['texts'].get(st['obj'])
            if txt is not None and not txt.startswith('ERR:') and '#kind ?' not in txt:
                out.append((i, 'query', {'text': txt, 'q': st['q']}))
        elif op == 'derive':
            src = prev_texts.get(st['obj'])
            if src is not None and '#kind ?' not in src and not src.startswith('ERR:'):
                out.append((i, 'derive', {'text': src, 'd': st['d']}))
        elif op == 'xform':
            out.append((i, 'xform', {'t': st['t']}))
        prev_texts = rec['texts']
    return out


def judge(sess, recs, fresh):
    """compare a session with the fresh oracle.  Returns (counterexamples, stats)"""
    seed = sess['hashseed']
    oseed = other_seed(seed)
    ces = []
    stats = {'queries': 0, 'stale': 0, 'derives': 0, 'xforms': 0, 'hashseed_dependent': 0, 'errors_equal': 0, 'benign_text': 0}
    prev_texts = {}
    seen_xform = {}
    # a mutator that raised may have stopped half-way (exceptional exits are outside the quantifier):
    # the object is not judged from there on
    dead_at = {}
    for i, (st, rec) in enumerate(zip(sess['steps'], recs)):
        if st['op'] == 'mut' and str(rec['r']).startswith('ERR:') and st['obj'] not in dead_at:
            dead_at[st['obj']] = i
    for i, kind, req in step_requests(sess, recs):
        st, rec = sess['steps'][i], recs[i]
        if st.get('obj') in dead_at and i >= dead_at[st['obj']]:
            stats['after_failed_mutator'] = stats.get('after_failed_mutator', 0) + 1
            continue
        oseed = other_seed(seed)
        same, diff = fresh.get(seed, req), fresh.get(oseed, req)
        if same is None or diff is None or 'fresh-worker-crash' in str(same) + str(diff) or 'childcrash' in str(same) + str(diff):
            continue
        if skipped(same, diff, rec['r']):
            stats['skipped_resource_guard'] = stats.get('skipped_resource_guard', 0) + 1
            continue
        if kind == 'query':
            stats['queries'] += 1
            obs = rec['r']
            if same != diff:
                stats['hashseed_dependent'] += 1
                ces.append({'kind': 'hashseed', 'what': 'query:' + st['q']['k'], 'step': i, 'req': req, 'seeds': [seed, oseed], 'results': [same, diff]})
                continue
            if obs != same:
                stats['stale'] += 1
                ces.append({'kind': 'history', 'what': 'query:' + st['q']['k'], 'step': i, 'req': req, 'observed': obs, 'fresh': same})
            elif obs.startswith('ERR:'):
                stats['errors_equal'] += 1
        elif kind == 'derive':
            stats['derives'] += 1
            obs = rec['r']
            got = OPS._names(rec['texts'].get(st['as'], '')) if obs == 'ok' else obs
            for sd in ZSEEDS:
                alt = fresh.get(sd, req)
                if alt is not None and not skipped(alt) and 'crash' not in alt and alt != same and \
                        (alt.startswith('ERR:') or same.startswith('ERR:') or lines_of(alt) != lines_of(same)):
                    diff, oseed = alt, sd
                    break
            if same != diff:
                if same.startswith('ERR:') or diff.startswith('ERR:') or lines_of(same) != lines_of(diff):
                    stats['hashseed_dependent'] += 1
                    ces.append({'kind': 'hashseed', 'what': 'derive:' + st['d']['how'], 'step': i, 'req': req, 'seeds': [seed, oseed], 'results': [same, diff]})
                    continue
                stats['benign_text'] += 1
            if got != same:
                if got.startswith('ERR:') or same.startswith('ERR:') or lines_of(got) != lines_of(same):
                    ces.append({'kind': 'history', 'what': 'derive:' + st['d']['how'], 'step': i, 'req': req, 'observed': got, 'fresh': same})
                else:
                    stats['benign_text'] += 1
        elif kind == 'xform':
            stats['xforms'] += 1
            obs = rec['r']
            if same != diff:
                stats['hashseed_dependent'] += 1
                ces.append({'kind': 'hashseed', 'what': 'xform:' + st['t']['what'], 'step': i, 'req': req, 'seeds': [seed, oseed], 'results': [same, diff]})
                continue
            if obs != same:
                ces.append({'kind': 'history', 'what': 'xform:' + st['t']['what'], 'step': i, 'req': req, 'observed': obs, 'fresh': same})
    # an operation on one object must not change the text of any other object
    prev = {}
    last_env = {}        # object -> name of the switch whose reassignment was the last change of its data
    ce_at = {ce['step']: ce for ce in ces if ce['kind'] == 'history'}
    for i, (st, rec) in enumerate(zip(sess['steps'], recs)):
        target = st.get('as') if st['op'] == 'derive' else st.get('obj')
        for name, txt in rec['texts'].items():
            if name in prev and prev[name] != txt:
                last_env[name] = st['e']['name'] if st['op'] == 'env' else None
        if i in ce_at and last_env.get(st.get('obj')):
            ce_at[i]['env'] = last_env[st['obj']]
        if st['op'] == 'env':
            prev = rec['texts']
            continue
        for name, txt in rec['texts'].items():
            if name in prev and prev[name] != txt and not (st['op'] == 'mut' and name == target):
                if name in dead_at and i >= dead_at[name]:
                    continue
                if is_ground_insertion(prev[name], txt):
                    stats['ground_inserted'] = stats.get('ground_inserted', 0) + 1
                    continue
                entry = st['q']['k'] if st['op'] == 'query' else (st['d']['how'] if st['op'] == 'derive' else st['op'])
                if name == st.get('obj') and st['op'] in ('query', 'derive'):
                    what = 'mutates:' + entry          # a query / rewrite changed its own circuit
                else:
                    what = 'isolation:' + entry        # an operation changed ANOTHER circuit
                ces.append({'kind': 'isolation', 'what': what, 'step': i, 'obj': name, 'before': prev[name], 'after': txt})
        prev = rec['texts']
    return ces, stats


# ---- the History model evaluated inside Coq on the observed sessions -----------------------------
class CoqCases:
    def __init__(self, T, gen):
        self.T, self.gen = T, gen
        self.views = {}          # view key -> (id, deps, readsdata)
        self.vals = {}
        self.datas = {}
        self.fresh = {}          # (data id, view id) -> value id

    def vid(self, s):
        return self.vals.setdefault(s, len(self.vals) + 1)

    def did(self, s):
        return self.datas.setdefault(s, len(self.datas) + 1)

    def view(self, kind, table, args=''):
        key = '%s|%s' % (kind, args)
        if key not in self.views:
            ks, rd = set(), False
            for e in table[kind]:
                if not e.startswith('cb:') and self.T.resolve(e) is None:
                    rd = True          # a plain data attribute of the circuit (e.g. nodes)
                    continue
                k2, d2 = self.T.view(e)
                ks |= k2
                rd = rd or d2
            self.views[key] = (self.gen.nkeys + len(self.views), sorted(self.gen.key_id[k] for k in ks), rd)
        return self.views[key][0]

    def encode(self, sess, recs, fresh, extra_fresh):
        """list of Coq sop terms for one session, plus the index map sop -> step"""
        seed = sess['hashseed']
        sops, where = [], []
        index = {}
        texts_prev = {}
        inst_keys = {k for k, m in self.T.memo.items() if m['kind'] in ('cprop', 'hasattr')}
        dead = set()         # objects on which a mutator raised (possibly half-way)

        def emit(term, i, tag):
            sops.append(term)
            where.append((i, tag))
        for i, (st, rec) in enumerate(zip(sess['steps'], recs)):
            op = st['op']
            texts = rec['texts']
            if op in ('mut', 'derive', 'query') and (st['obj'] not in index or st['obj'] not in texts):
                op = 'skip'          # refers to an object whose creation failed: the worker answered ERR:KeyError
            for o, txt in texts.items():
                if o in index and o in texts_prev and texts_prev[o] != txt and not (op == 'mut' and o == st.get('obj')):
                    # the data of an object changed although no mutator was applied to it (reported by the
                    # differential check as mutates:/isolation:): keep the model in step, without invalidation
                    self.views.setdefault('breach|', (self.gen.nkeys + len(self.views), [], False))
                    if op == 'env':
                        # a setter may drop SOME entries (e.g. only the class-level solutions); the model keeps them all
                        # as possibly stale, which the comparison tolerates (stale prediction, fresh observation)
                        emit('PMutNoInval %d %d %d' % (index[o], self.views['breach|'][0], self.did(txt)), i, 'env')
                    elif is_ground_insertion(texts_prev[o], txt):
                        emit('PMut %d %d %d' % (index[o], self.views['breach|'][0], self.did(txt)), i, 'ground')     # _add_ground -> add()
                    else:
                        emit('PMutNoInval %d %d %d' % (index[o], self.views['breach|'][0], self.did(txt)), i, 'breach')
            failed = str(rec['r']).startswith('ERR:')
            if op == 'mut' and failed and st['obj'] in index:
                dead.add(st['obj'])
            if op == 'new':
                if rec['r'] != 'ok' or st['obj'] in index:
                    self.why = 'new failed: %s' % rec['r']
                    return None
                index[st['obj']] = len(index)
                emit('PNew %d' % self.did(texts[st['obj']]), i, 'new')
            elif op == 'mut':
                o = st['obj']
                if o not in index or o not in texts:
                    self.why = 'mutator on unknown object'
                    return None
                v = self.view(st['m']['how'], OPS.MUT_ENTRY)
                ent = OPS.MUT_ENTRY[st['m']['how']][0]
                if ent.startswith('cb:'):
                    invalidates = self.T.cb_ok.get(ent[3:], True)
                else:
                    fi = self.T.resolve(ent)
                    invalidates = fi is None or self.T.op_ok.get(fi.qname, True)
                if failed and texts_prev.get(o) == texts[o]:
                    emit('PTouch %d %d' % (index[o], v), i, 'touch')          # the mutator raised before changing anything
                else:
                    emit('%s %d %d %d' % ('PMut' if invalidates and not failed else 'PMutNoInval', index[o], v, self.did(texts[o])), i, 'mut')
            elif op == 'derive':
                o = st['obj']
                if o not in index:
                    return None
                v = self.view(st['d']['how'], OPS.DERIVE_ENTRY)
                if rec['r'] == 'ok' and st['as'] not in index:
                    index[st['as']] = len(index)
                    dn = self.did(texts[st['as']])
                    emit('PDerive %d %d %d' % (index[o], v, dn), i, 'derive')
                    # the rewrite may hand the new object over with entries already filled (computed
                    # from the new object's own data while it was being built)
                    for k in rec['filled'].get(st['as'], []):
                        if k in inst_keys:
                            emit('PTouch %d %d' % (index[st['as']], self.gen.key_id[k]), i, 'touch')
                else:
                    emit('PTouch %d %d' % (index[o], v), i, 'touch')
            elif op == 'query':
                o = st['obj']
                if o not in index or o not in texts:
                    return None
                q = st['q']
                v = self.view(q['k'], OPS.ENTRY, json.dumps({a: b for a, b in q.items() if a != 'k'}, sort_keys=True))
                d = self.did(texts[o])
                req = {'text': texts[o], 'q': q}
                same, diff = fresh.get(seed, req), fresh.get(other_seed(seed), req)
                if same is None or same != diff or 'crash' in same or skipped(same, rec['r']) or o in dead:
                    emit('PTouch %d %d' % (index[o], v), i, 'touch')
                else:
                    self.fresh[(d, v)] = self.vid(same)
                    for (txt2, val2) in extra_fresh.get(i, []):
                        self.fresh.setdefault((self.did(txt2), v), self.vid(val2))
                    emit('PQuery %d %d %d' % (index[o], v, self.vid(rec['r'])), i, 'query')
            if failed:
                # exceptions are not modelled: whatever a failed operation left filled was computed from the current data
                for o in texts:
                    if o in index:
                        for k in rec['filled'].get(o, []):
                            if k in inst_keys:
                                emit('PTouch %d %d' % (index[o], self.gen.key_id[k]), i, 'touch')
            for o, txt in texts.items():
                if o in index:
                    emit('PText %d %d' % (index[o], self.did(txt)), i, 'text')
                    fk = [self.gen.key_id[k] for k in rec['filled'].get(o, []) if k in inst_keys]
                    if fk:
                        emit('PFilled %d [%s]' % (index[o], '; '.join(map(str, fk))), i, 'filled')
            texts_prev = texts
        return sops, where

    def file(self, encoded):
        """encoded: list of (session index, sops)"""
        vd = sorted(self.views.values())
        lines = [HEADER % '(observed sessions)', 'Require Import Gen.CachesGen.',
                 'Definition vdeps : list (nat * list nat) := deps_l ++ [%s].' % '; '.join('(%d, [%s])' % (i, '; '.join(map(str, d))) for i, d, _ in vd),
                 'Definition vrd : list nat := readsdata_l ++ [%s].' % '; '.join(str(i) for i, _, r in vd if r),
                 'Definition fresh_t : list ((nat * nat) * nat) := [%s].' % ';\n '.join('((%d, %d), %d)' % (d, v, x) for (d, v), x in sorted(self.fresh.items())),
                 'Definition S := session memo_l cleared_l vrd vdeps fresh_t.',
                 'Example vdeps_wf : deps_ok_b vdeps = true. Proof. vm_compute. reflexivity. Qed.']
        names = []
        for si, sops in encoded:
            lines.append('Definition sess_%d : list sop := [\n  %s].' % (si, ';\n  '.join(sops)))
            names.append('(%d, S sess_%d)' % (si, si))
        lines.append('Definition verdicts : list (nat * list (nat * nat)) := [%s].' % '; '.join(names))
        lines.append('Eval vm_compute in verdicts.')
        return '\n'.join(lines) + '\n'


def parse_verdicts(out):
    m = re.search(r'=\s*(\[.*\])\s*:\s*list \(nat \* list \(nat \* nat\)\)', out, re.S)
    if not m:
        return None
    body = m.group(1).replace('%nat', '')
    res = {}
    for sm in re.finditer(r'\(\s*(\d+),\s*\[(.*?)\]\)', body, re.S):
        si = int(sm.group(1))
        res[si] = [(int(a), int(b)) for a, b in re.findall(r'\(\s*(\d+),\s*(\d+)\)', sm.group(2))]
    return res


# ---- shrinking and attribution ------------------------------------------------------------------
def last_step_fails(sess, recs, fresh, kind):
    """does the last step of the session still disagree with the fresh oracle?"""
    if not isinstance(recs, list) or len(recs) != len(sess['steps']):
        return False
    st, rec = sess['steps'][-1], recs[-1]
    seed = sess['hashseed']
    if any(s2['op'] == 'mut' and s2.get('obj') == st.get('obj') and str(r2['r']).startswith('ERR:') for s2, r2 in zip(sess['steps'][:-1], recs[:-1])):
        return False        # a mutator raised on this object earlier: not judged
    if st['op'] == 'query':
        txt = rec['texts'].get(st['obj'])
        if txt is None:
            return False
        req = {'text': txt, 'q': st['q']}
        fresh.need([(seed, req)])
        f = fresh.get(seed, req)
        return f is not None and 'crash' not in f and rec['r'] != f and not skipped(f, rec['r'])
    if st['op'] == 'derive':
        src = recs[-2]['texts'].get(st['obj']) if len(recs) > 1 else None
        if src is None:
            return False
        req = {'text': src, 'd': st['d']}
        fresh.need([(seed, req)])
        f = fresh.get(seed, req)
        got = OPS._names(rec['texts'].get(st['as'], '')) if rec['r'] == 'ok' else rec['r']
        return f is not None and 'crash' not in f and (got.startswith('ERR:') != f.startswith('ERR:') or lines_of(got) != lines_of(f))
    if st['op'] == 'xform':
        req = {'t': st['t']}
        fresh.need([(seed, req)])
        f = fresh.get(seed, req)
        return f is not None and rec['r'] != f
    return False


def shrink(sess, upto, fresh, memo_attrs, budget=60, seconds=75):
    """delta debugging of the steps before `upto` (the failing step is kept last)"""
    steps = sess['steps'][:upto + 1]
    keep = list(range(len(steps) - 1))
    last = steps[-1]
    kind = last['op']

    def make(ixs):
        return {'id': sess['id'] + '_shrunk', 'hashseed': sess['hashseed'], 'steps': [steps[i] for i in ixs] + [last]}

    def test_many(cands):
        ss = [make(c) for c in cands]
        rs = run_sessions(ss, memo_attrs)
        return [last_step_fails(s, r, fresh, kind) for s, r in zip(ss, rs)]
    t_end = time.time() + seconds
    if not test_many([keep])[0]:
        return None
    used = 1
    n = 2
    while len(keep) >= 1 and used < budget and time.time() < t_end:
        size = max(1, len(keep) // n)
        chunks = [keep[i:i + size] for i in range(0, len(keep), size)]
        cands = [[x for x in keep if x not in ch] for ch in chunks]
        res = test_many(cands)
        used += len(cands)
        hit = [c for c, ok in zip(cands, res) if ok]
        if hit:
            keep = min(hit, key=len)
            n = max(n - 1, 2)
        elif size == 1:
            break
        else:
            n = min(len(keep), n * 2)
    # final pass: drop single steps while the failure persists
    rounds = 0
    while len(keep) > 1 and rounds < 6 and time.time() < t_end + 30:
        cands = [[x for x in keep if x != y] for y in keep[1:]]
        res = test_many(cands)
        hit = [c for c, ok in zip(cands, res) if ok]
        if not hit:
            break
        # removing them all at once often works too
        allgone = [x for x in keep if all(x in c for c in hit)]
        if len(hit) > 1 and test_many([allgone])[0]:
            keep = allgone
        else:
            keep = hit[0]
        rounds += 1
    return make(keep)


def shrink_iso(sess, obj, memo_attrs, budget):
    """minimise a session whose LAST step changes the data of `obj` although it is not a mutator of it"""
    steps = sess['steps']
    last = steps[-1]
    keep = list(range(len(steps) - 1))

    def make(ixs):
        return {'id': sess['id'] + '_shrunk', 'hashseed': sess['hashseed'], 'steps': [steps[i] for i in ixs] + [last]}

    def fails(s, r):
        if not isinstance(r, list) or len(r) != len(s['steps']) or len(r) < 2:
            return False
        a, b = r[-2]['texts'].get(obj), r[-1]['texts'].get(obj)
        return a is not None and b is not None and a != b

    def test_many(cands):
        ss = [make(c) for c in cands]
        return [fails(x, r) for x, r in zip(ss, run_sessions(ss, memo_attrs))]
    t_end = time.time() + 75
    if not test_many([keep])[0]:
        return None
    used, n = 1, 2
    while keep and used < budget and time.time() < t_end:
        size = max(1, len(keep) // n)
        chunks = [keep[i:i + size] for i in range(0, len(keep), size)]
        cands = [[x for x in keep if x not in ch] for ch in chunks]
        res = test_many(cands)
        used += len(cands)
        hit = [c for c, ok in zip(cands, res) if ok]
        if hit:
            keep = min(hit, key=len)
            n = max(n - 1, 2)
        elif size == 1:
            break
        else:
            n = min(len(keep), n * 2)
    return make(keep)


def override_is_cause(sess, fresh, memo_attrs):
    """counterfactual probe: does the discrepancy disappear when every add() of an already existing
    component name is preceded by remove() of that name?"""
    rs = run_sessions([sess], memo_attrs)[0]
    if not isinstance(rs, list):
        return False
    steps, changed = [], False
    prev = {}
    for st, rec in zip(sess['steps'], rs):
        if st['op'] == 'mut' and st['m']['how'] == 'add':
            name = st['m']['line'].split()[0]
            names = [l.split()[0] for l in prev.get(st['obj'], '').split('\n') if l.strip() and not l.startswith('#')]
            if name in names:
                steps.append({'op': 'mut', 'obj': st['obj'], 'm': {'how': 'remove', 'name': name}})
                changed = True
        steps.append(st)
        prev = rec['texts']
    if not changed:
        return False
    alt = {'id': 'probe', 'hashseed': sess['hashseed'], 'steps': steps}
    r2 = run_sessions([alt], memo_attrs)[0]
    return isinstance(r2, list) and len(r2) == len(steps) and not last_step_fails(alt, r2, fresh, steps[-1]['op'])


def attribute(sess, fresh, memo_attrs):
    """which single memoised attribute, when dropped just before the last step, makes the answer fresh?"""
    cands = []
    for a in memo_attrs:
        steps = sess['steps'][:-1] + [{'op': 'clear', 'obj': sess['steps'][-1].get('obj', 'a'), 'attr': a}] + [sess['steps'][-1]]
        cands.append({'id': 'attr', 'hashseed': sess['hashseed'], 'steps': steps})
    rs = run_sessions(cands, memo_attrs)
    return [a for a, c, r in zip(memo_attrs, cands, rs) if isinstance(r, list) and len(r) == len(c['steps']) and not last_step_fails(c, r, fresh, c['steps'][-1]['op'])]


# ---- main -------------------------------------------------------------------------------------------
def load_corpus():
    d = os.path.join(core.VERIF, 'corpus', PID)
    out = []
    if os.path.isdir(d):
        for f in sorted(os.listdir(d)):
            if f.endswith('.json'):
                try:
                    s = json.load(open(os.path.join(d, f)))
                    s['id'] = 'corpus_' + f[:-5]
                    out.append(s)
                except Exception:
                    pass
    return out


def ensure_history():
    """this check only needs LT.History: do not fail because another builder's theory file is
    being edited; fall back to the shared (locked) build when History.vo is missing or stale"""
    v = os.path.join(core.COQ_THEORY, 'History.v')
    vo = v + 'o'
    if os.path.exists(vo) and os.path.getmtime(vo) >= os.path.getmtime(v):
        return
    try:
        core.ensure_theory()
    except RuntimeError:
        pass
    if not (os.path.exists(vo) and os.path.getmtime(vo) >= os.path.getmtime(v)):
        r = subprocess.run(['coqc', '-q', '-Q', core.COQ_THEORY, 'LT', v], cwd=core.COQ_THEORY, stdout=subprocess.PIPE, stderr=subprocess.STDOUT, text=True)
        if r.returncode != 0:
            raise RuntimeError('coq/theory/History.v does not compile: ' + r.stdout[-400:])


def run(tier='quick', replay=None):
    res = core.Result(PID, tier)
    rng = random.Random(core.seed() * 104729 + 16)
    rdir = os.path.join(core.VERIF, 'replays')
    if os.path.isdir(rdir) and not replay:
        for f in os.listdir(rdir):
            if f.startswith(PID + '_'):
                os.remove(os.path.join(rdir, f))
    ensure_history()
    w = core.Work(PID)
    violations = []
    try:
        res.trusted = [
            'Coq 8.16.1 kernel + vm_compute (no native_compute)',
            'translator tools/tr_caches.py (sha256 %s): AST -> memo/cleared lists, abstract programs (calls resolved by name in the MRO of Circuit, '
            'call-backs through self.cct by method name, foreign callees that receive the circuit resolved by class/method name), summary hints re-checked in Coq' %
            core.sha256_file(os.path.join(core.VERIF, 'tools', 'tr_caches.py'))[:16],
            'implicit exceptions are not modelled (only `raise`, and try bodies interrupted inside any statement); exceptional exits carry no obligation',
            'receiver discipline of non-invalidating internal mutators (fresh local objects) and the raw-write site scan are translator analyses; Coq only re-checks their boolean results',
            'canonicalisers tools/c16_ops.py (exact normal form of rational functions via sympy.cancel/Poly; srepr otherwise)',
            'fresh oracle tools/impl_fresh.py: child forked from a just-imported interpreter; every reported discrepancy is re-evaluated in brand-new interpreters',
            'hand-written map query kind -> entry attributes (tools/c16_ops.py ENTRY/DERIVE_ENTRY/MUT_ENTRY), validated by the in-Coq correspondence evaluation',
        ]
        res.assumptions = ['public operations = functions of the classes in the MRO of Circuit and methods of the Node/Cpt objects it hands out whose name does not start with an underscore (plus dunder methods); '
                           'Node.remove/Node.append (bookkeeping primitives of Netlist.remove and the parser) and direct use of underscore-prefixed mutators are outside the quantifier',
                           'process-wide switches: only those that State.__init__ sets to a constant and that are read in the analysis modules listed in tools/tr_caches.py ANALYSIS_MODULES are tracked',
                           'SubNetlist / MNA / CircuitGraph helper objects are never mutated after construction (they live inside memoised entries)',
                           'symbol assumptions held in the shared context/registry are explored differentially, not proved']
        # 1. translate
        T = None
        try:
            T = TR.Translator(core.REPO)
        except TR.Untranslatable as e:
            res.failed_obl.append(('translate', 'lcapy', str(e)))
            res.obligations += 1
        except (SyntaxError, OSError) as e:
            res.failed_obl.append(('translate', 'lcapy', '%s: %s' % (type(e).__name__, e)))
            res.obligations += 1
        gen, ob, texts = None, [], {}
        memo_attrs = []
        gen_ok = False
        if T is not None:
            gen = Gen(T)
            memo_attrs = list(T.key_order)
            texts['CachesGen.v'] = gen.gen_defs()
            w.write('CachesGen.v', texts['CachesGen.v'])
            ok, out, secs = core.coqc(w.dir, 'CachesGen.v')
            gen_ok = ok
            if not ok:
                res.failed_obl.append(('CachesGen', 'CachesGen.v', out[-800:]))
                res.obligations += 1
        # 2. prove (in the background while the sessions run)
        coq_future = None
        pool = ThreadPoolExecutor(max_workers=2)
        if gen_ok:
            files, ob = gen.gen_files()
            ptxt = open(os.path.join(core.VERIF, 'coq', 'props', 'C16.v')).read()
            files['C16.v'] = ptxt
            for f, t in files.items():
                texts[f] = t
                w.write(f, t)
            bad = core.gate_text('generated', '\n'.join(texts.values()))
            if bad:
                res.failed_obl.append(('gate', 'generated', '; '.join(bad)))
                res.obligations += 1
            xtxt = open(os.path.join(core.VERIF, 'coq', 'props', 'C16xform.v')).read()
            texts['C16xform.v'] = xtxt
            w.write('C16xform.v', xtxt)
            xres = core.coqc(w.dir, 'C16xform.v')          # the generated C16_xform.v depends on it

            def _compile_all(names=sorted(files)):
                r = core.coqc_many(w.dir, names, 600, 6)
                r['C16xform.v'] = xres
                return r
            coq_future = pool.submit(_compile_all)

        # 3. sessions: corpus first, then templates aimed at broken obligations, then random
        bad_keys = [k for k in T.key_order if k not in T.cleared] if T else []
        bad_ops = [q for q in T.public if not T.op_ok[q]] if T else []
        sessions = []
        if replay:
            if 'session' in replay:
                sessions = [replay['session']]
            elif 'req' in replay:
                sessions = []
        else:
            sessions += load_corpus()
            if T is not None:
                sessions += targeted_sessions(T, rng, bad_keys, bad_ops, os.path.join(core.VERIF, '.work', 'c16files'))
            nrand = 32 if tier == 'quick' else 320
            for i in range(nrand):
                sessions.append(gen_session(rng, tier, 'r%d' % i))
        for i, s in enumerate(sessions):
            s.setdefault('hashseed', ZSEEDS[i % len(ZSEEDS)])
            s.setdefault('id', 'session%d' % i)
        t0 = time.time()
        recs_all = run_sessions(sessions, memo_attrs)
        res.extra['session_seconds'] = round(time.time() - t0, 1)
        fresh = Fresh()
        pairs = []
        good = []
        for s, recs in zip(sessions, recs_all):
            if not isinstance(recs, list) or len(recs) != len(s['steps']):
                res.count('session_crashed')
                res.notes.append('session %s crashed: %s' % (s['id'], str(recs)[:200]))
                continue
            good.append((s, recs))
            for i, kind, req in step_requests(s, recs):
                pairs.append((s['hashseed'], req))
                pairs.append((other_seed(s['hashseed']), req))
                if kind == 'derive':
                    pairs += [(sd, req) for sd in ZSEEDS]      # rewrites are cheap: all hash seeds
        if replay and 'req' in replay:
            for sd in ZSEEDS:
                pairs.append((sd, replay['req']))
        t0 = time.time()
        fresh.need(pairs)
        res.extra['fresh_seconds'] = round(time.time() - t0, 1)
        res.extra['fresh_evaluations'] = len(fresh.cache)

        all_ces = []
        for s, recs in good:
            ces, stats = judge(s, recs, fresh)
            for k, v in stats.items():
                res.count(k, v)
            for ce in ces:
                ce['session'] = s['id']
            all_ces += [(s, recs, ce) for ce in ces]
            for i, st in enumerate(s['steps']):
                res.count('op_' + st['op'])
                if st['op'] == 'query':
                    res.count('q_' + st['q']['k'])
                fp = json.dumps(st, sort_keys=True) + '|' + json.dumps(recs[i]['texts'], sort_keys=True)
                res.add_case(fp, st['op'] in ('query', 'derive', 'xform'),
                             {'session': s['id'], 'step': st, 'observed': str(recs[i]['r'])[:200]} if (i == 3 and len(res.samples) < 4) else None)
        res.programs = len(good)
        if replay and 'req' in replay:
            outs = {sd: fresh.get(sd, replay['req']) for sd in ZSEEDS}
            print('replay of a history-free request under PYTHONHASHSEED %s:' % ZSEEDS)
            for sd, o in outs.items():
                print('  seed %d: %s' % (sd, str(o).replace('\n', '; ')[:300]))
            vals = list(outs.values())
            if any(v.startswith('ERR:') != vals[0].startswith('ERR:') or lines_of(v) != lines_of(vals[0]) for v in vals):
                all_ces.append(({'id': 'replay', 'steps': [], 'hashseed': ZSEEDS[0]}, [], {'kind': 'hashseed', 'what': replay.get('what', 'derive:?'), 'step': 0, 'req': replay['req'],
                                                                                       'seeds': ZSEEDS, 'results': vals, 'session': 'replay'}))

        # for observed-stale queries: which earlier version of the object does the value belong to?
        extra_pairs = []
        for s, recs, ce in all_ces:
            if ce['kind'] == 'history' and ce['what'].startswith('query:'):
                st = s['steps'][ce['step']]
                for j in range(ce['step']):
                    t2 = recs[j]['texts'].get(st['obj'])
                    if t2 and not t2.startswith('ERR:'):
                        extra_pairs.append((s['hashseed'], {'text': t2, 'q': st['q']}))
        fresh.need(extra_pairs)

        # 4. the model, evaluated in Coq on every session
        verdicts = {}
        where_all = {}
        if gen_ok and good:
            shard = 10
            files_c = []
            for b in range(0, len(good), shard):
                cc = CoqCases(T, gen)
                enc = []
                for si in range(b, min(b + shard, len(good))):
                    s, recs = good[si]
                    extra = {}
                    for s2, recs2, ce in all_ces:
                        if s2 is s and ce['kind'] == 'history' and ce['what'].startswith('query:'):
                            st = s['steps'][ce['step']]
                            lst = []
                            for j in range(ce['step']):
                                t2 = recs[j]['texts'].get(st['obj'])
                                if t2 and not t2.startswith('ERR:'):
                                    v2 = fresh.get(s['hashseed'], {'text': t2, 'q': st['q']})
                                    if v2 is not None:
                                        lst.append((t2, v2))
                            extra[ce['step']] = lst
                    try:
                        e = cc.encode(s, recs, fresh, extra)
                    except TR.Untranslatable as ex:
                        res.failed_obl.append(('views', 'c16_ops.ENTRY', str(ex)))
                        res.obligations += 1
                        e = None
                    if e is None:
                        res.count('session_not_modelled')
                        res.notes.append('session %s not modelled: %s' % (s['id'], getattr(cc, 'why', '?')))
                        continue
                    enc.append((si, e[0]))
                    where_all[si] = e[1]
                if enc:
                    fn = 'cases_%d.v' % (b // shard)
                    w.write(fn, cc.file(enc))
                    files_c.append(fn)
            # wait for the obligations first (CachesGen.vo is shared)
            cr = core.coqc_many(w.dir, files_c, timeout=900)
            for f, (ok, out, secs) in cr.items():
                v = parse_verdicts(out) if ok else None
                if v is None:
                    res.failed_obl.append(('correspondence_eval', f, out[-600:]))
                    res.obligations += 1
                else:
                    verdicts.update(v)
            res.extra['traces_validated_against_impl'] = len(verdicts)
        if coq_future is not None:
            results = coq_future.result()
            res.coq_results(w.dir, results, {f: texts[f] for f in results})
            res.extra['coq_seconds'] = {f: round(r[2], 1) for f, r in results.items()}
        pool.shutdown()

        if os.environ.get('VERIF_KEEP'):
            json.dump({'good': good, 'where': {str(k): v for k, v in where_all.items()}, 'verdicts': {str(k): v for k, v in verdicts.items()}},
                      open(w.path('debug_sessions.json'), 'w'))
        # model verdict of every step
        model_at = {}
        for si, vs in verdicts.items():
            s, recs = good[si]
            for (k, v) in vs:
                step, tag = where_all[si][k]
                model_at[(s['id'], step, tag)] = v
                if v == 1:
                    res.disagreements.append({'session': s['id'], 'step': step, 'what': tag, 'op': s['steps'][step],
                                              'observed': str(recs[step]['r'])[:300], 'filled': recs[step]['filled']})
                elif v == 2:
                    res.count('model_predicts_stale')
                elif v == 3:
                    res.count('model_hybrid_provenance')
        res.extra['model_vs_code'] = {'steps_checked_in_coq': sum(len(x) for x in where_all.values()), 'disagreements': len(res.disagreements)}

        res.extra['t_before_decide'] = round(time.time() - res.t0, 1)
        # 5. decide
        sess_by_id = {s['id']: (s, recs) for s, recs in good}
        groups = {}
        for s, recs, ce in all_ces:
            if ce['kind'] == 'hashseed':
                key = 'hashseed:' + ce['what'].split(':', 1)[1]
            elif ce['kind'] == 'isolation':
                key = ce['what']
            else:
                key = None
                if ce['what'].startswith('query:') and T is not None:
                    v = model_at.get((s['id'], ce['step'], 'query'))
                    if v in (2, 3):
                        ks = set()
                        for e in OPS.ENTRY[ce['what'][6:]]:
                            ks |= closure_keys(T, e)
                        ks = sorted(k for k in ks if k not in T.cleared)
                        if ks:
                            key = 'stale:' + '+'.join(ks)
                        elif ce.get('env'):
                            key = 'env:' + ce['env']        # entries filled under another value of a process-wide switch
                if key is None and T is not None and ce['what'].startswith('query:'):
                    # a public mutator that does not invalidate was used before this query?
                    for st in s['steps'][:ce['step']]:
                        if st['op'] == 'mut' and st.get('obj') == s['steps'][ce['step']].get('obj'):
                            for q in bad_ops:
                                if q.split('.')[-1] == st['m']['how']:
                                    key = 'noinvalidate:' + q
                            ent = OPS.MUT_ENTRY.get(st['m']['how'], [''])[0]
                            if ent.startswith('cb:') and not T.cb_ok.get(ent[3:], True):
                                key = 'noinvalidate:' + (T.cb_owner[ent[3:]] or ['?'])[0]
                if key is None:
                    key = 'history:' + ce['what']
            ce['key'] = key
            if ce['kind'] == 'history' and ce['what'].startswith('query:'):
                mv = model_at.get((s['id'], ce['step'], 'query'))
                res.count({2: 'observed_stale_predicted_exactly_by_model', 3: 'observed_stale_model_says_hybrid',
                           1: 'observed_stale_not_explained_by_cache_model'}.get(mv, 'observed_stale_not_explained_by_cache_model'))
            groups.setdefault(key, []).append((s, recs, ce))
        res.counterexamples = [ce for _, _, ce in all_ces]
        known_keys = {k.get('key') for k in core.load_known() if k.get('property') == PID and k.get('status') == 'open'}
        budget = 32 if tier == 'quick' else 120

        def process_group(key, items, do_shrink):
            """-> (violation dict or None, note or None)"""
            items = sorted(items, key=lambda x: x[2]['step'])
            s, recs, ce = items[0]
            v = {'key': key, 'found_input': True, 'count': len(items), 'counterexample': ce, 'how': './check C16 --replay <this file>'}
            if ce['kind'] == 'hashseed':
                a, b = fresh.confirm(ce['seeds'][0], ce['req']), fresh.confirm(ce['seeds'][1], ce['req'])
                if a == b or (not a.startswith('ERR:') and not b.startswith('ERR:') and ce['what'].startswith('derive') and lines_of(a) == lines_of(b)):
                    return None, 'hash-seed discrepancy %s not confirmed in new interpreters' % key
                v.update(what='result of %s depends on PYTHONHASHSEED' % ce['what'], req=ce['req'], what_kind=ce['what'],
                         confirmed={str(ce['seeds'][0]): a, str(ce['seeds'][1]): b})
                return v, None
            if ce['kind'] == 'isolation':
                small = {'id': s['id'], 'hashseed': s['hashseed'], 'steps': s['steps'][:ce['step'] + 1]}
                if do_shrink:
                    small = shrink_iso(small, ce['obj'], memo_attrs, budget) or small
                v.update(what='%s: the operation changed the data (netlist text / kind) of circuit %s' % (ce['what'], ce['obj']), session=small,
                         before=ce['before'], after=ce['after'])
                return v, None
            small = shrink(s, ce['step'], fresh, memo_attrs, budget=budget) if do_shrink else None
            if small is None:
                small = {'id': s['id'], 'hashseed': s['hashseed'], 'steps': s['steps'][:ce['step'] + 1]}
            rs = run_sessions([small], memo_attrs)[0]
            if not last_step_fails(small, rs, fresh, small['steps'][-1]['op']):
                return None, 'counterexample %s in session %s did not reproduce in isolation' % (key, s['id'])
            st = small['steps'][-1]
            if st['op'] == 'query':
                req = {'text': rs[-1]['texts'][st['obj']], 'q': st['q']}
            elif st['op'] == 'derive':
                req = {'text': rs[-2]['texts'][st['obj']], 'd': st['d']}
            else:
                req = {'t': st['t']}
            conf = fresh.confirm(other_seed(small['hashseed']), req)
            obs = rs[-1]['r'] if st['op'] != 'derive' else OPS._names(rs[-1]['texts'].get(st['as'], rs[-1]['r']))
            if conf == obs or (st['op'] == 'derive' and not conf.startswith('ERR:') and not obs.startswith('ERR:') and lines_of(conf) == lines_of(obs)):
                return None, 'counterexample %s not confirmed against a brand-new interpreter' % key
            culprits = []
            if key.startswith('history:xform:') and T is not None:
                # a cached result served to a call with other (effective) options: name the option
                tc = [t for t in T.transformers if t['cls'] == XF_CLASS.get(key.split(':')[2])]
                opts = {o for x in small['steps'] if x['op'] == 'xform' for o in x['t'].get('kw', {})}
                for t in tc:
                    mm = sorted({m['opt'] for m in t['default_mismatch']} & opts)
                    if mm:
                        key = 'transformkey:%s:default:%s' % (t['cls'], ','.join(mm))
                    elif sorted(set(t['missing']) & opts):
                        key = 'transformkey:%s:%s' % (t['cls'], ','.join(sorted(set(t['missing']) & opts)))
            if key.startswith('history:') and key not in known_keys:
                # causes with a structural fingerprint
                anon = lambda t: re.sub(r'(_?nodeanon|[A-Za-z]+anon)#?\d+', '@', t)
                db = getattr(T, 'detach_bad', []) if T is not None else []
                if db and any(x['op'] == 'mut' and x['m']['how'] in ('remove', 'add', 'open_circuit') for x in small['steps']) and \
                        ce['what'] in ('query:nodes', 'query:nodeinfo', 'query:unconnected', 'query:node_list', 'derive:remove_dangling', 'derive:remove_disconnected'):
                    key = 'detach:' + ','.join(sorted({x['func'] for x in db}))
                elif anon(obs) == anon(conf) and 'anon' in obs:
                    key = 'anon-name-reuse'
                elif override_is_cause(small, fresh, memo_attrs):
                    key = 'override-add'
                elif st['op'] == 'query':
                    culprits = attribute(small, fresh, memo_attrs)
                    cms = [c for c in getattr(T, 'cache_mutation_sites', []) if c['key'] in culprits] if T is not None else []
                    if cms:
                        key = 'cachemutation:%s:%s' % (cms[0]['func'], cms[0]['key'])
                    elif culprits:
                        unc = [c for c in culprits if T is None or c not in T.cleared]
                        key = ('stale:' + '+'.join(sorted(unc))) if unc and len(unc) == len(culprits) else 'history:%s:%s' % (ce['what'], '+'.join(sorted(culprits)))
            v.update(key=key, what='%s is history dependent: after %d operations the answer differs from the same query on Circuit(str(cct)) in a fresh interpreter' % (ce['what'], len(small['steps']) - 1),
                     session=small, observed=obs, fresh=conf, dropping_attribute_fixes_it=culprits)
            return v, None

        order = sorted(groups.items(), key=lambda kv: (kv[0] in known_keys, kv[0]))
        nshrink = 8 if tier == 'quick' else 24
        jobs = []
        for key, items in order:
            do = (key not in known_keys) and nshrink > 0 and not os.environ.get('C16_NOSHRINK')
            if do:
                nshrink -= 1
            jobs.append((key, items, do))
        with ThreadPoolExecutor(max_workers=4) as ex:
            outs = list(ex.map(lambda j: process_group(*j), jobs))
        seen_keys = set()
        for v, note in outs:
            if note:
                res.notes.append(note)
            if v is not None and v['key'] not in seen_keys:
                seen_keys.add(v['key'])
                violations.append(v)
        res.extra['t_after_shrink'] = round(time.time() - res.t0, 1)
        reported = {v['key'] for v in violations}
        # broken obligations
        obkey = {n: k for n, st, pf, exp, k in ob}
        derived = {'inv_lists_ok', 'c16_history_independent'}
        causes = [k for n, st, pf, exp, k in ob if not exp and k]
        # a public operation that fails only because it (transitively) calls another failing public
        # operation is a consequence, not a cause
        if T is not None:
            failing = [q for q in T.public if not T.op_ok[q]] + ['cb:' + n for n in T.cb_public if not T.cb_ok[n]]

            def reaches(f):
                seen, stack = set(), list(T.calls.get(f, ()))
                while stack:
                    g = stack.pop()
                    if g in seen:
                        continue
                    seen.add(g)
                    stack.extend(T.calls.get(g, ()))
                return seen
            reach = {f: reaches(f) for f in failing}
            for f in failing:
                if any(g != f and g in reach[f] and f not in reach[g] for g in failing):
                    derived.add(('cbop_' + ident(f[3:])) if f.startswith('cb:') else ('op_' + ident(f)))
            if failing:
                derived.add('locals_ok')
        for name, f, msg in res.failed_obl:
            k = obkey.get(name)
            if replay:
                continue        # a replay judges the stored input only
            if name in derived and causes:
                continue        # consequence of the individually reported obligations
            if k and any(r == k or r.startswith(k + '+') or ('+' in r and k.split(':', 1)[1] in r.split(':', 1)[1].split('+')) for r in reported):
                continue
            if k and k.startswith('cachemutation:') and any(r.startswith('cachemutation:') and r.split(':', 1)[1] in k for r in reported):
                continue
            xmap = {'InverseLaplaceTransformer': 'ilt', 'LaplaceTransformer': 'laplace', 'FourierTransformer': 'fourier'}
            if k and k.startswith('transformkey:') and ('history:xform:' + xmap.get(k.split(':')[1], '?')) in reported:
                continue
            violations.append({'key': 'obligation:' + name + (':' + k if k else ''), 'what': 'Coq obligation %s in %s no longer checks' % (name, f),
                               'theorem': name, 'file': f, 'message': msg, 'found_input': False})
        # model / code disagreement that no counterexample explains
        ce_steps = {(ce['session'], ce['step']) for _, _, ce in all_ces}
        unexplained = [d for d in res.disagreements if (d['session'], d['step']) not in ce_steps or d['what'] != 'query']
        seen_corr = set()
        if os.environ.get('C16_DEBUG'):
            print('DEBUG unexplained', [(d['session'], d['step'], d['what']) for d in unexplained], 'ces', [(ce['session'], ce['step'], ce['what'], ce['kind']) for _, _, ce in all_ces if ce['session'] in {d['session'] for d in unexplained}])
            for d in unexplained:
                s_, r_ = sess_by_id[d['session']]
                st_ = s_['steps'][d['step']]
                rq = {'text': r_[d['step']]['texts'].get(st_.get('obj')), 'q': st_.get('q')}
                print('DEBUG fresh', s_['hashseed'], [str(fresh.get(sd, rq))[:200] for sd in ZSEEDS], 'obs', str(r_[d['step']]['r'])[:200])
        for d in unexplained:
            k = 'correspondence:%s:%s' % (d['what'], d['op'].get('q', d['op'].get('m', d['op'].get('d', {}))).get('k', d['op'].get('m', d['op'].get('d', {})).get('how', d['op']['op'])) if isinstance(d['op'], dict) else '?')
            if k in seen_corr:
                continue
            seen_corr.add(k)
            s, recs = sess_by_id[d['session']]
            violations.append({'key': k, 'what': 'History model (instantiated from the source) and real code differ at a %s step' % d['what'],
                               'session': {'id': s['id'], 'hashseed': s['hashseed'], 'steps': s['steps'][:d['step'] + 1]}, 'detail': d,
                               'found_input': False, 'correspondence': 'LT.History.session vs lcapy'})
        res.rule = ('sessions: corpus + templates per broken obligation + %d random histories (4-12 operations over add/remove/open/short-circuit, '
                    'copy/subs/kill/simplify/select/replace/laplace/r_model/prune, unrelated circuits and transforms; 0-3 random queries after '
                    'each operation); one interpreter per session, PYTHONHASHSEED in %s; non-trivial = a query/rewrite/transform step; '
                    'distinct = distinct (operation, netlist texts of all live objects)') % (len(sessions), ZSEEDS)
        if replay:
            print('replay: %d counterexample(s): %s' % (len(all_ces), sorted({str(ce.get('key')) for _, _, ce in all_ces})))
            for s_, recs_, ce in all_ces[:6]:
                print('  step %s %s' % (ce.get('step'), ce.get('what')))
                for fld in ('observed', 'fresh', 'before', 'after', 'results'):
                    if fld in ce:
                        print('    %-9s %s' % (fld, str(ce[fld]).replace('\n', '; ')[:300]))
                mv = model_at.get((s_.get('id'), ce.get('step'), 'query'))
                print('    model     %s' % {None: 'predicts the fresh answer', 1: 'DISAGREES with the code', 2: 'predicts exactly this stale answer', 3: 'hybrid provenance (stale possible)'}.get(mv, mv))
        return core.finish(res, violations)
    finally:
        if not os.environ.get('VERIF_KEEP'):
            w.cleanup()
            import shutil
            shutil.rmtree(os.path.join(core.VERIF, '.work', 'c16files'), ignore_errors=True)


if __name__ == '__main__':
    sys.exit(run(sys.argv[1] if len(sys.argv) > 1 else 'quick'))
