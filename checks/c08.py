"""C08 — two-port parameter sets are mutually consistent and match their port
definitions.

  translate  lcapy/twoport.py  ->  Gen/TwoPortGen.v      (tools/tr_twoport.py)
  prove      Gen/C08_<X>.v (generated statements, fixed templates below):
               conv_sound_X_Y, conv_roundtrip_X_Y, derived_X_<q>, chain_sound_X
             props/C08.v   (hand-written: cascade/associativity, spec sanity)
  correspond real classes vs the translated definitions at random rational
             matrices, evaluated by vm_compute inside Coq (guards the translator)
  search     exact linear-algebra oracle written from the equation() docs:
             does the real class's output satisfy the defining port relation?
"""
import json
import os
import random
import subprocess
import sys
from fractions import Fraction

sys.path.insert(0, os.path.dirname(os.path.dirname(os.path.abspath(__file__))))
from vlib import core
sys.path.insert(0, os.path.join(core.VERIF, 'tools'))
import tr_twoport as T

PID = 'C08'
MANIFEST = {
    'text': 'Coq theorems, regenerated from lcapy/twoport.py on every run, state for every ordered pair of the eight '
            'representations that the translated conversion maps the defining port relation of X to that of Y, that '
            'X->Y->X is the identity, that every derived quantity equals its definition from the port relation, and that '
            'chain() composes relations in signal order - for generic entries of any characteristic-0 field, under printed '
            'non-vanishing hypotheses.  The translation is validated on each run by evaluating the generated definitions in '
            'Coq (vm_compute over Qc) against the real classes.',
    'note': 'Trusted: Coq kernel/vm_compute; tools/tr_twoport.py + statement templates in checks/c08.py; spec coq/theory/TwoPort.v; '
            'sympy 2x2 inv/det/mul and .simplify() modelled (validated by correspondence, not verified); hypotheses proposed by sympy '
            'factorisation are printed in each theorem and shown satisfiable by a Qc Example.',
    'technique': 'Coq proof (field/nsatz) over a model translated from source + in-Coq correspondence evaluation + exact linear-algebra search oracle',
}
KINDS = T.KINDS
ALIASES = {
    'voltage_gain': 'Vgain12', 'forward_voltage_gain': 'Vgain12', 'reverse_voltage_gain': 'Vgain21',
    'current_gain': 'Igain12', 'forward_current_gain': 'Igain12', 'reverse_current_gain': 'Igain21',
    'transadmittance': 'forward_transadmittance', 'transimpedance': 'forward_transimpedance',
}
NAMES = {'x11': 'x11', 'x12': 'x12', 'x21': 'x21', 'x22': 'x22', 'Z0': 'Z0',
         'y11': 'y11', 'y12': 'y12', 'y21': 'y21', 'y22': 'y22'}

# ---- the specification side of the search oracle (independent of Coq) -----
# rows over (V1, I1, V2, I2): each relation is  row . v = 0
def rel_rows(kind, m, Z0):
    a, b, c, d = m
    z = Z0
    if kind == 'A':   # V1 = a V2 - b I2 ; I1 = c V2 - d I2
        return [[1, 0, -a, b], [0, 1, -c, d]]
    if kind == 'B':   # V2 = a V1 + b I1 ; -I2 = c V1 + d I1
        return [[a, b, -1, 0], [c, d, 0, 1]]
    if kind == 'G':   # I1 = a V1 + b I2 ; V2 = c V1 + d I2
        return [[a, -1, 0, b], [c, 0, -1, d]]
    if kind == 'H':   # V1 = a I1 + b V2 ; I2 = c I1 + d V2
        return [[-1, a, b, 0], [0, c, d, -1]]
    if kind == 'Y':   # I1 = a V1 + b V2 ; I2 = c V1 + d V2
        return [[a, -1, b, 0], [c, 0, d, -1]]
    if kind == 'Z':   # V1 = a I1 + b I2 ; V2 = c I1 + d I2
        return [[-1, a, 0, b], [0, c, -1, d]]
    # waves: a1 = V1 + z I1, b1 = V1 - z I1, a2 = V2 + z I2, b2 = V2 - z I2
    A1 = [1, z, 0, 0]; B1 = [1, -z, 0, 0]; A2 = [0, 0, 1, z]; B2 = [0, 0, 1, -z]
    lin = lambda *ts: [sum(c * r[i] for c, r in ts) for i in range(4)]
    if kind == 'S':   # b1 = a a1 + b a2 ; b2 = c a1 + d a2
        return [lin((1, B1), (-a, A1), (-b, A2)), lin((1, B2), (-c, A1), (-d, A2))]
    if kind == 'T':   # b1 = a a2 + b b2 ; a1 = c a2 + d b2
        return [lin((1, B1), (-a, A2), (-b, B2)), lin((1, A1), (-c, A2), (-d, B2))]
    raise ValueError(kind)


def nullspace(rows):
    """exact nullspace of a small rational matrix (list of rows of Fractions)"""
    rows = [[Fraction(x) for x in r] for r in rows]
    n = 4
    piv = []
    r = 0
    for c in range(n):
        p = None
        for i in range(r, len(rows)):
            if rows[i][c] != 0:
                p = i
                break
        if p is None:
            continue
        rows[r], rows[p] = rows[p], rows[r]
        pv = rows[r][c]
        rows[r] = [x / pv for x in rows[r]]
        for i in range(len(rows)):
            if i != r and rows[i][c] != 0:
                f = rows[i][c]
                rows[i] = [x - f * y for x, y in zip(rows[i], rows[r])]
        piv.append(c)
        r += 1
        if r == len(rows):
            break
    free = [c for c in range(n) if c not in piv]
    basis = []
    for fc in free:
        v = [Fraction(0)] * n
        v[fc] = Fraction(1)
        for i, pc in enumerate(piv):
            v[pc] = -rows[i][fc]
        basis.append(v)
    return basis


# (termination index, numerator index, denominator index) over (V1,I1,V2,I2)
DERIVED_DEF = {
    'Z1oc': (3, 0, 1), 'Z1sc': (2, 0, 1), 'Z2oc': (1, 2, 3), 'Z2sc': (0, 2, 3),
    'Vgain12': (3, 2, 0), 'Vgain21': (1, 0, 2), 'Igain12': (2, 3, 1), 'Igain21': (0, 1, 3),
    'forward_transadmittance': (2, 3, 0), 'reverse_transadmittance': (0, 1, 2),
    'forward_transimpedance': (3, 2, 1), 'reverse_transimpedance': (1, 0, 3),
}
DERIVED_ALL = list(T.DERIVED) + list(ALIASES)


def spec_of(q):
    return ALIASES.get(q, q)


def fr(s):
    return Fraction(s)


def fstr(x):
    x = Fraction(x)
    return '%d/%d' % (x.numerator, x.denominator)


def oracle_check(kind, prop, m, Z0, implres, t=None):
    """True/False/None(not applicable): does the real code's result satisfy the
    definition of `prop` for a two-port whose X-parameters are m?"""
    rows = rel_rows(kind, m, Z0)
    basis = nullspace(rows)
    if len(basis) != 2:
        return None
    if prop in T.PARAMS:
        if 'mat' not in implres:
            return None
        mm = [fr(x) for x in implres['mat']]
        rows2 = rel_rows(prop[0], mm, Z0)
        for v in basis:
            for r in rows2:
                if sum(a * b for a, b in zip(r, v)) != 0:
                    return False
        return True
    if prop in DERIVED_ALL:
        if 'val' not in implres:
            return None
        q = fr(implres['val'])
        ti, ni, di = DERIVED_DEF[spec_of(prop)]
        e = [0, 0, 0, 0]
        e[ti] = 1
        b2 = nullspace(rows + [e])
        if len(b2) != 1:
            return None
        v = b2[0]
        if v[di] == 0:
            return None
        return v[ni] == q * v[di]
    if prop in ('chain', 'cascade'):
        # states of the cascade: first (V1,I1,Vm,-Im), second (Vm,Im,V2,I2)
        mm = [fr(x) for x in implres['mat']]
        r1 = rel_rows(kind, m, Z0)
        r2 = rel_rows(kind, t, Z0)
        # unknowns (V1,I1,Vm,Im,V2,I2)
        big = []
        for r in r1:
            big.append([r[0], r[1], r[2], -r[3], 0, 0])
        for r in r2:
            big.append([0, 0, r[0], r[1], r[2], r[3]])
        ns = nullspace6(big)
        rr = rel_rows(kind, mm, Z0)
        for v in ns:
            pv = [v[0], v[1], v[4], v[5]]
            for r in rr:
                if sum(a * b for a, b in zip(r, pv)) != 0:
                    return False
        return True
    return None


def nullspace6(rows):
    rows = [[Fraction(x) for x in r] for r in rows]
    n = 6
    piv = []
    r = 0
    for c in range(n):
        p = None
        for i in range(r, len(rows)):
            if rows[i][c] != 0:
                p = i
                break
        if p is None:
            continue
        rows[r], rows[p] = rows[p], rows[r]
        pv = rows[r][c]
        rows[r] = [x / pv for x in rows[r]]
        for i in range(len(rows)):
            if i != r and rows[i][c] != 0:
                f = rows[i][c]
                rows[i] = [x - f * y for x, y in zip(rows[i], rows[r])]
        piv.append(c)
        r += 1
        if r == len(rows):
            break
    free = [c for c in range(n) if c not in piv]
    basis = []
    for fc in free:
        v = [Fraction(0)] * n
        v[fc] = Fraction(1)
        for i, pc in enumerate(piv):
            v[pc] = -rows[i][fc]
        basis.append(v)
    return basis


# ---- Coq generation ----------------------------------------------------------
HEADER = '''(* GENERATED from %s (sha256 %s) by tools/tr_twoport.py + checks/c08.py.
   Do not edit: regenerated from /repo on every run. *)
Require Import LT.FieldSec LT.TwoPort.
Local Open Scope F_scope.
'''


def gen_defs(tr):
    out = [HEADER % (tr.path, tr.sha), 'Section Gen.\nVariable K : fld.\n']
    names = []
    for key in tr.order:
        typ, ir, line, owner = tr.defs[key]
        nm = '%s_%s' % key
        names.append(nm)
        rt = 'mat K' if typ[0] == 'M' else 'K'
        out.append('(* %s.%s, defined in %s at line %d *)' % (key[0] + 'Matrix', key[1], owner, line))
        out.append('Definition %s (Z0 : K) (m : mat K) : %s :=\n  %s.\n' % (nm, rt, tr.coq(ir)))
    for k, (ir, line) in tr.chains.items():
        out.append('(* %sMatrix.chain at line %d *)' % (k, line))
        out.append('Definition %s_chain (Z0 : K) (m t : mat K) : mat K :=\n  %s.\n' % (k, tr.coq(ir)))
        names.append('%s_chain' % k)
    out.append('End Gen.\n')
    for nm in names:
        out.append('Arguments %s {K}.' % nm)
    out.append('\nLtac gen_unfold := cbv [%s] in *.\n' % ' '.join(names))
    return '\n'.join(out)


def coq_int(n):
    n = abs(int(n))
    if n == 1:
        return '(1 : K)'
    return '(' + '+'.join(['1'] * n) + ' : K)'


def hyps_for(tr, irs_with_self, extra_syms=False):
    import sympy as sp
    facs, vals, syms = tr.atoms(irs_with_self)
    return facs, vals, syms


def content_primes(tr, irs_with_self):
    """integer prime factors that occur in denominators (need p <> 0 in K)"""
    import sympy as sp
    syms = sp.symbols('x11 x12 x21 x22 Z0')
    dens = []
    for ir, selfval in irs_with_self:
        tr.sym(ir, syms[:4] if selfval is None else selfval, syms[4], dens)
    primes = set()
    for d in dens:
        d = sp.together(sp.sympify(d))
        n, dd = sp.fraction(d)
        for p in (n, dd):
            p = sp.expand(p)
            if p == 0:
                continue
            c, _ = sp.factor_list(p)
            c = sp.Rational(c)
            for q in (abs(c.p), abs(c.q)):
                for pr in sp.factorint(q):
                    if pr > 1:
                        primes.add(int(pr))
    return sorted(primes)


def find_point(facs, syms, rng):
    """a rational point where every factor is non-zero (for the non-vacuity Example)"""
    import sympy as sp
    for _ in range(200):
        pt = {s: sp.Rational(rng.randint(-7, 7), rng.randint(1, 5)) for s in syms}
        if all(f.subs(pt) != 0 for f in facs):
            return pt
    return None


def qc_lit(x):
    import sympy as sp
    x = sp.Rational(x)
    return '(qc (%d) %d)' % (x.p, x.q)


def ir_depth(tr, ir):
    """nesting depth of non-trivial conversions inside an IR"""
    t = ir[0]
    if t in ('num', 'z0', 'self', 'arg'):
        return 0
    if t in ('callm', 'calls'):
        inner = ir_depth(tr, ir[3])
        d = tr.defs[(ir[1], ir[2])][1]
        return inner + ir_depth(tr, d)
    if t == 'inv':
        return 1 + ir_depth(tr, ir[1])
    if t == 'lit':
        return 1 + max(ir_depth(tr, x) for x in ir[1:])
    if t in ('ent', 'det', 'neg', 'pow'):
        return ir_depth(tr, ir[1])
    return max(ir_depth(tr, x) for x in ir[1:] if isinstance(x, tuple))


def gen_kind_files(tr, X, rng, meta, tier):
    """obligations for source representation X, as three independent files
    (soundness / round trips / derived quantities) for parallel checking"""
    import sympy as sp
    files = {}
    # thorough tier: every deep round trip (nsatz-heavy) gets a file of its own so that they spread over the cores
    groups = ['sound', 'round', 'derived'] + (['round:' + Y for Y in KINDS if Y != X] if tier != 'quick' else [])
    for group0 in groups:
        group, _, only = group0.partition(':')
        out = [HEADER % (tr.path, tr.sha), 'Require Import Gen.TwoPortGen.\n', 'Section Obl.\nVariable K : fld.\nAdd Field KFo : (fth K).\n']
        examples = []
        names = []

        def statement(name, irs, body, proof, always=()):
            facs, vals, syms = tr.atoms(irs)
            if any(f == 0 for f in facs):
                # a denominator vanishes identically: the definition divides by zero
                meta['degenerate'].append(name)
            hyps = ['%s <> 0' % T.poly_to_coq(f, NAMES) for f in facs]
            for h in always:
                if h not in hyps and '(%s)' % h.split(' <> ')[0] + ' <> 0' not in hyps:
                    hyps.append(h)
            hs = ''.join('  %s ->\n' % h for h in hyps)
            out.append('Theorem %s : forall (Z0 x11 x12 x21 x22 : K),\n%s  %s.\nProof.\n  intros Z0 x11 x12 x21 x22 %s.\n%s\nQed.\n' % (
                name, hs, body, ' '.join('Hn%d' % i for i in range(len(hyps))), proof))
            meta['statements'].append({'name': name, 'hyps': hyps, 'concl': body})
            names.append(name)
            # non-vacuity: hypotheses satisfiable at a rational point
            import sympy as _sp
            pt = find_point([f for f in facs if f != 0] + ([_sp.Symbol('Z0')] if always else []), syms, rng)
            if hyps:
                if pt is None:
                    meta['vacuous'].append(name)
                else:
                    lets = ' '.join('let %s : QcF := %s in' % (str(s), qc_lit(pt[s])) for s in syms)
                    conj = ' /\\ '.join('(%s)' % h for h in hyps)
                    examples.append('Example nv_%s : %s %s.\nProof. cbv zeta. repeat split; apply qc_neq; vm_compute; reflexivity. Qed.\n' % (name, lets, conj))

        M = '(Mat x11 x12 x21 x22)'
        if group in ('sound', 'round'):
            for Y in KINDS:
                if Y == X:
                    continue
                ir = tr.defs[(X, Y + 'params')][1]
                extra = ['Z0 <> 0'] if (X in 'ST' or Y in 'ST') else []
                if group == 'sound':
                    statement('conv_sound_%s_%s' % (X, Y), [(ir, None)],
                              'forall v : port K, rel_%s Z0 %s v -> rel_%s Z0 (%s_%sparams Z0 %s) v' % (X, M, Y, X, Y, M),
                              '  intros [V1 I1 V2 I2] [E1 E2]. gen_unfold. tp_unfold. split; eq_from_hyps.', always=extra)
                else:
                    irb = tr.defs[(Y, X + 'params')][1]
                    depth = ir_depth(tr, ir) + ir_depth(tr, irb)
                    if tier == 'quick' and depth > 3:
                        meta['deferred'].append('conv_roundtrip_%s_%s' % (X, Y))
                        continue
                    if tier != 'quick' and ((depth > 3 and only != Y) or (depth <= 3 and only)):
                        continue       # shallow pairs stay in C08_X_round.v, a deep pair goes to C08_X_round_Y.v
                    facs, vals, syms = tr.atoms([(ir, None)])
                    statement('conv_roundtrip_%s_%s' % (X, Y), [(ir, None), (irb, vals[0])],
                              '%s_%sparams Z0 (%s_%sparams Z0 %s) = %s' % (Y, X, X, Y, M, M),
                              '  gen_unfold. tp_unfold. apply mat_eq; fsolve.')
        else:
            for q in DERIVED_ALL:
                ir = tr.defs[(X, q)][1]
                extra = ['Z0 <> 0'] if X in 'ST' else []
                statement('derived_%s_%s' % (X, q), [(ir, None)],
                          'is_%s (rel_%s Z0 %s) (%s_%s Z0 %s)' % (spec_of(q), X, M, X, q, M),
                          '  intros [V1 I1 V2 I2] [E1 E2] Et. gen_unfold. tp_unfold. eq_from_hyps.', always=extra)
            if X in tr.chains:
                out.append('Theorem chain_sound_%s : forall (Z0 : K) (m t : mat K) (v : port K),\n'
                           '  cascade (rel_%s Z0 m) (rel_%s Z0 t) v -> rel_%s Z0 (%s_chain Z0 m t) v.\n'
                           'Proof.\n  intros Z0 [x11 x12 x21 x22] [y11 y12 y21 y22] [V1 I1 V2 I2] [Vm [Im [[E1 E2] [E3 E4]]]].\n'
                           '  gen_unfold. tp_unfold. split; eq_from_hyps.\nQed.\n' % (X, X, X, X, X))
                meta['statements'].append({'name': 'chain_sound_%s' % X, 'hyps': [], 'concl': 'cascade (rel_%s m) (rel_%s t) v -> rel_%s (%s_chain m t) v' % (X, X, X, X)})
                names.append('chain_sound_%s' % X)
        out.append('End Obl.\n')
        out.extend(examples)
        out.append('\n'.join('Print Assumptions %s.' % n for n in names))
        if names:
            files['C08_%s_%s.v' % (X, group0.replace(':', '_'))] = '\n'.join(out) + '\n'
    return files


# ---- translator extension: chain -------------------------------------------
def translate(repo):
    tr = T.Translator(os.path.join(repo, 'lcapy', 'twoport.py'))
    for q in ALIASES:
        if q not in T.DERIVED:
            T.DERIVED.append(q)
    for k in KINDS:
        for p in T.PARAMS + T.DERIVED:
            tr.get(k, p)
    # chain(self, TP): `return self * TP` / `return TP * self`; cascade = chain
    import ast
    tr.chains = {}
    for k in KINDS:
        owner, fn = tr.resolve(k, 'chain')
        if fn is None:
            continue
        args = [a.arg for a in fn.args.args]
        if args != ['self', 'TP']:
            T.fail(fn, 'unexpected signature of chain')
        body = [s for s in fn.body if not (isinstance(s, ast.Expr) and isinstance(s.value, ast.Constant))]
        if len(body) != 1 or not isinstance(body[0], ast.Return):
            T.fail(fn, 'unsupported body of chain')
        typ, ir = tr.lower(k, body[0].value, {'TP': (('M', k), ('arg',))})
        tr.chains[k] = (ir, fn.lineno)
        o2, fn2 = tr.resolve(k, 'cascade')
        if fn2 is not None:
            b2 = [s for s in fn2.body if not (isinstance(s, ast.Expr) and isinstance(s.value, ast.Constant))]
            if len(b2) != 1 or ast.unparse(b2[0]) != 'return self.chain(TP)':
                T.fail(fn2, 'cascade is not an alias of chain')
    return tr


_orig_coq = T.Translator.coq
def _coq(self, ir, selfname='m'):
    if ir[0] == 'arg':
        return 't'
    return _orig_coq(self, ir, selfname)
T.Translator.coq = _coq
_orig_sym = T.Translator.sym
def _sym(self, ir, m, Z0, dens):
    if ir[0] == 'arg':
        import sympy as sp
        return sp.symbols('y11 y12 y21 y22')
    return _orig_sym(self, ir, m, Z0, dens)
T.Translator.sym = _sym



# ---- port-wise interconnections (session 4) ------------------------------------
# TwoPort.series/parallel/hybrid/inverse_hybrid build Ser2/Par2/Hybrid2/InverseHybrid2, whose
# __init__ ADD the Z/Y/H/G matrices of the arguments.  props/C08.v proves that the sum matrix has
# exactly the port relation of the interconnection (series_Z_spec ...).  This ties those theorems
# to the code: (a) fail-closed shape check of the four methods and four constructors,
# (b) the real methods on random rational matrices against the exact sum.
CONN = [('series', 'Ser2', 'Z'), ('parallel', 'Par2', 'Y'), ('hybrid', 'Hybrid2', 'H'), ('inverse_hybrid', 'InverseHybrid2', 'G')]


def _isfrac(x):
    try:
        Fraction(x)
        return True
    except (ValueError, ZeroDivisionError):
        return False

def conn_shape(repo):
    """Return list of (name, message) for every interconnection whose source no longer has the modelled shape."""
    import ast
    path = os.path.join(repo, 'lcapy', 'twoport.py')
    tree = ast.parse(open(path).read())
    classes = {n.name: n for n in tree.body if isinstance(n, ast.ClassDef)}
    bad = []

    def fn_of(cls, name):
        c = classes.get(cls)
        if c is None:
            return None
        for n in c.body:
            if isinstance(n, ast.FunctionDef) and n.name == name:
                return n
        return None
    for meth, cls, K in CONN:
        nm = 'conn_shape_%s' % cls
        f = fn_of('TwoPort', meth)
        if f is None:
            bad.append((nm, 'TwoPort.%s not found' % meth))
            continue
        rets = [n for n in ast.walk(f) if isinstance(n, ast.Return)]
        if len(rets) != 1 or ast.unparse(rets[0]) != 'return %s(self, TP)' % cls:
            bad.append((nm, 'TwoPort.%s does not return %s(self, TP): %s' % (meth, cls, [ast.unparse(r) for r in rets])))
            continue
        c = classes.get(cls)
        if c is None or [ast.unparse(b) for b in c.bases] != ['TwoPort%sModel' % K]:
            bad.append((nm, 'class %s is not a TwoPort%sModel' % (cls, K)))
            continue
        init = fn_of(cls, '__init__')
        if init is None:
            bad.append((nm, '%s.__init__ not found' % cls))
            continue
        src = [ast.unparse(n) for n in init.body]
        want_first = '%s = arg.%sparams' % (K, K)
        loops = [n for n in init.body if isinstance(n, ast.For)]
        okk = (want_first in src and 'arg = args[0]' in src and len(loops) == 1
               and ast.unparse(loops[0].target) == 'arg' and ast.unparse(loops[0].iter) == 'args[1:]'
               and '%s += arg.%sparams' % (K, K) in [ast.unparse(n) for n in loops[0].body]
               and not [n for n in ast.walk(init) if isinstance(n, (ast.Assign, ast.AugAssign))
                        and K in [ast.unparse(t) for t in (n.targets if isinstance(n, ast.Assign) else [n.target])]
                        and ast.unparse(n) not in (want_first, '%s += arg.%sparams' % (K, K))])
        sup = [n for n in ast.walk(init) if isinstance(n, ast.Call) and ast.unparse(n.func).startswith('super(')
               and ast.unparse(n.func).endswith('.__init__')]
        okk = okk and len(sup) == 1 and sup[0].args and ast.unparse(sup[0].args[0]) == K
        if not okk:
            bad.append((nm, '%s.__init__ no longer has the shape "%s; for arg in args[1:]: %s += arg.%sparams; super().__init__(%s, ...)"'
                        % (cls, want_first, K, K, K)))
    return bad


def conn_cases(rng, n):
    cs = []
    for meth, cls, K in CONN:
        for _ in range(n):
            def q():
                v = Fraction(rng.randint(-9, 9), rng.randint(1, 5))
                return v if v != 0 else Fraction(1, 3)
            cs.append([meth, K, [str(q()) for _ in range(4)], [str(q()) for _ in range(4)]])
    return cs


def conn_run(cases):
    env = dict(os.environ, PYTHONPATH=core.REPO, PYTHONHASHSEED='0')
    p = subprocess.run([core.PY, '-W', 'ignore', os.path.join(core.VERIF, 'tools', 'impl_conn.py')],
                       input=json.dumps(cases), capture_output=True, text=True, env=env, cwd=core.VERIF, timeout=600)
    if p.returncode != 0:
        return None, p.stderr[-600:]
    return json.loads(p.stdout.strip().splitlines()[-1]), ''

# ---- implementation runs -------------------------------------------------------
def run_impl(cases, nproc=None):
    nproc = nproc or core.NCPU
    chunks = [cases[i::nproc] for i in range(nproc)]
    procs = []
    env = dict(os.environ, PYTHONPATH=core.REPO, PYTHONHASHSEED='0')
    for ch in chunks:
        if not ch:
            procs.append(None)
            continue
        p = subprocess.Popen([core.PY, '-W', 'ignore', os.path.join(core.VERIF, 'tools', 'impl_twoport.py')],
                             stdin=subprocess.PIPE, stdout=subprocess.PIPE, stderr=subprocess.PIPE, text=True, env=env, cwd=core.VERIF)
        p.stdin.write(json.dumps(ch))
        p.stdin.close()
        procs.append(p)
    results = [None] * len(cases)
    for i, p in enumerate(procs):
        if p is None:
            continue
        outp = p.stdout.read()
        p.wait()
        try:
            rs = json.loads(outp)
        except Exception:
            rs = [{'error': 'impl crashed: ' + p.stderr.read()[-300:]}] * len(chunks[i])
        for j, r in enumerate(rs):
            results[i + j * nproc] = r
    return results


def rand_frac(rng, nz=True):
    while True:
        x = Fraction(rng.randint(-9, 9), rng.randint(1, 6))
        if x != 0 or not nz:
            return x


def gen_cases(rng, n_per):
    cases = []
    for X in KINDS:
        for prop in T.PARAMS + DERIVED_ALL:
            for i in range(n_per):
                m = [rand_frac(rng) for _ in range(4)]
                Z0 = rand_frac(rng)
                cases.append({'kind': X, 'prop': prop, 'm': [fstr(x) for x in m], 'Z0': fstr(Z0),
                              'mode': 'gen' if i % 2 else 'num'})
        if X in 'AB':
            for prop in ('chain', 'cascade'):
                for i in range(n_per):
                    cases.append({'kind': X, 'prop': prop, 'm': [fstr(rand_frac(rng)) for _ in range(4)],
                                  't': [fstr(rand_frac(rng)) for _ in range(4)], 'Z0': '1/1', 'mode': 'num'})
    return cases


def qcs(s):
    x = Fraction(s)
    return '(qc (%d) %d)' % (x.numerator, x.denominator)


def cases_v(cases, results, idxs):
    """Coq file: evaluates the translated definitions at the case inputs in QcF
    and prints the indices whose value differs from what lcapy returned."""
    lines = [HEADER % ('(cases)', '-'), 'Require Import Gen.TwoPortGen.\nFrom Coq Require Import QArith Qcanon.\n',
             'Definition meq (a b : mat QcF) : bool := qc_eqb (m11 a) (m11 b) && qc_eqb (m12 a) (m12 b) && qc_eqb (m21 a) (m21 b) && qc_eqb (m22 a) (m22 b).',
             'Definition cases : list (nat * bool) := [']
    items = []
    for i in idxs:
        c, r = cases[i], results[i]
        M = '(Mat (K:=QcF) %s %s %s %s)' % tuple(qcs(x) for x in c['m'])
        z = qcs(c['Z0'])
        if 'mat' in r:
            E = '(Mat (K:=QcF) %s %s %s %s)' % tuple(qcs(x) for x in r['mat'])
            if c['prop'] in ('chain', 'cascade'):
                Tm = '(Mat (K:=QcF) %s %s %s %s)' % tuple(qcs(x) for x in c['t'])
                items.append('(%d%%nat, meq (%s_chain (K:=QcF) %s %s %s) %s)' % (i, c['kind'], z, M, Tm, E))
            else:
                items.append('(%d%%nat, meq (%s_%s (K:=QcF) %s %s) %s)' % (i, c['kind'], c['prop'], z, M, E))
        elif 'val' in r:
            items.append('(%d%%nat, qc_eqb (%s_%s (K:=QcF) %s %s) %s)' % (i, c['kind'], c['prop'], z, M, qcs(r['val'])))
    lines.append(';\n'.join(items))
    lines.append('].\nDefinition failing := map fst (filter (fun p => negb (snd p)) cases).\nEval vm_compute in failing.\n')
    return '\n'.join(lines)


def parse_failing(out):
    import re
    m = re.search(r'=\s*\[(.*?)\]\s*:\s*list nat', out, re.S)
    if not m:
        return None
    body = m.group(1).strip()
    if not body:
        return []
    return [int(x.replace('%nat', '').strip()) for x in body.split(';')]


# ---- main -----------------------------------------------------------------------
def run(tier='quick', replay=None):
    res = core.Result(PID, tier)
    rng = random.Random(core.seed() * 7919 + 8)
    core.ensure_theory(['FieldSec', 'TwoPort'])
    w = core.Work(PID)
    violations = []
    try:
        res.trusted = [
            'Coq 8.16.1 kernel + vm_compute (no native_compute)',
            'translator tools/tr_twoport.py (sha256 %s) + statement templates in checks/c08.py' % core.sha256_file(os.path.join(core.VERIF, 'tools', 'tr_twoport.py'))[:16],
            'specification coq/theory/TwoPort.v (rel_A..rel_T from equation(), is_ratio definitions)',
            'modelled, not verified: sympy Matrix.inv()/.det()/* on 2x2 matrices (minv/det/mmul), .simplify() and quantity wrappers as identity — validated per run by the correspondence evaluation',
            'sympy factor_list used only to PROPOSE the non-vanishing hypotheses printed in each generated theorem',
        ]
        res.assumptions = ['field of characteristic 0 (record field fchar0; holds for Q, Q(i), rational functions over Q)',
                           'decidable equality on the field (used by nsatz integral-domain instance)']
        # 1. translate
        tr = None
        try:
            tr = translate(core.REPO)
        except T.Untranslatable as e:
            res.failed_obl.append(('translate', 'lcapy/twoport.py', str(e)))
            res.obligations += 1
        texts = {}
        meta = {'statements': [], 'degenerate': [], 'vacuous': [], 'deferred': []}
        if tr is not None:
            texts['TwoPortGen.v'] = gen_defs(tr)
            w.write('TwoPortGen.v', texts['TwoPortGen.v'])
            ok, out, secs = core.coqc(w.dir, 'TwoPortGen.v')
            if not ok:
                res.failed_obl.append(('TwoPortGen', 'TwoPortGen.v', out[-800:]))
                res.obligations += 1
                tr_ok = False
            else:
                tr_ok = True
            # 2. prove
            if tr_ok:
                files = []
                for X in KINDS:
                    try:
                        fs = gen_kind_files(tr, X, rng, meta, tier)
                    except T.Untranslatable as e:
                        res.failed_obl.append(('generate_%s' % X, 'C08_%s.v' % X, str(e)))
                        res.obligations += 1
                        continue
                    for fn_, txt in fs.items():
                        texts[fn_] = txt
                        w.write(fn_, txt)
                        files.append(fn_)
                ptxt = open(os.path.join(core.VERIF, 'coq', 'props', 'C08.v')).read()
                texts['C08.v'] = ptxt
                w.write('C08.v', ptxt)
                files.append('C08.v')
                bad = core.gate_text('generated', '\n'.join(texts.values()))
                if bad:
                    res.failed_obl.append(('gate', 'generated', '; '.join(bad)))
                    res.obligations += 1
                results = core.coqc_many(w.dir, files, timeout=900 if tier == 'quick' else 6000)
                res.coq_results(w.dir, results, {f: texts[f] for f in files})
                res.extra['coq_seconds'] = {f: round(r[2], 1) for f, r in results.items()}
                res.extra['degenerate_definitions'] = meta['degenerate']
                res.extra['roundtrips_deferred_to_thorough'] = meta['deferred']
                for nm in meta['degenerate'] + meta['vacuous']:
                    # the generated hypotheses cannot be met: the theorem would be vacuous
                    res.failed_obl.append((nm, 'generated', 'hypotheses unsatisfiable (a denominator vanishes identically); statement would be vacuous'))
                    res.obligations += 1
                res.extra['n_generated_statements'] = len(meta['statements'])

        # 3. correspondence + oracle on the real code
        n_per = 2 if tier == 'quick' else 8
        cases = gen_cases(rng, n_per)
        if replay:
            cases = [replay['case']]
        results = run_impl(cases)
        res.programs = len(set((c['kind'], c['prop']) for c in cases))
        idxs = []
        for i, (c, r) in enumerate(zip(cases, results)):
            key = (c['kind'], c['prop'])
            if 'error' in r:
                res.count('impl_error')
                # division by zero at this point etc. — not a verdict
                continue
            idxs.append(i)
            res.add_case(json.dumps(c, sort_keys=True), True,
                         {'case': c, 'lcapy': r} if i % 97 == 0 else None)
            res.count('mode_' + c['mode'])
            res.count('kind_' + c['kind'])
            m = [fr(x) for x in c['m']]
            okk = oracle_check(c['kind'], c['prop'], m, fr(c['Z0']), r, [fr(x) for x in c['t']] if 't' in c else None)
            if okk is None:
                res.count('oracle_not_applicable')
            elif okk:
                res.count('oracle_ok')
            else:
                res.count('oracle_fail')
                res.counterexamples.append({'case': c, 'lcapy': r})
        if not res.samples and idxs:
            res.samples.append({'case': cases[idxs[0]], 'lcapy': results[idxs[0]]})
        corr_fail = []
        if tr is not None and idxs and os.path.exists(w.path('TwoPortGen.vo')):
            shards = [idxs[i:i + 400] for i in range(0, len(idxs), 400)]
            fn = []
            for si, sh in enumerate(shards):
                w.write('cases_%d.v' % si, cases_v(cases, results, sh))
                fn.append('cases_%d.v' % si)
            cr = core.coqc_many(w.dir, fn, timeout=600)
            for f, (ok, out, secs) in cr.items():
                fl = parse_failing(out) if ok else None
                if fl is None:
                    res.failed_obl.append(('correspondence_eval', f, out[-600:]))
                    res.obligations += 1
                else:
                    corr_fail += fl
            res.extra['traces_validated_against_impl'] = len(idxs)
        for i in corr_fail:
            res.disagreements.append({'case': cases[i], 'lcapy': results[i]})
        res.rule = ('cases: every (class, property) of the 8 matrix classes x %d random non-zero rational matrices, '
                    'alternating numeric construction and .generic()+substitution; non-trivial = the real property '
                    'returned a value (no exception); distinct = distinct (class, property, matrix, Z0, mode)') % n_per

        # 3b. port-wise interconnections: source shape (fail-closed) + the real methods against the exact sum
        conn_viol = []
        if not replay:
            shape_bad = conn_shape(core.REPO)
            ccs = conn_cases(rng, 3 if tier == 'quick' else 25)
            cres, cerr = conn_run(ccs)
            res.obligations += len(CONN)
            res.discharged += len(CONN) - len(shape_bad)
            concrete = set()
            if cres is None:
                res.failed_obl.append(('conn_correspondence', 'tools/impl_conn.py', cerr))
                res.obligations += 1
            else:
                clsof = {m: c for m, c, _ in CONN}
                for cc, r in zip(ccs, cres):
                    want = [str(Fraction(x) + Fraction(y)) for x, y in zip(cc[2], cc[3])]
                    got = None if 'error' in r else [str(Fraction(x)) if _isfrac(x) else x for x in r['params']]
                    res.count('conn_' + cc[0])
                    if 'error' in r or r.get('cls') != clsof[cc[0]] or got != want:
                        if clsof[cc[0]] not in concrete:
                            concrete.add(clsof[cc[0]])
                            conn_viol.append({'key': 'TwoPort.%s' % cc[0],
                                              'what': 'TwoPort.%s of two %s models does not return the %s whose %s matrix is the sum' % (cc[0], cc[1], clsof[cc[0]], cc[1]),
                                              'replay': {'spec': [cc], 'expected_params': want, 'lcapy': r}, 'found_input': True,
                                              'how': "echo '<replay.spec as JSON>' | PYTHONPATH=/repo /venv/bin/python tools/impl_conn.py"})
                    else:
                        res.add_case(json.dumps(['conn'] + cc), True, None)
            for nm, msg in shape_bad:
                if nm.replace('conn_shape_', '') in concrete:
                    continue
                res.failed_obl.append((nm, 'lcapy/twoport.py', msg))
            res.extra['interconnections'] = {'shape_checked': [c for _, c, _ in CONN], 'shape_failures': [n for n, _ in shape_bad],
                                             'numeric_cases': len(ccs)}

        # 4. decide
        by_key = {}
        for ce in res.counterexamples:
            c = ce['case']
            k = '%sMatrix.%s' % (c['kind'], c['prop'])
            by_key.setdefault(k, ce)
        for k, ce in by_key.items():
            violations.append({'key': k, 'what': 'real %s violates the defining port relation' % k,
                               'replay': ce, 'case': ce['case'], 'lcapy': ce['lcapy'], 'found_input': True,
                               'how': './check C08 --replay <this file>'})
        for name, f, msg in res.failed_obl:
            # a broken obligation: was a failing input found for the same class/property?
            parts = name.split('_')
            k = None
            if name.startswith('derived_'):
                k = '%sMatrix.%s' % (parts[1], '_'.join(parts[2:]))
            elif name.startswith('conv_sound_'):
                k = '%sMatrix.%sparams' % (parts[2], parts[3])
            elif name.startswith('chain_sound_'):
                k = '%sMatrix.chain' % parts[2]
            if name.startswith('conv_roundtrip_') and (
                    '%sMatrix.%sparams' % (parts[2], parts[3]) in by_key or '%sMatrix.%sparams' % (parts[3], parts[2]) in by_key):
                continue
            if k and k in by_key:
                continue
            violations.append({'key': 'obligation:' + name, 'what': ('source-shape obligation %s (tie between %s and the theorems of props/C08.v) no longer checks' if name.startswith('conn_shape_') else 'Coq obligation %s in %s no longer checks') % (name, f),
                               'theorem': name, 'file': f, 'message': msg, 'found_input': False})
        for d in res.disagreements:
            c = d['case']
            k = '%sMatrix.%s' % (c['kind'], c['prop'])
            if k in by_key:
                continue
            violations.append({'key': 'correspondence:' + k, 'what': 'translated model and real %s differ' % k,
                               'case': c, 'lcapy': d['lcapy'], 'found_input': False,
                               'correspondence': 'Gen.TwoPortGen.%s_%s vs lcapy.twoport' % (c['kind'], c['prop'])})
            by_key[k] = d
        violations.extend(conn_viol)
        return core.finish(res, violations)
    finally:
        if not os.environ.get('VERIF_KEEP'):
            w.cleanup()


if __name__ == '__main__':
    sys.exit(run(sys.argv[1] if len(sys.argv) > 1 else 'quick'))
